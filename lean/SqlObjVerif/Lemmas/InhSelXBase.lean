import SqlObjVerif.Model.InhSelX
/-!
Symbolic execution of the TRANSLATED `InheritableSelectResults.__init__` (PyInhSel program regenerated from /repo on
every run), part 0: simp lemmas of the embedding (`R.bind`, `withR`, `Res.seq` on constructors), the interface
projections, the evaluation macro `isrun`, and the container values (`tabSet`, `dictV`) versus the pure association-list
functions of `Model/InhSelX.lean`.
-/
namespace SqlObjVerif.InhSel
open SqlObjVerif.PyIS
open SqlObjVerif.PyIS.Extracted
open SqlObjVerif.Inherit hiding Val Res Cmp Out

@[simp] theorem R.bind_ok {α β : Type} (a : α) (f : α → R β) : (R.ok a).bind f = f a := by simp only [R.bind]
@[simp] theorem R.bind_exc {α β : Type} (e : Exc) (f : α → R β) : (R.exc e : R α).bind f = .exc e := by simp only [R.bind]
@[simp] theorem R.bind_stuck {α β : Type} (f : α → R β) : (R.stuck : R α).bind f = .stuck := by simp only [R.bind]
@[simp] theorem R.ofOpt_some {α : Type} (a : α) : R.ofOpt (some a) = .ok a := by simp only [R.ofOpt]
@[simp] theorem R.ofOpt_none {α : Type} : R.ofOpt (none : Option α) = .stuck := by simp only [R.ofOpt]
@[simp] theorem withR_ok {W α : Type} (st : St W) (a : α) (k : α → Res W) : withR st (.ok a) k = k a := by
  simp only [withR]
@[simp] theorem withR_exc {W α : Type} (st : St W) (e : Exc) (k : α → Res W) : withR st (.exc e) k = .exc st e := by
  simp only [withR]
@[simp] theorem withR_stuck {W α : Type} (st : St W) (k : α → Res W) : withR st .stuck k = .stuck := by
  simp only [withR]
@[simp] theorem seq_norm {W : Type} (st : St W) (k : St W → Res W) : (Res.norm st).seq k = k st := by simp only [Res.seq]
@[simp] theorem seq_ret {W : Type} (st : St W) (v : SVal) (k : St W → Res W) : (Res.ret st v).seq k = .ret st v := by
  simp only [Res.seq]
@[simp] theorem seq_exc {W : Type} (st : St W) (e : Exc) (k : St W → Res W) : (Res.exc st e).seq k = .exc st e := by
  simp only [Res.seq]
@[simp] theorem seq_cont {W : Type} (st : St W) (k : St W → Res W) : (Res.cont st).seq k = .cont st := by
  simp only [Res.seq]
@[simp] theorem seq_brk {W : Type} (st : St W) (k : St W → Res W) : (Res.brk st).seq k = .brk st := by
  simp only [Res.seq]
@[simp] theorem seq_stuck {W : Type} (k : St W → Res W) : (Res.stuck : Res W).seq k = .stuck := by simp only [Res.seq]

@[simp] theorem put_apply (env : Env) (x : Nat) (v : SVal) (y : Nat) :
    (env.put x v) y = if y = x then some v else env y := rfl

/-! `pyBool` on constructors only -/
@[simp] theorem pyBool_none : pyBool .none = false := rfl
@[simp] theorem pyBool_bool (b : Bool) : pyBool (.bool b) = b := rfl
@[simp] theorem pyBool_nat (n : Nat) : pyBool (.nat n) = (n != 0) := rfl
@[simp] theorem pyBool_str (s : String) : pyBool (.str s) = (s != "") := rfl
@[simp] theorem pyBool_cls (c : Nat) : pyBool (.cls c) = true := rfl
@[simp] theorem pyBool_conn (k : Nat) : pyBool (.conn k) = true := rfl
@[simp] theorem pyBool_inst (k c i : Nat) : pyBool (.inst k c i) = true := rfl
@[simp] theorem pyBool_ref (a b : Nat) : pyBool (.ref a b) = true := rfl
@[simp] theorem pyBool_sql (e : Sql) : pyBool (.sql e) = true := rfl
@[simp] theorem pyBool_nil : pyBool .nil = false := rfl
@[simp] theorem pyBool_cons (a b : SVal) : pyBool (.cons a b) = true := rfl
@[simp] theorem pyBool_sClassOpt_some (p : Nat) : pyBool (sClassOpt (some p)) = true := rfl
@[simp] theorem pyBool_sClassOpt_none : pyBool (sClassOpt none) = false := rfl

@[simp] theorem sClassOpt_some (p : Nat) : sClassOpt (some p) = .cls p := rfl
@[simp] theorem sClassOpt_none : sClassOpt none = .none := rfl

@[simp] theorem sIface_self (X : SCtx) (s : SVal) : (sIface X s).self = s := rfl
@[simp] theorem sIface_attrOf (X : SCtx) (s : SVal) : (sIface X s).attrOf = sAttrOf X := rfl
@[simp] theorem sIface_global (X : SCtx) (s : SVal) : (sIface X s).global = sGlobal := rfl
@[simp] theorem sIface_isinstance (X : SCtx) (s : SVal) (w : SW) : (sIface X s).isinstance w = sIsinstance := rfl
@[simp] theorem sIface_call (X : SCtx) (s : SVal) : (sIface X s).call = sCall X := rfl
@[simp] theorem sIface_callFn (X : SCtx) (s : SVal) : (sIface X s).callFn = sCallFn := rfl
@[simp] theorem sIface_super (X : SCtx) (s : SVal) : (sIface X s).super = sSuper X := rfl
@[simp] theorem sIface_fuel (X : SCtx) (s : SVal) (w : SW) : (sIface X s).fuel w = X.T.n + 2 := rfl

macro "isrun" : tactic => `(tactic|
  simp [PyIS.run, Block.exec, Stmt.exec, Cond.eval, Expr.eval, Expr.evalList, eval2, evalArgs, evalStar, St.setVar,
        St.setOpt, afterCall, Res.toCall, zipKw, ExcPat.catches, withList, setAttrRes, delItemRes, orThen, listOnly,
        subscriptRes, Env.ofArgs, sAttrOf, sGlobal, sIsinstance, sCallFn, sCall, sSuper, Val.isNone, isStr, strVal,
        eqVal, *])

macro "isrunw" "[" ts:Lean.Parser.Tactic.simpLemma,* "]" : tactic => `(tactic|
  simp [PyIS.run, Block.exec, Stmt.exec, Cond.eval, Expr.eval, Expr.evalList, eval2, evalArgs, evalStar, St.setVar,
        St.setOpt, afterCall, Res.toCall, zipKw, ExcPat.catches, withList, setAttrRes, delItemRes, orThen, listOnly,
        subscriptRes, Env.ofArgs, sAttrOf, sGlobal, sIsinstance, sCallFn, sCall, sSuper, Val.isNone, isStr, strVal,
        eqVal, $ts,*])

/-! ### container values -/

@[simp] theorem toList_ofList (l : List SVal) : Val.toList (Val.ofList l) = some l := by
  induction l with
  | nil => rfl
  | cons a l ih => simp [Val.ofList, Val.toList, ih]

theorem isListVal_ofList (l : List SVal) : isListVal (Val.ofList l) = true := by
  induction l with
  | nil => rfl
  | cons a l ih => simpa [Val.ofList, isListVal] using ih

@[simp] theorem tabSet_isList (l : List Nat) : isListVal (tabSet l) = true := isListVal_ofList _
@[simp] theorem dictV_isList (l : AL) : isListVal (dictV l) = true := isListVal_ofList _

@[simp] theorem vsHas_tabSet (a : Nat) (l : List Nat) : vsHas (.tab a) (tabSet l) = l.contains a := by
  induction l with
  | nil => rfl
  | cons b l ih =>
    simp only [tabSet, List.map_cons, Val.ofList, vsHas, List.contains_cons] at ih ⊢
    rw [ih]
    by_cases h : b = a
    · simp [h]
    · have h' : ¬ a = b := fun e => h e.symm
      simp [h, h']

/-- `s.add(name of a)` -/
def tabAdd (a : Nat) (l : List Nat) : List Nat := if l.contains a then l else l ++ [a]

theorem vsAdd_tabSet (a : Nat) (l : List Nat) : ∃ l', vsAdd (.tab a) (tabSet l) = tabSet l' ∧
    ∀ b, b ∈ l' ↔ (b ∈ l ∨ b = a) := by
  induction l with
  | nil => exact ⟨[a], rfl, fun b => by simp⟩
  | cons c l ih =>
    obtain ⟨l', h1, h2⟩ := ih
    by_cases h : c = a
    · subst h
      refine ⟨c :: l, by simp [tabSet, Val.ofList, vsAdd], fun b => ?_⟩
      by_cases hb : b = c <;> simp [hb]
    · refine ⟨c :: l', ?_, fun b => ?_⟩
      · simp only [tabSet, List.map_cons, Val.ofList, vsAdd] at h1 ⊢
        simp [h, h1]
      · simp only [List.mem_cons, h2]
        constructor
        · rintro (h | h | h) <;> simp [h]
        · rintro ((h | h) | h) <;> simp [h]

@[simp] theorem vdGet_dictV (k : Nat) (l : AL) : vdGet (.cls k) (dictV l) = (alGet k l).map Val.cls := by
  induction l with
  | nil => rfl
  | cons p l ih =>
    obtain ⟨k', v⟩ := p
    simp only [dictV, List.map_cons, Val.ofList, vdGet, alGet] at ih ⊢
    by_cases h : k' = k <;> simp [h, ih]

@[simp] theorem vdHas_dictV (k : Nat) (l : AL) : vdHas (.cls k) (dictV l) = (alGet k l).isSome := by
  simp [vdHas]

@[simp] theorem vdSet_dictV (k v : Nat) (l : AL) : vdSet (.cls k) (.cls v) (dictV l) = dictV (alSet k v l) := by
  induction l with
  | nil => rfl
  | cons p l ih =>
    obtain ⟨k', v'⟩ := p
    simp only [dictV, List.map_cons, Val.ofList, vdSet, alSet] at ih ⊢
    by_cases h : k' = k
    · simp [h, Val.ofList]
    · simp [h, ih, Val.ofList]

@[simp] theorem vdDel_dictV (k : Nat) (l : AL) : vdDel (.cls k) (dictV l) = dictV (alDel k l) := by
  induction l with
  | nil => rfl
  | cons p l ih =>
    obtain ⟨k', v'⟩ := p
    simp only [dictV, List.map_cons, Val.ofList, vdDel, alDel] at ih ⊢
    by_cases h : k' = k
    · simp [h]
    · simp [h, ih, Val.ofList]

@[simp] theorem vdKeys_dictV (l : AL) : vdKeys (dictV l) = Val.ofList (l.map fun p => Val.cls p.1) := by
  induction l with
  | nil => rfl
  | cons p l ih =>
    simp only [dictV, List.map_cons, Val.ofList, vdKeys] at ih ⊢
    rw [ih]

@[simp] theorem dictV_toList (l : AL) : Val.toList (dictV l) = some (l.map fun p => Val.pair (.cls p.1) (.cls p.2)) :=
  toList_ofList _

/-- a list of SQL clauses as a value -/
def sqlList (l : List Sql) : SVal := Val.ofList (l.map Val.sql)

@[simp] theorem sqlList_toList (l : List Sql) : Val.toList (sqlList l) = some (l.map Val.sql) := toList_ofList _
@[simp] theorem sqlList_nil : sqlList [] = .nil := rfl

@[simp] theorem sqlList_isList (l : List Sql) : isListVal (sqlList l) = true := isListVal_ofList _

@[simp] theorem vlAppend_sqlList (e : Sql) (l : List Sql) : vlAppend (.sql e) (sqlList l) = sqlList (l ++ [e]) := by
  induction l with
  | nil => rfl
  | cons a l ih =>
    simp only [sqlList, List.map_cons, Val.ofList, vlAppend, List.cons_append] at ih ⊢
    rw [ih]

theorem foldAnd_sql (g : Sql) (l : List Sql) : foldAnd (.sql g) (l.map Val.sql) = some (.sql (l.foldl Sql.and g)) := by
  induction l generalizing g with
  | nil => rfl
  | cons a l ih => simp only [List.map_cons, foldAnd, andVal, List.foldl_cons, ih]

end SqlObjVerif.InhSel
