import SqlObjVerif.Lemmas.CodecXBase
/-!
# CodecX — the translated ForeignKeyValidator.from_python = the hand model
-/
namespace SqlObjVerif.PyCodec

open SqlObjVerif.Codec (Str PyVal FTok SPiece DT)
open Extracted

/-! ### ForeignKeyValidator.from_python -/

theorem fkInt_str (first : Bool) (s : Str) :
    runV (cfgFkInt first) fkFromPython (.str s) = some (Codec.fkFromPython (.str s)) := by
  cases first <;> cases h : Codec.intText s <;> by_cases h2 : (∃ x, x ∈ s ∧ Codec.isDigit x = true) <;>
  pyxw [fkFromPython, fkFromPython_s0, fkFromPython_s1, fkFromPython_s2, fkFromPython_s3, fkFromPython_s4,
    fkFromPython_s5, Codec.fkFromPython, clsIn, h, h2]

theorem fkFromPython_str_eq (first : Bool) (v : PyVal) :
    runV (cfgFkStr first) fkFromPython v = some (Codec.fkStrFromPython v) := by
  cases first <;> cases v <;> rfl

end SqlObjVerif.PyCodec
