import SqlObjVerif.Lemmas.CodecWGet
/-!
# CodecW — the translated `_SO_setValue` on an eager class: every way it can end
-/
namespace SqlObjVerif.CodecW
open SqlObjVerif.Codec (PyVal ColT DbVal)
open SqlObjVerif.PyMainV
open SqlObjVerif.PyMainV.Extracted

/-- the instance after an eager write of column `c`: the new value is cached iff `cacheValues` -/
def cacheIf (b : Bool) (vals : Nat → Option PyVal) (c : Nat) (wc : PyVal) : Nat → Option PyVal :=
  if b then fun k => if k = c then some wc else vals k else vals

/-- the statement of an eager write -/
def sendOut (C : Cls) (vals : Nat → Option PyVal) (g : Row) (c : Nat) (wc : PyVal) : Codec.Res Row → Outcome Row
  | .ok g' => .ret (worldOf C (objOf (cacheIf C.cacheValues vals c wc)) g') .none
  | .unmodelled => .unmodelled
  | _ => .exc (worldOf C (objOf vals) g) .dbError

/-- a failing validator ends the method before anything is changed -/
def failOut (w : World Row) : Codec.Res PyVal → Outcome Row
  | .invalid => .exc w .invalid
  | .reject => .exc w .other
  | _ => .unmodelled

theorem setValueX_enc_fail (C : Cls) (vals : Nat → Option PyVal) (g : Row) (c : Nat) (v : PyVal) (hc : c < C.n)
    (r : Codec.Res PyVal) (he : (klassOf C).enc c v = r) (hr : ∀ y, r ≠ .ok y) :
    setValueX C (worldOf C (objOf vals) g) c v = failOut (worldOf C (objOf vals) g) r := by
  have h1 := k_hasTo C c hc
  have h2 := k_ncols C
  unfold setValueX setValueProg setValue_nlocals setValue_nlists setValue_ndicts worldOf objOf
  cases r with
  | ok y => exact absurd rfl (hr y)
  | _ => pvrun <;> simp [failOut]

theorem setValueX_dec_fail (C : Cls) (vals : Nat → Option PyVal) (g : Row) (c : Nat) (v y : PyVal) (hc : c < C.n)
    (he : (klassOf C).enc c v = .ok y) (r : Codec.Res PyVal) (hd : (klassOf C).dec c y = r) (hr : ∀ x, r ≠ .ok x) :
    setValueX C (worldOf C (objOf vals) g) c v = failOut (worldOf C (objOf vals) g) r := by
  have h1 := k_hasTo C c hc
  have h2 := k_ncols C
  unfold setValueX setValueProg setValue_nlocals setValue_nlists setValue_ndicts worldOf objOf
  cases r with
  | ok x => exact absurd rfl (hr x)
  | _ => pvrun <;> simp [failOut]

theorem setValueX_eager (C : Cls) (vals : Nat → Option PyVal) (g : Row) (c : Nat) (v y wc : PyVal) (hc : c < C.n)
    (hl : C.lazyUpdate = false) (he : (klassOf C).enc c v = .ok y) (hd : (klassOf C).dec c y = .ok wc) :
    setValueX C (worldOf C (objOf vals) g) c v = sendOut C vals g c wc (applyUpd C g [(c, y)]) := by
  have h1 := k_hasTo C c hc
  have h2 := k_ncols C
  have h3 := k_lazy C
  have h4 := k_cache C
  have h5 := conn_upd C
  unfold setValueX setValueProg setValue_nlocals setValue_nlists setValue_ndicts worldOf objOf
  cases hu : applyUpd C g [(c, y)] <;> cases hcv : C.cacheValues <;> pvrun <;>
    simp [sendOut, worldOf, objOf, cacheIf, hcv]

end SqlObjVerif.CodecW
