import SqlObjVerif.Model.PyCacheSS
/-!
# PyCacheSS — the frame of a silent micro-step

A micro-step taken while no shared access is pending (`nextAccess = none`) leaves the dicts, the lock owner, `cullCount`
and the identity of the `self.cache` dict object alone (`Core`), for EVERY program, heap model and method table: what a
thread does between two of its shared accesses is invisible to the other threads except through `cullOffset` (only
touched under the cache lock), the references it keeps (`heap`) and the alias count of a dict object it loaded.
-/
namespace SqlObjVerif.PyCacheSS
open SqlObjVerif.PyCache
variable {H : Type}

/-- the part of the shared state that only shared accesses may change -/
def Core (sh sh' : Shared H) : Prop :=
  sh'.cache = sh.cache ∧ sh'.expiredCache = sh.expiredCache ∧ sh'.owner = sh.owner ∧ sh'.cullCount = sh.cullCount ∧
  sh'.gen = sh.gen

theorem core_refl (sh : Shared H) : Core sh sh := ⟨rfl, rfl, rfl, rfl, rfl⟩

theorem core_unload (sh : Shared H) (m : MTh) : Core sh (unload sh m) := by
  unfold unload
  cases m.genSeen with
  | none => exact core_refl sh
  | some g => dsimp only; split <;> exact ⟨rfl, rfl, rfl, rfl, rfl⟩

theorem core_fin (sh sh1 : Shared H) (m0 m1 m' : MTh) (sh' : Shared H) (hc : Core sh sh1)
    (h : fin m0 m1 sh1 = some (m', sh')) : Core sh sh' := by
  simp only [fin, Option.some.injEq, Prod.mk.injEq] at h
  obtain ⟨_, rfl⟩ := h
  have := core_unload sh1 m0
  exact ⟨this.1.trans hc.1, this.2.1.trans hc.2.1, this.2.2.1.trans hc.2.2.1, this.2.2.2.1.trans hc.2.2.2.1,
    this.2.2.2.2.trans hc.2.2.2.2⟩

theorem core_keepV (ops : HeapOps H) (sh : Shared H) (e : Expr) (v : Val) : Core sh (keepV ops sh e v) := by
  unfold keepV; split <;> exact ⟨rfl, rfl, rfl, rfl, rfl⟩

theorem core_setIntS (sh : Shared H) (a : IntAttr) (n : Nat) (h : (a == IntAttr.cullCount) = false) :
    Core sh (setIntS sh a n) := by
  cases a <;> first | exact ⟨rfl, rfl, rfl, rfl, rfl⟩ | cases h

theorem silent_frame (ops : HeapOps H) (meths : Meths) (t : Tid) (sh : Shared H) (m m' : MTh) (sh' : Shared H)
    (hn : nextAccess ops t sh m = none) (hm : micro ops meths t sh m = some (m', sh')) : Core sh sh' := by
  unfold micro at hm
  unfold nextAccess at hn
  cases hctl : m.ctl with
  | run b =>
    rw [hctl] at hm hn
    cases b with
    | nil => simp only [Option.some.injEq, Prod.mk.injEq] at hm; obtain ⟨_, rfl⟩ := hm; exact core_refl _
    | cons s rest =>
      dsimp only at hm hn
      have hp : pendingOf ops t sh m s = [] := by
        cases hh : pendingOf ops t sh m s with
        | nil => rfl
        | cons a l => rw [hh] at hn; simp at hn
      rw [hp] at hm
      dsimp only at hm
      unfold pendingOf at hp
      simp only [List.append_eq_nil_iff] at hp
      obtain ⟨⟨⟨h1, h2⟩, h3⟩, h4⟩ := hp
      have hd : stmtDict (viewSt ops sh m) s = none := by
        cases hh : stmtDict (viewSt ops sh m) s with
        | none => rfl
        | some p => obtain ⟨d, k⟩ := p; rw [hh] at h2; cases d <;> simp at h2
      clear h2 h1 hn
      unfold execStmt at hm
      cases s <;> simp only [stmtDict, getOnly, stmtWritesCC, reduceCtorEq] at hd h3 h4 hm
      all_goals (try (simp at h4))
      all_goals (repeat' split at hm)
      all_goals first
        | exact core_fin _ _ _ _ _ _ (core_refl _) hm
        | exact core_fin _ _ _ _ _ _ (core_keepV _ _ _ _) hm
        | exact core_fin _ _ _ _ _ _ (core_setIntS _ _ _ (by simpa using h3)) hm
        | cases hm

  | done p =>
    rw [hctl] at hm hn
    dsimp only at hm hn
    unfold doneStep at hm
    repeat' split at hm
    all_goals first
      | (simp only [Option.some.injEq, Prod.mk.injEq] at hm; obtain ⟨_, rfl⟩ := hm; exact core_refl _)
      | cases hm

end SqlObjVerif.PyCacheSS
