import SqlObjVerif.Lemmas.FailInhXc
/-!
C06, the TRANSLATED `InheritableSQLObject._create` against the `Fail` machinery — part (d): the whole class chain.
`specW`: the creation of a chain in the world's terms; `specW_inhRun`: its `Fail.St` / error are `Fail.createInh` in
direct style; `createN_eq`: the translated method calling ITSELF through the parent class's constructor is `specW`
(induction over the chain).  The two theorems `Props/C06.lean` re-exports:
`C06_translated_inhcreate_level_eq_model`, `C06_translated_inhcreate_eq_model` (and the application-level corollary
`C06_translated_inhcreate_app_eq_model`), followed by closed non-vacuity examples on the witness `W5` of `Props/C06.lean`.
-/
set_option linter.unusedSimpArgs false
namespace SqlObjVerif.Fail.InhX
open SqlObjVerif.PyInh (CallRes)

/-- `_create` of the first class of the chain (leaf first) in the world's terms: the parent chain first, then the own
    creation and its clean-up -/
def specW (X : Ctx) : List Nat → List (PVal × PVal) → Option Nat → FW → FW × Option Err
  | [], _, _, w => (w, none)
  | [c], es, tag, w => rootSpec X c (levelKw X c es tag) w
  | c :: p :: rest, es, tag, w =>
    afterParent X c p (levelKw X c es tag) (specW X (p :: rest) es (some c) w).1 (specW X (p :: rest) es (some c) w).2

/-- what the hand model sees of a world-level outcome -/
def obsW (r : FW × Option Err) : St × Option Err := (r.1.st, r.2)

theorem outOf_createCall (r : FW × Option Err) : outOf (createCall r) = some (obsW r) := by
  obtain ⟨w, oe⟩ := r
  cases oe with
  | none => rfl
  | some e => simp [createCall, outOf, errOf_excOf, obsW]

theorem constructOf_createCall (p : Nat) (r : FW × Option Err) :
    (match createCall r with
     | .ret w' _ => CallRes.ret w' (PyInh.Val.inst 0 p w'.st.lastId)
     | r' => r') = consRes p r.1 r.2 := by
  obtain ⟨w1, oe⟩ := r
  cases oe <;> rfl

theorem drops_eq (L : List (Nat × List (Nat × In))) (pid : Nat) : drops L pid = dropsOf (L.map (·.1)) pid := by
  unfold drops dropsOf
  induction L with
  | nil => rfl
  | cons a L ih => simp only [List.foldr_cons, List.map_cons, ih]

theorem levelsOf_classes (X : Ctx) (es : List (PVal × PVal)) : ∀ (L : List Nat) (tag : Option Nat),
    (levelsOf X L es tag).map (·.1) = L := by
  intro L
  induction L with
  | nil => intro _; rfl
  | cons c L ih => intro tag; simp only [levelsOf, List.map_cons, ih]

/-- one level of the world-level spec is one level of `createInh` in direct style -/
theorem afterParent_inhStep (X : Ctx) (c p : Nat) (kw : List (Nat × In)) (w1 : FW) (oe : Option Err) :
    obsW (afterParent X c p kw w1 oe) =
      inhStep X.sch X.inj (fun pid => ownTree X.sch c pid kw)
        (fun pid => destroyProg X.sch X.fuel p pid (dropsOf (ancs X.sch X.depth p) pid)) (w1.st, oe) := by
  cases oe with
  | some e => rfl
  | none =>
    simp only [afterParent, ownW, inhStep, setPar_st]
    generalize run X.sch X.inj (ownTree X.sch c w1.st.lastId kw) w1.st = r
    obtain ⟨s2, oe2⟩ := r
    cases oe2 with
    | none => rfl
    | some e =>
      simp only [cleanupW, cleanup, setSt_st]
      generalize run X.sch X.inj (destroyProg _ _ _ _ _) s2 = r3
      obtain ⟨s3, oe3⟩ := r3
      cases oe3 <;> rfl

theorem specW_inhRun (X : Ctx) (es : List (PVal × PVal)) : ∀ (L : List Nat) (c : Nat) (tag : Option Nat) (w : FW),
    Chain X.sch (c :: L) → (c :: L).length ≤ X.depth →
    obsW (specW X (c :: L) es tag w) = inhRun X.sch X.inj X.fuel (levelsOf X (c :: L) es tag) w.st := by
  intro L
  induction L with
  | nil => intro c tag w _ _; rfl
  | cons p L ih =>
    intro c tag w hch hdep
    simp only [Chain] at hch
    have hdep' : (p :: L).length ≤ X.depth := by simp at hdep ⊢; omega
    have hanc := ancs_chain X.sch L p X.depth hch.2 hdep'
    have hih := ih p (some c) w hch.2 hdep'
    simp only [specW, levelsOf, inhRun, afterParent_inhStep] at hih ⊢
    rw [← hih]
    simp only [drops_eq, List.map_cons, levelsOf_classes, hanc, obsW]

/-- the translated `_create` calling itself through the constructor of the parent class is `specW` -/
theorem createN_eq (X : Ctx) (es : List (PVal × PVal)) (hnd : (es.map (·.1)).Nodup) : ∀ (L : List Nat) (c : Nat),
    Chain X.sch (c :: L) → (c :: L).Nodup → (c :: L).length ≤ X.depth → Required X (c :: L) es →
    ∀ (n : Nat), (c :: L).length ≤ n → ∀ (w : FW) (tag : Option Nat) (kwv : PVal),
      (kwv = dictOf X (c :: L) es tag ∨ kwv = .cons (.pair (.str "kw") (dictOf X (c :: L) es tag)) .nil) →
      createN X n w c .none kwv = createCall (specW X (c :: L) es tag w) := by
  intro L
  induction L with
  | nil =>
    intro c hch _ _ _ n hn w tag kwv hkw
    obtain ⟨m, rfl⟩ : ∃ m, n = m + 1 := ⟨n - 1, by simp at hn; omega⟩
    simp only [Chain] at hch
    exact createX_root X _ w c es tag hch kwv hkw
  | cons p L ih =>
    intro c hch hndc hdep hreq n hn w tag kwv hkw
    obtain ⟨m, rfl⟩ : ∃ m, n = m + 1 := ⟨n - 1, by simp at hn; omega⟩
    simp only [Chain] at hch
    have hdep' : (p :: L).length ≤ X.depth := by simp at hdep ⊢; omega
    have hreq' : Required X (p :: L) es := fun a ha => hreq a (List.mem_cons_of_mem _ ha)
    rw [List.nodup_cons] at hndc
    show createX X (constructOf (createN X m)) w c .none kwv = _
    apply createX_child X _ w c p L es tag _ _ _ kwv hkw
    refine ⟨hch.1, ancs_chain X.sch L p X.depth hch.2 hdep', hndc.1, hnd, ?_, ?_⟩
    · exact hreq c List.mem_cons_self (by rw [hch.1]; simp)
    · show constructOf (createN X m) w p _ = _
      unfold constructOf
      rw [ih p hch.2 hndc.2 hdep' hreq' m (by simp at hn ⊢; omega) w (some c) _ (Or.inr rfl)]
      exact constructOf_createCall p _

end SqlObjVerif.Fail.InhX

namespace SqlObjVerif.Fail
open SqlObjVerif.Fail.InhX

/-- ONE LEVEL.  For every context `X` (schema, injection, fuel, …), world `w`, class `c` with ancestors `rest`, keyword
    dict `es`: the translated `InheritableSQLObject._create`, run on a new instance of class `c` under the interface of
    `Model/FailInhX.lean`, with ANY constructor `C` of the parent class that ends as the hand model's creation of the
    parent chain ends, ends with the error and in the state (`core`, `seqs`, `lastId`, `n`, `log`, `changes`: all of
    `Fail.St`) `Fail.run` of `Fail.createInh` ends with for the corresponding `levels`. -/
theorem C06_translated_inhcreate_level_eq_model (X : Ctx) (C : Construct) (w : FW) (c : Nat) (rest : List Nat)
    (es : List (PVal × PVal)) (tag : Option Nat)
    (hch : Chain X.sch (c :: rest)) (hdep : (c :: rest).length ≤ X.depth)
    (hnd : (es.map (·.1)).Nodup) (hreq : Required X (c :: rest) es)
    (kwv : PVal) (hkw : kwv = dictOf X (c :: rest) es tag ∨
      kwv = .cons (.pair (.str "kw") (dictOf X (c :: rest) es tag)) .nil)
    (hcons : ∀ p rest', rest = p :: rest' → ∃ w1 : FW,
      w1.st = (run X.sch X.inj (createInh X.sch X.fuel (levelsOf X (p :: rest') es (some c)) fun _ => .done) w.st).1 ∧
      C w p (dictOf X (p :: rest') es (some c)) =
        consRes p w1 (run X.sch X.inj (createInh X.sch X.fuel (levelsOf X (p :: rest') es (some c)) fun _ => .done) w.st).2) :
    outOf (createX X C w c .none kwv) =
      some (run X.sch X.inj (createInh X.sch X.fuel (levelsOf X (c :: rest) es tag) fun _ => .done) w.st) := by
  have hndc := chain_nodup X.sch _ hch
  cases rest with
  | nil =>
    simp only [Chain] at hch
    rw [createX_root X C w c es tag hch kwv hkw, outOf_createCall, createInh_done _ _ _ _ (by simp [levelsOf])]
    rfl
  | cons p rest' =>
    obtain ⟨w1, hw1, hC⟩ := hcons p rest' rfl
    simp only [Chain] at hch
    have hdep' : (p :: rest').length ≤ X.depth := by simp at hdep ⊢; omega
    rw [List.nodup_cons] at hndc
    have H : ChildHyp X C w c p rest' es w1 _ :=
      ⟨hch.1, ancs_chain X.sch rest' p X.depth hch.2 hdep', hndc.1, hnd,
        hreq c List.mem_cons_self (by rw [hch.1]; simp), hC⟩
    rw [createX_child X C w c p rest' es tag w1 _ H kwv hkw, outOf_createCall, afterParent_inhStep, hw1,
      createInh_done X.sch X.inj X.fuel (levelsOf X (p :: rest') es (some c)) (by simp [levelsOf]),
      createInh_done X.sch X.inj X.fuel (levelsOf X (c :: p :: rest') es tag) (by simp [levelsOf])]
    simp only [levelsOf, inhRun, drops_eq, List.map_cons, levelsOf_classes,
      ancs_chain X.sch rest' p X.depth hch.2 hdep']

/-- THE CHAIN.  The translated `_create` calling ITSELF through the constructor of the parent class along the class
    chain `c :: rest` (any depth `≤ n`) ends as `Fail.createInh` for the whole `levels` list ends. -/
theorem C06_translated_inhcreate_eq_model (X : Ctx) (w : FW) (c : Nat) (rest : List Nat)
    (es : List (PVal × PVal)) (tag : Option Nat)
    (hch : Chain X.sch (c :: rest)) (hdep : (c :: rest).length ≤ X.depth)
    (hnd : (es.map (·.1)).Nodup) (hreq : Required X (c :: rest) es)
    (n : Nat) (hn : (c :: rest).length ≤ n)
    (kwv : PVal) (hkw : kwv = dictOf X (c :: rest) es tag ∨
      kwv = .cons (.pair (.str "kw") (dictOf X (c :: rest) es tag)) .nil) :
    outOf (createN X n w c .none kwv) =
      some (run X.sch X.inj (createInh X.sch X.fuel (levelsOf X (c :: rest) es tag) fun _ => .done) w.st) := by
  rw [createN_eq X es hnd rest c hch (chain_nodup X.sch _ hch) hdep hreq n hn w tag kwv hkw, outOf_createCall,
    specW_inhRun X es rest c tag w hch hdep, createInh_done _ _ _ _ (by simp [levelsOf])]


/-- the application's call `Leaf(**es)`: every keyword names a column of a class of the chain -/
theorem C06_translated_inhcreate_app_eq_model (X : Ctx) (w : FW) (c : Nat) (rest : List Nat) (es : List (PVal × PVal))
    (hch : Chain X.sch (c :: rest)) (hdep : (c :: rest).length ≤ X.depth)
    (hnd : (es.map (·.1)).Nodup) (hreq : Required X (c :: rest) es)
    (hkeys : ∀ e, e ∈ es → keyIn (c :: rest) e.1 = true) (n : Nat) (hn : (c :: rest).length ≤ n) :
    outOf (createN X n w c .none (PyInh.Val.ofList (pairsOf es))) =
      some (run X.sch X.inj (createInh X.sch X.fuel (levelsOf X (c :: rest) es none) fun _ => .done) w.st) := by
  rw [← dictOf_full X (c :: rest) es hkeys]
  exact C06_translated_inhcreate_eq_model X w c rest es none hch hdep hnd hreq n hn _ (Or.inl rfl)

end SqlObjVerif.Fail

/-! ### non-vacuity: the witness `W5` of `Props/C06.lean` through the TRANSLATED program -/
namespace SqlObjVerif.Fail.InhX

/-- the witness `W5` of `Props/C06.lean`: inheritable pair `Par` (a, childName) / `Chi` (b, childName) -/
def W5sch : Schema := [{ cols := [{ unique := true }, {}] }, { cols := [{ unique := true }, {}], parent := some 0 }]
/-- `childName` is column 1 of both classes, `'Chi'` has code 1; column 0 has no default; `SQLObject._create` appends
    the defaulted `childName = None` when it was not given -/
def X5 (inj : Option Inj) : Ctx :=
  { sch := W5sch, inj := inj, fuel := 3, depth := 2, tagCol := fun _ => 1, tagVal := fun c => c,
    nodefault := fun _ j => j == 0,
    complete := fun _ kw => if kw.any (fun a => a.1 == 1) then kw else kw ++ [(1, .ok none)] }
/-- `Chi(b=1, a=1)` -/
def es5 : List (PVal × PVal) := [(.name 1 0, .int 1), (.name 0 0, .int 1)]
def w5 : FW := { st := St.empty W5sch 0, par := fun _ => .none }
def W5op : Op := .createChild 1 [(0, .ok (some 1)), (1, .ok (some 1))] [(0, .ok (some 1)), (1, .ok none)]

/-- all of `Fail.St`, comparable -/
structure Obs where
  core : Core
  seqs : List Nat
  lastId : Nat
  n : Nat
  changes : Nat
  log : List Stmt
  err : Option Err
  deriving DecidableEq

def obs (r : Option (St × Option Err)) : Option Obs :=
  r.map fun p => ⟨p.1.core, p.1.seqs, p.1.lastId, p.1.n, p.1.changes, p.1.log, p.2⟩

/-- the TRANSLATED program on `W5` -/
def run5 (inj : Option Inj) : Option (St × Option Err) :=
  outOf (createN (X5 inj) 2 w5 1 .none (PyInh.Val.ofList (pairsOf es5)))

example : levelsOf (X5 none) [1, 0] es5 none =
    [(1, [(0, .ok (some 1)), (1, .ok none)]), (0, [(0, .ok (some 1)), (1, .ok (some 1))])] := by decide

/-- the hypotheses of the chain theorem hold for `W5`, for EVERY injection: the translated run IS the model's run -/
example (inj : Option Inj) :
    run5 inj = some (run W5sch inj (createInh W5sch 3 (levelsOf (X5 inj) [1, 0] es5 none) fun _ => .done) w5.st) := by
  have hreq : Required (X5 inj) [1, 0] es5 := by
    intro c hc hp j hj hd
    have hj0 : j = 0 := by simpa [X5] using hd
    subst hj0
    simp only [List.mem_cons, List.mem_nil_iff, or_false] at hc
    rcases hc with rfl | rfl
    · exact ⟨.int 1, by simp [es5]⟩
    · exact absurd rfl hp
  exact C06_translated_inhcreate_app_eq_model (X5 inj) w5 1 [0] es5 ⟨rfl, rfl⟩ (by show 2 ≤ 2; decide)
    (by show (es5.map (·.1)).Nodup; decide) hreq (by show ∀ e, e ∈ es5 → keyIn [1, 0] e.1 = true; decide) 2 (by decide)

set_option maxRecDepth 4000 in
example :
    obs (run5 (some ⟨2, .operational⟩)) = obs (some (step W5sch (St.empty W5sch 0) W5op (some ⟨2, .operational⟩))) ∧
    (run5 (some ⟨2, .operational⟩)).map (fun p => (p.1.core.tabs, p.2)) =
      some ([[⟨1, [some 1, some 1]⟩], []], some .operational) := by decide +kernel
set_option maxRecDepth 4000 in
example :
    obs (run5 (some ⟨4, .operational⟩)) = obs (some (step W5sch (St.empty W5sch 0) W5op (some ⟨4, .operational⟩))) ∧
    (run5 (some ⟨4, .operational⟩)).map (fun p => (p.1.core.tabs, p.2)) =
      some ([[], [⟨1, [some 1, none]⟩]], some .operational) := by decide +kernel
set_option maxRecDepth 4000 in
example :
    obs (run5 (some ⟨3, .interrupt⟩)) = obs (some (step W5sch (St.empty W5sch 0) W5op (some ⟨3, .interrupt⟩))) ∧
    (run5 (some ⟨3, .interrupt⟩)).map (fun p => (p.1.core, p.2)) =
      some ((St.empty W5sch 0).core, some .interrupt) := by decide +kernel
set_option maxRecDepth 4000 in
example :
    obs (run5 none) = obs (some (step W5sch (St.empty W5sch 0) W5op none)) ∧
    (run5 none).map (fun p => (p.1.core.tabs, p.2)) =
      some ([[⟨1, [some 1, some 1]⟩], [⟨1, [some 1, none]⟩]], none) := by decide +kernel
end SqlObjVerif.Fail.InhX
