import SqlObjVerif.Lemmas.DdlXTypeA
/-!
# C14 translation — the `_<dialect>Type` methods of StringCol / UnicodeCol without a length
-/
namespace SqlObjVerif.DdlX
open SqlObjVerif.Ddl
open SqlObjVerif.PyDdl hiding Str isUpperC
open SqlObjVerif.PyDdl.Extracted

set_option maxHeartbeats 2000000 in
theorem str_type_nolen (n : Nat) (T : Tables) (st : Style) (tb : Str) (c0 : Val) (un : Bool) (v : Option Bool)
    (d : Dialect) (c : Caps)
    (name : Str) (dbn : Option Str) (nn : Bool) (uq : Option Bool) (alt : Bool) (ds : Option Str) (db : Str) :
    callN prog ddlI (n + 4) (.meth (clsOf (.str un 0 v)) (tyM d))
        [colV T st tb (connDuring d c c0) ⟨name, dbn, .str un 0 v, nn, uq, alt, ds⟩] =
      tyRes (typePieces TX d c db (.str un 0 v)) := by
  obtain ⟨vc, hvc⟩ : ∃ vc, varcharEff 0 v true = vc := ⟨_, rfl⟩
  obtain ⟨mi, mx⟩ := c
  cases d <;> cases un <;>
    pyxc [tyM, connDuring, typePieces, strType, strSqlType, Ddl.Extracted.tables, joinStr, handle] <;>
    (cases mx <;> rfl)

end SqlObjVerif.DdlX
