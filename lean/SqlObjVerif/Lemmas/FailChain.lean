import SqlObjVerif.Lemmas.FailQuiet
/-! # Inheritable create: the clean-up restores the state (any depth)

`Near K K0 pid Pt Pi Pr`: core `K` is `K0` plus extra rows (id `pid`, only in tables of classes
satisfying `Pt`), extra instances (id `pid`, class in `Pi`) and extra registrations (class in `Pr`).
Creating a level adds to the three sets, the clean-up's DELETE / `cache.expire` / drop shrink them;
with all three empty `K = K0`. -/
namespace SqlObjVerif.Fail

def addRow (K : Core) (t pid : Nat) (vals : List Val) : Core :=
  { K with tabs := K.tabs.set t (K.tabs.getD t [] ++ [⟨pid, vals⟩]) }

def delRow (K : Core) (t pid : Nat) : Core :=
  { K with tabs := K.tabs.set t ((K.tabs.getD t []).filter fun r => r.id != pid) }

/-- INSERT, `cache.created`, read-back of one level -/
def mkLevel (K : Core) (t pid : Nat) (vals : List Val) : Core :=
  applyMem (.reload t pid) (applyMem (.addInst t pid vals) (addRow K t pid vals))

/-- own DELETE, `_obsolete = True`, `cache.expire` of one level -/
def rmLevel (K : Core) (t pid : Nat) : Core :=
  applyMem (.unreg t pid) (applyMem (.obsolete t pid) (delRow K t pid))

structure Near (K K0 : Core) (pid : Nat) (Pt Pi Pr : Nat → Prop) : Prop where
  links : K.links = K0.links
  len : K.tabs.length = K0.tabs.length
  tabs : ∀ c, ∃ extra, K.tabs.getD c [] = K0.tabs.getD c [] ++ extra ∧ (∀ r ∈ extra, r.id = pid) ∧ (extra ≠ [] → Pt c)
  insts : ∃ extra, K.insts = K0.insts ++ extra ∧ ∀ i ∈ extra, i.id = pid ∧ Pi i.cls
  reg : ∃ extra, K.reg = K0.reg ++ extra ∧ ∀ r ∈ extra, r.2 = pid ∧ Pr r.1

/-- nothing of `K0` carries the key `(t, pid)` -/
structure Fresh0 (K0 : Core) (t pid : Nat) : Prop where
  rows : ∀ r ∈ K0.tabs.getD t [], (r.id != pid) = true
  insts : ∀ i ∈ K0.insts, i.is t pid = false
  reg : ∀ r ∈ K0.reg, (r != (t, pid)) = true

theorem getD_set_eq {α} (l : List α) (i : Nat) (a d : α) (h : i < l.length) : (l.set i a).getD i d = a := by
  simp [List.getD, h]

theorem getD_set_ne {α} (l : List α) (i j : Nat) (a d : α) (h : i ≠ j) : (l.set i a).getD j d = l.getD j d := by
  simp [List.getD, List.getElem?_set, h]

theorem near_refl (K0 : Core) (pid : Nat) : Near K0 K0 pid (fun _ => False) (fun _ => False) (fun _ => False) :=
  ⟨rfl, rfl, fun _ => ⟨[], by simp⟩, ⟨[], by simp⟩, ⟨[], by simp⟩⟩

theorem near_mono {K K0 pid} {Pt Pi Pr Pt' Pi' Pr' : Nat → Prop} (h : Near K K0 pid Pt Pi Pr)
    (ht : ∀ c, Pt c → Pt' c) (hi : ∀ c, Pi c → Pi' c) (hr : ∀ c, Pr c → Pr' c) : Near K K0 pid Pt' Pi' Pr' := by
  refine ⟨h.links, h.len, ?_, ?_, ?_⟩
  · intro c; obtain ⟨e, h1, h2, h3⟩ := h.tabs c; exact ⟨e, h1, h2, fun hne => ht c (h3 hne)⟩
  · obtain ⟨e, h1, h2⟩ := h.insts; exact ⟨e, h1, fun i hi' => ⟨(h2 i hi').1, hi _ (h2 i hi').2⟩⟩
  · obtain ⟨e, h1, h2⟩ := h.reg; exact ⟨e, h1, fun r hr' => ⟨(h2 r hr').1, hr _ (h2 r hr').2⟩⟩

theorem map_inst_fresh (l : List Inst) (t pid : Nat) (f : Inst → Inst) (h : ∀ i ∈ l, i.is t pid = false) :
    (l.map fun i => if i.is t pid then f i else i) = l := by
  conv => rhs; rw [← List.map_id l]
  apply List.map_congr_left
  intro i hi; simp [h i hi]

def mkShape (K : Core) (t pid : Nat) (vals : List Val) (f : Inst → Inst) : Core :=
  ⟨K.tabs.set t (K.tabs.getD t [] ++ [⟨pid, vals⟩]), K.links,
   List.map (fun i => if i.is t pid then f i else i) (K.insts ++ [Inst.mk t pid vals [] false false]),
   K.reg ++ [(t, pid)]⟩

theorem near_mk {K K0 : Core} {pid : Nat} {Pt Pi Pr : Nat → Prop} (t : Nat) (vals : List Val)
    (h : Near K K0 pid Pt Pi Pr) (hf : Fresh0 K0 t pid) (ht : t < K.tabs.length) :
    Near (mkLevel K t pid vals) K0 pid (fun c => Pt c ∨ c = t) (fun c => Pi c ∨ c = t) (fun c => Pr c ∨ c = t) := by
  obtain ⟨ei, hi1, hi2⟩ := h.insts
  obtain ⟨er, hr1, hr2⟩ := h.reg
  -- the shape of the result, whichever branch `reload` takes
  have key : ∃ f : Inst → Inst, (∀ i, (f i).id = i.id ∧ (f i).cls = i.cls) ∧
      mkLevel K t pid vals = mkShape K t pid vals f := by
    unfold mkLevel mkShape
    simp only [applyMem, addRow]
    split
    · rename_i vs _
      exact ⟨fun i => { i with vals := vs }, fun i => ⟨rfl, rfl⟩, by simp [mapInst]⟩
    · refine ⟨fun i => i, fun i => ⟨rfl, rfl⟩, ?_⟩
      simp
  obtain ⟨f, hf1, hk⟩ := key
  rw [hk]
  unfold mkShape
  refine ⟨h.links, by simp [h.len], ?_, ?_, ?_⟩
  · intro c
    obtain ⟨e, h1, h2, h3⟩ := h.tabs c
    by_cases hc : c = t
    · subst hc
      refine ⟨e ++ [⟨pid, vals⟩], ?_, ?_, fun _ => .inr rfl⟩
      · show (K.tabs.set c _).getD c [] = _
        rw [getD_set_eq _ _ _ _ ht, h1, List.append_assoc]
      · intro r hr
        rcases List.mem_append.mp hr with hr | hr
        · exact h2 r hr
        · simp at hr; rw [hr]
    · refine ⟨e, ?_, h2, fun hne => .inl (h3 hne)⟩
      show (K.tabs.set t _).getD c [] = _
      rw [getD_set_ne _ _ _ _ _ (Ne.symm hc), h1]
  · refine ⟨(ei ++ [Inst.mk t pid vals [] false false]).map (fun (i : Inst) => if i.is t pid then f i else i), ?_, ?_⟩
    · show List.map _ (K.insts ++ _) = _
      rw [hi1, List.append_assoc, List.map_append, map_inst_fresh _ _ _ _ hf.insts]
    · intro i hi
      obtain ⟨j, hj, rfl⟩ := List.mem_map.mp hi
      have hj' : j.id = pid ∧ (Pi j.cls ∨ j.cls = t) := by
        rcases List.mem_append.mp hj with hj | hj
        · exact ⟨(hi2 j hj).1, .inl (hi2 j hj).2⟩
        · simp at hj; subst hj; exact ⟨rfl, .inr rfl⟩
      split
      · rw [(hf1 j).1, (hf1 j).2]; exact hj'
      · exact hj'
  · refine ⟨er ++ [(t, pid)], ?_, ?_⟩
    · show K.reg ++ _ = _
      rw [hr1, List.append_assoc]
    · intro r hr
      rcases List.mem_append.mp hr with hr | hr
      · exact ⟨(hr2 r hr).1, .inl (hr2 r hr).2⟩
      · simp at hr; subst hr; exact ⟨rfl, .inr rfl⟩

theorem near_rm {K K0 : Core} {pid : Nat} {Pt Pi Pr : Nat → Prop} (t : Nat)
    (h : Near K K0 pid Pt Pi Pr) (hf : Fresh0 K0 t pid) (ht : t < K.tabs.length) :
    Near (rmLevel K t pid) K0 pid (fun c => Pt c ∧ c ≠ t) Pi (fun c => Pr c ∧ c ≠ t) := by
  obtain ⟨ei, hi1, hi2⟩ := h.insts
  obtain ⟨er, hr1, hr2⟩ := h.reg
  unfold rmLevel delRow
  simp only [applyMem, mapInst]
  refine ⟨h.links, by simp [h.len], ?_, ?_, ?_⟩
  · intro c
    obtain ⟨e, h1, h2, h3⟩ := h.tabs c
    by_cases hc : c = t
    · subst hc
      refine ⟨[], ?_, by simp, by simp⟩
      show (K.tabs.set c _).getD c [] = _
      rw [getD_set_eq _ _ _ _ ht, h1, List.filter_append, List.filter_eq_self.mpr hf.rows, List.append_nil]
      have : (e.filter fun r => r.id != pid) = [] := by
        rw [List.filter_eq_nil_iff]; intro r hr; simp [h2 r hr]
      rw [this, List.append_nil]
    · refine ⟨e, ?_, h2, fun hne => ⟨h3 hne, hc⟩⟩
      show (K.tabs.set t _).getD c [] = _
      rw [getD_set_ne _ _ _ _ _ (Ne.symm hc), h1]
  · refine ⟨ei.map (fun i => if i.is t pid then { i with obsolete := true } else i), ?_, ?_⟩
    · show List.map _ K.insts = _
      rw [hi1, List.map_append, map_inst_fresh _ _ _ _ hf.insts]
    · intro i hi
      obtain ⟨j, hj, rfl⟩ := List.mem_map.mp hi
      split <;> exact hi2 j hj
  · refine ⟨er.filter (fun r => r != (t, pid)), ?_, ?_⟩
    · show List.filter _ K.reg = _
      rw [hr1, List.filter_append, List.filter_eq_self.mpr hf.reg]
    · intro r hr
      obtain ⟨hr', hne⟩ := List.mem_filter.mp hr
      refine ⟨(hr2 r hr').1, (hr2 r hr').2, ?_⟩
      intro heq
      have : r = (t, pid) := by
        cases r; simp at heq ⊢; exact ⟨heq, (hr2 _ hr').1⟩
      simp [this] at hne

theorem near_drop {K K0 : Core} {pid : Nat} {Pt Pi Pr : Nat → Prop} (t : Nat)
    (h : Near K K0 pid Pt Pi Pr) (hf : Fresh0 K0 t pid) :
    Near (applyMem (.drop t pid) K) K0 pid Pt (fun c => Pi c ∧ c ≠ t) Pr := by
  obtain ⟨ei, hi1, hi2⟩ := h.insts
  simp only [applyMem]
  refine ⟨h.links, h.len, h.tabs, ?_, h.reg⟩
  refine ⟨ei.filter (fun i => !(i.is t pid)), ?_, ?_⟩
  · show List.filter _ K.insts = _
    rw [hi1, List.filter_append, List.filter_eq_self.mpr (by intro i hi; simp [hf.insts i hi])]
  · intro i hi
    obtain ⟨hi', hne⟩ := List.mem_filter.mp hi
    refine ⟨(hi2 i hi').1, (hi2 i hi').2, ?_⟩
    intro heq
    simp [Inst.is, heq, (hi2 i hi').1] at hne

theorem near_eq {K K0 : Core} {pid : Nat} (h : Near K K0 pid (fun _ => False) (fun _ => False) (fun _ => False)) :
    K = K0 := by
  obtain ⟨ei, hi1, hi2⟩ := h.insts
  obtain ⟨er, hr1, hr2⟩ := h.reg
  have hei : ei = [] := by
    cases ei with
    | nil => rfl
    | cons a l => exact (hi2 a (by simp)).2.elim
  have her : er = [] := by
    cases er with
    | nil => rfl
    | cons a l => exact (hr2 a (by simp)).2.elim
  have htab : K.tabs = K0.tabs := by
    apply List.ext_getElem h.len
    intro i h1 h2
    obtain ⟨e, he1, _, he3⟩ := h.tabs i
    have : e = [] := by
      cases e with
      | nil => rfl
      | cons a l => exact (he3 (by simp)).elim
    subst this
    simpa [List.getD, h1, h2] using he1
  cases K; cases K0
  simp only [Core.mk.injEq]
  simp at hi1 hr1 htab
  exact ⟨htab, h.links, by rw [hi1, hei, List.append_nil], by rw [hr1, her, List.append_nil]⟩


/-! ## classes nobody depends on: `destroySelf` is the own DELETE -/

def NoDepsB (sch : Schema) (t : Nat) : Bool :=
  (clsOf sch t).joins.isEmpty && (List.range sch.length).all fun kidx =>
    (entryFk sch t kidx).isEmpty && ((clsOf sch kidx).joins.filter fun j => j.other == t).isEmpty

theorem depEntry_nodeps (rec : Nat → Nat → Prog → Prog) (sch : Schema) (t vid kidx : Nat) (k : Prog)
    (h1 : (entryFk sch t kidx).isEmpty = true)
    (h2 : ((clsOf sch kidx).joins.filter fun j => j.other == t).isEmpty = true) :
    depEntry rec sch t vid kidx k = k := by
  unfold depEntry
  simp only [entryFk] at h1
  simp only [h1, if_true, freeLinksSeg]
  have : ((clsOf sch kidx).joins.filter fun j => j.other == t) = [] := by simpa using h2
  rw [this]; rfl

theorem depLoop_nodeps (rec : Nat → Nat → Prog → Prog) (sch : Schema) (t vid : Nat) (ks : List Nat) (k : Prog)
    (h : ∀ kidx ∈ ks, (entryFk sch t kidx).isEmpty = true ∧
      ((clsOf sch kidx).joins.filter fun j => j.other == t).isEmpty = true) :
    depLoop rec sch t vid ks k = k := by
  induction ks with
  | nil => rfl
  | cons x xs ih =>
    show depEntry rec sch t vid x (depLoop rec sch t vid xs k) = k
    rw [ih (fun y hy => h y (by simp [hy])), depEntry_nodeps rec sch t vid x k (h x (by simp)).1 (h x (by simp)).2]

theorem destroy_own_nodeps (sch : Schema) (fuel t id : Nat) (k : Prog) (h : NoDepsB sch t = true) :
    destroyProg sch (fuel + 1) t id k =
      match (clsOf sch t).parent with
      | some p => destroyProg sch fuel p id (.event 5 (destroyTail t id k))
      | none => .event 5 (destroyTail t id k) := by
  simp only [NoDepsB, Bool.and_eq_true, List.all_eq_true, List.isEmpty_iff] at h
  obtain ⟨hj, hall⟩ := h
  have hloop : depLoop (destroyProg sch fuel) sch t id (List.range sch.length) (destroyTail t id k) = destroyTail t id k :=
    depLoop_nodeps _ sch t id _ _ (fun kidx hk => by
      have := hall kidx hk
      exact ⟨by simpa using this.1, by simpa using this.2⟩)
  rw [destroyProg]
  simp only [ownLinksSeg, hj, List.foldr_nil, hloop]
  cases (clsOf sch t).parent <;> rfl

/-- leaf-first list of classes, each the inheritable child of the next -/
def Chain (sch : Schema) : List Nat → Prop
  | [] => True
  | [r] => (clsOf sch r).parent = none
  | c :: p :: rest => (clsOf sch c).parent = some p ∧ Chain sch (p :: rest)

/-- the own DELETEs of a chain, root first -/
def tails : List Nat → Nat → Prog → Prog
  | [], _, k => k
  | t :: rest, pid, k => tails rest pid (.event 5 (destroyTail t pid k))

theorem destroy_chain (sch : Schema) (pid : Nat) : ∀ (L : List Nat) (fuel : Nat) (k : Prog), L ≠ [] →
    Chain sch L → (∀ x ∈ L, NoDepsB sch x = true) → L.length ≤ fuel →
    destroyProg sch fuel (L.head!) pid k = tails L pid k := by
  intro L
  induction L with
  | nil => intro _ _ h; exact absurd rfl h
  | cons t rest ih =>
    intro fuel k _ hch hnd hlen
    cases fuel with
    | zero => simp at hlen
    | succ fuel =>
      rw [show (t :: rest).head! = t from rfl, destroy_own_nodeps sch fuel t pid k (hnd t (by simp))]
      cases rest with
      | nil =>
        simp only [Chain] at hch
        simp [hch, tails]
      | cons p rest' =>
        simp only [Chain] at hch
        simp only [hch.1]
        have := ih fuel (.event 5 (destroyTail t pid k)) (by simp) hch.2 (fun x hx => hnd x (by simp [hx]))
          (by simp at hlen ⊢; omega)
        rw [show (p :: rest').head! = p from rfl] at this
        rw [this]; rfl

/-! ## running the clean-up -/

def rmAll : List Nat → Nat → Core → Core
  | [], _, K => K
  | t :: rest, pid, K => rmLevel (rmAll rest pid K) t pid

def dropAll : List Nat → Nat → Core → Core
  | [], _, K => K
  | t :: rest, pid, K => dropAll rest pid (applyMem (.drop t pid) K)

theorem run_destroyTail (sch inj) (t pid : Nat) (k : Prog) (s : St) (hno : hit inj (s.n + 1) = none) :
    ∃ s1, run sch inj (destroyTail t pid k) s = run sch inj k s1 ∧ s1.core = rmLevel s.core t pid ∧ s1.n = s.n + 1 := by
  unfold destroyTail
  simp only [run, hno, exec]
  refine ⟨_, rfl, ?_, ?_⟩
  · simp only [bump_core]; rfl
  · simp only [bump_n]; rfl

theorem run_tails (sch inj) (pid : Nat) : ∀ (L : List Nat) (k : Prog) (s : St),
    (∀ n, s.n < n → hit inj n = none) →
    ∃ s1, run sch inj (tails L pid k) s = run sch inj k s1 ∧ s1.core = rmAll L pid s.core ∧ s.n ≤ s1.n := by
  intro L
  induction L with
  | nil => intro k s _; exact ⟨s, rfl, rfl, Nat.le_refl _⟩
  | cons t rest ih =>
    intro k s hno
    obtain ⟨s1, h1, hc1, hn1⟩ := ih (.event 5 (destroyTail t pid k)) s hno
    obtain ⟨s2, h2, hc2, hn2⟩ := run_destroyTail sch inj t pid k s1 (hno _ (by omega))
    refine ⟨s2, ?_, ?_, by omega⟩
    · show run sch inj (tails rest pid (.event 5 (destroyTail t pid k))) s = _
      rw [h1]; simp only [run]; exact h2
    · rw [hc2, hc1]; rfl

theorem run_drops (sch inj) (pid : Nat) : ∀ (L : List (Nat × List (Nat × In))) (s : St),
    ∃ s1, run sch inj (L.foldr (fun a acc => .mem (.drop a.1 pid) acc) .done) s = (s1, none) ∧
      s1.core = dropAll (L.map (·.1)) pid s.core := by
  intro L
  induction L with
  | nil => intro s; exact ⟨s, by simp [run], rfl⟩
  | cons a rest ih =>
    intro s
    obtain ⟨s1, h1, hc1⟩ := ih (bump s { s with core := applyMem (.drop a.1 pid) s.core })
    refine ⟨s1, ?_, ?_⟩
    · simp only [List.foldr_cons, run]; exact h1
    · rw [hc1, bump_core]; rfl

theorem near_rmAll {K0 : Core} {pid : Nat} : ∀ (L : List Nat) {K : Core} {Pt Pi Pr : Nat → Prop},
    Near K K0 pid Pt Pi Pr → (∀ t ∈ L, Fresh0 K0 t pid ∧ t < K0.tabs.length) →
    Near (rmAll L pid K) K0 pid (fun c => Pt c ∧ c ∉ L) Pi (fun c => Pr c ∧ c ∉ L) := by
  intro L
  induction L with
  | nil => intro K Pt Pi Pr h _; exact near_mono h (fun c hc => ⟨hc, by simp⟩) (fun _ h => h) (fun c hc => ⟨hc, by simp⟩)
  | cons t rest ih =>
    intro K Pt Pi Pr h hf
    have h1 := ih h (fun x hx => hf x (by simp [hx]))
    have h2 := near_rm t h1 (hf t (by simp)).1 (by rw [h1.len]; exact (hf t (by simp)).2)
    exact near_mono h2 (fun c hc => ⟨hc.1.1, by simp [hc.2, hc.1.2]⟩) (fun _ h => h)
      (fun c hc => ⟨hc.1.1, by simp [hc.2, hc.1.2]⟩)

theorem near_dropAll {K0 : Core} {pid : Nat} : ∀ (L : List Nat) {K : Core} {Pt Pi Pr : Nat → Prop},
    Near K K0 pid Pt Pi Pr → (∀ t ∈ L, Fresh0 K0 t pid) →
    Near (dropAll L pid K) K0 pid Pt (fun c => Pi c ∧ c ∉ L) Pr := by
  intro L
  induction L with
  | nil => intro K Pt Pi Pr h _; exact near_mono h (fun _ h => h) (fun c hc => ⟨hc, by simp⟩) (fun _ h => h)
  | cons t rest ih =>
    intro K Pt Pi Pr h hf
    have h1 := near_drop t h (hf t (by simp))
    have h2 := ih h1 (fun x hx => hf x (by simp [hx]))
    exact near_mono h2 (fun _ h => h) (fun c hc => ⟨hc.1.1, by simp [hc.2, hc.1.2]⟩) (fun _ h => h)

/-- the clean-up of a chain of freshly created levels restores the core -/
theorem restore {K K0 : Core} {pid : Nat} (L : List Nat)
    (h : Near K K0 pid (· ∈ L) (· ∈ L) (· ∈ L)) (hf : ∀ t ∈ L, Fresh0 K0 t pid ∧ t < K0.tabs.length) :
    dropAll L pid (rmAll L pid K) = K0 := by
  have h1 := near_rmAll L h hf
  have h2 := near_dropAll L h1 (fun t ht => (hf t ht).1)
  exact near_eq (near_mono h2 (fun c hc => hc.2 hc.1) (fun c hc => hc.2 hc.1) (fun c hc => hc.2 hc.1))


/-! ## running the creation of one level -/

theorem exec_insert_cases (sch : Schema) (c : Nat) (id? : Option Nat) (vals : List Val) (s : St) :
    (∃ e, exec sch (.insert c id? vals) s = .error e) ∨
    (∃ s2, exec sch (.insert c id? vals) s = .ok s2 ∧
      s2.core = addRow s.core c (id?.getD (s.seqs.getD c 0 + 1)) vals ∧
      s2.lastId = id?.getD (s.seqs.getD c 0 + 1) ∧ s2.n = s.n ∧
      (∀ row ∈ s.core.tabs.getD c [], (row.id != id?.getD (s.seqs.getD c 0 + 1)) = true)) := by
  unfold exec
  simp only
  split
  · exact .inl ⟨_, rfl⟩
  · rename_i hany
    split
    · exact .inl ⟨_, rfl⟩
    · refine .inr ⟨_, rfl, rfl, rfl, rfl, ?_⟩
      intro row hrow
      have : ¬ ((s.tab c).any fun r => r.id == id?.getD (s.seqs.getD c 0 + 1)) = true := hany
      simp only [List.any_eq_true, not_exists, not_and] at this
      have := this row hrow
      simpa [bne] using this

/-- the level's own `_create` (inside the `try`): validate, INSERT with the parent's id, register, read back -/
def childBody (sch : Schema) (c pid : Nat) (kw : List (Nat × In)) : Prog :=
  validates kw <| .stmt (.insert c (some pid) (valsOf (clsOf sch c).cols.length (asgOf kw))) <|
    .mem (.addInst c pid (valsOf (clsOf sch c).cols.length (asgOf kw))) <|
    .stmt (.select c) <| .mem (.reload c pid) .done

theorem run_childBody (sch inj) (hno : ∀ n, hit inj n = none) (c pid : Nat) (kw : List (Nat × In)) (s : St) :
    (∃ s1 e, run sch inj (childBody sch c pid kw) s = (s1, some e) ∧ s1.core = s.core) ∨
    (∃ s1, run sch inj (childBody sch c pid kw) s = (s1, none) ∧
      s1.core = mkLevel s.core c pid (valsOf (clsOf sch c).cols.length (asgOf kw)) ∧
      (∀ row ∈ s.core.tabs.getD c [], (row.id != pid) = true)) := by
  unfold childBody
  rw [run_validates]
  split
  · simp only [run, hno]
    rcases exec_insert_cases sch c (some pid) _ { s with n := s.n + 1, log := _ :: s.log } with ⟨e, he⟩ | ⟨s2, he, hc, _, _, hrows⟩
    · rw [he]; exact .inl ⟨_, e, rfl, rfl⟩
    · rw [he]
      simp only [exec]
      refine .inr ⟨_, rfl, ?_, hrows⟩
      simp only [bump_core, hc, mkLevel, Option.getD_some]
  · exact .inl ⟨s, .invalid, rfl, rfl⟩

theorem bump_lastId (s0 s1 : St) : (bump s0 s1).lastId = s1.lastId := by
  unfold bump; split <;> rfl

theorem run_create_root (sch inj) (hno : ∀ n, hit inj n = none) (r : Nat) (kw : List (Nat × In)) (k : Nat → Prog) (s : St) :
    (∃ s1 e, run sch inj (createProg sch r none false kw [] k) s = (s1, some e) ∧ s1.core = s.core) ∨
    (∃ s1, run sch inj (createProg sch r none false kw [] k) s = run sch inj (k (s.seqs.getD r 0 + 1)) s1 ∧
      s1.core = mkLevel s.core r (s.seqs.getD r 0 + 1) (valsOf (clsOf sch r).cols.length (asgOf kw)) ∧
      (∀ row ∈ s.core.tabs.getD r [], (row.id != s.seqs.getD r 0 + 1) = true)) := by
  unfold createProg
  simp only [run, run_validates, Bool.false_eq_true, if_false]
  split
  · simp only [run_precheck, hasUnknown, List.any_nil, Bool.false_eq_true, if_false, run_extrasPure, extrasErr, run, hno]
    rcases exec_insert_cases sch r none _ { s with n := s.n + 1, log := _ :: s.log } with ⟨e, he⟩ | ⟨s2, he, hc, hl, _, hrows⟩
    · rw [he]; exact .inl ⟨_, e, rfl, rfl⟩
    · rw [he]
      simp only [exec, bump_lastId, hl, Option.getD_none]
      refine .inr ⟨_, rfl, ?_, hrows⟩
      simp only [bump_core, hc, mkLevel, Option.getD_none]
  · exact .inl ⟨s, .invalid, rfl, rfl⟩


/-! ## the whole chain, by induction from the root -/

def rootOf : List (Nat × List (Nat × In)) → Nat
  | [] => 0
  | [a] => a.1
  | _ :: b :: rest => rootOf (b :: rest)

def drops (L : List (Nat × List (Nat × In))) (pid : Nat) : Prog :=
  L.foldr (fun a acc => .mem (.drop a.1 pid) acc) .done

theorem createInh_step (sch : Schema) (fuel c p : Nat) (kw pkw : List (Nat × In))
    (rest : List (Nat × List (Nat × In))) (k : Nat → Prog) :
    createInh sch fuel ((c, kw) :: (p, pkw) :: rest) k =
      createInh sch fuel ((p, pkw) :: rest) fun pid =>
        .guard (childBody sch c pid kw) (destroyProg sch fuel p pid (drops ((p, pkw) :: rest) pid)) (k pid) := by
  rw [createInh]; rfl

/-- no instance and no registration carries the key `(t, pid)` yet -/
def FreshIR (K : Core) (t pid : Nat) : Prop :=
  (∀ i ∈ K.insts, i.is t pid = false) ∧ (∀ r ∈ K.reg, (r != (t, pid)) = true)

theorem createInh_cases (sch : Schema) (inj : Option Inj) (hno : ∀ n, hit inj n = none) (fuel : Nat) :
    ∀ (L : List (Nat × List (Nat × In))), L ≠ [] → Chain sch (L.map (·.1)) →
      (∀ x ∈ L.map (·.1), NoDepsB sch x = true) → L.length ≤ fuel →
    ∀ (k : Nat → Prog) (s : St),
      (∀ t ∈ L.map (·.1), t < s.core.tabs.length ∧ FreshIR s.core t (s.seqs.getD (rootOf L) 0 + 1)) →
      (∃ s1 e, run sch inj (createInh sch fuel L k) s = (s1, some e) ∧ s1.core = s.core) ∨
      (∃ s1, run sch inj (createInh sch fuel L k) s = run sch inj (k (s.seqs.getD (rootOf L) 0 + 1)) s1 ∧
        Near s1.core s.core (s.seqs.getD (rootOf L) 0 + 1) (· ∈ L.map (·.1)) (· ∈ L.map (·.1)) (· ∈ L.map (·.1)) ∧
        ∀ t ∈ L.map (·.1), Fresh0 s.core t (s.seqs.getD (rootOf L) 0 + 1)) := by
  intro L
  induction L with
  | nil => intro h; exact absurd rfl h
  | cons a rest ih =>
    intro _ hch hnd hlen k s hfr
    obtain ⟨c, kw⟩ := a
    cases rest with
    | nil =>
      -- the root
      have hc := hfr c (by simp)
      rw [show createInh sch fuel [(c, kw)] k = createProg sch c none false kw [] k by rw [createInh]]
      rcases run_create_root sch inj hno c kw k s with ⟨s1, e, h1, hc1⟩ | ⟨s1, h1, hc1, hrows⟩
      · exact .inl ⟨s1, e, h1, hc1⟩
      · have hf0 : Fresh0 s.core c (s.seqs.getD c 0 + 1) := ⟨hrows, hc.2.1, hc.2.2⟩
        refine .inr ⟨s1, h1, ?_, ?_⟩
        · rw [hc1]
          exact near_mono (near_mk c _ (near_refl s.core _) hf0 hc.1)
            (fun x hx => by simpa using hx) (fun x hx => by simpa using hx) (fun x hx => by simpa using hx)
        · intro t ht
          simp at ht; subst ht; exact hf0
    | cons b rest' =>
      obtain ⟨p, pkw⟩ := b
      simp only [List.map_cons, Chain] at hch
      have hroot : rootOf ((c, kw) :: (p, pkw) :: rest') = rootOf ((p, pkw) :: rest') := rfl
      rw [hroot] at hfr ⊢
      rw [createInh_step]
      have hanc := ih (by simp) (by simpa using hch.2) (fun x hx => hnd x (by simp at hx ⊢; exact .inr hx))
        (by simp at hlen ⊢; omega)
        (fun pid => .guard (childBody sch c pid kw) (destroyProg sch fuel p pid (drops ((p, pkw) :: rest') pid)) (k pid))
        s (fun t ht => hfr t (by simp at ht ⊢; exact .inr ht))
      generalize s.seqs.getD (rootOf ((p, pkw) :: rest')) 0 + 1 = pid at hanc hfr ⊢
      rcases hanc with ⟨s1, e, h1, hc1⟩ | ⟨s1, h1, hnear, hfresh⟩
      · exact .inl ⟨s1, e, h1, hc1⟩
      · rw [h1]
        simp only [run]
        have hcfr := hfr c (by simp)
        rcases run_childBody sch inj hno c pid kw s1 with ⟨s2, e, h2, hc2⟩ | ⟨s2, h2, hc2, hrows⟩
        · -- the level's own INSERT (or a value) failed: the clean-up restores everything
          left
          rw [h2]
          simp only
          have hdc := destroy_chain sch pid
            (((p, pkw) :: rest').map (·.1)) fuel (drops ((p, pkw) :: rest') pid) (by simp)
            (by simpa using hch.2) (fun x hx => hnd x (by simp at hx ⊢; exact .inr hx)) (by simp at hlen ⊢; omega)
          rw [show (((p, pkw) :: rest').map (·.1)).head! = p from rfl] at hdc
          rw [hdc]
          obtain ⟨s3, h3, hc3, _⟩ := run_tails sch inj pid (((p, pkw) :: rest').map (·.1)) (drops ((p, pkw) :: rest') pid) s2
            (fun n _ => hno n)
          obtain ⟨s4, h4, hc4⟩ := run_drops sch inj pid ((p, pkw) :: rest') s3
          rw [h3]
          unfold drops
          rw [h4]
          refine ⟨s4, e, rfl, ?_⟩
          rw [hc4, hc3, hc2]
          exact restore _ hnear (fun t ht => ⟨hfresh t ht, (hfr t (by simp at ht ⊢; exact .inr ht)).1⟩)
        · -- this level is created too
          right
          rw [h2]
          simp only
          have hf0 : Fresh0 s.core c pid := by
            refine ⟨?_, hcfr.2.1, hcfr.2.2⟩
            intro row hrow
            obtain ⟨ex, hex, _, _⟩ := hnear.tabs c
            exact hrows row (by rw [hex]; exact List.mem_append_left _ hrow)
          refine ⟨s2, rfl, ?_, ?_⟩
          · rw [hc2]
            exact near_mono (near_mk c _ hnear hf0 (by rw [hnear.len]; exact hcfr.1))
              (fun x hx => by simp at hx ⊢; exact hx.symm) (fun x hx => by simp at hx ⊢; exact hx.symm)
              (fun x hx => by simp at hx ⊢; exact hx.symm)
          · intro t ht
            simp at ht
            rcases ht with rfl | ht
            · exact hf0
            · exact hfresh t (by simp; exact ht)


/-- an error injected at the very first statement (the root's INSERT) — or a root value that does
    not validate — stops the whole chain before anything happened; any depth, any schema -/
theorem createInh_root_hit (sch : Schema) (inj : Option Inj) (fuel : Nat) :
    ∀ (L : List (Nat × List (Nat × In))), L ≠ [] → ∀ (k : Nat → Prog) (s : St) (e0 : Err),
      hit inj (s.n + 1) = some e0 →
      ∃ s1 e, run sch inj (createInh sch fuel L k) s = (s1, some e) ∧ s1.core = s.core := by
  intro L
  induction L with
  | nil => intro h; exact absurd rfl h
  | cons a rest ih =>
    intro _ k s e0 hhit
    obtain ⟨c, kw⟩ := a
    cases rest with
    | nil =>
      rw [show createInh sch fuel [(c, kw)] k = createProg sch c none false kw [] k by rw [createInh]]
      unfold createProg
      simp only [run, run_validates, Bool.false_eq_true, if_false]
      split
      · simp only [run_precheck, hasUnknown, List.any_nil, Bool.false_eq_true, if_false, run_extrasPure, extrasErr, run, hhit]
        exact ⟨_, e0, rfl, rfl⟩
      · exact ⟨s, .invalid, rfl, rfl⟩
    | cons b rest' =>
      obtain ⟨p, pkw⟩ := b
      rw [createInh_step]
      exact ih (by simp) _ s e0 hhit

end SqlObjVerif.Fail
