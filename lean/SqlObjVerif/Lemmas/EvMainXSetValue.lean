import SqlObjVerif.Lemmas.EvMainXSetEq
/-!
C19 translator tie, part 8: `_SO_setValue` as translated = the model's `opAssign`, including the branch that delegates to
`set(**d)` under `row_update_sig_suppress` when a listener changed the dict.
-/
namespace SqlObjVerif.Events
open SqlObjVerif.PyEv
open SqlObjVerif.PyEv.Extracted
open SqlObjVerif.PyMain (R mapR ofOpt dget dhas dset dupdate dictOf sortByKey insByKey Exc FnKind)

@[simp] theorem setValueCalls_set (fuel : Nat) (args : List PV) (kw : PDict) (w : World) :
    (setValueCalls fuel).meth "set" args kw w = setX fuel w args kw := by simp [setValueCalls]

@[simp] theorem kwPV_length (d : Kw) : (kwPV d).length = d.length := by simp [kwPV]
@[simp] theorem dhas_kwPV (k : Nat) (d : Kw) : dhas k (kwPV d) = dhas k d := by
  simp [dhas, kwPV, List.any_map, Function.comp_def]
theorem dget_kwPV (k : Nat) (d : Kw) : dget k (kwPV d) = (Kw.get d k).map ofVal := by
  unfold Kw.get
  rw [dget_eq_lookup]
  induction d with
  | nil => rfl
  | cons e d ih =>
    obtain ⟨a, b⟩ := e
    rw [kwPV_cons, List.lookup_cons, List.lookup_cons]
    cases k == a <;> simp [ih]

theorem afterSig_suppressed (w : World) (kw : Kw) (hs : w.o.sigSuppress = true) :
    setSig w kw = (kw, [], []) ∧ afterSig w kw = w := by
  have h1 : setSig w kw = (kw, [], []) := by simp [setSig, hs]
  refine ⟨h1, ?_⟩
  obtain ⟨c, lvl, rows, nextId, o, postponed, log⟩ := w
  simp [afterSig, h1, tagLog]

/-- `set(**d)` under `row_update_sig_suppress`: no `RowUpdateSignal`, then the branch -/
theorem setX_suppressed (fuel : Nat) (w : World) (kw : Kw) (hnd : (kw.map (·.1)).Nodup) (hs : w.o.sigSuppress = true) :
    ((w.o.creating || w.c.lazy) = true → ∀ cv0, w.o.cv = some cv0 →
        ∃ vals', setX fuel w [] (kwPV kw) = lazyOut w cv0 kw vals')
    ∧ ((w.o.creating || w.c.lazy) = false → w.o.lock = false → ∀ i, w.o.id = some i →
        ∃ vals', setX fuel w [] (kwPV kw) = eagerOut w i kw vals') := by
  have h := setX_run fuel w kw hnd
  obtain ⟨h1, h2⟩ := afterSig_suppressed w kw hs
  rw [h1, h2] at h
  exact h

theorem eq_single_of_len (k : Nat) (l : Kw) (hl : l.length = 1) (hh : dhas k l = true) : ∃ v', l = [(k, v')] := by
  match l, hl with
  | [(a, b)], _ =>
    have : a = k := by simpa [dhas] using hh
    exact ⟨b, by rw [this]⟩

theorem colVec_dset (n k : Nat) (v : Val) (cv : Kw) : colVec n (dset k v cv) = mergeVec (colVec n cv) (single n k v) := by
  unfold mergeVec colVec single Kw.get
  rw [zipWith_map_same]
  apply List.map_congr_left
  intro j _
  rw [lookup_dset]
  by_cases hj : j = k
  · subst hj; simp [pick]
  · have : ¬ k = j := fun e => hj e.symm
    simp [hj, this, pick]

theorem vecOfPairs_single (n k : Nat) (v : Val) : vecOfPairs n [(k, v)] = single n k v := by
  unfold vecOfPairs single
  apply List.map_congr_left
  intro j _
  by_cases hj : j = k
  · subst hj; simp [List.lookup]
  · have h1 : (j == k) = false := by simpa using hj
    have h2 : ¬ k = j := fun e => hj e.symm
    simp [List.lookup, h1, h2]

theorem setValueX_eq (fuel : Nat) (c : Cfg) (s : State) (h : Nat) (o : Events.Obj) (cv : Kw) (k : Nat) (v : Val)
    (ho : s.objs[h]? = some o) (hrep : Rep c.ncols cv o.pending) (hk : k < c.ncols) :
    absUnit s h (setValueX fuel (absW c s (pyObj o cv)) k v) = some (opAssign c s h o k v) := by
  obtain ⟨id, pending⟩ := o
  obtain ⟨hcn, hcols, hvec⟩ := hrep
  simp only at hvec
  subst hvec
  unfold setValueX setValueProg opAssign
  dsimp only
  have hk1 : kwOf [(k, ofVal v)] = some [(k, v)] := kwOf_kwPV [(k, v)]
  evwith [absW, pyObj, hk1]
  have hr := deliver_nodup .update (some id) c.listeners 0 [(k, v)] [] (by simp)
  generalize deliver Sig.update (some id) 0 c.listeners [(k, v)] [] = D at hr ⊢
  by_cases hdel : D.1.length = 1 ∧ dhas k D.1 = true
  · obtain ⟨v', hD⟩ := eq_single_of_len k D.1 hdel.1 hdel.2
    have hm : ¬ (¬ [(k, v')].length = 1 ∨ Kw.get [(k, v')] k = none) := by simp [Kw.get, List.lookup]
    rw [hD]
    simp only [hm, if_false]
    have hg : Kw.get [(k, v')] k = some v' := by simp [Kw.get, List.lookup]
    have hdg : ∀ x : PV, dget k [(k, x)] = some x := by intro x; simp [dget]
    by_cases hv : v' = .bad
    · subst hv
      evwith [dhas, kwPV_cons, hg, hdg]
      simp [absUnit, outOf, excOut, quiet, objOf, untag, objs_set_self _ _ _ ho]
    · cases hlz : c.lazy
      · cases hcache : c.cacheValues <;>
        · evwith [dhas, kwPV_cons, hg, hdg, hv, hlz, hcache, hk]
          generalize hF : forLoop _ _ _ = r
          obtain ⟨vs', rfl, -⟩ := post_loop' hF rfl id rfl
          clear hF
          try evwith []
          simp [absUnit, outOf, quiet, objOf, untag, vecOfPairs_single, afterUpdate, Function.comp_def, objs_set_self _ _ _ ho]
      · evwith [dhas, kwPV_cons, hg, hdg, hv, hlz, dset_kwPV]
        simp [absUnit, outOf, quiet, objOf, untag, State.setObj, colVec_dset]
  · have hcond : (if D.1.length = 1 then (R.ok (!dhas k D.1) : R Bool) else R.ok true) = R.ok true := by
      by_cases hl : D.1.length = 1
      · cases hh : dhas k D.1
        · simp [hl]
        · exact absurd ⟨hl, hh⟩ hdel
      · simp [hl]
    have hm : (¬ D.1.length = 1 ∨ Kw.get D.1 k = none) := by
      by_cases hl : D.1.length = 1
      · right
        cases hh : dhas k D.1
        · unfold Kw.get; rw [dhas_eq_lookup] at hh; simpa using hh
        · exact absurd ⟨hl, hh⟩ hdel
      · exact Or.inl hl
    simp only [hm, if_true]
    unfold setCore
    dsimp only
    rw [vecInvalid_kw _ _ hr, unknownKey_kw, vecEmpty_kw _ _ hr]
    cases hlz : c.lazy
    · obtain ⟨vals', hx⟩ := (setX_suppressed fuel
          { c := c, lvl := 0, rows := s.rows, nextId := s.nextId,
            o := { id := some id, vals := fun _ => none, cv := some cv, creating := false, dirty := false,
                   obsolete := false, sigSuppress := true, lock := false },
            postponed := none, log := List.map (fun e => (0, e)) D.2.2 } D.1 hr rfl).2 (by simp [hlz]) rfl id rfl
      rw [hx]
      simp only [eagerOut]
      by_cases hany : (colsOf c.ncols D.1).any (fun e => decide (e.2 = .bad)) = true
      · evwith [hcond, hany]
        simp [absUnit, outOf, excOut, quiet, objOf, untag, objs_set_self _ _ _ ho]
      · by_cases hex : (extraOf c.ncols D.1).isEmpty = true
        · by_cases hce : (colsOf c.ncols D.1).isEmpty = true <;>
          · evwith [hcond, hany, hex, hce]
            simp [hany, hex, hce, absUnit, outOf, quiet, objOf, untag, tagLog, objs_set_self _ _ _ ho, Function.comp_def]
        · evwith [hcond, hany, hex]
          simp [hany, hex, absUnit, outOf, excOut, quiet, objOf, untag, objs_set_self _ _ _ ho]
    · obtain ⟨vals', hx⟩ := (setX_suppressed fuel
          { c := c, lvl := 0, rows := s.rows, nextId := s.nextId,
            o := { id := some id, vals := fun _ => none, cv := some cv, creating := false, dirty := false,
                   obsolete := false, sigSuppress := true, lock := false },
            postponed := none, log := List.map (fun e => (0, e)) D.2.2 } D.1 hr rfl).1 (by simp [hlz]) cv rfl
      rw [hx]
      simp only [lazyOut]
      by_cases hany : (colsOf c.ncols D.1).any (fun e => decide (e.2 = .bad)) = true
      · evwith [hcond, hany]
        simp [absUnit, outOf, excOut, quiet, objOf, untag, objs_set_self _ _ _ ho]
      · by_cases hex : (extraOf c.ncols D.1).isEmpty = true
        · evwith [hcond, hany, hex]
          simp [hany, hex, absUnit, outOf, quiet, objOf, untag, State.setObj, colVec_dupdate _ _ _ hr]
        · evwith [hcond, hany, hex]
          simp [hany, hex, absUnit, outOf, excOut, quiet, objOf, untag, objs_set_self _ _ _ ho]

end SqlObjVerif.Events
