import SqlObjVerif.Lemmas.InhSelXSelect
/-!
`selInit_select` for an arbitrary clause `g` (tables = the hand model's `selNeeded`, meaning = `kindOk ∧ f`): what the
translated `select` really hands on (`kind p c` alone for the TRUE clause, the patched clause otherwise).
-/
set_option linter.unusedSimpArgs false
namespace SqlObjVerif.InhSel
open SqlObjVerif.PyIS (Sql)
open SqlObjVerif.Inherit hiding Val Res Cmp Out

/-- the same for ANY clause `g` that uses exactly the tables `selNeeded` and means `kindOk ∧ f` on a joined row.
    **`InheritableSelectResults.__init__` for `cls.select(f)`** (source class = the root, clause = the filter AND the
    `childName` test on the parent's table, `f` over own and inherited columns): the rows of the query the translated
    constructor builds are exactly the ids the hand model's `selectRow` selects, one row per id -/
theorem selInit_select_gen (X : SCtx) (h : X.T.WF) (hreg : X.reg.Nodup) (w : SW) (c : Nat) (f : Filter) (g : Sql) (oc : Option Nat)
    (hu : ∀ x, x ∈ sqlTables g ++ [X.T.root c] ↔ selNeeded X.T c f x = true)
    (hev : ∀ (db : DB) (i : Nat), sqlEval db (fun _ => i) g = (kindOk X.T db c i && f.eval db i))
    (hregAll : ∀ a, a ∈ X.T.anc c → a ∈ X.reg) (hf : ∀ a, a ∈ f.classes → a ∈ X.T.anc c) :
    ∃ e, selInitX X w (X.T.root c) (.sql g) (opsOf oc) =
        .ret { w with made := some ⟨X.T.root c, e, oc.getD X.dflt⟩ } .none ∧
      ∀ db : DB,
        (∀ i, (∃ σ, Sat db (X.T.root c) e σ ∧ σ (X.T.root c) = i) ↔ (selectRow X.T db c f i).isSome = true) ∧
        (∀ σ σ', Sat db (X.T.root c) e σ → Sat db (X.T.root c) e σ' → σ (X.T.root c) = σ' (X.T.root c) →
          ∀ a, a ∈ sqlTables e ++ [X.T.root c] → σ a = σ' a) := by
  have hrootN : selNeeded X.T c f (X.T.root c) = true := by simp [selNeeded]
  obtain ⟨d, pre0, he, hpre0, hdn⟩ := exists_deepest h (selNeeded X.T c f) c hrootN
  have hdc : d ∈ X.T.anc c := by rw [he]; exact List.mem_append_right _ (self_mem_anc h d)
  have hneedAnc : ∀ a, selNeeded X.T c f a = true → a ∈ X.T.anc c := by
    intro a ha
    simp only [selNeeded, Bool.or_eq_true, beq_iff_eq, List.contains_iff_mem] at ha
    rcases ha with (ha | ha) | ha
    · rw [ha]; exact root_mem_anc h c
    · exact hf a ha
    · exact mem_anc_parent h c c a (self_mem_anc h c) ha
  have hall : ∀ a, a ∈ sqlTables g ++ [X.T.root c] → a ∈ X.reg ∧ a ∈ X.T.anc d := by
    intro a ha
    have hn := (hu a).1 ha
    have hac := hneedAnc a hn
    refine ⟨hregAll a hac, ?_⟩
    rw [he] at hac
    rcases List.mem_append.1 hac with hm | hm
    · rw [hpre0 a hm] at hn; cases hn
    · exact hm
  obtain ⟨t, pre, post, hsplit, htu, hpost, hrun, htabs, hsat⟩ :=
    selInit_chain X h hreg w (X.T.root c) g oc d ((hu d).2 hdn) hall
  refine ⟨_, hrun, ?_⟩
  -- the segment is the whole chain above `d`
  have hrd : X.T.root d = X.T.root c := root_of_mem h c d hdc
  have hrootd : X.T.root c ∈ X.T.anc d := hrd ▸ root_mem_anc h d
  have hpostnil : post = [] := by
    cases post with
    | nil => rfl
    | cons z post =>
      exfalso
      have hzd : z ∈ X.T.anc d := by rw [hsplit]; simp
      have hsorted := anc_sorted h d
      rw [hsplit, List.pairwise_append] at hsorted
      have hrz : X.T.root c ≤ z := by
        have h1 : X.T.root z = X.T.root c := (root_of_mem h d z hzd).trans hrd
        have := mem_anc_le h z _ (root_mem_anc h z)
        omega
      have hrin : X.T.root c ∈ pre ++ [t] := by
        have := hrootd
        rw [hsplit] at this
        rcases List.mem_append.1 this with hm | hm
        · exact List.mem_append_left _ hm
        · rcases List.mem_cons.1 hm with hm | hm
          · simp [hm]
          · exact absurd ((hu _).2 hrootN) (hpost _ hm)
      rcases List.mem_append.1 hrin with hm | hm
      · have := hsorted.2.2 _ hm z (by simp)
        omega
      · simp only [List.mem_singleton] at hm
        have := (List.pairwise_cons.1 hsorted.2.1).1 z (by simp)
        omega
  subst hpostnil
  have hseg : pre ++ [t] = X.T.anc d := hsplit.symm
  rw [hseg] at hsat htabs
  have hjoin : ∀ db i, joinDown X.T db c i (selNeeded X.T c f) = (X.T.anc d).all (fun a => db.has a i) := by
    intro db i
    unfold joinDown
    rw [he, dropWhile_append_neg _ _ _ (fun x hx => by simp [hpre0 x hx])]
    conv => lhs; rw [anc_eq_cons']
    rw [List.dropWhile_cons]
    simp only [hdn, Bool.not_true, Bool.false_eq_true, if_false]
    rw [← anc_eq_cons']
  intro db
  constructor
  · intro i
    constructor
    · rintro ⟨σ, hs, hi⟩
      obtain ⟨hrows, hg⟩ := (hsat db σ).1 hs
      have hdi : σ d = i := by rw [← (hrows _ hrootd).1]; exact hi
      have hconst : sqlEval db σ g = sqlEval db (fun _ => i) g := by
        apply sqlEval_congr
        intro a ha
        have := (hrows a (hall a (List.mem_append_left _ ha)).2).1
        rw [this, hdi]
      rw [hconst, hev] at hg
      simp only [Bool.and_eq_true] at hg
      have hj : joinDown X.T db c i (selNeeded X.T c f) = true := by
        rw [hjoin, List.all_eq_true]
        intro a ha
        have := (hrows a ha).2
        rw [hdi] at this
        simpa using this
      simp [selectRow, hj, hg.1, hg.2]
    · intro hsel
      have hcond : (joinDown X.T db c i (selNeeded X.T c f) && kindOk X.T db c i && f.eval db i) = true := by
        unfold selectRow at hsel
        by_cases hc : (joinDown X.T db c i (selNeeded X.T c f) && kindOk X.T db c i && f.eval db i) = true
        · exact hc
        · simp [hc] at hsel
      simp only [Bool.and_eq_true] at hcond
      refine ⟨fun _ => i, (hsat db _).2 ⟨?_, ?_⟩, rfl⟩
      · intro a ha
        refine ⟨rfl, ?_⟩
        have := hcond.1.1
        rw [hjoin, List.all_eq_true] at this
        simpa using this a ha
      · rw [hev]; simp [hcond.1.2, hcond.2]
  · intro σ σ' hs hs' hi a ha
    have hr := ((hsat db σ).1 hs).1
    have hr' := ((hsat db σ').1 hs').1
    have hmem := htabs a ha
    rw [(hr a hmem).1, (hr' a hmem).1, ← (hr _ hrootd).1, ← (hr' _ hrootd).1]
    exact hi

end SqlObjVerif.InhSel
