import SqlObjVerif.Lemmas.CodecWLazy
/-!
# CodecW — the translated `set(<col c>=v)` on a lazy class and while the instance is being created (`_create` calls
`self.set(**kw)` with `sqlmeta._creating` set): nothing is sent, the database-side value waits in `_SO_createValues`
-/
namespace SqlObjVerif.CodecW
open SqlObjVerif.Codec (PyVal ColT DbVal)
open SqlObjVerif.PyMainV
open SqlObjVerif.PyMainV.Extracted

/-- a loaded instance (`creating = false`), or one that `_create` has just prepared (`_creating` set,
    `_SO_createValues = {}`) -/
def startObj (creating : Bool) (vals : Nat → Option PyVal) : Obj :=
  { vals := vals, createValues := [], expired := false, dirty := false, creating := creating, obsolete := false,
    sigSuppress := false, inCache := true, lock := false }

theorem objOf_eq (vals : Nat → Option PyVal) : objOf vals = startObj false vals := rfl

set_option maxRecDepth 4000

theorem setX_defer_enc_fail (C : Cls) (cr : Bool) (vals : Nat → Option PyVal) (g : Row) (c : Nat) (v : PyVal)
    (hc : c < C.n) (hcl : cr = true ∨ C.lazyUpdate = true)
    (r : Codec.Res PyVal) (he : (klassOf C).enc c v = r) (hr : ∀ y, r ≠ .ok y) :
    setX C (worldOf C (startObj cr vals) g) [(c, .val v)] = failOut (worldOf C (startObj cr vals) g) r := by
  have h1 := k_hasTo C c hc
  have h1' := k_hasFrom C c hc
  have h2 := k_ncols C
  have h3 := k_lazy C
  have hb : Nat.blt c C.n = true := by simp [Nat.blt_eq, hc]
  unfold setX setProg set_nlocals set_nlists set_ndicts worldOf startObj
  cases r with
  | ok y => exact absurd rfl (hr y)
  | _ => rcases hcl with rfl | hl <;> (try cases cr) <;> pvrunw [set_for0] <;> simp [failOut]

theorem setX_defer_dec_fail (C : Cls) (cr : Bool) (vals : Nat → Option PyVal) (g : Row) (c : Nat) (v y : PyVal)
    (hc : c < C.n) (hcl : cr = true ∨ C.lazyUpdate = true) (he : (klassOf C).enc c v = .ok y)
    (r : Codec.Res PyVal) (hd : (klassOf C).dec c y = r) (hr : ∀ x, r ≠ .ok x) :
    setX C (worldOf C (startObj cr vals) g) [(c, .val v)] = failOut (worldOf C (startObj cr vals) g) r := by
  have h1 := k_hasTo C c hc
  have h1' := k_hasFrom C c hc
  have h2 := k_ncols C
  have h3 := k_lazy C
  have hb : Nat.blt c C.n = true := by simp [Nat.blt_eq, hc]
  unfold setX setProg set_nlocals set_nlists set_ndicts worldOf startObj
  cases r with
  | ok x => exact absurd rfl (hr x)
  | _ => rcases hcl with rfl | hl <;> (try cases cr) <;> pvrunw [set_for0] <;> simp [failOut]

theorem setX_defer (C : Cls) (cr : Bool) (vals : Nat → Option PyVal) (g : Row) (c : Nat) (v y wc : PyVal)
    (hc : c < C.n) (hcl : cr = true ∨ C.lazyUpdate = true)
    (he : (klassOf C).enc c v = .ok y) (hd : (klassOf C).dec c y = .ok wc) :
    setX C (worldOf C (startObj cr vals) g) [(c, .val v)] = .ret (worldOf C (pendObj cr vals c y wc) g) .none := by
  have h1 := k_hasTo C c hc
  have h1' := k_hasFrom C c hc
  have h2 := k_ncols C
  have h3 := k_lazy C
  have hb : Nat.blt c C.n = true := by simp [Nat.blt_eq, hc]
  unfold setX setProg set_nlocals set_nlists set_ndicts worldOf startObj
  rcases hcl with rfl | hl <;> (try cases cr) <;> pvrunw [set_for0, set_for1, set_for2, set_for3] <;> simp [worldOf, pendObj]

end SqlObjVerif.CodecW
