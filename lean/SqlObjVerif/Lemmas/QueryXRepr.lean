import SqlObjVerif.Lemmas.QueryXOps
/-!
# C11 — the translated `_str_or_sqlrepr`, `DESC.__sqlrepr__` (one level), `Iteration.next`, `SQLObject.selectBy`
-/
namespace SqlObjVerif.QueryX
open SqlObjVerif.PyQ
open SqlObjVerif.PyQ.Extracted

section
variable (sch : Schema) (P : Params) (fnRec : String → List Val → List (Str × Val) → R Val)
  (cm : Val → String → List Val → List (Str × Val) → R Val) (cv : Val → List Val → R Val)

/-- `_str_or_sqlrepr(expr, db)`: a string as it is, anything else through `sqlrepr` -/
theorem strOrSqlrepr_translated (e db : Val) :
    strOrSqlreprX (qIface sch P fnRec cm cv) e db =
      if isStrV e = true then .ret e else ofR (fnRec "sqlrepr" [e, db] []) := by
  unfold strOrSqlreprX run strOrSqlrepr strOrSqlrepr_s0 strOrSqlrepr_s1
  by_cases h : isStrV e = true
  · pyqw [h]
  · cases hs : fnRec "sqlrepr" [e, db] [] <;> pyqw [h, hs, ofR]

def descS : Str := [' ', 'D', 'E', 'S', 'C']

/-- `'%s DESC' % s` -/
def addDescV : Val → R Val
  | .str s => .ok (.str (s ++ descS))
  | _ => .stuck

def addDesc (r : R Val) : R Val := r.bind addDescV

/-- one level of `DESC.__sqlrepr__`: DESC of DESC renders the inner expression, else the format appends ` DESC` -/
theorem descSqlrepr_step (v db : Val)
    (hstr : hasCls "DESC" v = false → ∀ w, fnRec "sqlrepr" [v, db] [] = .ok w → ∃ s, w = .str s) :
    descSqlreprX (qIface sch P fnRec cm cv) (descV v) db =
      if hasCls "DESC" v = true then ofR ((attrOf (qIface sch P fnRec cm cv) v "expr").bind fun w => fnRec "sqlrepr" [w, db] [])
      else ofR (addDesc (fnRec "sqlrepr" [v, db] [])) := by
  unfold descSqlreprX run descSqlrepr descSqlrepr_s0 descSqlrepr_s1 descV
  by_cases h : hasCls "DESC" v = true
  · cases ha : attrOf (qIface sch P fnRec cm cv) v "expr" with
    | ok w => cases hs : fnRec "sqlrepr" [w, db] [] <;> pyqw [h, ha, hs, ofR]
    | exc e => pyqw [h, ha, ofR]
    | stuck => pyqw [h, ha, ofR]
  · cases hs : fnRec "sqlrepr" [v, db] [] with
    | ok w =>
      obtain ⟨s, rfl⟩ := hstr (by simpa using h) w hs
      pyqw [h, hs, ofR, addDesc, addDescV, descS]
    | exc e => pyqw [h, hs, ofR, addDesc]
    | stuck => pyqw [h, hs, ofR, addDesc]

/-- **`Iteration.next`** on a cursor whose next row is `row` (= `deliver`): a row with a NULL id gives `None`, every
    other row the instance `sourceClass.get(id, selectResults=rest, connection=dbconn)` -/
theorem iterNext_translated (I : Iface) (cursor select dbconn : Val) (ops : List (Str × Val)) (rowv : List Val)
    (c n : String) (fs : List (String × Val))
    (hcur : cursor = .obj c fs)
    (hsel : select = .obj "SelectResults" [("sourceClass", .glob n), ("ops", .dict ops)])
    (hfetch : I.callMethod cursor "fetchone" [] [] = .ok (.tuple rowv))
    (hlazy : truthy ((aget ['l', 'a', 'z', 'y', 'C', 'o', 'l', 'u', 'm', 'n', 's'] ops).getD (.int 0)) = false) :
    iterNextX I (.obj "Iteration" [("cursor", cursor), ("select", select), ("dbconn", dbconn)]) =
      match rowv with
      | [] => .exc .indexError
      | idv :: rest =>
        if isNoneV idv = true then .ret .none
        else ofR (I.callMethod (.glob n) "get" [idv] [(['s', 'e', 'l', 'e', 'c', 't', 'R', 'e', 's', 'u', 'l', 't', 's'], .tuple rest),
          (kConnection, dbconn)]) := by
  subst hcur hsel
  unfold iterNextX run iterNext iterNext_s0 iterNext_s1 iterNext_s2 iterNext_s3
  match rowv with
  | [] => pyqw [hfetch, normIdx]
  | idv :: rest =>
    by_cases hn : isNoneV idv = true
    · pyqw [hfetch, normIdx, hn]
    · cases hg : I.callMethod (.glob n) "get" [idv] [(['s', 'e', 'l', 'e', 'c', 't', 'R', 'e', 's', 'u', 'l', 't', 's'], .tuple rest),
          (['c', 'o', 'n', 'n', 'e', 'c', 't', 'i', 'o', 'n'], dbconn)] <;>
        pyqw [hfetch, normIdx, hn, hlazy, pySlice, sliceL, sliceBound, clampIdx, kConnection, hg, ofR]

/-- the end of the cursor: `StopIteration` -/
theorem iterNext_end (I : Iface) (cursor select dbconn : Val) (c : String) (fs : List (String × Val))
    (hcur : cursor = .obj c fs) (hfetch : I.callMethod cursor "fetchone" [] [] = .ok .none) (r : Val)
    (hclean : I.callMethod (.obj "Iteration" [("cursor", cursor), ("select", select), ("dbconn", dbconn)]) "_cleanup" [] [] = .ok r) :
    iterNextX I (.obj "Iteration" [("cursor", cursor), ("select", select), ("dbconn", dbconn)]) = .exc .stopIteration := by
  subst hcur
  unfold iterNextX run iterNext iterNext_s0 iterNext_s1 iterNext_s2 iterNext_s3
  pyqw [hfetch, hclean]

@[simp] theorem methodOf_clsV (I : Iface) (m : String) (args : List Val) (kw : List (Str × Val)) :
    methodOf I clsV m args kw = I.callMethod clsV m args kw := methodOf_glob I "T" m args kw

/-- **`selectBy(connection=…, **kw)`** = `cls.SelectResultsClass(cls, conn._SO_columnClause(cls, kw), connection=conn)` -/
theorem selectBy_translated (connection : Val) (kw : List (Str × Val)) :
    selectByX (qIface sch P fnRec cm cv) clsV connection kw =
      ofR ((methodOf (qIface sch P fnRec cm cv) (if truthy connection = true then connection else P.conn) "_SO_columnClause"
        [clsV, .dict kw] []).bind fun c =>
          cm clsV "SelectResultsClass" [clsV, c] [(kConnection, if truthy connection = true then connection else P.conn)]) := by
  unfold selectByX run selectBy selectBy_s0 selectBy_s1
  by_cases hc : truthy connection = true
  · cases h1 : methodOf (qIface sch P fnRec cm cv) connection "_SO_columnClause" [clsV, .dict kw] [] with
    | ok c => cases h2 : cm clsV "SelectResultsClass" [clsV, c] [(['c', 'o', 'n', 'n', 'e', 'c', 't', 'i', 'o', 'n'], connection)] <;>
        pyqw [hc, h1, h2, ofR, kConnection]
    | exc e => pyqw [hc, h1, ofR]
    | stuck => pyqw [hc, h1, ofR]
  · cases h1 : methodOf (qIface sch P fnRec cm cv) P.conn "_SO_columnClause" [clsV, .dict kw] [] with
    | ok c => cases h2 : cm clsV "SelectResultsClass" [clsV, c] [(['c', 'o', 'n', 'n', 'e', 'c', 't', 'i', 'o', 'n'], P.conn)] <;>
        pyqw [hc, h1, h2, ofR, kConnection]
    | exc e => pyqw [hc, h1, ofR]
    | stuck => pyqw [hc, h1, ofR]
end
end SqlObjVerif.QueryX
