import SqlObjVerif.Lemmas.FailInhXTc
import SqlObjVerif.Lemmas.FailInhX
/-!
C06, the COMPOSED inheritable create — part (d): the whole class chain.  `createNT_eq`: the translated
`InheritableSQLObject._create` calling ITSELF through the parent class's constructor, its `super()._create` being the
translated `SQLObject._create` and its clean-up the translated `destroySelf`, is `specW` (the world-level spec of
`Lemmas/FailInhX.lean`, which `specW_inhRun` ties to `Fail.createInh`).  The theorem
`C06_translated_inheritable_create_composed_eq_model` (+ the application-level corollary), `levelsOk_of_keys` (the
per-level condition from conditions on the application's dict), and closed examples on the witness `W5`.
-/
set_option linter.unusedSimpArgs false
namespace SqlObjVerif.Fail.InhX
open SqlObjVerif.PyInh (CallRes)

theorem createNT_eq (X : Ctx) (T : Tr) (hag : Agrees X T)
    (hinh : ∀ c, (clsOf X.sch c).parent ≠ none → T.isInh c = true)
    (es : List (PVal × PVal)) (hnd : (es.map (·.1)).Nodup) : ∀ (L : List Nat) (c : Nat),
    Chain X.sch (c :: L) → (c :: L).Nodup → (c :: L).length ≤ X.depth → Required X (c :: L) es →
    ∀ (n : Nat), (c :: L).length ≤ n → ∀ (w : FW) (tag : Option Nat), LevelsOk X T (c :: L) es tag → ∀ (kwv : PVal),
      (kwv = dictOf X (c :: L) es tag ∨ kwv = .cons (.pair (.str "kw") (dictOf X (c :: L) es tag)) .nil) →
      createNT X T n w c .none kwv = createCall (specW X (c :: L) es tag w) := by
  intro L
  induction L with
  | nil =>
    intro c hch _ _ _ n hn w tag hok kwv hkw
    obtain ⟨m, rfl⟩ : ∃ m, n = m + 1 := ⟨n - 1, by simp at hn; omega⟩
    simp only [Chain] at hch
    exact createXT_root X T hag _ w c es tag hch hok.1 kwv hkw
  | cons p L ih =>
    intro c hch hndc hdep hreq n hn w tag hok kwv hkw
    obtain ⟨m, rfl⟩ : ∃ m, n = m + 1 := ⟨n - 1, by simp at hn; omega⟩
    simp only [Chain] at hch
    have hdep' : (p :: L).length ≤ X.depth := by simp at hdep ⊢; omega
    have hreq' : Required X (p :: L) es := fun a ha => hreq a (List.mem_cons_of_mem _ ha)
    rw [List.nodup_cons] at hndc
    show createXT X T (constructOf (createNT X T m)) w c .none kwv = _
    apply createXT_child X T hag hinh _ w c p L es tag _ _ _ hok.1 kwv hkw
    refine ⟨hch.1, ancs_chain X.sch L p X.depth hch.2 hdep', hndc.1, hnd, ?_, ?_⟩
    · exact hreq c List.mem_cons_self (by rw [hch.1]; simp)
    · show constructOf (createNT X T m) w p _ = _
      unfold constructOf
      rw [ih p hch.2 hndc.2 hdep' hreq' m (by simp at hn ⊢; omega) w (some c) hok.2 _ (Or.inr rfl)]
      exact constructOf_createCall p _

/-! ### `LevelsOk` from conditions on the application's keyword dict -/

theorem kwList_append (X : Ctx) (c : Nat) (a b : List (PVal × PVal)) : kwList X c (a ++ b) = kwList X c a ++ kwList X c b := by
  simp [kwList, List.filterMap_append]

/-- the own-column keywords of `es`, read for class `c`: the column numbers `j` of the keys `.name c j`, in order -/
theorem kwList_own_keys (X : Ctx) (c : Nat) (es : List (PVal × PVal)) :
    ∀ j, j ∈ (kwList X c (es.filter fun e => keyIn [c] e.1)).map (·.1) → ∃ v, (PyInh.Val.name c j, v) ∈ es := by
  intro j hj
  simp only [kwList, List.mem_map, List.mem_filterMap, List.mem_filter] at hj
  obtain ⟨a, ⟨e, ⟨he, hk⟩, hm⟩, rfl⟩ := hj
  obtain ⟨k, v⟩ := e
  cases k <;> simp [keyIn] at hk
  subst hk
  simp [keyCol] at hm
  subst hm
  exact ⟨v, he⟩

theorem kwList_own_nodup (X : Ctx) (c : Nat) : ∀ (es : List (PVal × PVal)), (es.map (·.1)).Nodup →
    ((kwList X c (es.filter fun e => keyIn [c] e.1)).map (·.1)).Nodup := by
  intro es
  induction es with
  | nil => intro _; simp [kwList]
  | cons e es ih =>
    intro hnd
    simp only [List.map_cons, List.nodup_cons] at hnd
    obtain ⟨k, v⟩ := e
    by_cases hk : keyIn [c] k = true
    · obtain ⟨a, j, rfl⟩ := keyIn_name hk
      have ha : a = c := by simpa [keyIn] using hk
      subst ha
      have hf : (List.filter (fun e => keyIn [a] e.1) ((PyInh.Val.name a j, v) :: es)) =
          (PyInh.Val.name a j, v) :: es.filter (fun e => keyIn [a] e.1) := by simp [List.filter_cons, keyIn]
      rw [hf]
      simp only [kwList, List.filterMap_cons, keyCol, if_true, Option.map_some, List.map_cons, List.nodup_cons]
      refine ⟨?_, ih hnd.2⟩
      intro hj
      obtain ⟨v', hv'⟩ := kwList_own_keys X a es j hj
      exact hnd.1 (List.mem_map.mpr ⟨_, hv', rfl⟩)
    · have hf : (List.filter (fun e => keyIn [c] e.1) ((k, v) :: es)) = es.filter (fun e => keyIn [c] e.1) := by
        simp [List.filter_cons, hk]
      rw [hf]
      exact ih hnd.2

/-- the conditions on the application's call `Leaf(**es)`: every keyword `.name a j` names a column of `a`
    (`j < ncols a`); a class's `childName` column is a column, has a default, and is not given by the application (the
    level below supplies it); every other column without default and without defaultSQL has its keyword -/
theorem levelOk_of_keys (X : Ctx) (T : Tr) (c : Nat) (es : List (PVal × PVal)) (tag : Option Nat)
    (hnd : (es.map (·.1)).Nodup)
    (hlt : ∀ j v, (PyInh.Val.name c j, v) ∈ es → j < (clsOf X.sch c).cols.length)
    (htag : X.tagCol c < (clsOf X.sch c).cols.length) (hnt : ∀ v, (PyInh.Val.name c (X.tagCol c), v) ∉ es)
    (hdt : (T.dflt c (X.tagCol c)).isSome = true ∨ T.dsql c (X.tagCol c) = true ∨ tag ≠ none)
    (hreq : ∀ j, j < (clsOf X.sch c).cols.length → j ≠ X.tagCol c → (T.dflt c j).isNone = true → T.dsql c j = false →
      ∃ v, (PyInh.Val.name c j, v) ∈ es) : LevelOk X T c es tag := by
  have hown := kwList_own_keys X c es
  have hownlt : ∀ e ∈ kwList X c (es.filter fun e => keyIn [c] e.1), e.1 < (clsOf X.sch c).cols.length := by
    intro e he
    obtain ⟨v, hv⟩ := hown e.1 (List.mem_map.mpr ⟨e, he, rfl⟩)
    exact hlt _ v hv
  have hhas : ∀ j v, (PyInh.Val.name c j, v) ∈ es →
      PyCreate.hasKey (kwList X c (es.filter fun e => keyIn [c] e.1)) j = true := by
    intro j v hv
    rw [PyCreate.hasKey_iff]
    refine List.mem_map.mpr ⟨(j, decIn v), ?_, rfl⟩
    simp only [kwList, List.mem_filterMap, List.mem_filter]
    exact ⟨(.name c j, v), ⟨hv, by simp [keyIn]⟩, by simp [keyCol]⟩
  unfold LevelOk
  rw [kwList_append]
  cases tag with
  | none =>
    simp only [tagEntry, kwList, List.filterMap_nil, List.append_nil]
    refine ⟨kwList_own_nodup X c es hnd, hownlt, ?_⟩
    simp only [PyCreate.missingOf, List.any_eq_false, List.mem_range, Bool.and_eq_true, Bool.not_eq_eq_eq_not,
      Bool.not_true, not_and, Bool.not_eq_false]
    intro j hj ⟨hk, hd⟩
    by_cases hjt : j = X.tagCol c
    · subst hjt
      rcases hdt with h | h | h
      · rw [Option.isNone_iff_eq_none] at hd; rw [hd] at h; cases h
      · exact h
      · exact absurd rfl h
    · cases hs : T.dsql c j
      · obtain ⟨v, hv⟩ := hreq j hj hjt hd hs
        have := hhas j v hv
        simp only [kwList] at this
        rw [this] at hk; cases hk
      · rfl
  | some d =>
    have htl : kwList X c (tagEntry X (some d)) = [(X.tagCol c, decIn (.int (X.tagVal d)))] := by
      simp [tagEntry, kwList, keyCol]
    rw [htl]
    refine ⟨?_, ?_, ?_⟩
    · rw [List.map_append, List.nodup_append]
      refine ⟨kwList_own_nodup X c es hnd, by simp, ?_⟩
      intro a ha b hb hab
      simp only [List.map_cons, List.map_nil, List.mem_singleton] at hb
      subst hab hb
      obtain ⟨v, hv⟩ := hown _ ha
      exact hnt v hv
    · intro e he
      rcases List.mem_append.mp he with h | h
      · exact hownlt e h
      · simp only [List.mem_singleton] at h; subst h; exact htag
    · simp only [PyCreate.missingOf, List.any_eq_false, List.mem_range, Bool.and_eq_true, Bool.not_eq_eq_eq_not,
        Bool.not_true, not_and, Bool.not_eq_false]
      intro j hj ⟨hk, hd⟩
      by_cases hjt : j = X.tagCol c
      · subst hjt
        simp [PyCreate.hasKey] at hk
      · cases hs : T.dsql c j
        · obtain ⟨v, hv⟩ := hreq j hj hjt hd hs
          have := hhas j v hv
          simp only [PyCreate.hasKey, List.any_append, Bool.or_eq_false_iff] at hk
          simp only [PyCreate.hasKey] at this
          rw [this] at hk; exact absurd hk.1 (by simp)
        · rfl

end SqlObjVerif.Fail.InhX

namespace SqlObjVerif.Fail
open SqlObjVerif.Fail.InhX

/-- **THE INHERITABLE CREATE, COMPOSED.**  For every context `X` (schema, schedule `inj`, fuel, `childName` tables),
    tables `T` of the translated callees (defaults per class, which classes are inheritable) that `X` agrees with,
    world `w` (any `Fail.St`), class chain `c :: rest` (any depth `≤ n`), keyword dict `es`: the translated
    `InheritableSQLObject._create`, calling ITSELF through the parent class's constructor, with
    `super()._create(id, **kw)` RUNNING the translated `SQLObject._create` (→ translated `set` → translated
    `_SO_finishCreate`) and `self._parent.destroySelf()` RUNNING the translated `destroySelf` (`Model/FailInhXT.lean`),
    ends with the error and in the state (`core`, `seqs`, `lastId`, `n`, `log`, `changes`: all of `Fail.St`)
    `Fail.run` of `Fail.createInh` ends with for the corresponding `levels`.
    `Required`: a column without default of a non-root level has its keyword (else the inheritable `_create` itself
    raises TypeError — `Fail.createInh` has no such branch); `LevelsOk`: per level, the keywords handed to
    `SQLObject._create` name pairwise distinct columns of the class and no required column is missing
    (`levelOk_of_keys` derives it from conditions on `es`). -/
theorem C06_translated_inheritable_create_composed_eq_model (X : Ctx) (T : Tr) (hag : Agrees X T)
    (hinh : ∀ c, (clsOf X.sch c).parent ≠ none → T.isInh c = true)
    (w : FW) (c : Nat) (rest : List Nat) (es : List (PVal × PVal)) (tag : Option Nat)
    (hch : Chain X.sch (c :: rest)) (hdep : (c :: rest).length ≤ X.depth)
    (hnd : (es.map (·.1)).Nodup) (hreq : Required X (c :: rest) es) (hok : LevelsOk X T (c :: rest) es tag)
    (n : Nat) (hn : (c :: rest).length ≤ n)
    (kwv : PVal) (hkw : kwv = dictOf X (c :: rest) es tag ∨
      kwv = .cons (.pair (.str "kw") (dictOf X (c :: rest) es tag)) .nil) :
    outOf (createNT X T n w c .none kwv) =
      some (run X.sch X.inj (createInh X.sch X.fuel (levelsOf X (c :: rest) es tag) fun _ => .done) w.st) := by
  rw [createNT_eq X T hag hinh es hnd rest c hch (chain_nodup X.sch _ hch) hdep hreq n hn w tag hok kwv hkw,
    outOf_createCall, specW_inhRun X es rest c tag w hch hdep, createInh_done _ _ _ _ (by simp [levelsOf])]

/-- the application's call `Leaf(**es)`: every keyword names a column of a class of the chain -/
theorem C06_translated_inheritable_create_composed_app_eq_model (X : Ctx) (T : Tr) (hag : Agrees X T)
    (hinh : ∀ c, (clsOf X.sch c).parent ≠ none → T.isInh c = true)
    (w : FW) (c : Nat) (rest : List Nat) (es : List (PVal × PVal))
    (hch : Chain X.sch (c :: rest)) (hdep : (c :: rest).length ≤ X.depth)
    (hnd : (es.map (·.1)).Nodup) (hreq : Required X (c :: rest) es) (hok : LevelsOk X T (c :: rest) es none)
    (hkeys : ∀ e, e ∈ es → keyIn (c :: rest) e.1 = true) (n : Nat) (hn : (c :: rest).length ≤ n) :
    outOf (createNT X T n w c .none (PyInh.Val.ofList (pairsOf es))) =
      some (run X.sch X.inj (createInh X.sch X.fuel (levelsOf X (c :: rest) es none) fun _ => .done) w.st) := by
  rw [← dictOf_full X (c :: rest) es hkeys]
  exact C06_translated_inheritable_create_composed_eq_model X T hag hinh w c rest es none hch hdep hnd hreq hok n hn _
    (Or.inl rfl)

end SqlObjVerif.Fail

/-! ### non-vacuity: the witness `W5` of `Props/C06.lean` through the COMPOSED translated programs -/
namespace SqlObjVerif.Fail.InhX

/-- `childName` (column 1) has `default=None`, column 0 has no default; no `defaultSQL`; both classes inheritable -/
def T5 : Tr :=
  { dflt := fun _ j => if j = 1 then some (.ok none) else none, dsql := fun _ _ => false,
    props := fun _ _ => .unknown, isInh := fun _ => true }
def XT5 (inj : Option Inj) : Ctx := ctxOf W5sch inj 3 2 (fun _ => 1) (fun c => c) T5

/-- the COMPOSED translated programs on `W5` -/
def run5T (inj : Option Inj) : Option (St × Option Err) :=
  outOf (createNT (XT5 inj) T5 2 w5 1 .none (PyInh.Val.ofList (pairsOf es5)))

example : levelsOf (XT5 none) [1, 0] es5 none =
    [(1, [(0, .ok (some 1)), (1, .ok none)]), (0, [(0, .ok (some 1)), (1, .ok (some 1))])] := by decide

/-- the hypotheses of the composed theorem hold for `W5`, for EVERY injection: the composed run IS the model's run -/
example (inj : Option Inj) :
    run5T inj = some (run W5sch inj (createInh W5sch 3 (levelsOf (XT5 inj) [1, 0] es5 none) fun _ => .done) w5.st) := by
  have hreq : Required (XT5 inj) [1, 0] es5 := by
    intro c hc hp j hj hd
    have hj0 : j = 0 := by
      have : j ≠ 1 := by intro h; subst h; simp [XT5, ctxOf, T5] at hd
      have : j < 2 := by
        simp only [List.mem_cons, List.mem_nil_iff, or_false] at hc
        rcases hc with rfl | rfl <;> exact hj
      omega
    subst hj0
    simp only [List.mem_cons, List.mem_nil_iff, or_false] at hc
    rcases hc with rfl | rfl
    · exact ⟨.int 1, by simp [es5]⟩
    · exact absurd rfl hp
  have hok : LevelsOk (XT5 inj) T5 [1, 0] es5 none := by
    show LevelsOk (XT5 none) T5 [1, 0] es5 none
    decide
  exact C06_translated_inheritable_create_composed_app_eq_model (XT5 inj) T5 (ctxOf_agrees _ _ _ _ _ _ _)
    (fun _ _ => rfl) w5 1 [0] es5 ⟨rfl, rfl⟩ (by show 2 ≤ 2; decide)
    (by show (es5.map (·.1)).Nodup; decide) hreq hok (by show ∀ e, e ∈ es5 → keyIn [1, 0] e.1 = true; decide) 2 (by decide)

set_option maxRecDepth 8000 in
example :
    obs (run5T (some ⟨2, .operational⟩)) = obs (some (step W5sch (St.empty W5sch 0) W5op (some ⟨2, .operational⟩))) ∧
    (run5T (some ⟨2, .operational⟩)).map (fun p => (p.1.core.tabs, p.2)) =
      some ([[⟨1, [some 1, some 1]⟩], []], some .operational) := by decide +kernel
set_option maxRecDepth 8000 in
example :
    obs (run5T (some ⟨4, .operational⟩)) = obs (some (step W5sch (St.empty W5sch 0) W5op (some ⟨4, .operational⟩))) ∧
    (run5T (some ⟨4, .operational⟩)).map (fun p => (p.1.core.tabs, p.2)) =
      some ([[], [⟨1, [some 1, none]⟩]], some .operational) := by decide +kernel
set_option maxRecDepth 8000 in
example :
    obs (run5T (some ⟨3, .interrupt⟩)) = obs (some (step W5sch (St.empty W5sch 0) W5op (some ⟨3, .interrupt⟩))) ∧
    (run5T (some ⟨3, .interrupt⟩)).map (fun p => (p.1.core, p.2)) =
      some ((St.empty W5sch 0).core, some .interrupt) := by decide +kernel
set_option maxRecDepth 8000 in
example :
    obs (run5T none) = obs (some (step W5sch (St.empty W5sch 0) W5op none)) ∧
    (run5T none).map (fun p => (p.1.core.tabs, p.2)) =
      some ([[⟨1, [some 1, some 1]⟩], [⟨1, [some 1, none]⟩]], none) := by decide +kernel
end SqlObjVerif.Fail.InhX
