import SqlObjVerif.Lemmas.DdlXCreate
import SqlObjVerif.Lemmas.DdlXRef
/-!
# C14 translation — `DBAPI.createReferenceConstraints` and `DBAPI.createTableSQL`
-/
namespace SqlObjVerif.DdlX
open SqlObjVerif.Ddl
open SqlObjVerif.PyDdl hiding Str isUpperC
open SqlObjVerif.PyDdl.Extracted

variable {x : ClsX}

theorem mem_fk_mro (k : Kind) : (C_SOForeignKey ∈ prog.mroOf (clsOf k)) ↔ (∃ a b c d, k = .fk a b c d) := by
  cases k with
  | simple k => cases k <;> simp [clsOf, simpleCls] <;> try decide
  | int k _ _ _ => cases k <;> simp [clsOf, intCls] <;> try decide
  | str b _ _ => cases b <;> simp <;> try decide
  | fk a b c d => simp; try decide
  | _ => simp <;> try decide

/-- a filtered comprehension whose body is a call -/
theorem collectR_filter_call {α : Type} (p : α → Prop) (inst : ∀ a, Decidable (p a)) (F : α → R Val) (G : α → Val)
    (l : List α) (h : ∀ a ∈ l, p a → F a = .ok (G a)) :
    collectR (fun a => @ite _ (p a) (inst a) ((F a).bind fun v => R.ok (some v)) (R.ok none)) l =
      .ok ((l.filter fun a => @decide (p a) (inst a)).map G) := by
  induction l with
  | nil => rfl
  | cons a l ih =>
    rw [collectR, ih (fun b hb => h b (by simp [hb]))]
    by_cases hp : p a
    · rw [if_pos hp, h a (by simp) hp]; simp [consOpt, hp]
    · rw [if_neg hp]; simp [consOpt, hp]

theorem filter_some_map {α : Type} (f : α → Option Str) (l : List α) :
    (l.filter fun a => (f a).isSome).map (fun a => optStr (f a)) = (l.filterMap f).map Val.str := by
  induction l with
  | nil => rfl
  | cons a l ih => cases h : f a <;> simp [h, ih]

theorem alterFk_nonfk (d : Dialect) (decl : Decl) (col : Col) (h : ¬ ∃ a b c e, col.kind = .fk a b c e) :
    alterFk TX d decl col = none := by
  obtain ⟨name, dbn, kind, nn, uq, alt, ds⟩ := col
  cases kind <;> first | rfl | exact absurd ⟨_, _, _, _, rfl⟩ h

theorem alterFk_truthy (d : Dialect) (decl : Decl) (col : Col) :
    truthy (optStr (alterFk TX d decl col)) = (alterFk TX d decl col).isSome := by
  obtain ⟨name, dbn, kind, nn, uq, alt, ds⟩ := col
  cases kind <;> try rfl
  cases d <;> simp [alterFk, lit]

theorem refConstraint_col (n : Nat) (d : Dialect) (c : Caps) (sv : Val) (decl : Decl) (c0 : Val) (col : Col)
    (h : ∃ a b c e, col.kind = .fk a b c e) :
    callN prog ddlI (n + 2) (.meth (connCls d) M_createReferenceConstraint)
        [connV d c, sv, colV TX decl.style decl.tableName c0 col] = .ok (optStr (alterFk TX d decl col)) := by
  obtain ⟨name, dbn, kind, nn, uq, alt, ds⟩ := col
  obtain ⟨tT, tI, tS, cas, hk⟩ := h
  simp only at hk; subst hk
  exact fk_refConstraint n TX d c sv decl c0 tT tI tS cas name dbn nn uq alt ds

/-- which columns have a constraint statement -/
def hasRef (d : Dialect) (decl : Decl) (col : Col) : Bool := (alterFk TX d decl col).isSome

set_option maxHeartbeats 1000000 in
/-- **`DBAPI.createReferenceConstraints` translated = `constraints`** -/
theorem createReferenceConstraints_eq (n : Nat) (d : Dialect) (c : Caps) (decl : Decl) (c0 : Val) :
    callN prog ddlI (n + 3) (.meth (connCls d) M_createReferenceConstraints) [connV d c, soClassV decl c0 x] =
      .ok (strList (constraints TX d decl)) := by
  have hres : prog.resolve (.meth (connCls d) M_createReferenceConstraints) = some DBAPI__createReferenceConstraints_fn := by
    cases d <;> rfl
  rw [callX_succ _ _ _ _ hres]
  have h1 := collectR_filter_call (fun col : Col => C_SOForeignKey ∈ prog.mroOf (clsOf col.kind))
    (fun _ => inferInstance)
    (fun col => callN prog ddlI (n + 2) (.meth (connCls d) M_createReferenceConstraint)
      [connV d c, soClassV decl c0 x, colV TX decl.style decl.tableName c0 col])
    (fun col => optStr (alterFk TX d decl col)) decl.cols
    (fun col _ hp => refConstraint_col n d c _ decl c0 col ((mem_fk_mro col.kind).1 hp))
  pyxwith [metaV, filterMapR_map, compStep]
  rw [collectR_filter (fun col => truthy (optStr (alterFk TX d decl col))) (fun col => optStr (alterFk TX d decl col))]
  pyxwith [strList, constraints]
  rw [← filter_some_map]
  congr 1
  apply List.filter_congr
  intro col _
  by_cases hk : ∃ a b c e, col.kind = .fk a b c e
  · simp [(mem_fk_mro col.kind).2 hk, alterFk_truthy]
  · simp [alterFk_nonfk d decl col hk]

/-- the outcome of `createTableSQL`: the pair (CREATE TABLE text, constraint statements), or both refuse -/
def agreesT (r : R Val) (o : Option Str) (cons : List Str) : Prop :=
  match o with
  | some t => r = .ok (.tuple [.str t, strList cons])
  | none => ∃ e, r = .exc e

@[simp] theorem extMethX_createSQL (d : Dialect) (c : Caps) (x : Val) :
    extMethX (connV d c) "createSQL" [x] = .ok (.list []) := rfl

@[simp] theorem bmethOf_connV (I : Iface) (d : Dialect) (c : Caps) (m : String) (args : List Val) :
    bmethOf I (connV d c) m args = I.extMeth (connV d c) m args := rfl

set_option maxHeartbeats 1000000 in
/-- **`DBAPI.createTableSQL` translated = (`createTableSQL`, `constraints`) of the hand model** -/
theorem createTableSQL_agrees (n : Nat) (d : Dialect) (c : Caps) (decl : Decl) (c0 : Val) :
    agreesT (callN prog ddlI (n + 9) (.meth (connCls d) M_createTableSQL) [connV d c, soClassV decl c0 x])
      (createTableSQL TX d c decl) (constraints TX d decl) := by
  have hres : prog.resolve (.meth (connCls d) M_createTableSQL) = some DBAPI__createTableSQL_fn := by cases d <;> rfl
  rw [callX_succ _ _ _ _ hres, createTableSQL_eq_colsModel]
  have hc := createReferenceConstraints_eq (x := x) (n + 5) d c decl c0
  have hb := createColumns_agrees (x := x) n d c decl c0
  cases hm : colsModel d c decl with
  | none =>
    rw [hm] at hb
    obtain ⟨e, he⟩ := hb
    refine ⟨e, ?_⟩
    pyxwith [metaV]
  | some b =>
    rw [hm] at hb
    simp only [agrees] at hb
    simp only [agreesT, Option.map_some]
    pyxwith [metaV, strList]
    simp [Ddl.Extracted.tables]

end SqlObjVerif.DdlX
