import SqlObjVerif.Lemmas.GraphXMain
/-!
The TRANSLATED `findDependencies` (what `self._SO_depends()` returns) computes the model's `dependents S c`
(`fdepsX_eq`): the inner loop over the joins with its `break` (`fdeps_inner`), one class (`fdeps_step` = the model's
`isDependent`), the loop over the registry (`fdeps_loop`).
-/
namespace SqlObjVerif.Graph
open SqlObjVerif.PyDestroy
open SqlObjVerif.PyDestroy.Extracted
variable (S : Schema) (c : Nat)

@[simp] theorem gFn_registry (fdc) (a : PVal) : gFn fdc "classregistry.registry" [a] = .ok (.obj .registry) := by
  simp [gFn]

@[simp] theorem gQuery_allClasses (w : XW) :
    gQuery S w (.obj .registry) "allClasses" [] [] = .ok (Val.ofList ((List.range S.length).map fun k => .obj (.cls k))) := by
  simp [gQuery]

/-- `for join in klass.sqlmeta.joins: if …: depends.append(klass); break` -/
theorem fdeps_inner (I : Iface Hnd XW) (hI : I = gIface S (fun _ => false) (fdcModel S) (fun db _ _ => .ok db) .none)
    (k : Nat) (w : XW) (js : List RJ) :
    ∀ (env : Env Hnd) (acc : List PVal), env 0 = some (.obj (.cname c)) → env 2 = some (Val.ofList acc) →
      env 3 = some (.obj (.cls k)) → ∃ env',
      forLoop (fun st a => findDependencies_for1.exec I (st.setVar 4 a)) (js.map fun j => .obj (.join j)) ⟨w, env⟩ =
        .norm ⟨w, env'⟩ ∧
      env' 2 = some (Val.ofList (acc ++ if js.any (·.other == c) then [.obj (.cls k)] else [])) ∧
      ∀ x, x ≠ 2 → x ≠ 4 → env' x = env x := by
  subst hI
  induction js with
  | nil => intro env acc _ h2 _; exact ⟨env, rfl, by simpa using h2, fun _ _ _ => rfl⟩
  | cons j js ih =>
    intro env acc h0 h2 h3
    by_cases hj : j.other = c
    · refine ⟨(env.put 4 (.obj (.join j))).put 2 (Val.ofList (acc ++ [.obj (.cls k)])), ?_, by simp [hj], ?_⟩
      · have : findDependencies_for1.exec (gIface S (fun _ => false) (fdcModel S) (fun db _ _ => .ok db) .none)
            (St.setVar ⟨w, env⟩ 4 (.obj (.join j))) =
            .brk ⟨w, (env.put 4 (.obj (.join j))).put 2 (Val.ofList (acc ++ [.obj (.cls k)]))⟩ := by
          unfold findDependencies_for1
          drun
        simp only [List.map_cons, forLoop, this]
      · intro x x2 x4; simp [x2, x4]
    · have : findDependencies_for1.exec (gIface S (fun _ => false) (fdcModel S) (fun db _ _ => .ok db) .none)
          (St.setVar ⟨w, env⟩ 4 (.obj (.join j))) = .norm ⟨w, env.put 4 (.obj (.join j))⟩ := by
        unfold findDependencies_for1
        drun
      simp only [List.map_cons, forLoop, this]
      obtain ⟨env', e1, e2, ef⟩ := ih (env.put 4 (.obj (.join j))) acc (by simp [h0]) (by simp [h2]) (by simp [h3])
      refine ⟨env', e1, ?_, fun x x2 x4 => by rw [ef x x2 x4]; simp [x4]⟩
      rw [e2]; simp [hj]

theorem fdeps_step (I : Iface Hnd XW) (hI : I = gIface S (fun _ => false) (fdcModel S) (fun db _ _ => .ok db) .none)
    (k : Nat) (w : XW) (env : Env Hnd) (acc : List PVal) (h0 : env 0 = some (.obj (.cname c)))
    (h2 : env 2 = some (Val.ofList acc)) : ∃ envA,
    findDependencies_for0.exec I (St.setVar ⟨w, env⟩ 3 (.obj (.cls k))) = .norm ⟨w, envA⟩ ∧
    envA 2 = some (Val.ofList (acc ++ if isDependent S c k then [.obj (.cls k)] else [])) ∧
    ∀ x, x ≠ 2 → x ≠ 3 → x ≠ 4 → envA x = env x := by
  by_cases hd : depCols S c k = []
  · obtain ⟨env', e1, e2, ef⟩ := fdeps_inner S c I hI k w (S.cls k).joins (env.put 3 (.obj (.cls k))) acc
      (by simp [h0]) (by simp [h2]) (by simp)
    subst hI
    refine ⟨env', ?_, ?_, fun x x2 x3 x4 => by rw [ef x x2 x4]; simp [x3]⟩
    · simp only [St.setVar] at e1
      unfold findDependencies_for0
      drun
      simp [fdcModel, hd, Val.ofList, loopStep_ofList, St.setVar, e1]
    · rw [e2]; simp [isDependent, hd]
  · subst hI
    refine ⟨(env.put 3 (.obj (.cls k))).put 2 (Val.ofList (acc ++ [.obj (.cls k)])), ?_, ?_, ?_⟩
    · have hne : (depCols S c k).isEmpty = false := by cases h : depCols S c k <;> simp_all
      unfold findDependencies_for0
      drun
      simp [fdcModel, hne]
    · have : (depCols S c k).isEmpty = false := by cases h : depCols S c k <;> simp_all
      simp [isDependent, this]
    · intro x x2 x3 x4; simp [x2, x3]

theorem fdeps_loop (I : Iface Hnd XW) (hI : I = gIface S (fun _ => false) (fdcModel S) (fun db _ _ => .ok db) .none)
    (w : XW) (ks : List Nat) :
    ∀ (env : Env Hnd) (acc : List PVal), env 0 = some (.obj (.cname c)) → env 2 = some (Val.ofList acc) → ∃ env',
      forLoop (fun st a => findDependencies_for0.exec I (st.setVar 3 a)) (ks.map fun k => .obj (.cls k)) ⟨w, env⟩ =
        .norm ⟨w, env'⟩ ∧
      env' 2 = some (Val.ofList (acc ++ (ks.filter (isDependent S c)).map fun k => .obj (.cls k))) := by
  induction ks with
  | nil => intro env acc _ h2; exact ⟨env, rfl, by simpa using h2⟩
  | cons k ks ih =>
    intro env acc h0 h2
    obtain ⟨envA, hA, a2, af⟩ := fdeps_step S c I hI k w env acc h0 h2
    simp only [List.map_cons, forLoop, hA]
    obtain ⟨env', e1, e2⟩ := ih envA _ (by rw [af 0 (by decide) (by decide) (by decide)]; exact h0) a2
    refine ⟨env', e1, ?_⟩
    rw [e2]
    by_cases hp : isDependent S c k = true <;> simp [hp]

/-- the TRANSLATED `findDependencies(<name of c>, registry)` returns the model's `dependents S c` (as classes, in
    registry order) and changes nothing -/
theorem fdepsX_eq : fdepsX S c = .ret ⟨⟨[], [], []⟩, []⟩ (Val.ofList ((dependents S c).map fun k => .obj (.cls k))) := by
  unfold fdepsX PyDestroy.run findDependenciesProg
  have a0 : (Env.ofArgs [.obj (.cname c), .none] : Env Hnd) 0 = some (.obj (.cname c)) := rfl
  have a1 : (Env.ofArgs [.obj (.cname c), .none] : Env Hnd) 1 = some .none := rfl
  generalize (Env.ofArgs [.obj (.cname c), .none] : Env Hnd) = env0 at a0 a1
  obtain ⟨env', h1, h2⟩ := fdeps_loop S c _ rfl ⟨⟨[], [], []⟩, []⟩ (List.range S.length)
    (env0.put 2 .nil) [] (by simp [a0]) (by simp [Val.ofList])
  simp only [St.setVar] at h1
  simp [Block.exec, Stmt.exec, Expr.eval, Exprs.eval, St.setVar, a1, zipKw, loopStep_ofList, h1, h2, Res.toCall, dependents]

end SqlObjVerif.Graph
