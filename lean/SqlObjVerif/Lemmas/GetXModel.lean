import SqlObjVerif.Lemmas.GetXPaths
import SqlObjVerif.Lemmas.CacheXRep
set_option linter.unusedSimpArgs false
namespace SqlObjVerif.Cache
open SqlObjVerif.PyGet
open SqlObjVerif.PyGet.Extracted

theorem setObj_self (s : State) (h : Handle) : setObj s h (s.obj h) = s := by
  unfold setObj; rw [upd_self]

theorem holdS_of_held (s : State) (h : Handle) (hh : (s.obj h).held = true) : holdS s h = s := by
  unfold holdS
  have : ({ s.obj h with held := true } : Obj) = s.obj h := by
    generalize s.obj h = o at hh
    cases o; simp_all
  rw [this, setObj_self]

/-- `SQLObject.get` = the hand model's `getObj` (clean instances: `sqlmeta.dirty` is False, as for every class
    that is not `lazyUpdate`): on a hit or an existing row the translated code returns the model's handle and —
    once the caller holds what it was handed — ends in the model's state; on a missing row it raises
    SQLObjectNotFound with every factory, every lock, the table and every existing instance as in the model's state
    (the one instance built on the way is garbage: no cache entry, no reference) -/
theorem getG_model (w : GW) (c : Cls) (k : Id) (conn : Val) (hconn : conn = .none ∨ conn = Vconn) (srb : Bool)
    (hwf : w.WF) (hl : w.lock c = false) (hwl : ∀ h, w.wlock h = false) (hd : ∀ h, w.dirty h = false)
    (hfr : w.s.cfg.cullFraction ≠ 0) (hrep : Rep w.s c)
    (hnc : w.s.cfg.doCache = false → (w.s.fac c).strong = [])
    (hrow : srb = true → k ∈ w.s.rows c) :
    match getObj w.s c k srb with
    | (s', some h) => ∃ W, getG w c k conn (Vsr srb) = .ret W (.obj h) ∧ holdS W.s h = s' ∧ W.lock = w.lock ∧
        W.made = addMade w.made c ∧ (∀ x, W.wlock x = false) ∧ (∀ x, W.dirty x = false)
    | (s', none) => ∃ W, getG w c k conn (Vsr srb) = .exc W .notFound ∧ W.lock = w.lock ∧
        W.made = addMade w.made c ∧ W.s.fac = s'.fac ∧ W.s.rows = s'.rows ∧ W.s.cfg = s'.cfg ∧
        W.s.n = s'.n + 1 ∧ ∀ x, x ≠ s'.n → W.s.obj x = s'.obj x := by
  rw [getG_eq w c k conn hconn srb hwf hl hwl hfr hrep hnc hrow]
  unfold getObj
  generalize lookupCache (tick w.s c) c k = L
  obtain ⟨s1, r⟩ := L
  cases r with
  | some h =>
    simp only
    refine ⟨_, rfl, ?_, rfl, rfl, hwl, hd⟩
    rw [hd h]
    cases srb <;> simp [holdS]
  | none =>
    simp only
    by_cases hr : k ∈ s1.rows c
    · have hr' : (s1.rows c).contains k = true := by simpa using hr
      simp only [hr, hr', if_true]
      refine ⟨_, rfl, ?_, rfl, rfl, ?_, ?_⟩
      · apply holdS_of_held
        simp [alloc]
      · intro x; simp only [upd]; split <;> simp [hwl]
      · intro x; simp only [upd]; split <;> simp [hd]
    · have hr' : (s1.rows c).contains k = false := by simpa using hr
      simp only [hr, hr', if_false]
      refine ⟨_, rfl, rfl, rfl, rfl, rfl, rfl, rfl, ?_⟩
      intro x hx
      simp [alloc, upd, hx]

theorem insertEntry_setObj (s : State) (c : Cls) (k : Id) (x h : Handle) (o : Obj) :
    insertEntry (setObj s h o) c k x = setObj (insertEntry s c k x) h o := by
  unfold insertEntry
  simp only [setObj_cfg, setObj_fac]
  by_cases hd : s.cfg.doCache = true <;> simp only [hd, ↓reduceIte] <;> rfl

theorem rep_construct (w : GW) (c c' : Cls) (h : Rep w.s c') : Rep (w.construct c).s c' := by
  obtain ⟨a, b, d⟩ := h
  refine ⟨a, b, ?_⟩
  intro e he
  have := d e he
  simp only [GW.construct, upd]
  split <;> simp_all

/-- the state `cls.__new__` / `cls(_SO_fetch_no_create=1)` + `self.id = k` leave is the model's `alloc` -/
theorem construct_setId (w : GW) (c : Cls) (k : Id) (e : Bool) :
    setObj (w.construct c).s w.s.n { cls := c, id := k, held := true, dead := false, obsolete := false, expired := e } =
      alloc w.s c k e := by
  simp [GW.construct, setObj, alloc, upd_upd]

/-- `_SO_finishCreate` (entered from `__init__`/`_create` on the instance `cls(…)` just allocated) = the hand
    model's `create` step: a duplicate id raises and registers nothing; otherwise the final state is exactly
    `insertEntry (tick (alloc s1 c k false) c) c k h` -/
theorem finishCreateG_model (w : GW) (c : Cls) (ko : Option Id) (hwf : w.WF) (hl : w.lock c = false)
    (hfr : w.s.cfg.cullFraction ≠ 0) (hrep : Rep w.s c)
    (hk : ahasKey (ko.getD (w.s.maxId c + 1)) (w.s.fac c).strong = false) :
    finishCreateG (w.construct c) w.s.n (idArg ko) =
      match step w.s (.create c ko) with
      | (s', .obj _) => .ret { w.construct c with s := s', made := addMade w.made c } .none
      | (_, _) => .exc (w.construct c) .duplicate := by
  have hc : ((w.construct c).s.obj w.s.n).cls = c := by simp [GW.construct]
  have := finishCreateG_eq (w.construct c) w.s.n ko (WF_congr hwf rfl rfl rfl) (by rw [hc]; exact hl)
    hfr (by rw [hc]; exact rep_construct w c c hrep) (by rw [hc]; exact hk)
  rw [this]
  simp only [hc, step]
  have hrows : (w.construct c).s.rows = w.s.rows := rfl
  have hmax : (w.construct c).s.maxId = w.s.maxId := rfl
  rw [hrows, hmax]
  generalize ko.getD (w.s.maxId c + 1) = k
  by_cases hr : k ∈ w.s.rows c
  · have hr' : (w.s.rows c).contains k = true := by simpa using hr
    simp only [hr, hr', if_true]
    congr 1
    simp [GW.construct, upd_upd]
  · have hr' : (w.s.rows c).contains k = false := by simpa using hr
    simp only [hr, hr', if_false]
    have ha : alloc { w.s with rows := upd w.s.rows c (w.s.rows c ++ [k]), maxId := upd w.s.maxId c (max (w.s.maxId c) k) } c k false =
        setObj { (w.construct c).s with rows := upd w.s.rows c (w.s.rows c ++ [k]), maxId := upd w.s.maxId c (max (w.s.maxId c) k) }
          w.s.n { cls := c, id := k, held := true, dead := false, obsolete := false, expired := false } := by
      simp [alloc, setObj, GW.construct, upd_upd]
    rw [ha]
    have hb := tick_setId { (w.construct c).s with rows := upd w.s.rows c (w.s.rows c ++ [k]), maxId := upd w.s.maxId c (max (w.s.maxId c) k) } c w.s.n k
    have hobj : (w.construct c).s.obj w.s.n = { cls := c, id := 0, held := true, dead := false, obsolete := false, expired := false } := by
      simp [GW.construct]
    simp only [hobj] at hb
    rw [hb, insertEntry_setObj]
    simp [GW.construct, upd_upd]

/-- under the invariant, the strong entry filed under a held, live instance's id is that instance: dropping it
    does not kill anything on the spot -/
theorem hrel_of_inv {s : State} (hi : CInv s) {h : Handle} (hn : h < s.n) (hh : (s.obj h).held = true)
    (ho : (s.obj h).obsolete = false) :
    ∀ e ∈ (s.fac (s.obj h).cls).strong, e.1 = (s.obj h).id → relOf s e.2 = false := by
  intro e he hek
  have hent := hi.hcached h hn (by simp) hh ho
  have : e.2 = h := by
    rcases hent with a | a
    · exact hi.funS _ _ _ _ (by rw [← hek]; exact he) a
    · have := hi.disj _ _ _ _ (by rw [← hek]; exact he) a
      rw [hi.hlive h hn hh] at this; cases this
  simp [relOf, this, hh]

/-- the tail of `destroySelf` = the hand model's `destroy` step -/
theorem destroyTailG_model (w : GW) (h : Handle) (hu : usable w.s h = true) (hwf : w.WF)
    (hl : w.lock (w.s.obj h).cls = false)
    (hnc : w.s.cfg.doCache = false → (w.s.fac (w.s.obj h).cls).strong = [])
    (hrel : ∀ e ∈ (w.s.fac (w.s.obj h).cls).strong, e.1 = (w.s.obj h).id → relOf w.s e.2 = false) :
    destroyTailG w h = .ret { w with s := (step w.s (.destroy h)).1 } .none := by
  rw [destroyTailG_eq w h hwf hl hnc hrel]
  simp [step, hu]

/-- `inst.expire()` = the hand model's `expire` step -/
theorem expireG_model (w : GW) (h : Handle) (hu : usable w.s h = true) (hwf : w.WF)
    (hl : w.lock (w.s.obj h).cls = false) (hwl : w.wlock h = false)
    (hnc : w.s.cfg.doCache = false → (w.s.fac (w.s.obj h).cls).strong = [])
    (hrel : ∀ e ∈ (w.s.fac (w.s.obj h).cls).strong, e.1 = (w.s.obj h).id → relOf w.s e.2 = false) :
    expireG w h = .ret { w with s := (step w.s (.expire h)).1, dirty := upd w.dirty h false } .none := by
  rw [expireG_eq w h hwf hl hwl hnc hrel]
  simp [step, hu, expireOne]

theorem tryGet_alloc (s : State) (c c' : Cls) (k k' : Id) (e : Bool) (hlt : ∀ x, Ent s c x → x.2 < s.n) :
    tryGet (alloc s c' k' e) c k = tryGet s c k := by
  have hf : (alloc s c' k' e).fac = s.fac := rfl
  have hc : (alloc s c' k' e).cfg = s.cfg := rfl
  unfold tryGet
  rw [hf, hc]
  simp only []
  cases hw : aget k (s.fac c).weak with
  | none => rfl
  | some x =>
    have : x < s.n := hlt (k, x) (Or.inr (aget_some_mem hw))
    have hx : x ≠ s.n := Nat.ne_of_lt this
    have ho : (alloc s c' k' e).obj x = s.obj x := by simp [alloc, upd, hx]
    simp only []
    rw [ho]

/-- `__setstate__` (on the instance `pickle` made with `cls.__new__`) = the hand model's `unpickle` step: refused
    with ValueError — nothing registered, no factory or lock touched — when `tryGet` finds an instance of the row in the
    cache, else registered by `cache.created` -/
theorem setstateG_model (w : GW) (c : Cls) (k : Id) (e : Bool) (hwf : w.WF) (hl : w.lock c = false)
    (hfr : w.s.cfg.cullFraction ≠ 0) (hrep : Rep w.s c)
    (hnc : w.s.cfg.doCache = false → (w.s.fac c).strong = [])
    (hlt : ∀ x, Ent w.s c x → x.2 < w.s.n) :
    setstateG (w.construct c) w.s.n (Vpickle k e) =
      match tryGet w.s c k with
      | some _ => .exc { w.construct c with s := alloc w.s c k e } .valueError
      | none => .ret { w.construct c with s := insertEntry (tick (alloc w.s c k e) c) c k w.s.n,
                                          made := addMade w.made c } .none := by
  have hc : ((w.construct c).s.obj w.s.n).cls = c := by simp [GW.construct]
  rw [setstateG_eq (w.construct c) w.s.n k e (WF_congr hwf rfl rfl rfl) (by rw [hc]; exact hl) hfr
    (by rw [hc]; exact rep_construct w c c hrep) (by rw [hc]; exact hnc)]
  have hobj : (w.construct c).s.obj w.s.n = { cls := c, id := 0, held := true, dead := false, obsolete := false, expired := false } := by
    simp [GW.construct]
  simp only [hobj, construct_setId, tryGet_alloc _ _ _ _ _ _ hlt]
  cases tryGet w.s c k <;> simp [GW.construct, upd_upd]

/-- per-class dispatch of the `CacheSet`: whatever `get` / `put` / `created` / `expire` do for class `c`, the
    factory and the lock of every other class — in particular an entry filed under the same id — stay as they are -/
theorem cacheSet_dispatch (w : GW) (c c' : Cls) (k : Id) (h : Handle) (hne : c' ≠ c) (hwf : w.WF)
    (hl : w.lock c = false) (hfr : w.s.cfg.cullFraction ≠ 0) (hrep : Rep w.s c)
    (hnc : w.s.cfg.doCache = false → (w.s.fac c).strong = [])
    (hk : ahasKey k (w.s.fac c).strong = false) :
    (∃ W v, csCall w "get" [.key k, .cls c] = .ret W v ∧ W.s.fac c' = w.s.fac c' ∧ W.lock c' = w.lock c') ∧
    (∃ W v, csCall w "created" [.key k, .cls c, .obj h] = .ret W v ∧ W.s.fac c' = w.s.fac c' ∧ W.lock c' = w.lock c') ∧
    (c ∈ w.made → ∃ W v, csCall w "put" [.key k, .cls c, .obj h] = .ret W v ∧ W.s.fac c' = w.s.fac c' ∧ W.lock c' = w.lock c') ∧
    (∃ W v, csCall w "expire" [.key k, .cls c] = .ret W v ∧ W.s.fac c' = w.s.fac c' ∧ W.lock c' = w.lock c') ∧
    (csCall w "tryGet" [.key k, .cls c'] = .ret w (optV (tryGet w.s c' k))) := by
  refine ⟨?_, ?_, ?_, ?_, csTryGet_eq w c' k hwf⟩
  · refine ⟨_, _, csGet_eq w c k hwf hl hfr hrep, ?_, ?_⟩
    · exact ((local_tick w.s c).trans (local_lookup _ c k)).fac c' hne
    · simp [upd, hne]
  · refine ⟨_, _, csCreated_fresh w c k h hwf hl hfr hrep hk, ?_, rfl⟩
    exact ((local_tick w.s c).trans (local_insert _ c k h)).fac c' hne
  · intro hc
    exact ⟨_, _, csPut_fresh w c k h hc hk, (local_insert w.s c k h).fac c' hne, rfl⟩
  · refine ⟨_, _, csExpire_eq w c k hwf hl hnc ?_, (local_purge w.s c k).fac c' hne, rfl⟩
    intro e he hek
    have : ahasKey k (w.s.fac c).strong = true := (ahasKey_iff k _).2 ⟨e.2, by rw [← hek]; exact he⟩
    rw [hk] at this; cases this

end SqlObjVerif.Cache
