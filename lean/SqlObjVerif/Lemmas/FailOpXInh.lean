import SqlObjVerif.Model.FailOpXInh
import SqlObjVerif.Lemmas.FailInhXT
import SqlObjVerif.Lemmas.PyFailFrame
/-!
C06: `stepXInh` (the COMPOSED translated programs of `.createChain` / `.createChild` under a schedule,
`Model/FailOpXInh.lean`) = `Fail.step` (the hand tree `Fail.createInh` under the same schedule), whole `Fail.St`, for
every schema, state, tied operation and schedule (`stepXInh_eq_model`, from
`C06_translated_inheritable_create_composed_app_eq_model`); the frame of its result (`stepXInh_frame`); closed examples
on the witness `W5` of `Props/C06.lean` and on a three-level chain whose middle level has a defaulted column.
-/
set_option linter.unusedSimpArgs false
namespace SqlObjVerif.Fail.InhX

/-! ### the checks do not read the fuel and the schedule of the context -/

theorem levelsOf_ctxB (sch : Schema) (levels : List (Nat × List (Nat × In))) (f : Nat) (i : Option Inj)
    (es : List (PVal × PVal)) : ∀ (L : List Nat) (tag : Option Nat),
    levelsOf (ctxB sch levels f i) L es tag = levelsOf (ctxB sch levels 0 none) L es tag := by
  intro L
  induction L with
  | nil => intro _; rfl
  | cons c L ih =>
    intro tag
    simp only [levelsOf, ih]
    rfl

theorem levelsOk_ctxB (sch : Schema) (levels : List (Nat × List (Nat × In))) (f : Nat) (i : Option Inj) (T : Tr)
    (es : List (PVal × PVal)) : ∀ (L : List Nat) (tag : Option Nat),
    LevelsOk (ctxB sch levels 0 none) T L es tag → LevelsOk (ctxB sch levels f i) T L es tag := by
  intro L
  induction L with
  | nil => intro _ _; trivial
  | cons c L ih => intro tag h; exact ⟨h.1, ih (some c) h.2⟩

theorem required_of_reqB (X : Ctx) (L : List Nat) (es : List (PVal × PVal)) (h : reqB X L es = true) : Required X L es := by
  intro c hc hp j hj hd
  simp only [reqB, List.all_eq_true] at h
  have h1 := h c hc
  simp only [Bool.or_eq_true, List.all_eq_true, List.mem_range, Bool.not_eq_eq_eq_not, Bool.not_true,
    List.any_eq_true, beq_iff_eq] at h1
  rcases h1 with h1 | h1
  · exact absurd (Option.isNone_iff_eq_none.mp h1) hp
  · rcases h1 j hj with h2 | ⟨e, he, hk⟩
    · rw [hd] at h2; cases h2
    · exact ⟨e.2, by rw [← hk]; exact he⟩

theorem chain_of_chainB (sch : Schema) : ∀ L : List Nat, chainB sch L = true → Chain sch L := by
  intro L
  induction L with
  | nil => intro _; trivial
  | cons c L ih =>
    intro h
    cases L with
    | nil => simpa [chainB, Chain] using h
    | cons p L =>
      simp only [chainB, Bool.and_eq_true, decide_eq_true_eq] at h
      exact ⟨h.1, ih h.2⟩

/-- the hand model's program of the operation is `createInh` on its levels -/
theorem progOf_levelsOp (sch : Schema) (s0 : St) (op : Op) (h : isInhOp op = true) :
    progOf sch s0 op = createInh sch (fuelOf s0) (levelsOp sch op) fun _ => .done := by
  cases op <;> simp [isInhOp] at h
  · rename_i c pkw ckw
    simp only [progOf, levelsOp]
    cases hp : (clsOf sch c).parent with
    | none => simp only [createInh]
    | some p => rfl
  · rfl

end SqlObjVerif.Fail.InhX

namespace SqlObjVerif.Fail
open SqlObjVerif.Fail.InhX

/-- **`createChild` / `createChain`, translated = hand model.**  For every schema, state, tied operation and schedule:
    the composed translated programs (`InheritableSQLObject._create` → constructor of the parent class → … ;
    `SQLObject._create` → `set` → `_SO_finishCreate`; the clean-up `destroySelf`) end with the error and in the state
    (ALL of `Fail.St`, ghost counter included) of `Fail.step`. -/
theorem stepXInh_eq_model (sch : Schema) (s : St) (op : Op) (inj : Option Inj) (hT : TiedInh sch s op) :
    stepXInh sch s op inj = some (step sch s op inj) := by
  obtain ⟨hop, hne, hch, hnd, hreq, hok, hlev, hkeys⟩ := hT
  unfold stepXInh step
  simp only [hop, if_true]
  rw [progOf_levelsOp sch _ op hop]
  generalize hL : levelsOp sch op = levels at *
  cases hcl : levels.map (·.1) with
  | nil => cases levels <;> simp at hcl hne
  | cons c rest =>
    rw [hcl] at hch hreq hok hlev hkeys
    have hlen : levels.length = (c :: rest).length := by rw [← hcl, List.length_map]
    have := C06_translated_inheritable_create_composed_app_eq_model
      (ctxB sch levels (fuelOf { s with n := 0, log := [] }) inj) (trB sch levels) (ctxOf_agrees _ _ _ _ _ _ _)
      (fun c h => by
        show (clsOf sch c).parent.isSome = true
        cases hp : (clsOf sch c).parent with
        | none => exact absurd hp h
        | some p => rfl)
      { st := { s with n := 0, log := [] }, par := fun _ => .none } c rest (esB sch levels)
      (chain_of_chainB sch _ hch) (by show (c :: rest).length ≤ levels.length; omega) hnd
      (required_of_reqB _ _ _ hreq) (levelsOk_ctxB sch levels _ inj _ _ _ none hok)
      (fun e he => (List.all_eq_true.mp hkeys) e he) (c :: rest).length (Nat.le_refl _)
    show outOf _ = _
    rw [this, levelsOf_ctxB, hlev]
    rfl

/-- the state the composed translated run ends in is a frame successor of the state it started from: the ghost
    counter never decreases, and if it did not move, tables / instances / registrations did not change -/
theorem stepXInh_frame (sch : Schema) (s : St) (op : Op) (inj : Option Inj) (hT : TiedInh sch s op)
    (s' : St) (r : Option Err) (h : stepXInh sch s op inj = some (s', r)) :
    PyFail.Fr { s with n := 0, log := [] } s' := by
  rw [stepXInh_eq_model sch s op inj hT] at h
  simp only [Option.some.injEq] at h
  exact Fail.run_frame sch inj _ _ s' r h

end SqlObjVerif.Fail

/-! ### closed examples -/
namespace SqlObjVerif.Fail.InhX

/-- the witness `W5` (`Props/C06.lean`, `C06_inheritable_create_full_FALSE`) is a tied operation … -/
example : TiedInh W5sch (St.empty W5sch 0) W5op := by decide +kernel

/-- … and the composed translated run gives the damaged tables: a database error at statement 2 (the parent's read-back)
    leaves an orphan parent row; at statement 4 (the child's read-back) the clean-up deletes the parent row and the child
    row stays; an interrupt at statement 3 is cleaned up; without fault both rows are there -/
example :
    (stepXInh W5sch (St.empty W5sch 0) W5op (some ⟨2, .operational⟩)).map (fun p => (p.1.core.tabs, p.2)) =
      some ([[⟨1, [some 1, some 1]⟩], []], some .operational) ∧
    (stepXInh W5sch (St.empty W5sch 0) W5op (some ⟨4, .operational⟩)).map (fun p => (p.1.core.tabs, p.2)) =
      some ([[], [⟨1, [some 1, none]⟩]], some .operational) ∧
    (stepXInh W5sch (St.empty W5sch 0) W5op (some ⟨3, .interrupt⟩)).map (fun p => (p.1.core, p.2)) =
      some ((St.empty W5sch 0).core, some .interrupt) ∧
    (stepXInh W5sch (St.empty W5sch 0) W5op none).map (fun p => (p.1.core.tabs, p.2)) =
      some ([[⟨1, [some 1, some 1]⟩], [⟨1, [some 1, none]⟩]], none) := by decide +kernel

/-- the whole state agrees with `Fail.step` on the witness (also a consequence of `stepXInh_eq_model`) -/
example : obs (stepXInh W5sch (St.empty W5sch 0) W5op (some ⟨4, .operational⟩)) =
    obs (some (step W5sch (St.empty W5sch 0) W5op (some ⟨4, .operational⟩))) := by decide +kernel

/-- three levels, the middle one reads "given, `childName`, defaulted column" (the harness's shape) -/
def sch3 : Schema :=
  [{ cols := [{ unique := true }, {}] }, { cols := [{ unique := true }, {}, {}], parent := some 0 },
   { cols := [{ unique := true }], parent := some 1 }]
def op3 : Op :=
  .createChain [(2, [(0, .ok (some 5))]), (1, [(0, .ok (some 2)), (2, .ok (some 2)), (1, .ok none)]),
    (0, [(0, .ok (some 2)), (1, .ok (some 1))])]
def st3 : St :=
  { St.empty sch3 0 with core := { (St.empty sch3 0).core with tabs := [[], [], [⟨7, [some 5]⟩]] } }

example : TiedInh sch3 st3 op3 := by decide +kernel
/-- a duplicate key at the leaf's INSERT: the rows of both ancestors are removed again -/
example : (stepXInh sch3 st3 op3 none).map (fun p => (p.1.core.tabs, p.2)) =
    some ([[], [], [⟨7, [some 5]⟩]], some .duplicate) := by decide +kernel
example : (stepXInh sch3 (St.empty sch3 0) op3 none).map (fun p => (p.1.core.tabs, p.2)) =
    some ([[⟨1, [some 2, some 1]⟩], [⟨1, [some 2, none, some 2]⟩], [⟨1, [some 5]⟩]], none) := by decide +kernel
/-- `.createChild` of a class without parent is the plain create -/
example : TiedInh W5sch (St.empty W5sch 0) (.createChild 0 [] [(0, .ok (some 1)), (1, .ok none)]) ∧
    (stepXInh W5sch (St.empty W5sch 0) (.createChild 0 [] [(0, .ok (some 1)), (1, .ok none)]) none).map
      (fun p => (p.1.core.tabs, p.2)) = some ([[⟨1, [some 1, none]⟩], []], none) := by decide +kernel
/-- not tied: a keyword of the middle level out of range -/
example : ¬ TiedInh sch3 st3 (.createChain [(2, [(0, .ok (some 5))]), (1, [(7, .ok (some 2)), (2, .ok (some 2))]),
    (0, [(0, .ok (some 2)), (1, .ok (some 1))])]) := by decide +kernel

end SqlObjVerif.Fail.InhX
