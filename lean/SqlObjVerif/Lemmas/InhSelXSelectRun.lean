import SqlObjVerif.Lemmas.InhSelXPatchEq
import SqlObjVerif.Lemmas.InhSelXInit
/-!
Symbolic execution of the TRANSLATED `InheritableSQLObject.select`, one class level: the application's call (TRUE clause /
a clause, patched by the nested functions) and the delegated call (`childUpdate=False`), at a subclass and at a root.
-/
set_option linter.unusedSimpArgs false
namespace SqlObjVerif.InhSel
open SqlObjVerif.PyIS
open SqlObjVerif.PyIS.Extracted
open SqlObjVerif.Inherit hiding Val Res Cmp Out

@[simp] theorem cIface_self (X : SCtx) (sel) (n : Nat) (s : SVal) : (cIface X sel n s).self = s := rfl
@[simp] theorem cIface_attrOf (X : SCtx) (sel) (n : Nat) (s : SVal) : (cIface X sel n s).attrOf = cAttrOf X := rfl
@[simp] theorem cIface_global (X : SCtx) (sel) (n : Nat) (s : SVal) : (cIface X sel n s).global = sGlobal := rfl
@[simp] theorem cIface_isinstance (X : SCtx) (sel) (n : Nat) (s : SVal) (w : SW) :
    (cIface X sel n s).isinstance w = vIsinstance := rfl
@[simp] theorem cIface_call (X : SCtx) (sel) (n : Nat) (s : SVal) : (cIface X sel n s).call = cCall sel := rfl
@[simp] theorem cIface_super (X : SCtx) (sel) (n : Nat) (s : SVal) : (cIface X sel n s).super = cSuper X s := rfl
@[simp] theorem cIface_proc (X : SCtx) (sel) (n : Nat) (s : SVal) : (cIface X sel n s).proc = cProc n := rfl
@[simp] theorem cIface_updVal (X : SCtx) (sel) (n : Nat) (s : SVal) : (cIface X sel n s).updVal = vUpd := rfl

/-- the keywords of a delegated call: `childUpdate=False` added -/
def kwDeleg (oc : Option Nat) : SVal := vdSet (.str "childUpdate") (.bool false) (opsOf oc)

/-- how `select` ends at the root: `SQLObject.select` = the translated constructor, the new select object is returned -/
def selFin (X : SCtx) (w : SW) (r : Nat) (cl : SVal) (oc : Option Nat) : CallRes SW :=
  match selInitX X w r cl (opsOf oc) with
  | .ret w' _ => .ret w' (.ref 10 0)
  | r => r

macro "csrun" "[" ts:Lean.Parser.Tactic.simpLemma,* "]" : tactic => `(tactic|
  simp [PyIS.run, Block.exec, Stmt.exec, Cond.eval, Expr.eval, Expr.evalList, eval2, evalArgs, evalArgsV, evalStar,
        St.setVar, St.setOpt, afterCall, Res.toCall, zipKw, withList, Place.read, Place.write, Env.ofArgs, cAttrOf, sAttrOf,
        sGlobal, vIsinstance, sIsinstance, isStr, cCall, cSuper, Val.isNone, eqVal, andVal, opsOf, kwDeleg, vdGet, vdSet,
        vdDel, isListVal, Val.toList, $ts,*])

/-- a delegated call (`childUpdate=False`) at a class with a parent: passed on unchanged -/
theorem selectX_deleg_parent (X : SCtx) (sel) (n : Nat) (w : SW) (c p : Nat) (cl : SVal) (oc : Option Nat)
    (hp : X.T.parent c = some p) :
    selectX X sel n w c cl (kwDeleg oc) = sel w p cl (kwDeleg oc) := by
  unfold selectX selectProg
  cases oc <;> csrun [hp] <;> (generalize sel _ _ _ _ = r; cases r <;> simp)

/-- … and at a root class: `SQLObject.select` -/
theorem selectX_deleg_root (X : SCtx) (sel) (n : Nat) (w : SW) (c : Nat) (cl : SVal) (oc : Option Nat)
    (hp : X.T.parent c = none) :
    selectX X sel n w c cl (kwDeleg oc) = selFin X w c cl oc := by
  unfold selectX selectProg selFin
  cases oc <;> csrun [hp] <;> (generalize selInitX _ _ _ _ _ = r; cases r <;> simp)

/-- the application's call on a root class -/
theorem selectX_app_root (X : SCtx) (sel) (n : Nat) (w : SW) (c : Nat) (cl : SVal) (oc : Option Nat)
    (hp : X.T.parent c = none) :
    selectX X sel n w c cl (opsOf oc) = selFin X w c cl oc := by
  unfold selectX selectProg selFin
  cases oc <;> csrun [hp] <;> (generalize selInitX _ _ _ _ _ = r; cases r <;> simp)

/-- the application's call on a subclass, TRUE clause: the `childName` test alone is handed to the parent class -/
theorem selectX_app_true (X : SCtx) (sel) (n : Nat) (w : SW) (c p : Nat) (cl : SVal) (oc : Option Nat)
    (hp : X.T.parent c = some p) (hcl : cl = .none ∨ cl = .sql .tt ∨ cl = .str "all") :
    selectX X sel n w c cl (opsOf oc) = sel w p (.sql (.kind p c)) (kwDeleg oc) := by
  unfold selectX selectProg
  rcases hcl with rfl | rfl | rfl <;> cases oc <;> csrun [hp] <;> (generalize sel _ _ _ _ = r; cases r <;> simp)

/-- the application's call on a subclass with a clause: patched in place, `AND childName test`, handed to the parent -/
theorem selectX_app_clause (X : SCtx) (sel) (n : Nat) (w : SW) (c p : Nat) (e : Sql) (oc : Option Nat)
    (hp : X.T.parent c = some p) (he : e ≠ .tt)
    (hP : cProc n "_patch_id_clause" [.sql e, .fldId c, .fldId p] = .ok (.sql (patchSql c p e), .none)) :
    selectX X sel n w c (.sql e) (opsOf oc) = sel w p (.sql (.and (patchSql c p e) (.kind p c))) (kwDeleg oc) := by
  unfold selectX selectProg
  have he' : ¬ (Val.sql e = Val.sql .tt) := by intro h; injection h with h; exact he h
  cases oc <;> csrun [hp, he', he, hP] <;> (generalize sel _ _ _ _ = r; cases r <;> simp)

end SqlObjVerif.InhSel
