import SqlObjVerif.Lemmas.EvMainXLoops
/-!
C19 translator tie, part 4: the eager branch of the translated `set` below its `RowUpdateSignal`.
-/
namespace SqlObjVerif.Events
open SqlObjVerif.PyEv
open SqlObjVerif.PyEv.Extracted
open SqlObjVerif.PyMain (R mapR ofOpt dget dhas dset dupdate dictOf sortByKey insByKey Exc FnKind)

theorem itemsOf_kwPV (l : Kw) : itemsOf (kwPV l) = l.map fun e => PV.pair (.name e.1) (ofVal e.2) := by
  simp [itemsOf]

theorem for4_loop' {ops : Ops} {call : Calls} {rest done : Kw} {st : St} {r : Res}
    (hF : forLoop (bindThen (.two 3 4) fun st' => Block.exec ops call st' set_for4)
      (rest.map fun e => PV.pair (.name e.1) (ofVal e.2)) st = r)
    (h2 : st.dicts 2 = some (kwPV done)) (h3 : st.dicts 3 = some (kwPV done)) (hc : ∀ e ∈ rest, e.1 < st.w.c.ncols)
    (hnd : ((done ++ rest).map (·.1)).Nodup) :
    (rest.any (fun e => decide (e.2 = .bad)) = false →
      ∃ st', r = .norm st'
        ∧ st'.w = st.w ∧ st'.lists = st.lists ∧ st'.dicts 2 = some (kwPV (done ++ rest)) ∧ st'.dicts 3 = some (kwPV (done ++ rest))
        ∧ (∀ y, y ≠ 2 → y ≠ 3 → st'.dicts y = st.dicts y) ∧ (∀ y, y < 3 ∨ 7 < y → st'.vars y = st.vars y))
    ∧ (rest.any (fun e => decide (e.2 = .bad)) = true → ∃ st', r = .exc st' .invalid ∧ st'.w = st.w) := by
  rw [← itemsOf_kwPV] at hF
  subst hF
  exact for4_loop rest done st h2 h3 hc hnd

theorem extra_loop' {ops : Ops} {call : Calls} {body : Block} {extra : Kw} {st : St} {r : Res}
    (hF : forLoop (bindThen (.two 3 4) fun st' => Block.exec ops call st' body)
      (extra.map fun e => PV.pair (.name e.1) (ofVal e.2)) st = r) (hbody : body = set_for5)
    (hx : ∀ e ∈ extra, ¬ e.1 < st.w.c.ncols) :
    (extra = [] → r = .norm st) ∧ (extra ≠ [] → ∃ st', r = .exc st' .typeError ∧ st'.w = st.w) := by
  rw [← itemsOf_kwPV] at hF
  subst hF
  exact extra_loop hbody extra st hx

theorem cache_loop' {ops : Ops} {call : Calls} {body : Block} {xs : Kw} {st : St} {r : Res}
    (hF : forLoop (bindThen (.two 3 4) fun st' => Block.exec ops call st' body)
      (xs.map fun e => PV.pair (.name e.1) (ofVal e.2)) st = r)
    (hbody : body = .cons (.setattrSelf (.instName (.var 3)) (.var 4)) .nil) :
    ∃ st' vals', r = .norm st'
      ∧ st'.w = { st.w with o := { st.w.o with vals := vals' } } ∧ st'.lists = st.lists ∧ st'.dicts = st.dicts
      ∧ (∀ y, y ≠ 3 → y ≠ 4 → st'.vars y = st.vars y) := by
  rw [← itemsOf_kwPV] at hF
  subst hF
  exact cache_loop hbody xs st

theorem extraOf_ge (n : Nat) (kw : Kw) : ∀ e ∈ extraOf n kw, ¬ e.1 < n := by
  intro e he hlt
  have := (List.mem_filter.mp he).2
  rw [blt_true hlt] at this
  simp at this

theorem colVec_sorted_cols (n : Nat) (kw : Kw) (hnd : (kw.map (·.1)).Nodup) :
    colVec n (sortByKey (colsOf n kw)) = colVec n kw := by
  have := colVec_sortByKey n (colsOf n kw) (keys_filter_nodup _ _ hnd)
  rw [this, colVec_colsOf]

def tailOf : Block → Block
  | .cons _ r => r
  | .nil => .nil

/-- what the eager branch of `set` (below its `RowUpdateSignal`) leaves -/
def eagerOut (w : World) (i : Nat) (kw : Kw) (vals' : Nat → Option Val) : Outcome :=
  if (colsOf w.c.ncols kw).any (fun e => decide (e.2 = .bad)) then .exc w .invalid
  else if !(extraOf w.c.ncols kw).isEmpty then .exc w .typeError
  else .ret { w with
      o := { w.o with vals := vals' },
      rows := if (colsOf w.c.ncols kw).isEmpty then w.rows else updRows w.rows i (colVec w.c.ncols kw),
      log := w.log ++ tagLog w.lvl ((if (colsOf w.c.ncols kw).isEmpty then [] else [Entry.upd i (colVec w.c.ncols kw)])
              ++ afterUpdate w.c i) } .none

theorem set_tail_eager (fuel : Nat) (st : St) (kw : Kw) (i : Nat) (h0 : st.dicts 0 = some (kwPV kw))
    (hnd : (kw.map (·.1)).Nodup) (hcr : st.w.o.creating = false) (hlz : st.w.c.lazy = false) (hlk : st.w.o.lock = false)
    (hid : st.w.o.id = some i) :
    ∃ vals', (Block.exec (evOps fuel) noCalls st (tailOf setProg)).toOutcome = eagerOut st.w i kw vals' := by
  obtain ⟨⟨c, lvl, rows, nextId, ⟨id, vals, cv, creating, dirty, obsolete, sup, lock⟩, postponed, log⟩, vars, lists, dicts⟩ := st
  simp only at h0 hcr hlz hlk hid
  subst hcr hlk hid
  simp only [setProg, tailOf, Block.exec]
  rw [filter_stmt_extra _ _ kw h0 hnd]
  simp only [seq_norm]
  rw [filter_stmt_cols _ _ kw (by simpa using h0) hnd]
  simp only [seq_norm]
  evwith [hlz]
  generalize hF : forLoop _ _ _ = r
  obtain ⟨hok, hbad⟩ := for4_loop' hF (done := []) (by simp) (by simp) (colsOf_lt _ _)
    (by simp only [List.nil_append]; exact keys_filter_nodup _ _ hnd)
  clear hF
  cases hany : (colsOf c.ncols kw).any (fun e => decide (e.2 = .bad))
  · obtain ⟨st', rfl, hw, hl, h2, h3, hd, hv⟩ := hok hany
    have e1 : st'.dicts 1 = some (kwPV (extraOf c.ncols kw)) := by rw [hd 1 (by decide) (by decide)]; simp
    simp only [List.nil_append] at h2 h3 hw hl hd hv
    evwith [e1]
    generalize hF : forLoop _ _ _ = r
    obtain ⟨hx0, hx1⟩ := extra_loop' hF rfl (by rw [hw]; exact extraOf_ge _ _)
    clear hF
    by_cases hex : extraOf c.ncols kw = []
    · have := hx0 hex; subst this
      evwith [h3, hw]
      generalize hU : (if colsOf c.ncols kw = [] then Res.norm st' else _) = u
      have hu : ∃ st2, u = .norm st2 ∧ st2.dicts = st'.dicts ∧ st2.w =
          { c := c, lvl := lvl,
            rows := if (colsOf c.ncols kw).isEmpty then rows else updRows rows i (colVec c.ncols kw),
            nextId := nextId,
            o := { id := some i, vals := vals, cv := cv, creating := false, dirty := dirty, obsolete := obsolete,
                   sigSuppress := sup, lock := true },
            postponed := postponed,
            log := log ++ tagLog lvl (if (colsOf c.ncols kw).isEmpty then [] else [Entry.upd i (colVec c.ncols kw)]) } := by
        subst hU
        by_cases hce : colsOf c.ncols kw = []
        · simp only [hce, if_true]
          exact ⟨st', rfl, rfl, by rw [hw]; simp [tagLog]⟩
        · simp only [hce, if_false]
          generalize hM : mapR _ (colsOf c.ncols kw) = m
          have hm := mapR_ok_of hM (fun e => (e.1, PV.pair (.name e.1) (ofVal e.2))) (by
            intro x hx
            have := colsOf_lt _ _ x hx
            simp [this])
          subst hm
          clear hM
          simp only [bind_ok, sortByKey_map, List.map_map]
          evwith []
          generalize hM : mapR _ (sortByKey (colsOf c.ncols kw)) = m
          have hm := mapR_ok_of hM (fun e => PV.pair (.dbName e.1) (ofVal e.2)) (by
            intro x hx
            have := colsOf_lt _ _ x (by rw [← mem_sortByKey]; exact hx)
            evwith [this])
          subst hm
          clear hM
          evwith []
          simp [vecOfPairs_eq, colVec_sorted_cols _ _ hnd, hce]
      obtain ⟨st2, rfl, hd2, hw2⟩ := hu
      clear hU
      have e2 : st2.dicts 2 = some (kwPV (colsOf c.ncols kw)) := by rw [hd2]; exact h2
      evwith [hw2, e2]
      generalize hC : (if c.cacheValues = true then _ else Res.norm st2) = u
      have hu : ∃ st3 vals3, u = .norm st3 ∧ st3.lists = st2.lists ∧ st3.w = { st2.w with o := { st2.w.o with vals := vals3 } } := by
        subst hC
        cases c.cacheValues
        · exact ⟨st2, st2.w.o.vals, by simp, rfl, rfl⟩
        · simp only [if_true]
          generalize hF : forLoop _ _ _ = r
          obtain ⟨st3, vals3, rfl, hw3, hl3, -, -⟩ := cache_loop' hF rfl
          exact ⟨st3, vals3, by simp, hl3, hw3⟩
      obtain ⟨st3, vals3, rfl, hl3, hw3⟩ := hu
      clear hC
      rw [hw2] at hw3
      evwith [hw3]
      generalize hF : forLoop _ _ _ = r
      obtain ⟨vs', rfl, -⟩ := post_loop' hF rfl i rfl
      clear hF
      refine ⟨vals3, ?_⟩
      simp [eagerOut, hany, hex, afterUpdate, tagLog, Function.comp_def]
    · obtain ⟨st1, rfl, hw1⟩ := hx1 hex
      evwith [hw1, hw]
      exact ⟨vals, by simp [eagerOut, hany, hex]⟩
  · obtain ⟨st', rfl, hw⟩ := hbad hany
    evwith [hw]
    exact ⟨vals, by simp [eagerOut, hany]⟩

end SqlObjVerif.Events
