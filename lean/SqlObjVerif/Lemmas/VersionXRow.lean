import SqlObjVerif.Lemmas.VersionX
/-!
The translated `Versioning.rowUpdate` (PyVersion program regenerated from /repo on every run) is the snapshot step of
the hand model's `vUpdateVec`: `rowUpdateX_eq`; `vUpdateVec_eq_setRest` splits `vUpdateVec` into that step and the rest
of `SQLObject.set`.
-/
namespace SqlObjVerif.Version
open SqlObjVerif.Events
open SqlObjVerif.PyVer
open SqlObjVerif.PyVer.Extracted

theorem OK.notin_names (X : Ctx) (hX : X.OK) (s : String) (hs : s ∈ reserved) : s ∉ X.names := by
  intro h
  exact hX.res s (List.mem_append_left _ h) hs

theorem OK.notin_extra (X : Ctx) (hX : X.OK) (s : String) (hs : s ∈ reserved) : s ∉ X.extra := by
  intro h
  exact hX.res s (List.mem_append_right _ h) hs

/-- the hand model's update = the snapshot, then the rest of `set` -/
theorem vUpdateVec_eq_setRest (c : VCfg) (s : VState) (m : Nat) (vec : List (Option Events.Val)) (unk : Bool) :
    vUpdateVec c s m vec unk =
      match rowOf? s.masters m with
      | none => (s, .nohandle)
      | some row => setRest c (snap s m row) m row vec unk := by
  unfold vUpdateVec
  cases rowOf? s.masters m with
  | none => rfl
  | some row => rfl

/-- the constructor of the version class applied to the snapshot dict -/
theorem xNewVersion_snapshot (X : Ctx) (hX : X.OK) (w : XW) (d m : Nat) (row : List Events.Val)
    (hlen : row.length = X.names.length) :
    xNewVersion X w d (body (colPairs X.names row ++ [("masterID", .nat m)]))
      = .ret (w.setS d (snap (w.S d) m row)) (.inst d 1 (w.S d).nextV) := by
  have hk := colPairs_keys X.names row hlen
  have hm : "masterID" ∉ (colPairs X.names row).map (·.1) := by
    rw [hk]; exact OK.notin_names X hX _ (by simp [reserved])
  have hnd : X.names.Nodup := (List.nodup_append.mp hX.nodup).1
  unfold xNewVersion
  rw [vdGet_body, lookup_append_right _ _ _ hm]
  simp only [List.lookup, BEq.rfl]
  rw [vdKeys_body]
  have hkeys : (List.map (fun p => PyVer.Val.str p.1) (colPairs X.names row ++ [("masterID", PyVer.Val.nat m)])).any
      (fun k => !(List.map PyVer.Val.str ("masterID" :: "dateArchived" :: (X.names ++ X.extra))).contains k) = false := by
    simp only [List.any_eq_false, List.mem_map]
    rintro k ⟨p, hp, rfl⟩
    simp only [List.mem_append, List.mem_singleton] at hp
    simp only [Bool.not_eq_true, Bool.not_eq_false', List.contains_eq_mem, List.mem_map, decide_eq_true_eq]
    rcases hp with hp | rfl
    · refine ⟨p.1, ?_, rfl⟩
      have : p.1 ∈ X.names := colPairs_keys_sub X.names row p.1 (List.mem_map.mpr ⟨p, hp, rfl⟩)
      simp [this]
    · exact ⟨"masterID", by simp, rfl⟩
  rw [hkeys]
  simp only [Bool.false_eq_true, if_false]
  have hvals : (List.range X.names.length).map (fun k =>
      ((vdGet (.str (X.names.getD k "")) (body (colPairs X.names row ++ [("masterID", PyVer.Val.nat m)]))).map dec).getD (X.c.dflt k)) = row := by
    have h1 := lookup_colPairs X.names hnd row hlen
    apply List.ext_getElem
    · simp [hlen]
    · intro k h1' h2'
      simp only [List.length_map, List.length_range] at h1'
      have hkn : X.names.getD k "" = X.names[k] := by simp [List.getD, h1']
      have hmem : X.names[k] ∈ (colPairs X.names row).map (·.1) := by rw [hk]; exact List.getElem_mem _
      simp only [List.getElem_map, List.getElem_range, hkn, vdGet_body, lookup_append_left _ _ _ hmem]
      have h3 := congrArg (fun l => l[k]?) h1
      simp only [List.getElem?_map, List.getElem?_eq_getElem h1', List.getElem?_eq_getElem h2', Option.map_some,
        Option.some.injEq] at h3
      rw [h3]; rfl
  rw [hvals]
  rfl

/-- **`Versioning.rowUpdate` as translated** appends one version row holding the values the master row has NOW, filed
    under the master's id, on the instance's connection; nothing else changes -/
theorem rowUpdateX_eq (X : Ctx) (hX : X.OK) (w : XW) (d m : Nat) (row : List Events.Val) (kwargs : PVal)
    (hr : rowOf? (w.S d).masters m = some row) (hlen : row.length = X.names.length) :
    rowUpdateX X w (.inst d 0 m) kwargs
      = .ret (w.setS d (snap (w.S d) m row)) .none [.inst d 0 m, kwargs] := by
  have hk := colPairs_keys X.names row hlen
  have hid : "id" ∉ (colPairs X.names row).map (·.1) := by
    rw [hk]; exact OK.notin_names X hX _ (by simp [reserved])
  have hm : "masterID" ∉ (colPairs X.names row).map (·.1) := by
    rw [hk]; exact OK.notin_names X hX _ (by simp [reserved])
  have h1 := vdHas_body_mid (colPairs X.names row) [] "id" (.nat m)
  have h2 := vdDel_body_mid (colPairs X.names row) [] "id" (.nat m) hid
  simp only [List.append_nil] at h2
  have h3 := vdSet_body_new (colPairs X.names row) "masterID" (.nat m) hm
  have h4 := xNewVersion_snapshot X hX w d m row hlen
  unfold rowUpdateX
  simp only [rowUpdateProg, rowUpdate_nlocals, vobj]
  vxwith [masterDict]

end SqlObjVerif.Version
