import SqlObjVerif.Model.EventsX
import SqlObjVerif.Lemmas.PyVersion
/-!
The translated `events.listen` and `sqlmeta.send` (PyVersion programs regenerated from /repo on every run) against
pydispatch as a parameter: `listenX_eq`, `sendX_eq` (the model's `deliver`).
-/

namespace SqlObjVerif.Events
open SqlObjVerif.PyVer
open SqlObjVerif.PyVer.ExtractedEvents

/-- **`events.listen` as translated**: one connection `(receiver, signal, class, weak)` is appended to the dispatcher's
    table and `(weak receiver, signal)` to the class's `subclassClones` list -/
theorem listenX_eq (w : LW) (recv cls sig also weak : PVal) :
    listenX w recv cls sig also weak = .ret (listened w recv cls sig weak) .none [recv, cls, sig, also, weak] := by
  unfold listenX listened
  simp only [listenProg, listen_nlocals]
  by_cases h : hasClones w.clones cls = true <;>
    simp [PyVer.run, Block.exec, Stmt.exec, Expr.eval, Exprs.eval, evalArgs, evalOpt, Env.get, St.setVar, St.setOpt,
      zipKw, paramsOf, lIface, lCall, lCallFn, gl, weakOf, Val.ofList, h]

/-- **`sqlmeta.send` as translated** is `dispatcher.send(signal, <the class>, *args)`: with the listeners read as data,
    the model's `deliver` -/
theorem sendX_eq (w : SW) (sig : Sig) (args : List PVal) :
    sendX w (sigVal sig) (Val.ofList args) (.dictv .nil) = .ret (dispSend w sig (idOfArgs args)) .none
      [sigVal sig, Val.ofList args, .dictv .nil] := by
  have hl : restList (Val.ofList args) = some args := by
    cases args with
    | nil => rfl
    | cons a l =>
      have : ∀ l : List PVal, Val.toList (Val.ofList l) = some l := by
        intro l; induction l with
        | nil => rfl
        | cons a l ih => simp [Val.ofList, Val.toList, ih]
      simpa [restList, Val.ofList] using this (a :: l)
  unfold sendX
  simp only [sendProg, send_nlocals]
  cases sig <;>
    simp [PyVer.run, Block.exec, Stmt.exec, Expr.eval, Exprs.eval, evalArgs, evalOpt, Env.get, St.setOpt,
      zipKw, paramsOf, sIface, sCall, gl, sigVal, sigCode, sigOf, hl]

end SqlObjVerif.Events
