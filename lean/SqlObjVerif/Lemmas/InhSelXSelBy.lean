import SqlObjVerif.Lemmas.InhSelXBy
import SqlObjVerif.Lemmas.InhSelXAll
/-!
Symbolic execution of the TRANSLATED `InheritableSQLObject.selectBy` for all inputs: its three loops (foreign-key name
table, keyword loop with the `getattr` walk, `reduce`) reduce to ONE call of the translated
`InheritableSelectResults.__init__` (`selectByX_eq`); with `selInit_selectBy`: the rows are the hand model's `selectByRow`
(`selectByX_model`).
-/
set_option linter.unusedSimpArgs false
namespace SqlObjVerif.InhSel
open SqlObjVerif.PyIS
open SqlObjVerif.PyIS.Extracted
open SqlObjVerif.Inherit hiding Val Res Cmp Out

@[simp] theorem bIface_self (X : SCtx) (s : SVal) : (bIface X s).self = s := rfl
@[simp] theorem bIface_attrOf (X : SCtx) (s : SVal) : (bIface X s).attrOf = bAttrOf X := rfl
@[simp] theorem bIface_getattr (X : SCtx) (s : SVal) (w : SW) : (bIface X s).getattr w = bGetattr X := rfl
@[simp] theorem bIface_global (X : SCtx) (s : SVal) : (bIface X s).global = sGlobal := rfl
@[simp] theorem bIface_isinstance (X : SCtx) (s : SVal) (w : SW) : (bIface X s).isinstance w = bIsinstance := rfl
@[simp] theorem bIface_call (X : SCtx) (s : SVal) : (bIface X s).call = bCall X := rfl
@[simp] theorem bIface_fuel (X : SCtx) (s : SVal) (w : SW) : (bIface X s).fuel w = X.T.n + 2 := rfl

/-- the entries of `cls.sqlmeta.columns` -/
def colsListS (T : Tree) (c : Nat) : List SVal :=
  (if T.inh c then [PyIS.Val.pair (.str "childName") (.ref 4 c)] else []) ++
    (List.range (T.ncols c)).map fun j => PyIS.Val.pair (.name c j) (.pair (.ref 3 c) (.nat j))

theorem colsDictS_eq (T : Tree) (c : Nat) : colsDictS T c = Val.ofList (colsListS T c) := rfl

/-- no column of the tree is a foreign key: the comprehension adds nothing -/
theorem updPairs_cols (X : SCtx) (s : SVal) (w : SW) (env : Env) (d : SVal) : ∀ (l : List SVal),
    (∀ e, e ∈ l → ∃ p a, e = .pair p (.ref 4 a) ∨ ∃ j, e = .pair p (.pair (.ref 3 a) (.nat j))) →
    updPairs (bIface X s) w env 5 6 (.truthy (.attrOf (.var 6) ["foreignKey"])) (.attrOf (.var 6) ["foreignName"])
      (.var 5) l d = .ok d := by
  intro l
  induction l with
  | nil => intro _; rfl
  | cons e l ih =>
    intro hl
    obtain ⟨p, a, he | ⟨j, he⟩⟩ := hl e List.mem_cons_self
    all_goals
      subst he
      simp [updPairs, Cond.eval, Expr.eval, bAttrOf]
      exact ih (fun e' he' => hl e' (List.mem_cons_of_mem _ he'))

theorem colsListS_shape (T : Tree) (c : Nat) : ∀ e, e ∈ colsListS T c →
    ∃ p a, e = .pair p (.ref 4 a) ∨ ∃ j, e = PyIS.Val.pair p (.pair (.ref 3 a) (.nat j)) := by
  intro e he
  simp only [colsListS, List.mem_append, List.mem_map, List.mem_range] at he
  rcases he with he | ⟨j, _, rfl⟩
  · split at he
    · simp at he; exact ⟨_, c, Or.inl he⟩
    · simp at he
  · exact ⟨_, c, Or.inr ⟨j, rfl⟩⟩

/-- one iteration of loop 0 (`while currentClass:` collecting foreign-key names) at class `y` -/
theorem by_loop0_body (X : SCtx) (s : SVal) (y : Nat) (st : St SW) (h4 : st.env 4 = some (.cls y))
    (h3 : st.env 3 = some .nil) :
    ∃ st1, selectBy_loop0.exec (bIface X s) none st = .norm st1 ∧ st1.w = st.w ∧
      st1.env 4 = some (sClassOpt (X.T.parent y)) ∧ ∀ z, z ≠ 4 → st1.env z = st.env z := by
  unfold selectBy_loop0
  have hu := fun env => updPairs_cols X s st.w env .nil (colsListS X.T y) (colsListS_shape X.T y)
  isrunw [h3, h4, bAttrOf, colsDictS_eq, hu, isListVal, isListVal_ofList, toList_ofList]
  intro z hz
  by_cases h3' : z = 3
  · subst h3'; simp [h3]
  · simp [hz, h3']


theorem by_loop0_cond_cls (X : SCtx) (s : SVal) (st : St SW) (y : Nat) (h4 : st.env 4 = some (.cls y)) :
    selectBy_loop0_cond.eval (bIface X s) st.w st.env = .ok true := by
  unfold selectBy_loop0_cond; isrunw [h4]

theorem by_loop0_cond_none (X : SCtx) (s : SVal) (st : St SW) (h4 : st.env 4 = some .none) :
    selectBy_loop0_cond.eval (bIface X s) st.w st.env = .ok false := by
  unfold selectBy_loop0_cond; isrunw [h4]

/-- loop 0 walks the whole chain and leaves `foreignColumns` empty -/
theorem by_loop0_run (X : SCtx) (s : SVal) : ∀ (ys : List Nat) (y : Nat), IsChain X.T (y :: ys) →
    ∀ (fuel : Nat), (y :: ys).length + 1 ≤ fuel → ∀ (st : St SW),
    st.env 4 = some (.cls y) → st.env 3 = some .nil →
    ∃ st', whileLoop (fun st => selectBy_loop0_cond.eval (bIface X s) st.w st.env)
        (fun st => selectBy_loop0.exec (bIface X s) none st) (fun st => .norm st) fuel st = .norm st' ∧ st'.w = st.w ∧
      ∀ z, z ≠ 4 → st'.env z = st.env z := by
  intro ys
  induction ys with
  | nil =>
    intro y hch fuel hfuel st h4 h3
    obtain ⟨n, rfl⟩ : ∃ n, fuel = n + 2 := ⟨fuel - 2, by simp at hfuel; omega⟩
    simp only [IsChain] at hch
    obtain ⟨st1, e1, w1, c1, f1⟩ := by_loop0_body X s y st h4 h3
    rw [hch] at c1
    refine ⟨st1, ?_, w1, f1⟩
    simp only [whileLoop, by_loop0_cond_cls X s st y h4, e1, by_loop0_cond_none X s st1 c1]
  | cons p ys ih =>
    intro y hch fuel hfuel st h4 h3
    obtain ⟨n, rfl⟩ : ∃ n, fuel = n + 1 := ⟨fuel - 1, by simp at hfuel; omega⟩
    obtain ⟨hpy, hch'⟩ := hch
    obtain ⟨st1, e1, w1, c1, f1⟩ := by_loop0_body X s y st h4 h3
    rw [hpy] at c1
    obtain ⟨st', e2, w2, f2⟩ := ih p hch' n (by simp at hfuel ⊢; omega) st1 c1
      (by rw [f1 3 (by decide)]; exact h3)
    refine ⟨st', ?_, w2.trans w1, fun z hz => (f2 z hz).trans (f1 z hz)⟩
    simp only [whileLoop, by_loop0_cond_cls X s st y h4, e1, e2]

/-- loop 1, one keyword `<column k of a> = v` with the column declared by `c` or an ancestor: the first `getattr`
    succeeds, the comparison is appended, `break` -/
theorem by_loop1_body (X : SCtx) (c : Nat) (st : St SW) (J : List Sql) (y : Nat × Nat × Inherit.Val)
    (hy : attrOK X.T c y.1 y.2.1 = true) (h2 : st.env 2 = some (sqlList J)) (h3 : st.env 3 = some .nil) :
    ∃ st1, selectBy_loop1.exec (bIface X (.cls c)) none ((st.setVar 5 (.name y.1 y.2.1)).setVar 7 (.int y.2.2)) =
        .norm st1 ∧ st1.w = st.w ∧ st1.env 2 = some (sqlList (J ++ [kvSql y])) ∧
      ∀ z, z ≠ 2 → z ≠ 4 → z ≠ 5 → z ≠ 7 → st1.env z = st.env z := by
  unfold selectBy_loop1
  isrunw [h2, h3, vdHas, vdGet, isListVal]
  have hfu : X.T.n + 2 = (X.T.n + 1) + 1 := rfl
  rw [hfu]
  simp only [whileLoop]
  unfold selectBy_loop2_cond selectBy_loop2
  isrunw [h2, h3, bAttrOf, bGetattr, hy, tryRes, kvSql]
  intro z h1 h2' h3' h4'
  simp [h1, h2', h3', h4']


/-- loop 1: `for name, value in kw.items():` appends one comparison per keyword -/
theorem by_loop1_run (X : SCtx) (c : Nat) : ∀ (kvs : List (Nat × Nat × Inherit.Val)) (st : St SW) (J : List Sql),
    (∀ y, y ∈ kvs → attrOK X.T c y.1 y.2.1 = true) → st.env 2 = some (sqlList J) → st.env 3 = some .nil →
    ∃ st', forLoop (pairBody fun st p q => selectBy_loop1.exec (bIface X (.cls c)) none ((st.setVar 5 p).setVar 7 q))
        (fun st => .norm st) (kvs.map fun y => Val.pair (.name y.1 y.2.1) (.int y.2.2)) st = .norm st' ∧ st'.w = st.w ∧
      st'.env 2 = some (sqlList (J ++ kvs.map kvSql)) ∧
      ∀ z, z ≠ 2 → z ≠ 4 → z ≠ 5 → z ≠ 7 → st'.env z = st.env z := by
  intro kvs
  induction kvs with
  | nil => intro st J _ h2 _; exact ⟨st, rfl, rfl, by simpa using h2, fun _ _ _ _ _ => rfl⟩
  | cons y kvs ih =>
    intro st J hk h2 h3
    obtain ⟨st1, e1, w1, r1, f1⟩ := by_loop1_body X c st J y (hk y List.mem_cons_self) h2 h3
    obtain ⟨st', e2, w2, r2, f2⟩ := ih st1 _ (fun y' hy' => hk y' (List.mem_cons_of_mem _ hy')) r1
      (by rw [f1 3 (by decide) (by decide) (by decide) (by decide)]; exact h3)
    refine ⟨st', ?_, w2.trans w1, by simpa [List.append_assoc] using r2,
      fun z a b c d => (f2 z a b c d).trans (f1 z a b c d)⟩
    simp only [List.map_cons, forLoop, pairBody, e1, e2]

theorem by_loop1_run' {X : SCtx} {c : Nat} {kvs : List (Nat × Nat × Inherit.Val)} {st : St SW} {r : Res SW}
    (hF : forLoop (pairBody fun st p q => selectBy_loop1.exec (bIface X (.cls c)) none ((st.setVar 5 p).setVar 7 q))
        (fun st => .norm st) (kvs.map fun y => Val.pair (.name y.1 y.2.1) (.int y.2.2)) st = r) (J : List Sql)
    (hk : ∀ y, y ∈ kvs → attrOK X.T c y.1 y.2.1 = true) (h2 : st.env 2 = some (sqlList J)) (h3 : st.env 3 = some .nil) :
    ∃ st', r = .norm st' ∧ st'.w = st.w ∧ st'.env 2 = some (sqlList (J ++ kvs.map kvSql)) ∧
      ∀ z, z ≠ 2 → z ≠ 4 → z ≠ 5 → z ≠ 7 → st'.env z = st.env z := by
  obtain ⟨st', e, rest⟩ := by_loop1_run X c kvs st J hk h2 h3
  exact ⟨st', hF.symm.trans e, rest⟩

theorem by_loop0_run' {X : SCtx} (h : X.T.WF) {s : SVal} {st : St SW} {r : Res SW} (y : Nat)
    (hF : whileLoop (fun st => selectBy_loop0_cond.eval (bIface X s) st.w st.env)
        (fun st => selectBy_loop0.exec (bIface X s) none st) (fun st => .norm st) (X.T.n + 2) st = r)
    (h4 : st.env 4 = some (.cls y)) (h3 : st.env 3 = some .nil) :
    ∃ st', r = .norm st' ∧ st'.w = st.w ∧ ∀ z, z ≠ 4 → st'.env z = st.env z := by
  have hch := anc_isChain h y
  rw [anc_eq_cons] at hch
  have hfu := anc_fuel h y
  rw [anc_eq_cons] at hfu
  obtain ⟨st', e, rest⟩ := by_loop0_run X s (X.T.anc y).tail y hch (X.T.n + 2) (by omega) st h4 h3
  exact ⟨st', hF.symm.trans e, rest⟩

/-- the `clause` argument `selectBy` hands on: None without keywords -/
def byClauseVal (kvs : List (Nat × Nat × Inherit.Val)) : SVal :=
  match kvs with
  | [] => .none
  | _ => .sql (byClause kvs)

/-- the `connection` argument: None or a connection -/
def connValOf : Option Nat → SVal
  | some k => .conn k
  | none => .none

theorem kwS_toList (kvs : List (Nat × Nat × Inherit.Val)) :
    Val.toList (kwS kvs) = some (kvs.map fun y => Val.pair (.name y.1 y.2.1) (.int y.2.2)) := toList_ofList _

theorem foldAnd_kv (y : Nat × Nat × Inherit.Val) (l : List (Nat × Nat × Inherit.Val)) :
    foldAnd (.sql (kvSql y)) (l.map (Val.sql ∘ kvSql)) = some (.sql (byClause (y :: l))) := by
  have := foldAnd_sql (kvSql y) (l.map kvSql)
  rw [List.map_map] at this
  rw [this]
  simp only [byClause, List.foldl_map, kvSql]

theorem pyBool_sqlList_cons (a : Sql) (l : List Sql) : pyBool (sqlList (a :: l)) = true := rfl

/-- **`cls.selectBy(connection, **kw)`, translated, for all inputs** (keywords: columns of the class or an ancestor):
    the three loops reduce to one call of the translated `InheritableSelectResults.__init__` with source class `cls`, the
    conjunction `byClause kvs` (None without keywords) and the connection given (else the class's) -/
theorem selectByX_eq (X : SCtx) (h : X.T.WF) (w : SW) (c : Nat) (oc : Option Nat)
    (kvs : List (Nat × Nat × Inherit.Val)) (hk : ∀ y, y ∈ kvs → attrOK X.T c y.1 y.2.1 = true) :
    selectByX X w c (connValOf oc) kvs =
      match selInitX X w c (byClauseVal kvs) (opsOf (some (oc.getD X.dflt))) with
      | .ret w' _ => .ret w' (.ref 10 0)
      | r => r := by
  unfold selectByX selectByProg
  isrunw [bAttrOf]
  generalize hF : whileLoop _ _ _ _ _ = r
  obtain ⟨st1, rfl, w1, f1⟩ := by_loop0_run' h c hF (by rfl) (by rfl)
  clear hF
  have a0 := f1 0 (by decide)
  have a1 := f1 1 (by decide)
  have a2 := f1 2 (by decide)
  have a3 := f1 3 (by decide)
  simp [Env.ofArgs] at a0 a1 a2 a3 w1
  clear f1
  isrunw [a1, kwS_toList, isListVal_ofList, kwS]
  generalize hF : forLoop _ _ _ _ = r
  obtain ⟨st2, rfl, w2, r2, f2⟩ := by_loop1_run' hF [] hk (by simpa using a2) a3
  clear hF
  have b0 := f2 0 (by decide) (by decide) (by decide) (by decide)
  simp [a0] at b0 r2 w2
  clear f2
  cases kvs with
  | nil =>
    cases oc <;> isrunw [r2, b0, w2, w1, bAttrOf, bCall, connValOf, byClauseVal, opsOf, sqlList, Val.ofList]
    all_goals (generalize selInitX _ _ _ _ _ = rr; cases rr <;> simp)
  | cons y l =>
    cases oc <;> isrunw [r2, b0, w2, w1, bAttrOf, bCall, connValOf, byClauseVal, opsOf, pyBool_sqlList_cons, foldAnd_kv]
    all_goals (generalize selInitX _ _ _ _ _ = rr; cases rr <;> simp)


/-- `cls.selectBy(connection, **kw)`, translated, against the hand model: it returns a select object whose query (built
    by the translated constructor) has exactly the rows `selectByRow` selects, one per id -/
theorem selectByX_model (X : SCtx) (h : X.T.WF) (hreg : X.reg.Nodup) (w : SW) (c : Nat) (oc : Option Nat)
    (kvs : List (Nat × Nat × Inherit.Val)) (hregAll : ∀ a, a ∈ X.T.anc c → a ∈ X.reg)
    (hk : ∀ y, y ∈ kvs → attrOK X.T c y.1 y.2.1 = true) :
    ∃ e, selectByX X w c (connValOf oc) kvs = .ret { w with made := some ⟨c, e, oc.getD X.dflt⟩ } (.ref 10 0) ∧
      ∀ db : DB,
        (∀ i, (∃ σ, Sat db c e σ ∧ σ c = i) ↔ (selectByRow X.T db c kvs i).isSome = true) ∧
        (∀ σ σ', Sat db c e σ → Sat db c e σ' → σ c = σ' c → ∀ a, a ∈ sqlTables e ++ [c] → σ a = σ' a) := by
  have hk' : ∀ y, y ∈ kvs → y.1 ∈ X.T.anc c := by
    intro y hy
    have := hk y hy
    simp only [attrOK, Bool.and_eq_true, List.contains_iff_mem] at this
    exact this.1
  obtain ⟨e, hrun, hsem⟩ := selInit_selectBy X h hreg w c kvs (some (oc.getD X.dflt)) hregAll hk'
  refine ⟨e, ?_, hsem⟩
  rw [selectByX_eq X h w c oc kvs hk]
  have hcl : selInitX X w c (byClauseVal kvs) (opsOf (some (oc.getD X.dflt))) =
      selInitX X w c (.sql (byClause kvs)) (opsOf (some (oc.getD X.dflt))) := by
    cases kvs with
    | nil => exact selInitX_all X w c _ .none (Or.inl rfl)
    | cons y l => rfl
  rw [hcl, hrun]
  rfl
end SqlObjVerif.InhSel
