import SqlObjVerif.Model.PyTx
/-!
Generic lemmas about the PyTx embedding: list values, `mapR`, binding a comprehension variable, and one
evaluation lemma per expression form EXCEPT the list comprehension (so that a simp set built from them leaves
comprehensions folded until a lemma about that comprehension rewrites them).
-/
namespace SqlObjVerif.PyTx

@[simp] theorem toList_ofList (l : List Val) : (Val.ofList l).toList = some l := by
  induction l with
  | nil => rfl
  | cons v l ih => simp [Val.ofList, Val.toList, ih]

@[simp] theorem isListVal_ofList (l : List Val) : isListVal (Val.ofList l) = true := by
  induction l with
  | nil => rfl
  | cons v l ih => simpa [Val.ofList, isListVal] using ih

theorem mapR_map_ok (f : Val → R Val) {α : Type} (g : α → Val) (h : α → Val) (l : List α)
    (hf : ∀ a ∈ l, f (g a) = .ok (h a)) : mapR f (l.map g) = .ok (l.map h) := by
  induction l with
  | nil => rfl
  | cons a l ih =>
    simp only [List.map_cons, mapR, hf a (by simp)]
    rw [ih (fun b hb => hf b (by simp [hb]))]

theorem Env.get_put_self (env : Env) (x : Nat) (v : Val) : (env.put x v).get x = some v := by
  unfold Env.put
  by_cases h : x < env.length
  · simp only [h, if_true, Env.get, List.getElem?_set_self h]
  · simp only [h, if_false, Env.get]
    have hl : (env ++ List.replicate (x - env.length) none).length = x := by
      simp only [List.length_append, List.length_replicate]; omega
    rw [List.getElem?_append_right (by omega)]
    simp [hl]

theorem vlAppend_ofList (a b : List Val) : vlAppend (Val.ofList b) (Val.ofList a) = Val.ofList (a ++ b) := by
  induction a with
  | nil => cases b <;> rfl
  | cons v a ih => simp only [Val.ofList, vlAppend, List.cons_append, ih]

variable {W : Type} (I : Iface W) (w : W) (env : Env)

theorem eval_var (x : Nat) : Expr.eval I w env (.var x) = (match env.get x with | some v => .ok v | Option.none => .stuck) := by
  first | (rw [Expr.eval]; done) | (rw [Expr.eval]; rfl)
theorem eval_const (v : Val) : Expr.eval I w env (.const v) = .ok v := by first | (rw [Expr.eval]; done) | (rw [Expr.eval]; rfl)
theorem eval_self : Expr.eval I w env .self = .ok I.self := by first | (rw [Expr.eval]; done) | (rw [Expr.eval]; rfl)
theorem eval_selfAttr (p : List String) : Expr.eval I w env (.selfAttr p) = I.getAttr w p := by first | (rw [Expr.eval]; done) | (rw [Expr.eval]; rfl)
theorem eval_attrOf (e : Expr) (p : List String) : Expr.eval I w env (.attrOf e p) =
    (match e.eval I w env with | .ok v => I.attrOf w v p | r => r) := by first | (rw [Expr.eval]; done) | (rw [Expr.eval]; rfl)
theorem eval_global (n : String) : Expr.eval I w env (.global n) =
    (match I.global n with | some v => .ok v | Option.none => .stuck) := by first | (rw [Expr.eval]; done) | (rw [Expr.eval]; rfl)
theorem eval_query (recv : Expr) (m : String) (args : Exprs) : Expr.eval I w env (.query recv m args) =
    (match recv.eval I w env with
     | .ok r => (match args.eval I w env with
       | .ok vs => I.query w r m vs
       | .exc e => .exc e
       | .stuck => .stuck)
     | r => r) := by first | (rw [Expr.eval]; done) | (rw [Expr.eval]; rfl)
theorem eval_pair (a b : Expr) : Expr.eval I w env (.pair a b) =
    (match a.eval I w env with
     | .ok x => (match b.eval I w env with
       | .ok y => .ok (.pair x y)
       | r => r)
     | r => r) := by first | (rw [Expr.eval]; done) | (rw [Expr.eval]; rfl)
theorem eval_idx (e : Expr) (i : Nat) : Expr.eval I w env (.idx e i) =
    (match e.eval I w env with
     | .ok (.pair a b) => if i = 0 then .ok a else if i = 1 then .ok b else .stuck
     | .ok _ => .stuck
     | r => r) := by first | (rw [Expr.eval]; done) | (rw [Expr.eval]; rfl)
theorem eval_listOf (e : Expr) : Expr.eval I w env (.listOf e) =
    (match e.eval I w env with
     | .ok v => if isListVal v then .ok v else .stuck
     | r => r) := by first | (rw [Expr.eval]; done) | (rw [Expr.eval]; rfl)
theorem eval_items (e : Expr) : Expr.eval I w env (.items e) =
    (match e.eval I w env with
     | .ok v => if isListVal v then .ok v else .stuck
     | r => r) := by first | (rw [Expr.eval]; done) | (rw [Expr.eval]; rfl)
theorem eval_methodType (p : List String) : Expr.eval I w env (.methodType p) =
    (match p.getLast? with | some n => .ok (.meth n) | Option.none => .stuck) := by first | (rw [Expr.eval]; done) | (rw [Expr.eval]; rfl)
theorem eval_emptyList : Expr.eval I w env .emptyList = .ok .nil := by first | (rw [Expr.eval]; done) | (rw [Expr.eval]; rfl)
end SqlObjVerif.PyTx
