import SqlObjVerif.Lemmas.PyFailFrame
import SqlObjVerif.Model.FailCreateX
/-!
# The frame theorem of the second exception-injecting interpreter `Model/PyCreate.lean`
(`SQLObject.__init__` / `_create` / `_SO_finishCreate`) and of its instantiation `Model/FailCreateX.lean`

For EVERY program of the fragment, every context, every call table whose callees keep the ghost counter
exact: the ghost counter `changes` of the hand model's state never decreases, and if it did not move, `core`
is unchanged (`exec_frameC`, `run_frameC`).  Instantiated on the translated constructor: `createF_frame`.
-/
namespace SqlObjVerif.PyCreate
open SqlObjVerif.PyMain (PV R mapR ofOpt PDict)
open SqlObjVerif.Fail (Err Schema Inj In Extra Mem)
open SqlObjVerif.PyFail (FW sendStmt memStep excErr Fr mkW)
open SqlObjVerif.PyCreate.Extracted

/-- `PyFail.OutFr` for the PyCreate outcome type -/
def OutFrC (w : FW) : Outcome → Prop
  | .ret xw _ => Fr w.s xw.w.s
  | .exc xw _ => Fr w.s xw.w.s
  | .deadlock xw => Fr w.s xw.w.s
  | .stuck => True

def ResFrC (w : FW) : Res → Prop
  | .norm st' => Fr w.s st'.xw.w.s
  | .ret st' _ => Fr w.s st'.xw.w.s
  | .exc st' _ => Fr w.s st'.xw.w.s
  | .cont st' => Fr w.s st'.xw.w.s
  | .deadlock st' => Fr w.s st'.xw.w.s
  | .stuck => True

theorem ResFrC.trans {w w' : FW} {r : Res} (h : Fr w.s w'.s) (hr : ResFrC w' r) : ResFrC w r := by
  cases r <;> first | trivial | exact Fr.trans h hr

/-! ### combinators -/

theorem raisePy_frC (st : St) (e : PyMain.Exc) : ResFrC st.xw.w (raisePy st e) := by
  unfold raisePy; split
  · exact Fr.refl _
  · trivial

theorem withR_frC {α : Type} (st : St) (r : R α) (f : α → Res) (hf : ∀ a, ResFrC st.xw.w (f a)) :
    ResFrC st.xw.w (withR st r f) := by
  cases r with
  | ok a => exact hf a
  | exc e => exact raisePy_frC st e
  | stuck => trivial

theorem ofOptRes_frC {α : Type} (w : FW) (o : Option α) (f : α → Res) (hf : ∀ a, ResFrC w (f a)) :
    ResFrC w (ofOptRes o f) := by
  cases o with
  | some a => exact hf a
  | none => trivial

/-- a step given as a partial function on the extended world -/
theorem ofOptXW_frC (st : St) (o : Option XW) (ho : ∀ xw, o = some xw → Fr st.xw.w.s xw.w.s) :
    ResFrC st.xw.w (ofOptRes o fun xw => .norm (st.setXW xw)) := by
  cases o with
  | some xw => exact ho xw rfl
  | none => trivial

theorem afterSend_frC (st : St) (r : Fail.St × Option Err) (k : St → Res) (hr : Fr st.xw.w.s r.1)
    (hk : ∀ st', ResFrC st'.xw.w (k st')) : ResFrC st.xw.w (afterSend st r k) := by
  unfold afterSend; split
  · exact hr
  · exact ResFrC.trans (w' := (st.setW (st.xw.w.setS r.1)).xw.w) hr (hk _)

theorem afterCall_frC (o : Outcome) (st : St) (h : OutFrC st.xw.w o) : ResFrC st.xw.w (afterCall o st) := by
  cases o <;> exact h

theorem callClos_frC (ctx : Ctx) (st : St) (f : Val) (args : List Val) :
    ResFrC st.xw.w (callClos ctx st f args) := by
  unfold callClos; split
  · split
    · split
      · exact Fr.refl _
      · trivial
    · trivial
  · trivial

theorem seq_frC {w : FW} {r : Res} (hr : ResFrC w r) (k : St → Res) (hk : ∀ st', ResFrC st'.xw.w (k st')) :
    ResFrC w (r.seq k) := by
  cases r <;> try exact hr
  exact ResFrC.trans hr (hk _)

theorem forLoop_frC (f : St → Val → Res) (hf : ∀ st v, ResFrC st.xw.w (f st v)) :
    ∀ (vs : List Val) (st : St), ResFrC st.xw.w (forLoop f vs st) := by
  intro vs
  induction vs with
  | nil => intro st; exact Fr.refl _
  | cons v vs ih =>
    intro st
    rw [forLoop]
    have h := hf st v
    generalize f st v = r at h
    cases r <;> try exact h
    · exact ResFrC.trans h (ih _)
    · exact ResFrC.trans h (ih _)

theorem catchRes_frC {w : FW} (exc : PyMain.Exc) (handler : St → Res)
    (hh : ∀ st', ResFrC st'.xw.w (handler st')) {r : Res} (hr : ResFrC w r) :
    ResFrC w (catchRes exc handler r) := by
  cases r <;> try exact hr
  rw [catchRes]; split
  · exact ResFrC.trans hr (hh _)
  · exact hr

theorem finallyRes_frC {w : FW} (fin : St → Res) (hf : ∀ st', ResFrC st'.xw.w (fin st')) {r : Res}
    (hr : ResFrC w r) : ResFrC w (finallyRes fin r) := by
  cases r <;> rw [finallyRes] <;> try exact hr
  · exact ResFrC.trans hr (hf _)
  all_goals
    refine ResFrC.trans hr (seq_frC (hf _) _ fun _ => Fr.refl _)

/-! ### primitives on the extended world -/

theorem XW.setDirty_fr (xw xw' : XW) (b : Bool) (h : xw.setDirty b = some xw') : Fr xw.w.s xw'.w.s := by
  unfold XW.setDirty at h
  split at h
  · cases h; exact Fr.refl _
  · split at h
    · cases h; exact PyFail.mem_fr _ _
    · cases h

theorem XW.cvNew_fr (xw xw' : XW) (h : xw.cvNew = some xw') : Fr xw.w.s xw'.w.s := by
  unfold XW.cvNew at h
  split at h
  · cases h; exact Fr.refl _
  · cases h

theorem XW.cvDel_fr (xw xw' : XW) (h : xw.cvDel = some xw') : Fr xw.w.s xw'.w.s := by
  unfold XW.cvDel at h
  split at h
  · cases h; exact Fr.refl _
  · cases h

theorem XW.created_fr (xw xw' : XW) (i : Nat) (h : xw.created i = some xw') : Fr xw.w.s xw'.w.s := by
  unfold XW.created at h
  split at h
  · cases h; exact PyFail.memStep_fr _ _
  · cases h

mutual
theorem stmt_frameC (ctx : Ctx) (call : CallT) (hcall : ∀ m args kw xw, OutFrC xw.w (call m args kw xw)) :
    ∀ (s : Stmt) (st : St), ResFrC st.xw.w (Stmt.exec ctx call st s)
  | .assign x e, st => by rw [Stmt.exec]; exact withR_frC _ _ _ fun _ => Fr.refl _
  | .listAssign l le, st => by rw [Stmt.exec]; exact withR_frC _ _ _ fun _ => Fr.refl _
  | .readPostponed, st => by rw [Stmt.exec]; exact withR_frC _ _ _ fun _ => Fr.refl _
  | .setPostponedEmpty, st => by rw [Stmt.exec]; exact Fr.refl _
  | .delPostponed, st => by
    rw [Stmt.exec]; split
    · exact Fr.refl _
    · exact raisePy_frC _ _
  | .postponedAppend e, st => by
    rw [Stmt.exec]; exact withR_frC _ _ _ fun _ => withR_frC _ _ _ fun _ => Fr.refl _
  | .setAttrOpaque _ _, st => by rw [Stmt.exec]; exact Fr.refl _
  | .newLock, st => by rw [Stmt.exec]; exact Fr.refl _
  | .send _, st => by rw [Stmt.exec]; exact Fr.refl _
  | .strPop x d s, st => by
    rw [Stmt.exec]
    refine ofOptRes_frC _ _ _ fun D => ?_
    split
    · exact Fr.refl _
    · trivial
  | .strDel d s, st => by
    rw [Stmt.exec]
    refine ofOptRes_frC _ _ _ fun D => ?_
    split
    · exact Fr.refl _
    · trivial
  | .setConnection _, st => by rw [Stmt.exec]; trivial
  | .setPerConnection, st => by rw [Stmt.exec]; trivial
  | .setCreating, st => by
    rw [Stmt.exec]; split
    · trivial
    · exact Fr.refl _
  | .delCreating, st => by
    rw [Stmt.exec]; split
    · exact Fr.refl _
    · exact raisePy_frC _ _
  | .cvNew, st => by rw [Stmt.exec]; exact ofOptXW_frC _ _ fun _ h => XW.cvNew_fr _ _ h
  | .cvDel, st => by rw [Stmt.exec]; exact ofOptXW_frC _ _ fun _ h => XW.cvDel_fr _ _ h
  | .setDirty b, st => by rw [Stmt.exec]; exact ofOptXW_frC _ _ fun _ h => XW.setDirty_fr _ _ _ h
  | .dictSet d k v, st => by
    rw [Stmt.exec]
    exact withR_frC _ _ _ fun _ => ofOptRes_frC _ _ _ fun _ => withR_frC _ _ _ fun _ =>
      ofOptRes_frC _ _ _ fun _ => ofOptRes_frC _ _ _ fun _ => Fr.refl _
  | .sdictOfPairs d ps, st => by rw [Stmt.exec]; exact withR_frC _ _ _ fun _ => Fr.refl _
  | .callSelf m args kw, st => by
    rw [Stmt.exec]
    exact withR_frC _ _ _ fun _ => ofOptRes_frC _ _ _ fun _ => afterCall_frC _ _ (hcall _ _ _ _)
  | .callVal f args, st => by
    rw [Stmt.exec]
    exact withR_frC _ _ _ fun _ => withR_frC _ _ _ fun _ => callClos_frC _ _ _ _
  | .queryInsertID x id names values, st => by
    rw [Stmt.exec]
    exact withR_frC _ _ _ fun _ => ofOptRes_frC _ _ _ fun _ => withR_frC _ _ _ fun _ =>
      ofOptRes_frC _ _ _ fun _ => withR_frC _ _ _ fun _ => ofOptRes_frC _ _ _ fun _ =>
        afterSend_frC _ _ _ (PyFail.sendStmt_fr _ _ _ _) fun _ => Fr.refl _
  | .cacheCreated cache id, st => by
    rw [Stmt.exec]
    refine withR_frC _ _ _ fun cv => ?_
    split
    · refine withR_frC _ _ _ fun iv => ?_
      split
      · exact ofOptXW_frC _ _ fun _ h => XW.created_fr _ _ _ h
      · trivial
    · trivial
  | .defClos x fid, st => by rw [Stmt.exec]; exact Fr.refl _
  | .raise e, st => by rw [Stmt.exec]; exact raisePy_frC _ _
  | .continue, st => by rw [Stmt.exec]; exact Fr.refl _
  | .ite c t e, st => by
    rw [Stmt.exec]
    refine withR_frC _ _ _ fun b => ?_
    cases b
    · exact block_frameC ctx call hcall e st
    · exact block_frameC ctx call hcall t st
  | .for x le body, st => by
    rw [Stmt.exec]
    exact withR_frC _ _ _ fun vs =>
      forLoop_frC _ (fun st' v => block_frameC ctx call hcall body (st'.setVar x v)) vs st
  | .tryExcept body exc handler, st => by
    rw [Stmt.exec]
    exact catchRes_frC _ _ (fun st' => block_frameC ctx call hcall handler st')
      (block_frameC ctx call hcall body st)
  | .tryFinally body fin, st => by
    rw [Stmt.exec]
    exact finallyRes_frC _ (fun st' => block_frameC ctx call hcall fin st')
      (block_frameC ctx call hcall body st)
  | .ret e, st => by rw [Stmt.exec]; exact withR_frC _ _ _ fun _ => Fr.refl _
  | .retNone, st => by rw [Stmt.exec]; exact Fr.refl _
  | .pass, st => by rw [Stmt.exec]; exact Fr.refl _
theorem block_frameC (ctx : Ctx) (call : CallT) (hcall : ∀ m args kw xw, OutFrC xw.w (call m args kw xw)) :
    ∀ (b : Block) (st : St), ResFrC st.xw.w (Block.exec ctx call st b)
  | .nil, st => by rw [Block.exec]; exact Fr.refl _
  | .cons s rest, st => by
    rw [Block.exec]
    exact seq_frC (stmt_frameC ctx call hcall s st) _ fun st' => block_frameC ctx call hcall rest st'
end

/-- **Frame, for the deep embedding of `__init__` / `_create` / `_SO_finishCreate`.**  Whatever the program
    of the fragment, the context (defaults, closure table), the schedule: if every callee keeps the ghost
    counter exact, so does every statement and every block. -/
theorem exec_frameC (ctx : Ctx) (call : CallT) (hcall : ∀ m args kw xw, OutFrC xw.w (call m args kw xw)) :
    (∀ (s : Stmt) (st : St), ResFrC st.xw.w (Stmt.exec ctx call st s)) ∧
    (∀ (b : Block) (st : St), ResFrC st.xw.w (Block.exec ctx call st b)) :=
  ⟨stmt_frameC ctx call hcall, block_frameC ctx call hcall⟩

theorem run_frameC (ctx : Ctx) (call : CallT) (hcall : ∀ m args kw xw, OutFrC xw.w (call m args kw xw))
    (prog : Block) (params : List (Option Val)) (hasKw : Bool) (args : List Val) (kw : Dict) (xw : XW) :
    OutFrC xw.w (run ctx call prog params hasKw args kw xw) := by
  unfold run
  split
  · have h := (exec_frameC ctx call hcall).2 prog
      { xw := xw, fr := ⟨bindVars params args, fun _ => Option.none, fun d => if d = 0 then some kw else Option.none⟩ }
    generalize Block.exec ctx call _ prog = r at h
    cases r <;> first | exact h | trivial
  · trivial

theorem noCall_frameC : ∀ m args kw xw, OutFrC xw.w (noCall m args kw xw) := fun _ _ _ _ => trivial

/-! ### the instantiation `Model/FailCreateX.lean` -/

theorem initIface_frame (args : List Val) (kw : Dict) (xw : XW) : OutFrC xw.w (initIface args kw xw) := by
  unfold initIface
  split
  · rename_i i
    split
    · have h := PyFail.sendStmt_fr xw.w.sch xw.w.inj (.select xw.w.c) xw.w.s
      generalize sendStmt xw.w.sch xw.w.inj (.select xw.w.c) xw.w.s = r at h
      obtain ⟨s1, o⟩ := r
      cases o with
      | some e => exact h
      | none => exact Fr.trans h (PyFail.memStep_fr _ _)
    · trivial
  · trivial

theorem liftSet_frame (xw : XW) (o : PyFail.Outcome) (h : PyFail.OutFr xw.w o) : OutFrC xw.w (liftSet xw o) := by
  cases o <;> exact h

theorem finishCall_frame : ∀ m args kw xw, OutFrC xw.w (finishCall m args kw xw) := by
  intro m args kw xw
  unfold finishCall; split
  · exact initIface_frame _ _ _
  · trivial

theorem createCall_frame (ctx : Ctx) (set : FW → PDict → PyFail.Outcome) (hset : ∀ w kw, PyFail.OutFr w (set w kw)) :
    ∀ m args kw xw, OutFrC xw.w (createCall ctx set m args kw xw) := by
  intro m args kw xw
  unfold createCall; split
  · split
    · exact liftSet_frame _ _ (hset _ _)
    · trivial
  · split
    · exact run_frameC ctx finishCall finishCall_frame _ _ _ _ _ _
    · trivial

theorem initCall_frame (ctx : Ctx) (set : FW → PDict → PyFail.Outcome) (hset : ∀ w kw, PyFail.OutFr w (set w kw)) :
    ∀ m args kw xw, OutFrC xw.w (initCall ctx set m args kw xw) := by
  intro m args kw xw
  unfold initCall; split
  · exact run_frameC ctx _ (createCall_frame ctx set hset) _ _ _ _ _ _
  · trivial

theorem toFail_frame (w : FW) (o : Outcome) (h : OutFrC w o) : PyFail.OutFr w o.toFail := by
  cases o <;> rw [Outcome.toFail]
  · split
    · exact h
    · trivial
  · split
    · exact h
    · trivial
  · exact h
  · trivial

theorem setF_frame (w : FW) (kw : PDict) : PyFail.OutFr w (PyFail.setF w kw) :=
  PyFail.run_frameX PyFail.propCall PyFail.propCall_frame _ _ _ _ _ _ w

theorem createFWith_frame (set : FW → PDict → PyFail.Outcome) (hset : ∀ w kw, PyFail.OutFr w (set w kw))
    (ctx : Ctx) (w : FW) (id? : Option Nat) (pk : List (Nat × In)) :
    PyFail.OutFr w (createFWith set ctx w id? pk) := by
  unfold createFWith
  exact toFail_frame w _ (run_frameC ctx _ (initCall_frame ctx set hset) _ _ _ _ _ (mkXW w))

/-- **Frame, for the translated constructor.**  Under every schedule, defaults table, keyword list: the ghost
    counter of the state `Cls(id=…, **pk)` ends in is ≥ the initial one, and if it is equal, `core` (tables,
    link tables, instances, registered ids) is unchanged. -/
theorem createF_frame (dflt : Nat → Option In) (dsql : Nat → Bool) (sch : Schema) (inj : Option Inj) (props : Nat → Extra)
    (s : Fail.St) (c : Nat) (vq : List Bool) (id? : Option Nat) (pk : List (Nat × In)) :
    PyFail.OutFr (mkW sch inj props s c 0 vq) (createF dflt dsql sch inj props s c vq id? pk) :=
  createFWith_frame PyFail.setF setF_frame _ _ _ _

end SqlObjVerif.PyCreate
