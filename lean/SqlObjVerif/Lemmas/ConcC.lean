import SqlObjVerif.Lemmas.ConcB
/-! Layer C for the Conc model (C09): programs WITH `create`, as long as no thread runs `expireAll` and the
    created ids are fresh (named by no other thread, created once, not yet in the table).  Static facts about
    the ids a thread names, the freshness invariants, and the derivation of `CrOK` from them. -/
namespace SqlObjVerif.Conc

/-! ## the ids a thread names -/
def kIds : K → List Id
  | .get i | .create i _ | .expire i => [i]
  | _ => []

def kCr : K → List Id
  | .create i _ => [i]
  | _ => []

/-- every row id the current operation names -/
def pcIds : Pc → List Id
  | .csGet k | .csSet k | .ccTest k | .ccRead k | .ccWrite k _ | .ccReset k | .cuAcq k | .cuWeakKeys k
  | .cuWeakChk k _ | .cuStrongKeys k | .cuStrongGet k _ _ | .cuStrongDel k _ _ _ | .cuWeakSet k _ _ _ | .cuRel k
  | .cuWeakPop k _ _ _ => kIds k
  | .probeL i | .probe i _ | .acq i | .relook i | .relRel i _ | .weakGet i | .weakDel i _ | .weakDelDead i _ | .strongSet i _
  | .relSet i _
  | .select i | .put i _ | .finRel i _ | .finRelNF i | .insert i | .crSetL i _ | .crSet i _ _ | .crSelect i _
  | .nProbe i | .nAcq i | .nRelook i
  | .exAcq i | .exInStrong i | .exDelStrong i | .exInWeak i | .exDelWeak i => [i]
  | _ => []

/-- the id the current operation creates -/
def pcCrIds : Pc → List Id
  | .csGet k | .csSet k | .ccTest k | .ccRead k | .ccWrite k _ | .ccReset k | .cuAcq k | .cuWeakKeys k
  | .cuWeakChk k _ | .cuStrongKeys k | .cuStrongGet k _ _ | .cuStrongDel k _ _ _ | .cuWeakSet k _ _ _ | .cuRel k
  | .cuWeakPop k _ _ _ => kCr k
  | .insert i | .crSetL i _ | .crSet i _ _ | .crSelect i _ => [i]
  | _ => []

/-- the id whose INSERT is still ahead in the current operation -/
def pendPc : Pc → List Id
  | .insert i => [i]
  | _ => []

def opIds : Op → List Id
  | .get i | .create i | .expire i => [i]
  | _ => []

def opCrIds : Op → List Id
  | .create i => [i]
  | _ => []

def progIds (p : List Op) : List Id := (p.map opIds).flatten
def progCrIds (p : List Op) : List Id := (p.map opCrIds).flatten

def thIds (th : Th) : List Id := pcIds th.pc ++ progIds th.prog
def thCrIds (th : Th) : List Id := pcCrIds th.pc ++ progCrIds th.prog
def thPend (th : Th) : List Id := pendPc th.pc ++ progCrIds th.prog

theorem pcIds_entry (dc c : Bool) (op : Op) : pcIds (entry dc c op) = opIds op := by
  cases op <;> cases c <;> cases dc <;> rfl
theorem pcCrIds_entry (dc c : Bool) (op : Op) : pcCrIds (entry dc c op) = opCrIds op := by
  cases op <;> cases c <;> cases dc <;> rfl
theorem pendPc_entry (dc c : Bool) (op : Op) : pendPc (entry dc c op) = opCrIds op := by
  cases op <;> cases c <;> cases dc <;> rfl

/-- what one step does to the three id lists of the acting thread -/
structure IdsLe (th' th : Th) : Prop where
  cr : (thCrIds th').Sublist (thCrIds th)
  ids : thIds th' ⊆ thIds th
  pend : thPend th' ⊆ thPend th

theorem goto_idsle (s : State) (t : Tid) (pc : Pc) (h1 : (pcCrIds pc).Sublist (pcCrIds (s.th t).pc))
    (h2 : pcIds pc ⊆ pcIds (s.th t).pc) (h3 : pendPc pc ⊆ pendPc (s.th t).pc) :
    IdsLe ((goto s t pc).th t) (s.th t) := by
  simp only [goto, setTh_self]
  refine ⟨?_, ?_, ?_⟩
  · exact List.Sublist.append h1 (List.Sublist.refl _)
  · simp only [thIds]; intro i hi; simp only [List.mem_append] at hi ⊢
    rcases hi with hi | hi
    · exact Or.inl (h2 hi)
    · exact Or.inr hi
  · simp only [thPend]; intro i hi; simp only [List.mem_append] at hi ⊢
    rcases hi with hi | hi
    · exact Or.inl (h3 hi)
    · exact Or.inr hi

theorem finish_idsle (s : State) (t : Tid) (o : Out) : IdsLe ((finish s t o).th t) (s.th t) := by
  unfold finish
  split
  · rename_i he
    simp only [setTh_self]
    refine ⟨?_, ?_, ?_⟩ <;> simp [thCrIds, thIds, thPend, pcCrIds, pcIds, pendPc, progIds, progCrIds]
  · rename_i op rest he
    simp only [setTh_self]
    refine ⟨?_, ?_, ?_⟩
    · simp only [thCrIds, he, pcCrIds_entry, progCrIds, List.map_cons, List.flatten_cons]
      exact List.sublist_append_right _ _
    · simp only [thIds, he, pcIds_entry, progIds, List.map_cons, List.flatten_cons]
      intro i hi; simp only [List.mem_append] at hi ⊢; exact Or.inr hi
    · simp only [thPend, he, pendPc_entry, progCrIds, List.map_cons, List.flatten_cons]
      intro i hi; simp only [List.mem_append] at hi ⊢; exact Or.inr hi

theorem releaseFinish_idsle (s : State) (t : Tid) (o : Out) : IdsLe ((releaseFinish s t o).th t) (s.th t) := by
  unfold releaseFinish; split
  · exact finish_idsle _ _ _
  · exact finish_idsle { s with lock := none } t o

theorem afterCC_idsle (s : State) (t : Tid) (k : K) (h1 : pcCrIds (s.th t).pc = kCr k)
    (h2 : pcIds (s.th t).pc = kIds k) : IdsLe ((afterCC s t k).th t) (s.th t) := by
  cases k <;> simp only [afterCC] <;>
    first
    | exact finish_idsle _ _ _
    | exact goto_idsle _ _ _ (by rw [h1]; simp [pcCrIds, kCr]) (by rw [h2]; simp [pcIds, kIds]) (by simp [pendPc])

theorem afterCaches_idsle (s : State) (t : Tid) (k : K) (h1 : pcCrIds (s.th t).pc = kCr k)
    (h2 : pcIds (s.th t).pc = kIds k) : IdsLe ((afterCaches s t k).th t) (s.th t) := by
  cases k <;> simp only [afterCaches] <;> (try split) <;>
    exact goto_idsle _ _ _ (by rw [h1]; simp [pcCrIds, kCr]) (by rw [h2]; simp [pcIds, kIds]) (by simp [pendPc])

theorem pcIds_cuWeakNext (k : K) (l : List Id) : pcIds (cuWeakNext k l) = kIds k := by cases l <;> rfl
theorem pcIds_cuStrongNext (k : K) (l : List Id) : pcIds (cuStrongNext k l) = kIds k := by cases l <;> rfl
theorem pcCrIds_cuWeakNext (k : K) (l : List Id) : pcCrIds (cuWeakNext k l) = kCr k := by cases l <;> rfl
theorem pcCrIds_cuStrongNext (k : K) (l : List Id) : pcCrIds (cuStrongNext k l) = kCr k := by cases l <;> rfl
theorem pendPc_cuWeakNext (k : K) (l : List Id) : pendPc (cuWeakNext k l) = [] := by cases l <;> rfl
theorem pendPc_cuStrongNext (k : K) (l : List Id) : pendPc (cuStrongNext k l) = [] := by cases l <;> rfl

theorem ids_step (s s' : State) (t : Tid) (hs : step s t = some s') : IdsLe (s'.th t) (s.th t) := by
  step_cases <;>
    first
    | exact finish_idsle _ _ _
    | exact releaseFinish_idsle _ _ _
    | exact afterCC_idsle _ _ _ (by rw [hpc]; rfl) (by rw [hpc]; rfl)
    | exact afterCaches_idsle _ _ _ (by rw [hpc]; rfl) (by rw [hpc]; rfl)
    | exact goto_idsle _ _ _
        (by rw [hpc]; (first | rw [pcCrIds_cuWeakNext] | rw [pcCrIds_cuStrongNext] | skip); simp [pcCrIds, kCr])
        (by rw [hpc]; (first | rw [pcIds_cuWeakNext] | rw [pcIds_cuStrongNext] | skip); simp [pcIds, kIds])
        (by rw [hpc]; (first | rw [pendPc_cuWeakNext] | rw [pendPc_cuStrongNext] | skip); simp [pendPc])

/-! ## no thread runs `expireAll` -/
def pcEA : Pc → Bool
  | .eaEntry | .eaAcq | .eaNext _ _ | .eaSetWeak _ _ _ _ | .eaSwap | .eaRel | .eaRelErr => true
  | .csGet k | .csSet k | .ccTest k | .ccRead k | .ccWrite k _ | .ccReset k | .cuAcq k | .cuWeakKeys k
  | .cuWeakChk k _ | .cuStrongKeys k | .cuStrongGet k _ _ | .cuStrongDel k _ _ _ | .cuWeakSet k _ _ _ | .cuRel k
  | .cuWeakPop k _ _ _ =>
    match k with
    | .expireAll => true
    | _ => false
  | _ => false

def isEA : Op → Bool
  | .expireAll => true
  | _ => false

def thNoEA (th : Th) : Prop := pcEA th.pc = false ∧ ∀ op ∈ th.prog, isEA op = false
def NoEA (s : State) : Prop := ∀ t, thNoEA (s.th t)

theorem pcEA_entry (dc c : Bool) (op : Op) (h : isEA op = false) : pcEA (entry dc c op) = false := by
  cases op <;> cases c <;> cases dc <;> simp_all [entry, pcEA, isEA]

theorem goto_nea (s : State) (t : Tid) (pc : Pc) (h : thNoEA (s.th t)) (hp : pcEA pc = false) :
    thNoEA ((goto s t pc).th t) := by
  simp only [goto, setTh_self]; exact ⟨hp, h.2⟩

theorem finish_nea (s : State) (t : Tid) (o : Out) (h : thNoEA (s.th t)) : thNoEA ((finish s t o).th t) := by
  unfold finish
  split
  · simp [thNoEA, pcEA]
  · rename_i op rest he
    simp only [setTh_self, thNoEA]
    have h2 := h.2
    rw [he] at h2
    exact ⟨pcEA_entry _ _ _ (h2 op (by simp)), fun op' ho => h2 op' (by simp [ho])⟩

theorem releaseFinish_nea (s : State) (t : Tid) (o : Out) (h : thNoEA (s.th t)) :
    thNoEA ((releaseFinish s t o).th t) := by
  unfold releaseFinish; split
  · exact finish_nea _ _ _ h
  · exact finish_nea { s with lock := none } t o h

theorem afterCC_nea (s : State) (t : Tid) (k : K) (h : thNoEA (s.th t)) (hk : pcEA (.ccTest k) = false) :
    thNoEA ((afterCC s t k).th t) := by
  cases k <;> simp only [afterCC] <;>
    first | exact finish_nea _ _ _ h | exact goto_nea _ _ _ h rfl | simp [pcEA] at hk

theorem afterCaches_nea (s : State) (t : Tid) (k : K) (h : thNoEA (s.th t)) (hk : pcEA (.ccTest k) = false) :
    thNoEA ((afterCaches s t k).th t) := by
  cases k <;> simp only [afterCaches] <;> (try split) <;>
    first | exact goto_nea _ _ _ h rfl | simp [pcEA] at hk

theorem pcEA_cuWeakNext (k : K) (ks : List Id) : pcEA (cuWeakNext k ks) = pcEA (.ccTest k) := by
  cases ks <;> rfl
theorem pcEA_cuStrongNext (k : K) (ks : List Id) : pcEA (cuStrongNext k ks) = pcEA (.ccTest k) := by
  cases ks <;> rfl

set_option linter.unnecessarySimpa false in
theorem noea_step (s s' : State) (t : Tid) (h : NoEA s) (hs : step s t = some s') : NoEA s' := by
  intro u
  by_cases hu : u = t
  · subst hu
    have h : thNoEA (s.th u) := h u
    have h1 := h.1
    step_cases <;> simp only [hpc] at h1 <;>
      first
      | exact finish_nea _ _ _ h
      | exact releaseFinish_nea _ _ _ h
      | exact goto_nea _ _ _ h rfl
      | exact goto_nea _ _ _ h (by simpa [pcEA] using h1)
      | exact goto_nea _ _ _ h (by rw [pcEA_cuWeakNext]; simpa [pcEA] using h1)
      | exact goto_nea _ _ _ h (by rw [pcEA_cuStrongNext]; simpa [pcEA] using h1)
      | exact afterCC_nea _ _ _ h (by simpa [pcEA] using h1)
      | exact afterCaches_nea _ _ _ h (by simpa [pcEA] using h1)
      | (simp [pcEA] at h1; done)
  · rw [step_th_ne s s' t u hs hu]; exact h u

/-! ## no thread runs `expire`: nothing is ever removed from the cache (`stale` stays empty) -/
def pcEX : Pc → Bool
  | .exAcq _ | .exInStrong _ | .exDelStrong _ | .exInWeak _ | .exDelWeak _ | .exRel | .exRelErr => true
  | .csGet k | .csSet k | .ccTest k | .ccRead k | .ccWrite k _ | .ccReset k | .cuAcq k | .cuWeakKeys k
  | .cuWeakChk k _ | .cuStrongKeys k | .cuStrongGet k _ _ | .cuStrongDel k _ _ _ | .cuWeakSet k _ _ _ | .cuRel k
  | .cuWeakPop k _ _ _ =>
    match k with
    | .expire _ => true
    | _ => false
  | _ => false

def isEX : Op → Bool
  | .expire _ => true
  | _ => false

def thNoEX (th : Th) : Prop := pcEX th.pc = false ∧ ∀ op ∈ th.prog, isEX op = false
def NoEX (s : State) : Prop := ∀ t, thNoEX (s.th t)

theorem pcEX_entry (dc c : Bool) (op : Op) (h : isEX op = false) : pcEX (entry dc c op) = false := by
  cases op <;> cases c <;> cases dc <;> simp_all [entry, pcEX, isEX]

theorem goto_nex (s : State) (t : Tid) (pc : Pc) (h : thNoEX (s.th t)) (hp : pcEX pc = false) :
    thNoEX ((goto s t pc).th t) := by
  simp only [goto, setTh_self]; exact ⟨hp, h.2⟩

theorem finish_nex (s : State) (t : Tid) (o : Out) (h : thNoEX (s.th t)) : thNoEX ((finish s t o).th t) := by
  unfold finish
  split
  · simp [thNoEX, pcEX]
  · rename_i op rest he
    simp only [setTh_self, thNoEX]
    have h2 := h.2
    rw [he] at h2
    exact ⟨pcEX_entry _ _ _ (h2 op (by simp)), fun op' ho => h2 op' (by simp [ho])⟩

theorem releaseFinish_nex (s : State) (t : Tid) (o : Out) (h : thNoEX (s.th t)) :
    thNoEX ((releaseFinish s t o).th t) := by
  unfold releaseFinish; split
  · exact finish_nex _ _ _ h
  · exact finish_nex { s with lock := none } t o h

theorem afterCC_nex (s : State) (t : Tid) (k : K) (h : thNoEX (s.th t)) (hk : pcEX (.ccTest k) = false) :
    thNoEX ((afterCC s t k).th t) := by
  cases k <;> simp only [afterCC] <;>
    first | exact finish_nex _ _ _ h | exact goto_nex _ _ _ h rfl | simp [pcEX] at hk

theorem afterCaches_nex (s : State) (t : Tid) (k : K) (h : thNoEX (s.th t)) (hk : pcEX (.ccTest k) = false) :
    thNoEX ((afterCaches s t k).th t) := by
  cases k <;> simp only [afterCaches] <;> (try split) <;>
    first | exact goto_nex _ _ _ h rfl | simp [pcEX] at hk

theorem pcEX_cuWeakNext (k : K) (ks : List Id) : pcEX (cuWeakNext k ks) = pcEX (.ccTest k) := by
  cases ks <;> rfl
theorem pcEX_cuStrongNext (k : K) (ks : List Id) : pcEX (cuStrongNext k ks) = pcEX (.ccTest k) := by
  cases ks <;> rfl

set_option linter.unnecessarySimpa false in
theorem noex_step (s s' : State) (t : Tid) (h : NoEX s) (hs : step s t = some s') : NoEX s' := by
  intro u
  by_cases hu : u = t
  · subst hu
    have h : thNoEX (s.th u) := h u
    have h1 := h.1
    step_cases <;> simp only [hpc] at h1 <;>
      first
      | exact finish_nex _ _ _ h
      | exact releaseFinish_nex _ _ _ h
      | exact goto_nex _ _ _ h rfl
      | exact goto_nex _ _ _ h (by simpa [pcEX] using h1)
      | exact goto_nex _ _ _ h (by rw [pcEX_cuWeakNext]; simpa [pcEX] using h1)
      | exact goto_nex _ _ _ h (by rw [pcEX_cuStrongNext]; simpa [pcEX] using h1)
      | exact afterCC_nex _ _ _ h (by simpa [pcEX] using h1)
      | exact afterCaches_nex _ _ _ h (by simpa [pcEX] using h1)
      | (simp [pcEX] at h1; done)
  · rw [step_th_ne s s' t u hs hu]; exact h u


theorem stale_step (s s' : State) (t : Tid) (hn : NoEX s) (hs : step s t = some s') : s'.stale = s.stale := by
  have h := (hn t).1
  step_cases <;> simp only [hpc, pcEX] at h <;> simp_all

theorem stale_run (s : State) (sched : List Tid) (hn : NoEX s) : (run s sched).stale = s.stale := by
  induction sched generalizing s with
  | nil => rfl
  | cons t ts ih =>
    unfold run
    split
    · rename_i s' hs
      rw [ih s' (noex_step s s' t hn hs), stale_step s s' t hn hs]
    · exact ih s hn

theorem noex_init (dc caches : Bool) (strong weak : AMap) (db : List Id) (fresh freq frac cc off : Nat)
    (pins : List Obj) (progs : Tid → List Op) (h : ∀ t, ∀ op ∈ progs t, isEX op = false) :
    NoEX (mkInit dc caches strong weak db fresh freq frac cc off pins progs) := by
  intro t
  show thNoEX (startTh dc caches (progs t))
  cases hp : progs t with
  | nil => simp [startTh, thNoEX, pcEX]
  | cons op rest =>
    simp only [startTh, thNoEX]
    have h' := h t; rw [hp] at h'
    exact ⟨pcEX_entry _ _ _ (h' op (by simp)), fun op' ho => h' op' (by simp [ho])⟩

theorem pcEAk_of_pcEA (pc : Pc) (h : pcEA pc = false) : pcEAk pc = false := by
  cases pc <;> simp_all [pcEA, pcEAk]

/-! ## fresh creates: an id a thread creates is named by no other thread, and created once -/
def Fresh (s : State) : Prop :=
  (∀ t u, t ≠ u → ∀ i ∈ thCrIds (s.th t), i ∉ thIds (s.th u)) ∧ ∀ t, (thCrIds (s.th t)).Nodup

theorem fresh_step (s s' : State) (t : Tid) (h : Fresh s) (hs : step s t = some s') : Fresh s' := by
  have hi := ids_step s s' t hs
  have hne : ∀ u, u ≠ t → s'.th u = s.th u := fun u hu => step_th_ne s s' t u hs hu
  constructor
  · intro a b hab i hia
    by_cases ha : a = t
    · subst ha
      rw [hne b (Ne.symm hab)]
      exact h.1 a b hab i (hi.cr.subset hia)
    · rw [hne a ha] at hia
      by_cases hb : b = t
      · subst hb
        intro hib
        exact h.1 a b hab i hia (hi.ids hib)
      · rw [hne b hb]; exact h.1 a b hab i hia
  · intro a
    by_cases ha : a = t
    · subst ha; exact hi.cr.nodup (h.2 a)
    · rw [hne a ha]; exact h.2 a

/-! ## dynamic freshness invariants -/
def kCreate : K → Option (Id × Obj)
  | .create i o => some (i, o)
  | _ => none

/-- the create the thread is in the middle of: row inserted, `cache[id] = obj` still ahead -/
def actCreate : Pc → Option (Id × Obj)
  | .csGet k | .csSet k | .ccTest k | .ccRead k | .ccWrite k _ | .ccReset k | .cuAcq k | .cuWeakKeys k
  | .cuWeakChk k _ | .cuStrongKeys k | .cuStrongGet k _ _ | .cuStrongDel k _ _ _ | .cuWeakSet k _ _ _ | .cuRel k
  | .cuWeakPop k _ _ _ => kCreate k
  | .crSetL i o | .crSet i o _ => some (i, o)
  | _ => none

/-- an id is present in the cache (either map, or in transit between them) -/
def Present (s : State) (i : Id) : Prop :=
  aget s.strong i ≠ none ∨ aget s.weak i ≠ none ∨ ∃ o, s.transit = some (i, o)

/-- ids the action at this pc may newly enter into the cache -/
def pcWrites : Pc → List Id
  | .put i _ | .crSet i _ _ => [i]
  | _ => []

structure CInv (s : State) : Prop where
  dbsub : ∀ i, Present s i → i ∈ s.db
  pend : ∀ t, ∀ i ∈ thPend (s.th t), i ∉ s.db
  act : ∀ t i o, actCreate (s.th t).pc = some (i, o) → ¬ Present s i ∧ i ∈ s.db
  putdb : ∀ t i o, (s.th t).pc = .put i o → i ∈ s.db

theorem pcWrites_sub (pc : Pc) : pcWrites pc ⊆ pcIds pc := by
  cases pc <;> simp [pcWrites, pcIds]

/-- an action enters into the cache only ids that were there, or the one its pc names for writing -/
theorem presence_step (s s' : State) (t : Tid) (ha : AInv s) (hb : BInv s) (hs : step s t = some s') (i : Id)
    (hp : Present s' i) : Present s i ∨ i ∈ pcWrites (s.th t).pc := by
  have hk := hb.know t
  have ht2 := hb.tr2 t
  have hS := (ha.needS t).2
  have hW := ha.needW t
  unfold Present at *
  step_cases <;> simp only [hpc, know, trPc, needS, needW, pcWrites] at hk ht2 hS hW ⊢ <;>
    simp at hp ⊢ <;> grind [aget_aset, aget_adel, aget_nil]

theorem db_effect (s s' : State) (t : Tid) (hs : step s t = some s') :
    s'.db = s.db ∨ ∃ j, (s.th t).pc = .insert j ∧ s'.db = s.db ++ [j] := by
  step_cases <;> simp [hpc]

theorem pendPc_sub (pc : Pc) : pendPc pc ⊆ pcCrIds pc := by
  cases pc <;> simp [pendPc, pcCrIds]

theorem thPend_sub (th : Th) : thPend th ⊆ thCrIds th := by
  intro i hi
  simp only [thPend, thCrIds, List.mem_append] at hi ⊢
  rcases hi with hi | hi
  · exact Or.inl (pendPc_sub _ hi)
  · exact Or.inr hi

theorem kCreate_kCr (k : K) (i : Id) (o : Obj) (h : kCreate k = some (i, o)) : i ∈ kCr k := by
  cases k <;> simp_all [kCreate, kCr]

theorem actCreate_crIds (pc : Pc) (i : Id) (o : Obj) (h : actCreate pc = some (i, o)) : i ∈ pcCrIds pc := by
  cases pc <;> simp only [actCreate, pcCrIds] at h ⊢ <;> first | exact kCreate_kCr _ _ _ h | simp_all

theorem mem_db_step (s s' : State) (t : Tid) (hs : step s t = some s') (i : Id) (h : i ∈ s.db) : i ∈ s'.db := by
  rcases db_effect s s' t hs with e | ⟨j, _, e⟩ <;> rw [e]
  · exact h
  · simp [h]

/-- `dbsub`: whatever enters the cache has a row -/
theorem cinv_dbsub (s s' : State) (t : Tid) (ha : AInv s) (hb : BInv s) (hc : CInv s)
    (hs : step s t = some s') (i : Id) (hp : Present s' i) : i ∈ s'.db := by
  rcases presence_step s s' t ha hb hs i hp with h | h
  · exact mem_db_step s s' t hs i (hc.dbsub i h)
  · apply mem_db_step s s' t hs i
    have h1 := hc.putdb t
    have h2 := hc.act t
    cases hpc : (s.th t).pc <;> simp only [hpc, pcWrites, actCreate] at h h1 h2 <;> simp_all

theorem actCreate_entry (dc c : Bool) (op : Op) : actCreate (entry dc c op) = none := by
  cases op <;> cases c <;> cases dc <;> rfl
theorem actCreate_finish (s : State) (t : Tid) (o : Out) : actCreate ((finish s t o).th t).pc = none := by
  unfold finish; split
  · simp only [setTh_self]; rfl
  · simp only [setTh_self]; exact actCreate_entry _ _ _
theorem actCreate_releaseFinish (s : State) (t : Tid) (o : Out) :
    actCreate ((releaseFinish s t o).th t).pc = none := by
  unfold releaseFinish; split <;> exact actCreate_finish _ _ _
theorem actCreate_afterCC (s : State) (t : Tid) (k : K) : actCreate ((afterCC s t k).th t).pc = kCreate k := by
  cases k <;> simp only [afterCC, goto_pc_self, actCreate_finish] <;> rfl
theorem actCreate_afterCaches (s : State) (t : Tid) (k : K) :
    actCreate ((afterCaches s t k).th t).pc = kCreate k := by
  cases k <;> simp only [afterCaches] <;> (try split) <;> simp only [goto_pc_self] <;> rfl
theorem actCreate_cuWeakNext (k : K) (l : List Id) : actCreate (cuWeakNext k l) = kCreate k := by cases l <;> rfl
theorem actCreate_cuStrongNext (k : K) (l : List Id) : actCreate (cuStrongNext k l) = kCreate k := by cases l <;> rfl

/-- a thread is in the middle of a create only if it was already (and its action wrote nothing new), or it
    has just inserted the row -/
theorem act_self (s s' : State) (t : Tid) (hs : step s t = some s') (i : Id) (o : Obj)
    (h : actCreate (s'.th t).pc = some (i, o)) :
    (actCreate (s.th t).pc = some (i, o) ∧ pcWrites (s.th t).pc = []) ∨ (s.th t).pc = .insert i := by
  step_cases <;>
    simp only [goto_pc_self, actCreate_finish, actCreate_releaseFinish, actCreate_afterCC, actCreate_afterCaches,
      actCreate_cuWeakNext, actCreate_cuStrongNext] at h <;>
    simp only [hpc, actCreate, pcWrites] <;> simp_all [actCreate, kCreate]

theorem cuStrongNext_ne_put (k : K) (l : List Id) (i : Id) (o : Obj) : cuStrongNext k l ≠ .put i o := by
  cases l <;> simp [cuStrongNext]
theorem cuWeakNext_ne_put (k : K) (l : List Id) (i : Id) (o : Obj) : cuWeakNext k l ≠ .put i o := by
  cases l <;> simp [cuWeakNext]

theorem put_self (s s' : State) (t : Tid) (hs : step s t = some s') (i : Id) (o : Obj)
    (h : (s'.th t).pc = .put i o) : i ∈ s.db ∨ (s.th t).pc = .put i o := by
  have hh : holds (s'.th t).pc = true := by rw [h]; rfl
  step_cases <;>
    simp only [goto_pc_self, finish_holds, releaseFinish_holds, afterCC_holds, afterCaches_holds,
      Bool.false_eq_true] at hh <;>
    simp only [goto_pc_self] at h <;> simp_all [cuStrongNext_ne_put, cuWeakNext_ne_put]

theorem pend_after_insert (s s' : State) (t : Tid) (hs : step s t = some s') (j : Id)
    (hpc : (s.th t).pc = .insert j) (hdb : s'.db = s.db ++ [j]) :
    thPend (s'.th t) = progCrIds (s.th t).prog := by
  simp only [step, hpc] at hs
  split at hs
  · injection hs with hs; subst hs
    simp at hdb
  · (repeat' split at hs) <;> (injection hs with hs; subst hs) <;> simp [thPend, goto, pendPc]

theorem cinv_step (s s' : State) (t : Tid) (ha : AInv s) (hb : BInv s) (hf : Fresh s) (hc : CInv s)
    (hs : step s t = some s') : CInv s' := by
  have hne : ∀ u, u ≠ t → s'.th u = s.th u := fun u hu => step_th_ne s s' t u hs hu
  have hi := ids_step s s' t hs
  refine ⟨cinv_dbsub s s' t ha hb hc hs, ?_, ?_, ?_⟩
  · -- pend
    intro u i hiu
    rcases db_effect s s' t hs with e | ⟨j, hpj, e⟩
    · rw [e]
      by_cases hu : u = t
      · subst hu; exact hc.pend u i (hi.pend hiu)
      · rw [hne u hu] at hiu; exact hc.pend u i hiu
    · have hjt : j ∈ thIds (s.th t) := by simp [thIds, hpj, pcIds]
      by_cases hu : u = t
      · subst hu
        have hold := hc.pend u i (hi.pend hiu)
        rw [pend_after_insert s s' u hs j hpj e] at hiu
        have hnd := hf.2 u
        simp only [thCrIds, hpj, pcCrIds, List.cons_append, List.nil_append, List.nodup_cons] at hnd
        rw [e]; simp only [List.mem_append, List.mem_singleton, not_or]
        exact ⟨hold, fun h => hnd.1 (h ▸ hiu)⟩
      · rw [hne u hu] at hiu
        have hold := hc.pend u i hiu
        have := hf.1 u t hu i (thPend_sub _ hiu)
        rw [e]; simp only [List.mem_append, List.mem_singleton, not_or]
        exact ⟨hold, fun h => this (h ▸ hjt)⟩
  · -- act
    intro u i o hact
    by_cases hu : u = t
    · subst hu
      rcases act_self s s' u hs i o hact with ⟨hold, hw⟩ | hins
      · obtain ⟨hnp, hdb⟩ := hc.act u i o hold
        refine ⟨fun hp => ?_, mem_db_step s s' u hs i hdb⟩
        rcases presence_step s s' u ha hb hs i hp with h | h
        · exact hnp h
        · rw [hw] at h; simp at h
      · have hnd : i ∉ s.db := hc.pend u i (by simp [thPend, hins, pendPc])
        refine ⟨fun hp => ?_, ?_⟩
        · rcases presence_step s s' u ha hb hs i hp with h | h
          · exact hnd (hc.dbsub i h)
          · rw [hins] at h; simp [pcWrites] at h
        · rcases db_effect s s' u hs with e | ⟨j, hpj, e⟩
          · exfalso
            simp only [step, hins] at hs
            split at hs
            · rename_i hin; exact hnd hin
            · (repeat' split at hs) <;> (injection hs with hs; subst hs) <;> simp at e
          · rw [hins] at hpj; injection hpj with hpj; subst hpj; rw [e]; simp
    · rw [hne u hu] at hact
      obtain ⟨hnp, hdb⟩ := hc.act u i o hact
      refine ⟨fun hp => ?_, mem_db_step s s' t hs i hdb⟩
      rcases presence_step s s' t ha hb hs i hp with h | h
      · exact hnp h
      · have h1 : i ∈ thCrIds (s.th u) := by
          simp only [thCrIds, List.mem_append]; exact Or.inl (actCreate_crIds _ i o hact)
        have h2 : i ∈ thIds (s.th t) := by
          simp only [thIds, List.mem_append]; exact Or.inl (pcWrites_sub _ h)
        exact hf.1 u t hu i h1 h2
  · -- putdb
    intro u i o hp
    by_cases hu : u = t
    · subst hu
      rcases put_self s s' u hs i o hp with h | h
      · exact mem_db_step s s' u hs i h
      · exact mem_db_step s s' u hs i (hc.putdb u i o h)
    · rw [hne u hu] at hp
      exact mem_db_step s s' t hs i (hc.putdb u i o hp)

theorem gid_pcIds (pc : Pc) (i : Id) (h : gid pc = some i) : i ∈ pcIds pc := by
  cases pc <;> simp_all [gid, pcIds]

/-- the generation of the dict a lock-free `cache[id] = obj` is about to write to -/
def pcGen : Pc → Option Nat
  | .crSet _ _ g => some g
  | _ => none

/-- without `expireAll` the attribute `self.cache` is never rebound: every such alias is of the current dict -/
def GenInv (s : State) : Prop := ∀ t g, pcGen (s.th t).pc = some g → g = s.gen

theorem pcGen_entry (dc c : Bool) (op : Op) : pcGen (entry dc c op) = none := by
  cases op <;> cases c <;> cases dc <;> rfl
theorem pcGen_finish (s : State) (t : Tid) (o : Out) : pcGen ((finish s t o).th t).pc = none := by
  unfold finish; split
  · simp only [setTh_self]; rfl
  · simp only [setTh_self]; exact pcGen_entry _ _ _
theorem pcGen_releaseFinish (s : State) (t : Tid) (o : Out) : pcGen ((releaseFinish s t o).th t).pc = none := by
  unfold releaseFinish; split <;> exact pcGen_finish _ _ _
theorem pcGen_afterCC (s : State) (t : Tid) (k : K) : pcGen ((afterCC s t k).th t).pc = none := by
  cases k <;> simp only [afterCC, goto_pc_self, pcGen_finish] <;> rfl
theorem pcGen_afterCaches (s : State) (t : Tid) (k : K) (g : Nat)
    (h : pcGen ((afterCaches s t k).th t).pc = some g) : g = s.gen := by
  cases k <;> simp only [afterCaches] at h <;> (try split at h) <;> simp_all [pcGen]
theorem pcGen_cuWeakNext (k : K) (l : List Id) : pcGen (cuWeakNext k l) = none := by cases l <;> rfl
theorem pcGen_cuStrongNext (k : K) (l : List Id) : pcGen (cuStrongNext k l) = none := by cases l <;> rfl

theorem gen_step (s s' : State) (t : Tid) (hn : NoEA s) (hs : step s t = some s') : s'.gen = s.gen := by
  have h := (hn t).1
  step_cases <;> simp only [hpc, pcEA] at h <;> simp_all

theorem geninv_step (s s' : State) (t : Tid) (hn : NoEA s) (hg : GenInv s) (hs : step s t = some s') : GenInv s' := by
  have e := gen_step s s' t hn hs
  intro u g hp
  rw [e]
  by_cases hu : u = t
  · subst hu
    step_cases <;>
      (try simp only [goto_pc_self, pcGen_finish, pcGen_releaseFinish, pcGen_afterCC, pcGen_cuWeakNext,
        pcGen_cuStrongNext] at hp) <;>
      first
      | (have h' := pcGen_afterCaches _ _ _ _ hp; simpa using h')
      | (simp_all [pcGen]; done)
  · rw [step_th_ne s s' t u hs hu] at hp; exact hg u g hp

theorem geninv_init (dc caches : Bool) (strong weak : AMap) (db : List Id) (fresh freq frac cc off : Nat)
    (pins : List Obj) (progs : Tid → List Op) :
    GenInv (mkInit dc caches strong weak db fresh freq frac cc off pins progs) := by
  intro t g h
  have h' : pcGen (startTh dc caches (progs t)).pc = some g := h
  cases hp : progs t with
  | nil => rw [hp] at h'; simp [startTh, pcGen] at h'
  | cons op rest => rw [hp] at h'; simp [startTh, pcGen_entry] at h'

/-- freshness makes the lock-free steps harmless -/
theorem crok_of_fresh (s : State) (t : Tid) (hf : Fresh s) (hn : NoEA s) (hc : CInv s) (hd : s.dc = true)
    (hgi : GenInv s) : CrOK s t := by
  constructor
  · intro i o g hp
    obtain ⟨hnp, _⟩ := hc.act t i o (by rw [hp]; rfl)
    have hcr : i ∈ thCrIds (s.th t) := by simp [thCrIds, hp, pcCrIds]
    refine ⟨?_, ?_, ?_, ?_, ?_, hd, hgi t g (by rw [hp]; rfl)⟩
    · cases h : aget s.strong i with
      | none => rfl
      | some v => exact absurd (Or.inl (by simp [h])) hnp
    · cases h : aget s.weak i with
      | none => rfl
      | some v => exact absurd (Or.inr (Or.inl (by simp [h]))) hnp
    · intro o' h; exact hnp (Or.inr (Or.inr ⟨o', h⟩))
    · intro u hg
      by_cases hu : u = t
      · subst hu; rw [hp] at hg; simp [gid] at hg
      · exact hf.1 t u (Ne.symm hu) i hcr (by simp only [thIds, List.mem_append]; exact Or.inl (gid_pcIds _ _ hg))
    · intro u; exact pcEAk_of_pcEA _ (hn u).1
  · intro i hp
    exact hc.pend t i (by simp [thPend, hp, pendPc])

/-- all layers along a schedule, for programs with fresh creates and no expireAll -/
theorem inv_run_fresh (s : State) (sched : List Tid) (ha : AInv s) (hb : BInv s) (hfi : FInv s) (hm : MdInv s)
    (hd : s.dc = true) (hgi : GenInv s) (hf : Fresh s) (hn : NoEA s) (hc : CInv s) (he : EInv s) :
    AInv (run s sched) ∧ BInv (run s sched) ∧ Fresh (run s sched) ∧ NoEA (run s sched) ∧ CInv (run s sched) ∧
      EInv (run s sched) := by
  induction sched generalizing s with
  | nil => exact ⟨ha, hb, hf, hn, hc, he⟩
  | cons t ts ih =>
    unfold run
    split
    · rename_i s' hs
      have hcr := crok_of_fresh s t hf hn hc hd hgi
      have hd' : s'.dc = true := by rw [dc_step s s' t hs]; exact hd
      exact ih s' (ainv_step s s' t ha hs) (binv_step s s' t ha hb hfi hm hcr hs) (finv_step s s' t hfi hs) (mdinv_step s s' t hm hs) hd' (geninv_step s s' t hn hgi hs)
        (fresh_step s s' t hf hs) (noea_step s s' t hn hs) (cinv_step s s' t ha hb hf hc hs)
        (einv_step s s' t ha hb hcr he hs)
    · exact ih s ha hb hfi hm hd hgi hf hn hc he

theorem reach_run_fresh (s : State) (sched : List Tid) (ha : AInv s) (hb : BInv s) (hfi : FInv s) (hm : MdInv s)
    (hd : s.dc = true) (hgi : GenInv s) (hf : Fresh s) (hn : NoEA s) (hc : CInv s) (i : Id) (o : Obj) (hr : Reach s i o) (hal : o ∈ s.refs ∨ o ∈ s.pins) :
    Reach (run s sched) i o := by
  induction sched generalizing s with
  | nil => exact hr
  | cons t ts ih =>
    unfold run
    split
    · rename_i s' hs
      have hcr := crok_of_fresh s t hf hn hc hd hgi
      have hd' : s'.dc = true := by rw [dc_step s s' t hs]; exact hd
      exact ih s' (ainv_step s s' t ha hs) (binv_step s s' t ha hb hfi hm hcr hs) (finv_step s s' t hfi hs) (mdinv_step s s' t hm hs) hd' (geninv_step s s' t hn hgi hs)
        (fresh_step s s' t hf hs) (noea_step s s' t hn hs) (cinv_step s s' t ha hb hf hc hs)
        (reach_step s s' t ha hb hcr hs i o hr (by rcases hal with h | h; exact Or.inl h; exact Or.inr (Or.inl h)))
        (held_step s s' t hs o hal)
    · exact ih s ha hb hfi hm hd hgi hf hn hc hr hal

/-! ## initial states -/
theorem startTh_ids (dc c : Bool) (p : List Op) :
    thIds (startTh dc c p) = progIds p ∧ thCrIds (startTh dc c p) = progCrIds p ∧ thPend (startTh dc c p) = progCrIds p := by
  cases p with
  | nil => simp [startTh, thIds, thCrIds, thPend, pcIds, pcCrIds, pendPc, progIds, progCrIds]
  | cons op rest =>
    simp [startTh, thIds, thCrIds, thPend, pcIds_entry, pcCrIds_entry, pendPc_entry, progIds, progCrIds]

theorem actCreate_startTh (dc c : Bool) (p : List Op) : actCreate (startTh dc c p).pc = none := by
  cases p
  · rfl
  · simp only [startTh]; exact actCreate_entry _ _ _

theorem noea_startTh (dc c : Bool) (p : List Op) (h : ∀ op ∈ p, isEA op = false) : thNoEA (startTh dc c p) := by
  cases p with
  | nil => simp [startTh, thNoEA, pcEA]
  | cons op rest =>
    simp only [startTh, thNoEA]
    exact ⟨pcEA_entry _ _ _ (h op (by simp)), fun op' ho => h op' (by simp [ho])⟩

theorem fresh_init (dc caches : Bool) (strong weak : AMap) (db : List Id) (fresh freq frac cc off : Nat)
    (pins : List Obj) (progs : Tid → List Op)
    (h1 : ∀ t u, t ≠ u → ∀ i ∈ progCrIds (progs t), i ∉ progIds (progs u))
    (h2 : ∀ t, (progCrIds (progs t)).Nodup) :
    Fresh (mkInit dc caches strong weak db fresh freq frac cc off pins progs) := by
  constructor
  · intro t u htu i hi
    change i ∈ thCrIds (startTh dc caches (progs t)) at hi
    change i ∉ thIds (startTh dc caches (progs u))
    rw [(startTh_ids dc caches (progs t)).2.1] at hi
    rw [(startTh_ids dc caches (progs u)).1]
    exact h1 t u htu i hi
  · intro t
    change (thCrIds (startTh dc caches (progs t))).Nodup
    rw [(startTh_ids dc caches (progs t)).2.1]; exact h2 t

theorem noea_init (dc caches : Bool) (strong weak : AMap) (db : List Id) (fresh freq frac cc off : Nat)
    (pins : List Obj) (progs : Tid → List Op) (h : ∀ t, ∀ op ∈ progs t, isEA op = false) :
    NoEA (mkInit dc caches strong weak db fresh freq frac cc off pins progs) :=
  fun t => noea_startTh dc caches (progs t) (h t)

theorem cinv_init (dc caches : Bool) (strong weak : AMap) (db : List Id) (fresh freq frac cc off : Nat)
    (pins : List Obj) (progs : Tid → List Op)
    (hdb : ∀ i, (aget strong i ≠ none ∨ aget weak i ≠ none) → i ∈ db)
    (h3 : ∀ t, ∀ i ∈ progCrIds (progs t), i ∉ db) :
    CInv (mkInit dc caches strong weak db fresh freq frac cc off pins progs) := by
  refine ⟨?_, ?_, ?_, ?_⟩
  · intro i hp
    rcases hp with h | h | ⟨o, h⟩
    · exact hdb i (Or.inl h)
    · exact hdb i (Or.inr h)
    · simp [mkInit] at h
  · intro t i hi
    change i ∈ thPend (startTh dc caches (progs t)) at hi
    rw [(startTh_ids dc caches (progs t)).2.2] at hi
    exact h3 t i hi
  · intro t i o h
    have : actCreate (startTh dc caches (progs t)).pc = some (i, o) := h
    simp [actCreate_startTh] at this
  · intro t i o h
    have h' : (startTh dc caches (progs t)).pc = .put i o := h
    have := holds_startTh dc caches (progs t)
    rw [h'] at this; simp [holds] at this

theorem mdinv_init (dc caches : Bool) (strong weak : AMap) (db : List Id) (fresh freq frac cc off : Nat)
    (pins : List Obj) (progs : Tid → List Op) (h : dc = false → strong = []) :
    MdInv (mkInit dc caches strong weak db fresh freq frac cc off pins progs) := by
  refine ⟨h, ?_, ?_⟩
  · intro t ht
    have ht' : pcDc (startTh dc caches (progs t)).pc = true := ht
    cases hp : progs t with
    | nil => rw [hp] at ht'; simp [startTh, pcDc] at ht'
    | cons op rest => rw [hp] at ht'; exact pcDc_entry _ _ _ ht'
  · intro t ht
    have ht' : pcNc (startTh dc caches (progs t)).pc = true := ht
    cases hp : progs t with
    | nil => rw [hp] at ht'; simp [startTh, pcNc] at ht'
    | cons op rest => rw [hp] at ht'; exact pcNc_entry _ _ _ ht'

/-! ## programs given as a finite list -/
def progsOf (l : List (List Op)) : Tid → List Op := fun t => l.getD t []

theorem getD_mem_or_nil (l : List (List Op)) (t : Nat) : l.getD t [] = [] ∨ (t < l.length ∧ l.getD t [] ∈ l) := by
  by_cases h : t < l.length
  · right; refine ⟨h, ?_⟩
    simp [List.getD, List.getElem?_eq_getElem h]
  · left; simp [List.getD, List.getElem?_eq_none (Nat.le_of_not_lt h)]

theorem aget_mem (m : AMap) (i : Id) (h : aget m i ≠ none) : ∃ kv ∈ m, kv.1 = i := by
  induction m with
  | nil => simp at h
  | cons p m ih =>
    obtain ⟨k, v⟩ := p
    simp only [aget] at h
    split at h
    · rename_i e; exact ⟨(k, v), by simp, e⟩
    · obtain ⟨kv, hm, e⟩ := ih h; exact ⟨kv, by simp [hm], e⟩

theorem all_of_list (P : Op → Bool) (l : List (List Op)) (h : ∀ p ∈ l, ∀ op ∈ p, P op = false) :
    ∀ t, ∀ op ∈ progsOf l t, P op = false := by
  intro t op hop
  change op ∈ l.getD t [] at hop
  rcases getD_mem_or_nil l t with e | ⟨_, e⟩
  · rw [e] at hop; simp at hop
  · exact h _ e op hop


end SqlObjVerif.Conc
