import SqlObjVerif.Lemmas.ConcB
/-! Layer C for the Conc model (C09): programs WITH `create`, as long as no thread runs `expireAll` and the
    created ids are fresh (named by no other thread, created once, not yet in the table).  Static facts about
    the ids a thread names, the freshness invariants, and the derivation of `CrOK` from them. -/
namespace SqlObjVerif.Conc

/-! ## the ids a thread names -/
def kIds : K → List Id
  | .get i | .create i _ | .expire i => [i]
  | _ => []

def kCr : K → List Id
  | .create i _ => [i]
  | _ => []

/-- every row id the current operation names -/
def pcIds : Pc → List Id
  | .csGet k | .csSet k | .ccTest k | .ccRead k | .ccWrite k _ | .ccReset k | .cuAcq k | .cuWeakKeys k
  | .cuWeakChk k _ | .cuStrongKeys k | .cuStrongGet k _ _ | .cuStrongDel k _ _ _ | .cuWeakSet k _ _ _ | .cuRel k => kIds k
  | .probe i | .acq i | .relook i | .relRel i _ | .weakGet i | .weakDel i _ | .strongSet i _ | .relSet i _
  | .select i | .put i _ | .finRel i _ | .finRelNF i | .insert i | .crSet i _ | .crSelect i _
  | .exAcq i | .exInStrong i | .exDelStrong i | .exInWeak i | .exDelWeak i => [i]
  | _ => []

/-- the id the current operation creates -/
def pcCrIds : Pc → List Id
  | .csGet k | .csSet k | .ccTest k | .ccRead k | .ccWrite k _ | .ccReset k | .cuAcq k | .cuWeakKeys k
  | .cuWeakChk k _ | .cuStrongKeys k | .cuStrongGet k _ _ | .cuStrongDel k _ _ _ | .cuWeakSet k _ _ _ | .cuRel k => kCr k
  | .insert i | .crSet i _ | .crSelect i _ => [i]
  | _ => []

/-- the id whose INSERT is still ahead in the current operation -/
def pendPc : Pc → List Id
  | .insert i => [i]
  | _ => []

def opIds : Op → List Id
  | .get i | .create i | .expire i => [i]
  | _ => []

def opCrIds : Op → List Id
  | .create i => [i]
  | _ => []

def progIds (p : List Op) : List Id := (p.map opIds).flatten
def progCrIds (p : List Op) : List Id := (p.map opCrIds).flatten

def thIds (th : Th) : List Id := pcIds th.pc ++ progIds th.prog
def thCrIds (th : Th) : List Id := pcCrIds th.pc ++ progCrIds th.prog
def thPend (th : Th) : List Id := pendPc th.pc ++ progCrIds th.prog

theorem pcIds_entry (c : Bool) (op : Op) : pcIds (entry c op) = opIds op := by
  cases op <;> cases c <;> rfl
theorem pcCrIds_entry (c : Bool) (op : Op) : pcCrIds (entry c op) = opCrIds op := by
  cases op <;> cases c <;> rfl
theorem pendPc_entry (c : Bool) (op : Op) : pendPc (entry c op) = opCrIds op := by
  cases op <;> cases c <;> rfl

/-- what one step does to the three id lists of the acting thread -/
structure IdsLe (th' th : Th) : Prop where
  cr : (thCrIds th').Sublist (thCrIds th)
  ids : thIds th' ⊆ thIds th
  pend : thPend th' ⊆ thPend th

theorem goto_idsle (s : State) (t : Tid) (pc : Pc) (h1 : (pcCrIds pc).Sublist (pcCrIds (s.th t).pc))
    (h2 : pcIds pc ⊆ pcIds (s.th t).pc) (h3 : pendPc pc ⊆ pendPc (s.th t).pc) :
    IdsLe ((goto s t pc).th t) (s.th t) := by
  simp only [goto, setTh_self]
  refine ⟨?_, ?_, ?_⟩
  · exact List.Sublist.append h1 (List.Sublist.refl _)
  · simp only [thIds]; intro i hi; simp only [List.mem_append] at hi ⊢
    rcases hi with hi | hi
    · exact Or.inl (h2 hi)
    · exact Or.inr hi
  · simp only [thPend]; intro i hi; simp only [List.mem_append] at hi ⊢
    rcases hi with hi | hi
    · exact Or.inl (h3 hi)
    · exact Or.inr hi

theorem finish_idsle (s : State) (t : Tid) (o : Out) : IdsLe ((finish s t o).th t) (s.th t) := by
  unfold finish
  split
  · rename_i he
    simp only [setTh_self]
    refine ⟨?_, ?_, ?_⟩ <;> simp [thCrIds, thIds, thPend, pcCrIds, pcIds, pendPc, progIds, progCrIds]
  · rename_i op rest he
    simp only [setTh_self]
    refine ⟨?_, ?_, ?_⟩
    · simp only [thCrIds, he, pcCrIds_entry, progCrIds, List.map_cons, List.flatten_cons]
      exact List.sublist_append_right _ _
    · simp only [thIds, he, pcIds_entry, progIds, List.map_cons, List.flatten_cons]
      intro i hi; simp only [List.mem_append] at hi ⊢; exact Or.inr hi
    · simp only [thPend, he, pendPc_entry, progCrIds, List.map_cons, List.flatten_cons]
      intro i hi; simp only [List.mem_append] at hi ⊢; exact Or.inr hi

theorem releaseFinish_idsle (s : State) (t : Tid) (o : Out) : IdsLe ((releaseFinish s t o).th t) (s.th t) := by
  unfold releaseFinish; split
  · exact finish_idsle _ _ _
  · exact finish_idsle { s with lock := none } t o

theorem afterCC_idsle (s : State) (t : Tid) (k : K) (h1 : pcCrIds (s.th t).pc = kCr k)
    (h2 : pcIds (s.th t).pc = kIds k) : IdsLe ((afterCC s t k).th t) (s.th t) := by
  cases k <;> simp only [afterCC] <;>
    first
    | exact finish_idsle _ _ _
    | exact goto_idsle _ _ _ (by rw [h1]; simp [pcCrIds, kCr]) (by rw [h2]; simp [pcIds, kIds]) (by simp [pendPc])

theorem afterCaches_idsle (s : State) (t : Tid) (k : K) (h1 : pcCrIds (s.th t).pc = kCr k)
    (h2 : pcIds (s.th t).pc = kIds k) : IdsLe ((afterCaches s t k).th t) (s.th t) := by
  cases k <;> simp only [afterCaches] <;>
    exact goto_idsle _ _ _ (by rw [h1]; simp [pcCrIds, kCr]) (by rw [h2]; simp [pcIds, kIds]) (by simp [pendPc])

theorem pcIds_cuWeakNext (k : K) (l : List Id) : pcIds (cuWeakNext k l) = kIds k := by cases l <;> rfl
theorem pcIds_cuStrongNext (k : K) (l : List Id) : pcIds (cuStrongNext k l) = kIds k := by cases l <;> rfl
theorem pcCrIds_cuWeakNext (k : K) (l : List Id) : pcCrIds (cuWeakNext k l) = kCr k := by cases l <;> rfl
theorem pcCrIds_cuStrongNext (k : K) (l : List Id) : pcCrIds (cuStrongNext k l) = kCr k := by cases l <;> rfl
theorem pendPc_cuWeakNext (k : K) (l : List Id) : pendPc (cuWeakNext k l) = [] := by cases l <;> rfl
theorem pendPc_cuStrongNext (k : K) (l : List Id) : pendPc (cuStrongNext k l) = [] := by cases l <;> rfl

theorem ids_step (s s' : State) (t : Tid) (hs : step s t = some s') : IdsLe (s'.th t) (s.th t) := by
  step_cases <;>
    first
    | exact finish_idsle _ _ _
    | exact releaseFinish_idsle _ _ _
    | exact afterCC_idsle _ _ _ (by rw [hpc]; rfl) (by rw [hpc]; rfl)
    | exact afterCaches_idsle _ _ _ (by rw [hpc]; rfl) (by rw [hpc]; rfl)
    | exact goto_idsle _ _ _
        (by rw [hpc]; (first | rw [pcCrIds_cuWeakNext] | rw [pcCrIds_cuStrongNext] | skip); simp [pcCrIds, kCr])
        (by rw [hpc]; (first | rw [pcIds_cuWeakNext] | rw [pcIds_cuStrongNext] | skip); simp [pcIds, kIds])
        (by rw [hpc]; (first | rw [pendPc_cuWeakNext] | rw [pendPc_cuStrongNext] | skip); simp [pendPc])

/-! ## no thread runs `expireAll` -/
def pcEA : Pc → Bool
  | .eaAcq | .eaNext _ _ | .eaSetWeak _ _ _ _ | .eaSwap | .eaRel | .eaRelErr => true
  | .csGet k | .csSet k | .ccTest k | .ccRead k | .ccWrite k _ | .ccReset k | .cuAcq k | .cuWeakKeys k
  | .cuWeakChk k _ | .cuStrongKeys k | .cuStrongGet k _ _ | .cuStrongDel k _ _ _ | .cuWeakSet k _ _ _ | .cuRel k =>
    match k with
    | .expireAll => true
    | _ => false
  | _ => false

def isEA : Op → Bool
  | .expireAll => true
  | _ => false

def thNoEA (th : Th) : Prop := pcEA th.pc = false ∧ ∀ op ∈ th.prog, isEA op = false
def NoEA (s : State) : Prop := ∀ t, thNoEA (s.th t)

theorem pcEA_entry (c : Bool) (op : Op) (h : isEA op = false) : pcEA (entry c op) = false := by
  cases op <;> cases c <;> simp_all [entry, pcEA, isEA]

theorem goto_nea (s : State) (t : Tid) (pc : Pc) (h : thNoEA (s.th t)) (hp : pcEA pc = false) :
    thNoEA ((goto s t pc).th t) := by
  simp only [goto, setTh_self]; exact ⟨hp, h.2⟩

theorem finish_nea (s : State) (t : Tid) (o : Out) (h : thNoEA (s.th t)) : thNoEA ((finish s t o).th t) := by
  unfold finish
  split
  · simp [thNoEA, pcEA]
  · rename_i op rest he
    simp only [setTh_self, thNoEA]
    have h2 := h.2
    rw [he] at h2
    exact ⟨pcEA_entry _ _ (h2 op (by simp)), fun op' ho => h2 op' (by simp [ho])⟩

theorem releaseFinish_nea (s : State) (t : Tid) (o : Out) (h : thNoEA (s.th t)) :
    thNoEA ((releaseFinish s t o).th t) := by
  unfold releaseFinish; split
  · exact finish_nea _ _ _ h
  · exact finish_nea { s with lock := none } t o h

theorem afterCC_nea (s : State) (t : Tid) (k : K) (h : thNoEA (s.th t)) (hk : pcEA (.ccTest k) = false) :
    thNoEA ((afterCC s t k).th t) := by
  cases k <;> simp only [afterCC] <;>
    first | exact finish_nea _ _ _ h | exact goto_nea _ _ _ h rfl | simp [pcEA] at hk

theorem afterCaches_nea (s : State) (t : Tid) (k : K) (h : thNoEA (s.th t)) (hk : pcEA (.ccTest k) = false) :
    thNoEA ((afterCaches s t k).th t) := by
  cases k <;> simp only [afterCaches] <;>
    first | exact goto_nea _ _ _ h rfl | simp [pcEA] at hk

theorem pcEA_cuWeakNext (k : K) (ks : List Id) : pcEA (cuWeakNext k ks) = pcEA (.ccTest k) := by
  cases ks <;> rfl
theorem pcEA_cuStrongNext (k : K) (ks : List Id) : pcEA (cuStrongNext k ks) = pcEA (.ccTest k) := by
  cases ks <;> rfl

set_option linter.unnecessarySimpa false in
theorem noea_step (s s' : State) (t : Tid) (h : NoEA s) (hs : step s t = some s') : NoEA s' := by
  intro u
  by_cases hu : u = t
  · subst hu
    have h : thNoEA (s.th u) := h u
    have h1 := h.1
    step_cases <;> simp only [hpc] at h1 <;>
      first
      | exact finish_nea _ _ _ h
      | exact releaseFinish_nea _ _ _ h
      | exact goto_nea _ _ _ h rfl
      | exact goto_nea _ _ _ h (by simpa [pcEA] using h1)
      | exact goto_nea _ _ _ h (by rw [pcEA_cuWeakNext]; simpa [pcEA] using h1)
      | exact goto_nea _ _ _ h (by rw [pcEA_cuStrongNext]; simpa [pcEA] using h1)
      | exact afterCC_nea _ _ _ h (by simpa [pcEA] using h1)
      | exact afterCaches_nea _ _ _ h (by simpa [pcEA] using h1)
      | (simp [pcEA] at h1; done)
  · rw [step_th_ne s s' t u hs hu]; exact h u

theorem pcEAk_of_pcEA (pc : Pc) (h : pcEA pc = false) : pcEAk pc = false := by
  cases pc <;> simp_all [pcEA, pcEAk]

/-! ## fresh creates: an id a thread creates is named by no other thread, and created once -/
def Fresh (s : State) : Prop :=
  (∀ t u, t ≠ u → ∀ i ∈ thCrIds (s.th t), i ∉ thIds (s.th u)) ∧ ∀ t, (thCrIds (s.th t)).Nodup

theorem fresh_step (s s' : State) (t : Tid) (h : Fresh s) (hs : step s t = some s') : Fresh s' := by
  have hi := ids_step s s' t hs
  have hne : ∀ u, u ≠ t → s'.th u = s.th u := fun u hu => step_th_ne s s' t u hs hu
  constructor
  · intro a b hab i hia
    by_cases ha : a = t
    · subst ha
      rw [hne b (Ne.symm hab)]
      exact h.1 a b hab i (hi.cr.subset hia)
    · rw [hne a ha] at hia
      by_cases hb : b = t
      · subst hb
        intro hib
        exact h.1 a b hab i hia (hi.ids hib)
      · rw [hne b hb]; exact h.1 a b hab i hia
  · intro a
    by_cases ha : a = t
    · subst ha; exact hi.cr.nodup (h.2 a)
    · rw [hne a ha]; exact h.2 a

/-! ## dynamic freshness invariants -/
def kCreate : K → Option (Id × Obj)
  | .create i o => some (i, o)
  | _ => none

/-- the create the thread is in the middle of: row inserted, `cache[id] = obj` still ahead -/
def actCreate : Pc → Option (Id × Obj)
  | .csGet k | .csSet k | .ccTest k | .ccRead k | .ccWrite k _ | .ccReset k | .cuAcq k | .cuWeakKeys k
  | .cuWeakChk k _ | .cuStrongKeys k | .cuStrongGet k _ _ | .cuStrongDel k _ _ _ | .cuWeakSet k _ _ _ | .cuRel k => kCreate k
  | .crSet i o => some (i, o)
  | _ => none

/-- an id is present in the cache (either map, or in transit between them) -/
def Present (s : State) (i : Id) : Prop :=
  aget s.strong i ≠ none ∨ aget s.weak i ≠ none ∨ ∃ o, s.transit = some (i, o)

/-- ids the action at this pc may newly enter into the cache -/
def pcWrites : Pc → List Id
  | .put i _ | .crSet i _ => [i]
  | _ => []

structure CInv (s : State) : Prop where
  dbsub : ∀ i, Present s i → i ∈ s.db
  pend : ∀ t, ∀ i ∈ thPend (s.th t), i ∉ s.db
  act : ∀ t i o, actCreate (s.th t).pc = some (i, o) → ¬ Present s i ∧ i ∈ s.db
  putdb : ∀ t i o, (s.th t).pc = .put i o → i ∈ s.db

theorem pcWrites_sub (pc : Pc) : pcWrites pc ⊆ pcIds pc := by
  cases pc <;> simp [pcWrites, pcIds]

/-- an action enters into the cache only ids that were there, or the one its pc names for writing -/
theorem presence_step (s s' : State) (t : Tid) (ha : AInv s) (hb : BInv s) (hs : step s t = some s') (i : Id)
    (hp : Present s' i) : Present s i ∨ i ∈ pcWrites (s.th t).pc := by
  have hk := hb.know t
  have ht2 := hb.tr2 t
  have hS := (ha.needS t).2
  have hW := ha.needW t
  unfold Present at *
  step_cases <;> simp only [hpc, know, trPc, needS, needW, pcWrites] at hk ht2 hS hW ⊢ <;>
    simp at hp ⊢ <;> grind [aget_aset, aget_adel, aget_nil]

theorem db_effect (s s' : State) (t : Tid) (hs : step s t = some s') :
    s'.db = s.db ∨ ∃ j, (s.th t).pc = .insert j ∧ s'.db = s.db ++ [j] := by
  step_cases <;> simp [hpc]

theorem pendPc_sub (pc : Pc) : pendPc pc ⊆ pcCrIds pc := by
  cases pc <;> simp [pendPc, pcCrIds]

theorem thPend_sub (th : Th) : thPend th ⊆ thCrIds th := by
  intro i hi
  simp only [thPend, thCrIds, List.mem_append] at hi ⊢
  rcases hi with hi | hi
  · exact Or.inl (pendPc_sub _ hi)
  · exact Or.inr hi

theorem kCreate_kCr (k : K) (i : Id) (o : Obj) (h : kCreate k = some (i, o)) : i ∈ kCr k := by
  cases k <;> simp_all [kCreate, kCr]

theorem actCreate_crIds (pc : Pc) (i : Id) (o : Obj) (h : actCreate pc = some (i, o)) : i ∈ pcCrIds pc := by
  cases pc <;> simp only [actCreate, pcCrIds] at h ⊢ <;> first | exact kCreate_kCr _ _ _ h | simp_all

theorem mem_db_step (s s' : State) (t : Tid) (hs : step s t = some s') (i : Id) (h : i ∈ s.db) : i ∈ s'.db := by
  rcases db_effect s s' t hs with e | ⟨j, _, e⟩ <;> rw [e]
  · exact h
  · simp [h]

/-- `dbsub`: whatever enters the cache has a row -/
theorem cinv_dbsub (s s' : State) (t : Tid) (ha : AInv s) (hb : BInv s) (hc : CInv s)
    (hs : step s t = some s') (i : Id) (hp : Present s' i) : i ∈ s'.db := by
  rcases presence_step s s' t ha hb hs i hp with h | h
  · exact mem_db_step s s' t hs i (hc.dbsub i h)
  · apply mem_db_step s s' t hs i
    have h1 := hc.putdb t
    have h2 := hc.act t
    cases hpc : (s.th t).pc <;> simp only [hpc, pcWrites, actCreate] at h h1 h2 <;> simp_all

end SqlObjVerif.Conc
