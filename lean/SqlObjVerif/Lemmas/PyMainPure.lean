import SqlObjVerif.Model.PyMain
/-!
Facts about the PURE helper functions of `Model/PyMain.lean` (Python dicts as association lists in insertion order,
`sorted(…, key=…)`, `mapR`, `optMap`, value conversions) that the symbolic execution of translated programs needs,
whatever semantics the statements get.  COPIES of the generic lemmas of `Lemmas/OrmValX*.lean` (C05/C16), kept in a
file of their own so that C06's proofs do not depend on C05's proofs about other translated methods.
-/
namespace SqlObjVerif.PyPure
open SqlObjVerif.PyMain

@[simp] theorem toVal_ofVal (v : CVal) : toVal? (ofVal v) = some v := by cases v <;> rfl

@[simp] theorem toVal_none : toVal? PV.none = some Option.none := rfl

@[simp] theorem toVal_int (i : Int) : toVal? (PV.int i) = some (some i) := rfl

@[simp] theorem toVal_bad : toVal? PV.bad = Option.none := rfl

section
variable {α β : Type}
@[simp] theorem R.bind_ok (a : α) (f : α → R β) : (R.ok a).bind f = f a := rfl
@[simp] theorem R.bind_exc (e : Exc) (f : α → R β) : (R.exc e : R α).bind f = .exc e := rfl
@[simp] theorem R.bind_stuck (f : α → R β) : (R.stuck : R α).bind f = .stuck := rfl
@[simp] theorem ofOpt_some (a : α) : ofOpt (some a) = .ok a := rfl
@[simp] theorem ofOpt_none : ofOpt (Option.none : Option α) = .stuck := rfl
end

@[simp] theorem pvIdx_pair0 (a b : PV) : pvIdx (.pair a b) 0 = .ok a := rfl

@[simp] theorem pvIdx_pair1 (a b : PV) : pvIdx (.pair a b) 1 = .ok b := rfl

@[simp] theorem pvIdx_row (r : List CVal) (i : Nat) : pvIdx (.row r) i = match r[i]? with
    | some v => .ok (ofVal v)
    | Option.none => .stuck := by cases i <;> rfl

@[simp] theorem nameOf_name (c : Nat) : nameOf (.name c) = some c := rfl

@[simp] theorem natOf_nat (c : Nat) : natOf (.nat c) = some c := rfl

@[simp] theorem dbNameOf_dbName (c : Nat) : dbNameOf (.dbName c) = some c := rfl

@[simp] theorem updItemOf_pair (c : Nat) (v : PV) : updItemOf (.pair (.dbName c) v) = (toVal? v).map fun x => (c, x) := rfl

@[simp] theorem dictItemOf_pair (c : Nat) (v : PV) : dictItemOf (.pair (.name c) v) = some (c, v) := rfl

@[simp] theorem pyBool_none : pyBool .none = some false := rfl

@[simp] theorem pyBool_bool (b : Bool) : pyBool (.bool b) = some b := rfl

@[simp] theorem pyBool_row (r : List CVal) : pyBool (.row r) = some (!r.isEmpty) := rfl

@[simp] theorem pyBool_fn (k : FnKind) (c : Nat) : pyBool (.fn k c) = some true := rfl

@[simp] theorem isNone_none : PV.isNone .none = true := rfl

@[simp] theorem isNone_row (r : List CVal) : PV.isNone (.row r) = false := rfl

@[simp] theorem optMap_map {α β γ : Type} (f : β → Option γ) (g : α → β) (l : List α) :
    optMap f (l.map g) = optMap (fun x => f (g x)) l := by
  induction l with
  | nil => rfl
  | cons a l ih => simp [optMap, ih]

@[simp] theorem optMap_some {α β : Type} (g : α → β) (l : List α) : optMap (fun x => some (g x)) l = some (l.map g) := by
  induction l with
  | nil => rfl
  | cons a l ih => simp [optMap, ih]

@[simp] theorem optMap_some_id {α : Type} (l : List α) : optMap (fun x => some x) l = some l := by
  induction l with
  | nil => rfl
  | cons a l ih => simp [optMap, ih]

@[simp] theorem mapR_map {α β γ : Type} (f : β → R γ) (g : α → β) (l : List α) :
    mapR f (l.map g) = mapR (fun x => f (g x)) l := by
  induction l with
  | nil => rfl
  | cons a l ih => simp [mapR, ih]

@[simp] theorem mapR_ok {α β : Type} (g : α → β) (l : List α) : mapR (fun x => R.ok (g x)) l = .ok (l.map g) := by
  induction l with
  | nil => rfl
  | cons a l ih => simp [mapR, ih]

/-- a list computed element by element, every element succeeding -/
theorem mapR_ok_of {α β : Type} {f : α → R β} {l : List α} {m : R (List β)} (hm : mapR f l = m) (g : α → β)
    (hf : ∀ x ∈ l, f x = .ok (g x)) : m = .ok (l.map g) := by
  subst hm
  induction l with
  | nil => rfl
  | cons a l ih =>
    simp only [mapR, hf a (by simp), R.bind_ok, List.map_cons]
    rw [ih (fun x hx => hf x (by simp [hx]))]
    rfl

theorem insByKey_map {α β : Type} (g : Nat × α → β) (x : Nat × α) (l : List (Nat × α)) :
    insByKey (x.1, g x) (l.map fun e => (e.1, g e)) = (insByKey x l).map fun e => (e.1, g e) := by
  induction l with
  | nil => rfl
  | cons y r ih =>
    simp only [List.map_cons, insByKey]
    split
    · rfl
    · simp [ih]

theorem sortByKey_map {α β : Type} (g : Nat × α → β) (l : List (Nat × α)) :
    sortByKey (l.map fun e => (e.1, g e)) = (sortByKey l).map fun e => (e.1, g e) := by
  induction l with
  | nil => rfl
  | cons x l ih =>
    simp only [sortByKey, List.map_cons, List.foldr_cons] at ih ⊢
    rw [ih, insByKey_map]

@[simp] theorem sortByKey_nil {α : Type} : sortByKey ([] : List (Nat × α)) = [] := rfl

theorem insByKey_ne_nil {α : Type} (x : Nat × α) (l : List (Nat × α)) : insByKey x l ≠ [] := by
  cases l with
  | nil => simp [insByKey]
  | cons y r => simp only [insByKey]; split <;> simp

theorem sortByKey_eq_nil {α : Type} (l : List (Nat × α)) : sortByKey l = [] ↔ l = [] := by
  cases l with
  | nil => simp [sortByKey]
  | cons x l => simp [sortByKey, insByKey_ne_nil]

theorem mem_insByKey {α : Type} (x e : Nat × α) (l : List (Nat × α)) : e ∈ insByKey x l ↔ e = x ∨ e ∈ l := by
  induction l with
  | nil => simp [insByKey]
  | cons y r ih =>
    simp only [insByKey]
    split
    · simp
    · simp [ih]; constructor <;> (intro h; rcases h with h | h | h <;> simp [h])

theorem mem_sortByKey {α : Type} (e : Nat × α) (l : List (Nat × α)) : e ∈ sortByKey l ↔ e ∈ l := by
  induction l with
  | nil => simp [sortByKey]
  | cons x l ih =>
    simp only [sortByKey, List.foldr_cons] at ih ⊢
    rw [mem_insByKey, ih]; simp

theorem dget_append_single {α : Type} (c k : Nat) (v : α) (l : List (Nat × α)) :
    PyMain.dget c (l ++ [(k, v)]) = match PyMain.dget c l with
      | some x => some x
      | Option.none => if k = c then some v else Option.none := by
  induction l with
  | nil => simp [PyMain.dget]
  | cons y r ih =>
    simp only [List.cons_append, PyMain.dget]
    split
    · rfl
    · exact ih

theorem dget_none_of_not_mem {α : Type} (c : Nat) (l : List (Nat × α)) (h : c ∉ l.map (·.1)) : PyMain.dget c l = Option.none := by
  induction l with
  | nil => rfl
  | cons y r ih =>
    simp only [List.map_cons, List.mem_cons, not_or] at h
    simp only [PyMain.dget]
    rw [if_neg (fun e => h.1 e.symm)]
    exact ih h.2

theorem dhas_iff {α : Type} (k : Nat) (l : List (Nat × α)) : dhas k l = true ↔ k ∈ l.map (·.1) := by
  simp [dhas]

theorem dset_keys {α : Type} (k : Nat) (v : α) (l : List (Nat × α)) :
    (dset k v l).map (·.1) = if dhas k l then l.map (·.1) else l.map (·.1) ++ [k] := by
  unfold dset
  split
  · simp only [List.map_map]
    apply List.map_congr_left
    intro e _
    by_cases he : e.1 = k <;> simp [he]
  · simp

theorem dset_nodup {α : Type} (k : Nat) (v : α) (l : List (Nat × α)) (h : (l.map (·.1)).Nodup) :
    ((dset k v l).map (·.1)).Nodup := by
  rw [dset_keys]
  split
  · exact h
  · rename_i hk
    rw [List.nodup_append]
    refine ⟨h, by simp, ?_⟩
    intro a ha b hb
    simp at hb
    subst hb
    intro hab
    subst hab
    exact hk ((dhas_iff _ _).mpr ha)

theorem dget_dset {α : Type} (c k : Nat) (v : α) (l : List (Nat × α)) :
    dget c (dset k v l) = if c = k then some v else dget c l := by
  unfold dset
  split
  · rename_i hk
    induction l with
    | nil => simp [dhas] at hk
    | cons y r ih =>
      simp only [List.map_cons, dget]
      by_cases hy : y.1 = k
      · simp only [hy, if_true]
        by_cases hc : c = k
        · simp [hc]
        · have : ¬ k = c := fun e => hc e.symm
          simp only [this, if_false, hc]
          -- the rest of the list is searched the same way
          clear ih hk
          induction r with
          | nil => simp [dget]
          | cons z r ih2 =>
            simp only [List.map_cons, dget]
            by_cases hz : z.1 = k
            · have hzc : ¬ z.1 = c := fun e => hc (by rw [← e, hz])
              simp [hz, this, hzc, ih2]
            · simp [hz, ih2]
      · simp only [hy, if_false]
        have hk' : dhas k r = true := by
          simp only [dhas, List.any_cons, Bool.or_eq_true, decide_eq_true_eq] at hk
          rcases hk with h1 | h1
          · exact absurd h1 hy
          · simpa [dhas] using h1
        by_cases hyc : y.1 = c
        · have : ¬ c = k := fun e => hy (by rw [hyc, e])
          simp [hyc, this]
        · simp only [hyc, if_false]
          exact ih hk'
  · rw [show l ++ [(k, v)] = l ++ [(k, v)] from rfl, dget_append_single]
    by_cases hc : c = k
    · subst hc
      rename_i hk
      have : dget c l = Option.none := dget_none_of_not_mem c l (fun hm => hk ((dhas_iff _ _).mpr hm))
      simp [this]
    · have : ¬ k = c := fun e => hc e.symm
      cases dget c l <;> simp [hc, this]

theorem dset_map {α β : Type} (g : α → β) (k : Nat) (v : α) (l : List (Nat × α)) :
    dset k (g v) (l.map fun e => (e.1, g e.2)) = (dset k v l).map fun e => (e.1, g e.2) := by
  unfold dset
  have : dhas k (l.map fun e => (e.1, g e.2)) = dhas k l := by simp [dhas, Function.comp_def]
  rw [this]
  split
  · simp only [List.map_map]
    apply List.map_congr_left
    intro e _
    by_cases he : e.1 = k <;> simp [he]
  · simp

@[simp] theorem dhas_single {α : Type} (k : Nat) (v : α) : dhas k [(k, v)] = true := by simp [dhas]

@[simp] theorem dget_single {α : Type} (k : Nat) (v : α) : dget k [(k, v)] = some v := by simp [dget]

theorem dupdate_cons {α : Type} (x : Nat × α) (l d : List (Nat × α)) : dupdate (x :: l) d = dupdate l (dset x.1 x.2 d) := rfl

theorem dupdate_nodup {α : Type} (new d : List (Nat × α)) (h : (d.map (·.1)).Nodup) : ((dupdate new d).map (·.1)).Nodup := by
  induction new generalizing d with
  | nil => exact h
  | cons x l ih => rw [dupdate_cons]; exact ih _ (dset_nodup _ _ _ h)

theorem dget_dupdate {α : Type} (c : Nat) (new d : List (Nat × α)) (hnd : (new.map (·.1)).Nodup) :
    dget c (dupdate new d) = match dget c new with
      | some v => some v
      | Option.none => dget c d := by
  induction new generalizing d with
  | nil => rfl
  | cons x l ih =>
    simp only [List.map_cons, List.nodup_cons] at hnd
    rw [dupdate_cons, ih _ hnd.2, dget_dset]
    simp only [dget]
    by_cases hx : x.1 = c
    · subst hx
      rw [dget_none_of_not_mem _ _ hnd.1]
      simp
    · have : ¬ c = x.1 := fun e => hx e.symm
      simp [hx, this]

theorem eq_of_key_eq {α : Type} {l : List (Nat × α)} (hnd : (l.map (·.1)).Nodup) {a b : Nat × α} (ha : a ∈ l) (hb : b ∈ l)
    (h : a.1 = b.1) : a = b := by
  induction l with
  | nil => simp at ha
  | cons x l ih =>
    simp only [List.map_cons, List.nodup_cons] at hnd
    simp only [List.mem_cons] at ha hb
    rcases ha with rfl | ha <;> rcases hb with rfl | hb
    · rfl
    · exact absurd (List.mem_map_of_mem (f := (·.1)) hb) (by rw [← h]; exact hnd.1)
    · exact absurd (List.mem_map_of_mem (f := (·.1)) ha) (by rw [h]; exact hnd.1)
    · exact ih hnd.2 ha hb

theorem dset_not_mem {α : Type} (k : Nat) (v : α) (l : List (Nat × α)) (h : k ∉ l.map (·.1)) : dset k v l = l ++ [(k, v)] := by
  unfold dset
  have : dhas k l = false := by
    cases hd : dhas k l
    · rfl
    · exact absurd ((dhas_iff k l).mp hd) h
  simp [this]

theorem dset_mem {α : Type} (k : Nat) (v : α) (l : List (Nat × α)) (h : k ∈ l.map (·.1)) :
    dset k v l = l.map (fun e => if e.1 = k then (k, v) else e) := by
  unfold dset
  simp [(dhas_iff k l).mpr h]

/-- `dict(items)` of items with distinct keys -/
theorem dupdate_append_of_disjoint {α : Type} (l d : List (Nat × α)) (hl : (l.map (·.1)).Nodup)
    (hd : ∀ k ∈ l.map (·.1), k ∉ d.map (·.1)) : dupdate l d = d ++ l := by
  induction l generalizing d with
  | nil => simp [dupdate]
  | cons x l ih =>
    simp only [List.map_cons, List.nodup_cons] at hl
    rw [dupdate_cons, dset_not_mem _ _ _ (hd x.1 (by simp)), ih _ hl.2]
    · simp
    · intro k hk
      simp only [List.map_append, List.map_cons, List.map_nil, List.mem_append, List.mem_singleton, not_or]
      exact ⟨hd k (by simp [hk]), fun e => hl.1 (e ▸ hk)⟩

theorem dictOf_nodup {α : Type} (l : List (Nat × α)) (hl : (l.map (·.1)).Nodup) : dictOf l = l := by
  unfold dictOf
  rw [dupdate_append_of_disjoint l [] hl (by simp)]
  simp

@[simp] theorem dictOf_nil' {α : Type} : dictOf ([] : List (Nat × α)) = [] := rfl

theorem filter_fst_none {α β : Type} (l : List α) (p : α → Bool) (g : α → β) (h : ∀ x ∈ l, p x = false) :
    List.filter (fun x => x.1) (l.map fun x => (p x, g x)) = [] := by
  rw [List.filter_eq_nil_iff]
  intro a ha
  simp only [List.mem_map] at ha
  obtain ⟨x, hx, rfl⟩ := ha
  simp [h x hx]

theorem filter_fst_all {α β : Type} (l : List α) (p : α → Bool) (g : α → β) (h : ∀ x ∈ l, p x = true) :
    List.filter (fun x => x.1) (l.map fun x => (p x, g x)) = l.map fun x => (p x, g x) := by
  rw [List.filter_eq_self]
  intro a ha
  simp only [List.mem_map] at ha
  obtain ⟨x, hx, rfl⟩ := ha
  simp [h x hx]

theorem filter_fst_map {α β : Type} (l : List α) (p : α → Bool) (g : α → β) :
    List.filter (fun x => x.1) (l.map fun x => (p x, g x)) = (l.filter p).map fun x => (p x, g x) := by
  induction l with
  | nil => rfl
  | cons a l ih =>
    simp only [List.map_cons, List.filter_cons]
    cases hp : p a <;> simp [ih, hp]

theorem nodup_keys_filter {α : Type} (l : List (Nat × α)) (p : Nat × α → Bool) (h : (l.map (·.1)).Nodup) :
    ((l.filter p).map (·.1)).Nodup :=
  List.Nodup.sublist (List.Sublist.map _ List.filter_sublist) h

end SqlObjVerif.PyPure
