import SqlObjVerif.Lemmas.DdlXTable
/-!
# C14 translation — `SQLObject._getJoinsToCreate` and `SQLObject.createJoinTablesSQL`
-/
namespace SqlObjVerif.DdlX
open SqlObjVerif.Ddl
open SqlObjVerif.PyDdl hiding Str isUpperC
open SqlObjVerif.PyDdl.Extracted

/-- the class, as `_getJoinsToCreate` sees it -/
def joinClsV (js : List (Option JoinD)) : Val :=
  .obj C_SQLObject [("sqlmeta", .obj C_SQLObject [("joins", .list (js.map joV))])]

/-- one iteration of the loop of `_getJoinsToCreate` -/
def jstep (acc : List JoinD) : Option JoinD → List JoinD
  | none => acc
  | some j =>
    if j.hasInter = true ∧ j.createRel.getD true = true ∧ strLt j.otherName j.selfName = false ∧
        j.join.table ∉ acc.map (·.join.table) then acc ++ [j] else acc

/-- the joins whose link table this class creates, in order -/
def joinsToCreateX (js : List (Option JoinD)) : List JoinD := js.foldl jstep []

theorem strLt_eq_pyLt (a b : Str) : strLt a b = pyLt a b := by
  induction a generalizing b with
  | nil => cases b <;> rfl
  | cons x a ih => cases b with
    | nil => rfl
    | cons y b => simp only [strLt, pyLt, ih]

theorem anyEq_str_map {α : Type} (t : Str) (g : α → Str) (l : List α) :
    anyEq (.str t) (l.map fun a => Val.str (g a)) = some (decide (t ∈ l.map g)) := by
  induction l with
  | nil => rfl
  | cons a l ih =>
    by_cases h : t = g a
    · subst h; simp [anyEq]
    · have hb : (t == g a) = false := by simpa using h
      simp [anyEq, ih, hb]
      intro e; exact absurd e h

@[simp] theorem attr_table_jV (I : Iface) (j : JoinD) : attrOf I (jV j) "intermediateTable" = .ok (.str j.join.table) := rfl
@[simp] theorem truthy_jV (j : JoinD) : truthy (jV j) = true := rfl
@[simp] theorem hasInter_jV (j : JoinD) : bmethOf IX (jV j) "hasIntermediateTable" [] = .ok (.bool j.hasInter) := rfl
@[simp] theorem soClass_jV (I : Iface) (j : JoinD) : attrOf I (jV j) "soClass" = .ok (nameV j.selfName) := rfl
@[simp] theorem otherClass_jV (I : Iface) (j : JoinD) : attrOf I (jV j) "otherClass" = .ok (nameV j.otherName) := rfl
@[simp] theorem name_nameV (I : Iface) (s : Str) : attrOf I (nameV s) "__name__" = .ok (.str s) := rfl
@[simp] theorem createRel_jV (j : JoinD) :
    getattrD IX (jV j) "createRelatedTable" (.bool true) = .ok (.bool (j.createRel.getD true)) := by
  obtain ⟨h, cr, s, o, jn⟩ := j
  cases cr <;> rfl

set_option maxHeartbeats 1000000 in
/-- the loop of `_getJoinsToCreate` -/
theorem joins_loop (call : Callee → List Val → R Val) (js : List (Option JoinD)) :
    ∀ (acc : List JoinD) (env : Env), env 1 = some (.list (acc.map jV)) →
      ∃ env', forLoop (loopStep 2 fun e => Block.exec call IX e SQLObject___getJoinsToCreate_for0) (js.map joV) env =
          .norm env' ∧ env' 1 = some (.list ((js.foldl jstep acc).map jV)) := by
  induction js with
  | nil => intro acc env h; exact ⟨env, rfl, h⟩
  | cons oj js ih =>
    intro acc env h
    cases oj with
    | none =>
      obtain ⟨env', h1, h2⟩ := ih acc (env.put 2 .none) (by simpa using h)
      refine ⟨env', ?_, h2⟩
      rw [← h1]
      pyxwith [forLoop, loopStep, joV]
    | some j =>
      have hm := anyEq_str_map j.join.table (fun a : JoinD => a.join.table) acc
      by_cases hc : j.hasInter = true ∧ j.createRel.getD true = true ∧ strLt j.otherName j.selfName = false ∧
          j.join.table ∉ acc.map (·.join.table)
      · obtain ⟨c1, c2, c3, c4⟩ := hc
        have c4' : ∀ x ∈ acc, ¬ x.join.table = j.join.table := by
          intro x hx he; exact c4 (by rw [← he]; exact List.mem_map_of_mem hx)
        obtain ⟨env', h1, h2⟩ := ih (acc ++ [j]) ((env.put 2 (jV j)).put 1 (.list (acc.map jV ++ [jV j])))
          (by simp)
        refine ⟨env', ?_, ?_⟩
        · rw [← h1]
          pyxwith [forLoop, loopStep, joV, filterMapR_map, compStep, collectR_some, List.map_map, Function.comp_def]
        · rw [List.foldl_cons, jstep, if_pos ⟨c1, c2, c3, c4⟩]; exact h2
      · obtain ⟨env', h1, h2⟩ := ih acc (env.put 2 (jV j)) (by simpa using h)
        refine ⟨env', ?_, ?_⟩
        · rw [← h1]
          by_cases c1 : j.hasInter = true
          · by_cases c2 : j.createRel.getD true = true
            · by_cases c3 : strLt j.otherName j.selfName = false
              · have c4 : j.join.table ∈ acc.map (·.join.table) := by
                  by_cases c4 : j.join.table ∈ acc.map (·.join.table)
                  · exact c4
                  · exact absurd ⟨c1, c2, c3, c4⟩ hc
                obtain ⟨x, hx, he⟩ := List.mem_map.1 c4
                have c4' : ∃ x ∈ acc, x.join.table = j.join.table := ⟨x, hx, he⟩
                pyxwith [forLoop, loopStep, joV, filterMapR_map, compStep, collectR_some, List.map_map,
                  Function.comp_def]
              · have c3' : strLt j.otherName j.selfName = true := by simpa using c3
                pyxwith [forLoop, loopStep, joV]
            · have c2' : j.createRel.getD true = false := by simpa using c2
              pyxwith [forLoop, loopStep, joV]
          · have c1' : j.hasInter = false := by simpa using c1
            pyxwith [forLoop, loopStep, joV]
        · rw [List.foldl_cons, jstep, if_neg hc]; exact h2

/-- **`SQLObject._getJoinsToCreate` translated = `joinsToCreateX`** -/
theorem getJoinsToCreate_eq (n : Nat) (js : List (Option JoinD)) :
    callN prog ddlI (n + 1) (.meth C_SQLObject M__getJoinsToCreate) [joinClsV js] =
      .ok (.list ((joinsToCreateX js).map jV)) := by
  rw [callX_succ _ _ _ _ res_SQLObject__getJoinsToCreate]
  obtain ⟨env', h1, h2⟩ := joins_loop (callN prog ddlI n) js [] ((Env.ofArgs [joinClsV js]).put 1 (.list [])) (by simp)
  have hattr : attrOf IX (joinClsV js) "sqlmeta" = .ok (.obj C_SQLObject [("joins", .list (js.map joV))]) := rfl
  simp [SQLObject___getJoinsToCreate_fn, SQLObject___getJoinsToCreate, SQLObject___getJoinsToCreate_s0,
    SQLObject___getJoinsToCreate_s1, SQLObject___getJoinsToCreate_s2, Fn.run, Fn.args, Block.exec, Stmt.exec, Expr.eval,
    Exprs.eval, Res.seq_norm, aget, hattr, h1, h2, joinsToCreateX]

/-- the link table of a join, as `_SO_createJoinTableSQL` reads it, is the `joinV` of `DdlXTable` extended -/
theorem createJoinTableSQL_jV (n : Nat) (d : Dialect) (c : Caps) (j : JoinD) :
    callN prog ddlI (n + 2) (.meth (connCls d) M__SO_createJoinTableSQL) [connV d c, jV j] =
      .ok (.str (joinTableSQL TX d j.join)) := by
  have hj := fun jv => joinSQLType_eq n d c jv
  cases d <;>
    (rw [callX_succ _ _ _ _ (by rfl)]
     pyxwith [jV, joinTableSQL, Ddl.Extracted.tables])

/-- the loop of `createJoinTablesSQL` -/
theorem joinsql_loop (n : Nat) (d : Dialect) (c : Caps) (l : List JoinD) :
    ∀ (acc : List Str) (env : Env), env 3 = some (.list (acc.map .str)) → env 2 = some (connV d c) →
      ∃ env', forLoop (loopStep 4 fun e => Block.exec (callN prog ddlI (n + 2)) IX e SQLObject__createJoinTablesSQL_for0)
          (l.map jV) env = .norm env' ∧
        env' 3 = some (.list ((acc ++ l.map fun j => joinTableSQL TX d j.join).map .str)) := by
  induction l with
  | nil => intro acc env h _; exact ⟨env, rfl, by simpa using h⟩
  | cons j l ih =>
    intro acc env h3 h2
    have hc := createJoinTableSQL_jV n d c j
    obtain ⟨env', h1, h4⟩ := ih (acc ++ [joinTableSQL TX d j.join])
      ((env.put 4 (jV j)).put 3 (.list (acc.map .str ++ [.str (joinTableSQL TX d j.join)]))) (by simp) (by simpa using h2)
    refine ⟨env', ?_, by simpa using h4⟩
    rw [← h1]
    pyxwith [forLoop, loopStep]

/-- **`SQLObject.createJoinTablesSQL` translated**: the `_SO_createJoinTableSQL` texts of the joins to create,
    joined by `";\n"` (`joinTablesSQL` of the hand model over those joins) -/
theorem createJoinTablesSQL_eq (n : Nat) (d : Dialect) (c : Caps) (js : List (Option JoinD)) :
    callN prog ddlI (n + 3) (.meth C_SQLObject M_createJoinTablesSQL) [joinClsV js, connV d c] =
      .ok (.str (joinWith (lit ";\n") ((joinsToCreateX js).map fun j => joinTableSQL TX d j.join))) := by
  rw [callX_succ _ _ _ _ res_SQLObject_createJoinTablesSQL]
  have hg := getJoinsToCreate_eq (n + 1) js
  obtain ⟨env', h1, h2⟩ := joinsql_loop n d c (joinsToCreateX js) []
    ((((Env.ofArgs [joinClsV js, connV d c]).put 2 (connV d c)).put 3 (.list []))) (by simp) (by simp)
  have hr : recvCls (joinClsV js) = .ok C_SQLObject := rfl
  simp [SQLObject__createJoinTablesSQL_fn, SQLObject__createJoinTablesSQL, SQLObject__createJoinTablesSQL_s0,
    SQLObject__createJoinTablesSQL_s1, SQLObject__createJoinTablesSQL_s2, SQLObject__createJoinTablesSQL_s3,
    Fn.run, Fn.args, Block.exec, Stmt.exec, Expr.eval, Exprs.eval, Res.seq_norm, hr, hg, h1, h2, allStr_map_fun, Function.comp_def,
    joinStr_eq_joinWith, lit]

/-! ### the link tables, in the hand model's terms (`createsLink`, `linksOf`) -/

/-- a join whose link table this class is responsible for -/
def eligible (j : JoinD) : Bool := j.hasInter && j.createRel.getD true && createsLink j.selfName j.otherName

def accD (acc : List Name) (l : List Name) : List Name := l.foldl (fun a t => if t ∈ a then a else a ++ [t]) acc

theorem accD_cons (a : List Name) (x : Name) (l : List Name) :
    accD a (x :: l) = accD (if x ∈ a then a else a ++ [x]) l := rfl

theorem mem_accD (l : List Name) : ∀ (acc : List Name) (t : Name), t ∈ accD acc l ↔ t ∈ acc ∨ t ∈ l := by
  induction l with
  | nil => intro acc t; simp [accD]
  | cons x l ih =>
    intro acc t
    rw [accD_cons, ih]
    by_cases hx : x ∈ acc
    · rw [if_pos hx]; simp only [List.mem_cons]
      constructor
      · rintro (h | h)
        · exact Or.inl h
        · exact Or.inr (Or.inr h)
      · rintro (h | h | h)
        · exact Or.inl h
        · exact Or.inl (h ▸ hx)
        · exact Or.inr h
    · rw [if_neg hx]; simp only [List.mem_append, List.mem_cons, List.not_mem_nil, or_false]
      constructor
      · rintro ((h | h) | h)
        · exact Or.inl h
        · exact Or.inr (Or.inl h)
        · exact Or.inr (Or.inr h)
      · rintro (h | h | h)
        · exact Or.inl (Or.inl h)
        · exact Or.inl (Or.inr h)
        · exact Or.inr h

theorem accD_snoc (a l : List Name) (t : Name) :
    accD a (l ++ [t]) = (if t ∈ accD a l then accD a l else accD a l ++ [t]) := by
  unfold accD; rw [List.foldl_append]; rfl

theorem accD_nil_reverse (r : List Name) : accD [] r.reverse = (dedupNames r).reverse := by
  induction r with
  | nil => rfl
  | cons t r ih =>
    rw [List.reverse_cons, accD_snoc]
    have hm : t ∈ accD [] r.reverse ↔ t ∈ r := by rw [mem_accD]; simp
    by_cases ht : t ∈ r
    · rw [if_pos (hm.2 ht), ih]; simp only [dedupNames, if_pos ht]
    · have hn : t ∉ accD [] r.reverse := fun h => ht (hm.1 h)
      rw [if_neg hn, ih]; simp only [dedupNames, if_neg ht, List.reverse_cons]

theorem accD_eq_linksOf (l : List Name) : accD [] l = linksOf true l := by
  have := accD_nil_reverse l.reverse
  rw [List.reverse_reverse] at this
  rw [this]; rfl

theorem foldl_jstep_tables (js : List (Option JoinD)) : ∀ acc : List JoinD,
    (js.foldl jstep acc).map (·.join.table) =
      accD (acc.map (·.join.table)) (((js.filterMap id).filter eligible).map (·.join.table)) := by
  induction js with
  | nil => intro acc; rfl
  | cons oj js ih =>
    intro acc
    cases oj with
    | none => simpa [jstep] using ih acc
    | some j =>
      rw [List.foldl_cons, ih]
      simp only [List.filterMap_cons, id]
      by_cases he : eligible j = true
      · have he' : j.hasInter = true ∧ j.createRel.getD true = true ∧ strLt j.otherName j.selfName = false := by
          simpa [eligible, createsLink, strLt_eq_pyLt, and_assoc] using he
        rw [List.filter_cons_of_pos he, List.map_cons, accD_cons]
        by_cases hm : j.join.table ∈ acc.map (·.join.table)
        · have : ¬ (j.hasInter = true ∧ j.createRel.getD true = true ∧ strLt j.otherName j.selfName = false ∧
              j.join.table ∉ acc.map (·.join.table)) := fun h => h.2.2.2 hm
          rw [jstep, if_neg this, if_pos hm]
        · rw [jstep, if_pos ⟨he'.1, he'.2.1, he'.2.2, hm⟩, if_neg hm]; simp
      · have : ¬ (j.hasInter = true ∧ j.createRel.getD true = true ∧ strLt j.otherName j.selfName = false ∧
            j.join.table ∉ acc.map (·.join.table)) := by
          intro h; apply he
          simp [eligible, createsLink, ← strLt_eq_pyLt, h.1, h.2.1, h.2.2.1]
        rw [jstep, if_neg this, List.filter_cons_of_neg he]

/-- the link tables `_getJoinsToCreate` selects = the hand model's: the joins with an intermediate table whose class
    name does not come after the other side's (`createsLink`), each link table once, first occurrence (`linksOf true`) -/
theorem joinsToCreate_tables (js : List (Option JoinD)) :
    (joinsToCreateX js).map (·.join.table) =
      linksOf true (((js.filterMap id).filter eligible).map (·.join.table)) := by
  rw [joinsToCreateX, foldl_jstep_tables, ← accD_eq_linksOf]; rfl

end SqlObjVerif.DdlX
