import SqlObjVerif.Lemmas.InheritXCreateLoops
/-!
Symbolic execution of the TRANSLATED `InheritableSQLObject._create`, part 2: one level.  `createX_root`: a class
without parent (the own INSERT only); `createX_child`: the parent instance is made by the constructor call
(`C.construct`, assumed to end as the hand model's `createSpec` of the parent chain says), then the own INSERT, and the
`except BaseException` clean-up (`C.destroy` on the parent instance).  Both for the two ways `_create` is entered:
`**kw` from the application, `kw=<dict>` from a subclass.
-/
set_option linter.unusedSimpArgs false
namespace SqlObjVerif.Inherit
open SqlObjVerif.PyInh
open SqlObjVerif.PyInh.Extracted

theorem kwOf_noKw (X : Ctx) (l : List Nat) (tag : Option Nat) : vdGet (.str "kw") (kwOf X l tag) = none := by
  simp only [kwOf, vdGet_pairsOf, Option.map_eq_none_iff, List.find?_eq_none]
  intro e he
  rcases kw_keys_ok X tag l e he with ⟨a, j, hk⟩ | hk <;> simp [hk]

theorem kwOf_isList (X : Ctx) (l : List Nat) (tag : Option Nat) : isListVal (kwOf X l tag) = true :=
  isListVal_ofList _

theorem parentKw_eq (X : Ctx) (p a : Nat) :
    vdSet (.str "childName") (cname a) (Val.ofList (pairsOf ((X.T.anc p).flatMap (ownKw X)))) =
      kwOf X (X.T.anc p) (some a) := by
  rw [vdSet_fresh]
  · rfl
  · intro e he
    simp only [List.mem_flatMap] at he
    obtain ⟨a', _, he⟩ := he
    obtain ⟨j, _, rfl⟩ := (mem_ownKw X a' e).1 he
    simp

theorem createX_root {X : Ctx} (h : X.T.WF) (C : Calls) (w : XW) (k a : Nat) (tag : Option Nat)
    (hp : X.T.parent a = none) (hvals : ∀ a j, X.T.ncols a ≤ j → X.vals a j = 0)
    (kwv : PVal) (hkw : kwv = kwOf X (X.T.anc a) tag ∨ kwv = .cons (.pair (.str "kw") (kwOf X (X.T.anc a) tag)) .nil) :
    createX X C w k a .none kwv = createCall (createSpec X k (X.T.anc a) tag w) := by
  have hk0 := kwOf_noKw X (X.T.anc a) tag
  have hl := kwOf_isList X (X.T.anc a) tag
  have htag : tagOf (kwOf X (X.T.anc a) tag) = tag := by
    rw [anc_root h hp]; simpa [kwOf] using tagOf_own X a tag
  have hv : valsOf a (kwOf X (X.T.anc a) tag) = X.vals a := by
    rw [anc_root h hp]; simpa [kwOf] using valsOf_own X a tag hvals
  have hspec : createSpec X k (X.T.anc a) tag w = createOwn X k a none tag w := by
    rw [anc_root h hp]; rfl
  rw [hspec]
  unfold createX createProg create_nlocals createOwn createCall
  rcases hkw with rfl | rfl
  · cases hf : X.failAt a <;> ihrun <;> simp [vdHas, hk0, hl, hf, htag, hv]
    cases hi : X.isTx k <;> cases ha : X.autoCommit k <;> simp
  · cases hf : X.failAt a <;> ihrun <;> simp [vdHas, vdGet, hk0, hl, hf, htag, hv]
    cases hi : X.isTx k <;> cases ha : X.autoCommit k <;> simp


theorem createX_child {X : Ctx} (h : X.T.WF) (C : Calls) (w : XW) (k a p : Nat) (tag : Option Nat)
    (hp : X.T.parent a = some p) (hvals : ∀ a j, X.T.ncols a ≤ j → X.vals a j = 0)
    (kwv : PVal) (hkw : kwv = kwOf X (X.T.anc a) tag ∨ kwv = .cons (.pair (.str "kw") (kwOf X (X.T.anc a) tag)) .nil)
    (hcons : C.construct w k p (kwOf X (X.T.anc p) (some a)) = constructRes X k p (createSpec X k (X.T.anc p) (some a) w))
    (hdest : (createSpec X k (X.T.anc p) (some a) w).2 = none →
      ∀ w1, w1 = (createSpec X k (X.T.anc p) (some a) w).1.setPar k a X.nid (.inst k p X.nid) →
      C.destroy w1 k p X.nid = .ret (w1.setCur k (destroyInst X.T (w1.cur k) p X.nid)) .none) :
    createX X C w k a .none kwv = createCall (createSpec X k (X.T.anc a) tag w) := by
  have hk0 := kwOf_noKw X (X.T.anc a) tag
  have hl := kwOf_isList X (X.T.anc a) tag
  have hnotin : a ∉ X.T.anc p := by
    intro hc
    have := mem_anc_le h p a hc
    have := (h.lt a p hp).1
    omega
  have htl : Val.toList (kwOf X (X.T.anc a) tag) =
      some (pairsOf (ownKw X a ++ ((X.T.anc p).flatMap (ownKw X) ++ tagEntry tag))) := by
    have hes : kwOf X (X.T.anc a) tag =
        Val.ofList (pairsOf (ownKw X a ++ (X.T.anc p).flatMap (ownKw X) ++ tagEntry tag)) := by
      rw [anc_cons h hp]; simp [kwOf]
    rw [hes, List.append_assoc]; exact toList_ofList _
  have hkeys := kw_keys_ok X tag (X.T.anc a)
  have hnd := kw_keys_nodup X tag (X.T.anc a) (anc_nodup h a)
  rw [anc_cons h hp] at hkeys hnd
  simp only [List.flatMap_cons, List.append_assoc] at hkeys hnd
  have hso := split_own X p a tag hnotin
  have hsp := split_parent X p a tag hnotin
  rw [List.append_assoc] at hso hsp
  have hspec : createSpec X k (X.T.anc a) tag w =
      createAfter X k a p tag (createSpec X k (X.T.anc p) (some a) w) := by
    rw [anc_cons h hp]
    simp only [createSpec, anc_head]
  rw [hspec]
  unfold createX createProg create_nlocals
  rcases hkw with rfl | rfl
  all_goals
    ihrun
    simp [vdHas, vdGet, hk0, hl, htl]
    generalize hF : forLoop _ _ _ = r
    obtain ⟨v5', v6', rfl⟩ := create_loop0_run' X C _ p hF hkeys hnd
    simp only [hso, hsp]
    clear hF
    ihrun
    simp [colList, toList_ofList]
    generalize hF : forLoop _ _ _ = r
    obtain ⟨v7', rfl⟩ := create_loop1_run' X C _ a (isListVal_ofList _) (vdHas_own X a tag) hF (colList_cols X a)
    simp [isListVal_ofList, parentKw_eq, kwGet, zipKw, hcons, constructRes]
    clear hF
    generalize hr : createSpec X k (X.T.anc p) (some a) w = r at *
    obtain ⟨w1, oe⟩ := r
    cases oe with
    | some e => simp [createAfter, createCall]
    | none =>
      simp only [createAfter, createOwn, createCall]
      have hd := hdest rfl _ rfl
      simp only at hd
      cases hf : X.failAt a with
      | none => ihrun; simp [tagOf_own, valsOf_own X a tag hvals]
      | some e =>
        ihrun
        cases hi : X.isTx k <;> cases ha : X.autoCommit k <;> simp
end SqlObjVerif.Inherit
