import SqlObjVerif.Lemmas.GetXModel
set_option linter.unusedSimpArgs false
namespace SqlObjVerif.Cache
open SqlObjVerif.PyGet
open SqlObjVerif.PyGet.Extracted

/-- the worlds the headline theorems quantify over: the model state satisfies the identity invariant and the dict
    representation invariant, no lock is held (single thread, between calls), instances are clean -/
structure GInv (w : GW) : Prop where
  inv : CInv w.s
  dict : DictInv w.s
  wf : w.WF
  lock : ∀ c, w.lock c = false
  wlock : ∀ h, w.wlock h = false
  clean : ∀ h, w.dirty h = false
  frac : w.s.cfg.cullFraction ≠ 0

theorem getObj_fac_other (s : State) (c c' : Cls) (k : Id) (sel : Bool) (hne : c' ≠ c) :
    (getObj s c k sel).1.fac c' = s.fac c' := by
  have hloc := (local_tick s c).trans (local_lookup _ c k)
  unfold getObj
  generalize lookupCache (tick s c) c k = L at hloc
  obtain ⟨s1, r⟩ := L
  cases r with
  | some h => simp only [setObj_fac]; exact hloc.fac c' hne
  | none =>
    simp only
    split
    · rw [(local_insert (alloc s1 c k false) c k s1.n).fac c' hne]
      exact hloc.fac c' hne
    · exact hloc.fac c' hne

theorem wf_addMade {w : GW} (hwf : w.WF) (c : Cls) (s' : State) (hf : ∀ c', c' ≠ c → s'.fac c' = w.s.fac c') :
    ∀ c', c' ∉ addMade w.made c → s'.fac c' = emptyFactory ∧ w.lock c' = false := by
  intro c' hc'
  have hne : c' ≠ c := fun e => hc' (e ▸ mem_addMade w.made c)
  have : c' ∉ w.made := by
    intro hm; apply hc'; unfold addMade; split <;> simp_all
  rw [hf c' hne]; exact hwf c' this

/-- THE access-path theorem on the translated source: from any world satisfying the invariant, `SQLObject.get` as
    translated from main.py (cache lookup, miss path under the put/finishPut protocol, NotFound path, selectResults
    refresh) does what the model's `getObj` does, and — once the caller holds what it was handed — ends in a world
    that satisfies the invariant again -/
theorem ginv_get (w : GW) (hg : GInv w) (c : Cls) (k : Id) (conn : Val) (hconn : conn = .none ∨ conn = Vconn)
    (srb : Bool) (hrow : srb = true → k ∈ w.s.rows c) :
    match getObj w.s c k srb with
    | (s', some h) => ∃ W, getG w c k conn (Vsr srb) = .ret W (.obj h) ∧ holdS W.s h = s' ∧
        GInv { W with s := s' } ∧ Good s' c k h
    | (s', none) => ∃ W, getG w c k conn (Vsr srb) = .exc W .notFound ∧ W.lock = w.lock ∧ W.s.fac = s'.fac ∧
        W.s.rows = s'.rows ∧ k ∉ w.s.rows c := by
  have hrep := rep_of_inv hg.inv hg.dict c
  have hm := getG_model w c k conn hconn srb hg.wf (hg.lock c) hg.wlock hg.clean hg.frac hrep
    (fun hd => hg.inv.nocache hd c) hrow
  obtain ⟨g1, g2, g3, g4, g5⟩ := getObj_spec w.s c k srb hg.inv
  have hd := dictInv_getObj hg.dict c k srb
  have hfo := fun c' => getObj_fac_other w.s c c' k srb
  generalize getObj w.s c k srb = r at hm g1 g2 g3 g4 g5 hd hfo
  obtain ⟨s', res⟩ := r
  cases res with
  | some h =>
    obtain ⟨W, e1, e2, e3, e4, e5, e6⟩ := hm
    refine ⟨W, e1, e2, ⟨g1, hd, ?_, ?_, e5, e6, by rw [g2.cfg]; exact hg.frac⟩, g4 h rfl⟩
    · intro c' hc'
      simp only at hc' ⊢
      rw [e4] at hc'
      have := wf_addMade hg.wf c s' (fun c'' hne => hfo c'' hne) c' hc'
      rw [e3]; exact this
    · intro c'; simp only; rw [e3]; exact hg.lock c'
  | none =>
    obtain ⟨W, e1, e2, e3, e4, e5, _⟩ := hm
    exact ⟨W, e1, e2, e4, e5, g5 rfl⟩

end SqlObjVerif.Cache
