import SqlObjVerif.Lemmas.InhSelXSelBy
/-!
Symbolic execution of the TRANSLATED `InheritableSQLObject._findAlternateID` (`by<Column>()` through any class of the
hierarchy): one translated `selectBy` on the class the method is called through (`findAltX_eq`).
-/
set_option linter.unusedSimpArgs false
namespace SqlObjVerif.InhSel
open SqlObjVerif.PyIS
open SqlObjVerif.PyIS.Extracted
open SqlObjVerif.Inherit hiding Val Res Cmp Out

@[simp] theorem aIface_self (X : SCtx) (ids : List Nat) (s : SVal) : (aIface X ids s).self = s := rfl
@[simp] theorem aIface_attrOf (X : SCtx) (ids : List Nat) (s : SVal) : (aIface X ids s).attrOf = aAttrOf X := rfl
@[simp] theorem aIface_call (X : SCtx) (ids : List Nat) (s : SVal) : (aIface X ids s).call = aCall X ids := rfl

/-- what `_findAlternateID` returns: `(result, obj)` -/
def findAltRes (T : Tree) (db : DB) (k c : Nat) : List Nat → SVal
  | [] => .pair .nil .none
  | j :: _ => .pair (.cons (.nat j) .nil) (instVal T db k c j)

/-- **`cls._findAlternateID(name, dbName, value, connection)`, translated** (what `cls.by<Column>(value)` runs, `cls` the
    class the method is called through, the column declared by it or an ancestor): one translated `selectBy` on `cls`
    itself; the first instance delivered (and its id), or the empty result -/
theorem findAltX_eq (X : SCtx) (h : X.T.WF) (hreg : X.reg.Nodup) (ids : List Nat) (w : SW) (c a k : Nat) (v : Inherit.Val)
    (oc : Option Nat) (hregAll : ∀ x, x ∈ X.T.anc c → x ∈ X.reg) (hattr : attrOK X.T c a k = true)
    (hfirst : ∀ j, ids.head? = some j → ∃ m, get X.T (w.cur (oc.getD X.dflt)) c j = .ok m) :
    ∃ e, findAltX X ids w c a k v (connValOf oc) =
        .ret { w with made := some ⟨c, e, oc.getD X.dflt⟩ }
          (findAltRes X.T (w.cur (oc.getD X.dflt)) (oc.getD X.dflt) c ids) ∧
      ∀ db : DB,
        (∀ i, (∃ σ, Sat db c e σ ∧ σ c = i) ↔ (byAltRow X.T db c a k v i).isSome = true) ∧
        (∀ σ σ', Sat db c e σ → Sat db c e σ' → σ c = σ' c → ∀ x, x ∈ sqlTables e ++ [c] → σ x = σ' x) := by
  obtain ⟨e, hrun, hsem⟩ := selectByX_model X h hreg w c oc [(a, k, v)] hregAll (by simpa using hattr)
  refine ⟨e, ?_, hsem⟩
  unfold findAltX findAlternateIDProg
  cases ids with
  | nil =>
    isrunw [aCall, aAttrOf, hrun, Env.ofArgs, isListVal, Val.ofList, findAltRes]
  | cons j rest =>
    obtain ⟨m, hm⟩ := hfirst j rfl
    isrunw [aCall, aAttrOf, hrun, Env.ofArgs, isListVal, Val.ofList, findAltRes, instVal, hm, indexRes, vlIdx,
      isListVal_ofList]
end SqlObjVerif.InhSel
