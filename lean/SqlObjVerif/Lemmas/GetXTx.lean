import SqlObjVerif.Lemmas.GetXLoops
import SqlObjVerif.Lemmas.CacheXRep
import SqlObjVerif.Model.TxX
set_option linter.unusedSimpArgs false
/-!
C07's interface assumptions about the `CacheSet` (header of `Model/TxX.lean`: `allSubCachesByClassNames()` /
`allSubCaches()` = the classes `A.classes t`; `sub.allIDs()` = `A.ids dc t c` with `AllIDsSpec`; `sub.tryGet(id)` /
`cache.tryGetByName(id, cls)` = `Conn.tryGet`) PROVED from the translated `CacheSet` / `CacheFactory` methods, for
every world `w` that represents the connection `t` of `Model/Tx.lean` (`ConnRel`: C07's key of class `c`, id `i < 1000`
is `c * 1000 + i`; its `strong` / `weak` maps are the two dicts of class `c`'s factory; its `alive` is "not dead").
-/
namespace SqlObjVerif.Cache
open SqlObjVerif.PyGet
open SqlObjVerif.PyGet.Extracted
open SqlObjVerif.Tx (Conn AllIDs AllIDsSpec mkKey idOf clsOf)

/-- world `w` (one connection's `CacheSet`) represents C07's connection `t` -/
structure ConnRel (dc : Bool) (t : Conn) (w : GW) : Prop where
  dc : w.s.cfg.doCache = dc
  small : ∀ c e, Ent w.s c e → e.1 < 1000
  strong : ∀ c i, i < 1000 → t.strong (mkKey c i) = aget i (w.s.fac c).strong
  weak : ∀ c i, i < 1000 → t.weak (mkKey c i) = aget i (w.s.fac c).weak
  alive : ∀ c i j, aget i (w.s.fac c).weak = some j → t.alive j = !(w.s.obj j).dead
  truthy : ∀ h, w.falsy h = false

theorem connRel_tryGet {dc : Bool} {t : Conn} {w : GW} (h : ConnRel dc t w) (c : Cls) (i : Id) (hi : i < 1000) :
    tryGet w.s c i = t.tryGet dc (mkKey c i) := by
  unfold tryGet Conn.tryGet
  rw [h.weak c i hi, h.strong c i hi, h.dc]
  have hft : Extracted.Cache.tryGetFallsThrough = true := rfl
  simp only []
  cases hw : aget i (w.s.fac c).weak with
  | none => rfl
  | some j =>
    simp only [h.alive c i j hw, hft, if_true]
    cases (w.s.obj j).dead <;> simp

theorem mkKey_split (k : Nat) : mkKey (clsOf k) (idOf k) = k := by
  show (k / 1000) * 1000 + k % 1000 = k
  omega

theorem aget_isSome_iff (i : Id) (l : AList) : (aget i l).isSome = true ↔ i ∈ l.map (·.1) := by
  induction l with
  | nil => simp [aget]
  | cons e l ih =>
    simp only [aget, List.map_cons, List.mem_cons]
    by_cases he : e.1 = i
    · simp [he]
    · simp only [he, if_false, ih]
      constructor
      · exact Or.inr
      · rintro (h | h)
        · exact absurd h.symm he
        · exact h

theorem aget_weak_listed (i : Id) (l : AList) (p : Id × Handle → Bool) (hd : DictRep l) :
    (match aget i l with | some j => p (i, j) | none => false) = true ↔ i ∈ (l.filter p).map (·.1) := by
  induction l with
  | nil => simp [aget]
  | cons e l ih =>
    have hd' : DictRep l := (List.nodup_cons.1 hd).2
    have hnot : e.1 ∉ l.map (·.1) := (List.nodup_cons.1 hd).1
    simp only [aget]
    by_cases he : e.1 = i
    · subst he
      simp only [if_true]
      by_cases hp : p e = true
      · simp [List.filter_cons, hp]
      · have hp' : p e = false := by simpa using hp
        simp only [hp', List.filter_cons, Bool.false_eq_true, if_false, false_iff]
        intro hm
        apply hnot
        simp only [List.mem_map, List.mem_filter] at hm ⊢
        obtain ⟨a, ⟨ha, _⟩, hb⟩ := hm
        exact ⟨a, ha, hb⟩
    · simp only [he, if_false, ih hd', List.filter_cons]
      split
      · simp only [List.map_cons, List.mem_cons]
        constructor
        · exact Or.inr
        · rintro (h | h)
          · exact absurd h.symm he
          · exact h
      · rfl

theorem mkKey_cls (c i : Nat) (hi : i < 1000) : clsOf (mkKey c i) = c := by
  show (c * 1000 + i) / 1000 = c
  omega

theorem mkKey_id (c i : Nat) (hi : i < 1000) : idOf (mkKey c i) = i := by
  show (c * 1000 + i) % 1000 = i
  omega

/-- what the translated `allSubCaches()` / `allSubCachesByClassNames()` and the translated `allIDs()` of each factory
    return, as the `AllIDs` record C07's interface is stated with -/
def allIDsOf (w : GW) : AllIDs := { classes := fun _ => w.made, ids := fun _ _ c => facIds w c }

/-- C07's assumption `AllIDsSpec` holds of the translated methods -/
theorem allIDsSpec_of_rel {dc : Bool} {t : Conn} {w : GW} (h : ConnRel dc t w) (hwf : w.WF) (hd : DictInv w.s) :
    AllIDsSpec (allIDsOf w) dc t := by
  have hmem : ∀ c i, i ∈ facIds w c → (i < 1000 ∧ ∃ x, Ent w.s c x ∧ x.1 = i) := by
    intro c i hi
    simp only [facIds, List.mem_append, List.mem_map, List.mem_filter] at hi
    rcases hi with hi | ⟨e, ⟨he, _⟩, rfl⟩
    · split at hi
      · obtain ⟨e, he, rfl⟩ := List.mem_map.1 hi
        exact ⟨h.small c e (Or.inl he), e, Or.inl he, rfl⟩
      · cases hi
    · exact ⟨h.small c e (Or.inr he), e, Or.inr he, rfl⟩
  constructor
  · intro c i hi; exact (hmem c i hi).1
  · intro k
    have hk := mkKey_split k
    have hid : idOf k < 1000 := Nat.mod_lt _ (by decide)
    generalize clsOf k = c at hk
    generalize idOf k = i at hk hid
    subst hk
    have e1 := aget_isSome_iff i (w.s.fac c).strong
    have fin : ∀ B : Bool, (B = true ↔ i ∈ ((w.s.fac c).weak.filter (listed w.s w.falsy)).map (·.1)) →
        (c ∈ w.made ∧ i ∈ facIds w c ↔ (dc && (aget i (w.s.fac c).strong).isSome || B) = true) := by
      intro B e2
      constructor
      · rintro ⟨_, hi⟩
        simp only [facIds, List.mem_append] at hi
        rcases hi with hi | hi
        · rw [h.dc] at hi
          cases hdc : dc with
          | false => simp [hdc] at hi
          | true => simp only [hdc, if_true] at hi; simp [e1.2 hi]
        · simp [e2.2 hi]
      · intro hh
        simp only [Bool.or_eq_true, Bool.and_eq_true] at hh
        have hin : i ∈ facIds w c := by
          simp only [facIds, List.mem_append]
          rcases hh with ⟨hdc, hs⟩ | hw
          · left; rw [h.dc, hdc]; simp only [if_true]; exact e1.1 hs
          · right; exact e2.1 hw
        refine ⟨?_, hin⟩
        by_cases hc : c ∈ w.made
        · exact hc
        · obtain ⟨_, x, hx, _⟩ := hmem c i hin
          rw [Ent, (hwf c hc).1] at hx
          simp [emptyFactory] at hx
    have e2 := aget_weak_listed i (w.s.fac c).weak (listed w.s w.falsy) (hd c).2
    simp only [allIDsOf, Conn.inAllIDs, h.strong c i hid, h.weak c i hid]
    cases hw : aget i (w.s.fac c).weak with
    | none =>
      simp only [hw] at e2
      exact fin false e2
    | some j =>
      simp only [hw] at e2
      have : t.alive j = listed w.s w.falsy (i, j) := by simp [h.alive c i j hw, listed, h.truthy]
      simp only [this]
      exact fin _ e2

theorem csTryGetByName_eq (w : GW) (c : Cls) (k : Id) (hwf : w.WF) :
    csCall w "tryGetByName" [.key k, .name c] = .ret w (optV (tryGet w.s c k)) := by
  unfold csCall csTryGetByNameProg csTryGetByName_nlocals
  by_cases hc : c ∈ w.made
  · have key := facTryGet_eq w c k
    grun
  · grun
    simp [tryGet, (hwf c hc).1, emptyFactory, aget, optV]

/-- C07's interface, the `allIDs` part (header of `Model/TxX.lean`): the translated `allSubCaches()` /
    `allSubCachesByClassNames()` list the classes `A.classes t`, the translated `sub.allIDs()` returns `A.ids dc t c`,
    nothing changes, and `AllIDsSpec A dc t` holds — for `A = allIDsOf w` -/
theorem cacheSet_allIDs_is_inAllIDs {dc : Bool} {t : Conn} {w : GW} (h : ConnRel dc t w) (hwf : w.WF)
    (hd : DictInv w.s) :
    csCall w "allSubCaches" [] = .ret w (Val.ofList (((allIDsOf w).classes t).map fun c => Val.ref "factory" c)) ∧
    (csCall w "allSubCachesByClassNames" [] = .ret w Vcaches ∧
      csIface.values w Vcaches = some (((allIDsOf w).classes t).map fun c => Val.ref "factory" c)) ∧
    (∀ c, facCall w c "allIDs" [] = .ret w (Val.ofList (((allIDsOf w).ids dc t c).map Val.key))) ∧
    AllIDsSpec (allIDsOf w) dc t :=
  ⟨csAllSubCaches_eq w, ⟨csAllSubCachesByClassNames_eq w, csIface_values w⟩, fun c => facAllIDs_eq w c,
   allIDsSpec_of_rel h hwf hd⟩

/-- C07's interface, the `tryGet` part: `sub.tryGet(id)`, `cache.tryGet(id, cls)` and `cache.tryGetByName(id, clsname)` as
    translated are `Conn.tryGet` on the represented connection, and change nothing -/
theorem cacheSet_tryGet_is_connTryGet {dc : Bool} {t : Conn} {w : GW} (h : ConnRel dc t w) (hwf : w.WF)
    (c : Cls) (i : Id) (hi : i < 1000) :
    facCall w c "tryGet" [.key i] = .ret w (optV (t.tryGet dc (mkKey c i))) ∧
    csCall w "tryGetByName" [.key i, .name c] = .ret w (optV (t.tryGet dc (mkKey c i))) ∧
    csCall w "tryGet" [.key i, .cls c] = .ret w (optV (t.tryGet dc (mkKey c i))) := by
  rw [← connRel_tryGet h c i hi]
  exact ⟨facTryGet_eq w c i, csTryGetByName_eq w c i hwf, csTryGet_eq w c i hwf⟩

/-- non-vacuity: the empty world represents the empty connection -/
example : ConnRel true Conn.empty
    { s := init (Cfg.default true), made := [], lock := fun _ => false, wlock := fun _ => false,
      dirty := fun _ => false, falsy := fun _ => false, lazyCols := false, cursor := [] } := by
  constructor <;> simp [init, emptyFactory, Conn.empty, Ent, aget, Cfg.default]

end SqlObjVerif.Cache
