import SqlObjVerif.Lemmas.FailInhXTa
/-!
C06, the COMPOSED inheritable create — part (b): the projections of `xIfaceT`, the evaluation macro `fhrunT`, and the
two loops of the translated `InheritableSQLObject._create` re-run under `xIfaceT` (the proofs of `Lemmas/FailInhXb.lean`
replayed: the loops make no `super()` / method call, so only the interface's name changes).
-/
set_option linter.unusedSimpArgs false
namespace SqlObjVerif.Fail.InhX
open SqlObjVerif.PyInh (Iface CallRes R Exc ExcCls vdGet vdHas vdSet forLoop pairBody isListVal pyBool)
open SqlObjVerif.PyInh.Extracted (create_loop0 create_loop1)

@[simp] theorem xIfaceT_self (X : Ctx) (T : Tr) (C : Construct) (s : PVal) : (xIfaceT X T C s).self = s := rfl
@[simp] theorem xIfaceT_attrOf (X : Ctx) (T : Tr) (C : Construct) (s : PVal) : (xIfaceT X T C s).attrOf = xAttrOf X := rfl
@[simp] theorem xIfaceT_setAttrOf (X : Ctx) (T : Tr) (C : Construct) (s : PVal) : (xIfaceT X T C s).setAttrOf = xSetAttrOf := rfl
@[simp] theorem xIfaceT_hasattr (X : Ctx) (T : Tr) (C : Construct) (s : PVal) (w : FW) : (xIfaceT X T C s).hasattr w = xHasattr X := rfl
@[simp] theorem xIfaceT_global (X : Ctx) (T : Tr) (C : Construct) (s : PVal) (n : String) :
    (xIfaceT X T C s).global n = if n = "sqlbuilder.NoDefault" then some noDefault else none := rfl
@[simp] theorem xIfaceT_isinstance (X : Ctx) (T : Tr) (C : Construct) (s : PVal) (w : FW) : (xIfaceT X T C s).isinstance w = xIsinstance := rfl
@[simp] theorem xIfaceT_call (X : Ctx) (T : Tr) (C : Construct) (s : PVal) : (xIfaceT X T C s).call = xCallT X T := rfl
@[simp] theorem xIfaceT_callFn (X : Ctx) (T : Tr) (C : Construct) (s : PVal) : (xIfaceT X T C s).callFn = xCallFn C := rfl
@[simp] theorem xIfaceT_super (X : Ctx) (T : Tr) (C : Construct) (s : PVal) : (xIfaceT X T C s).super = xSuperT X T s := rfl

macro "fhrunT" : tactic => `(tactic|
  simp [PyInh.run, PyInh.Block.exec, PyInh.Stmt.exec, PyInh.Cond.eval, PyInh.Expr.eval, PyInh.Exprs.eval, PyInh.eval2,
        PyInh.evalArgs, PyInh.evalStar, PyInh.Env.get, PyInh.St.setVar, PyInh.St.setOpt, PyInh.afterCall,
        PyInh.Res.toCall, PyInh.zipKw, PyInh.ExcPat.catches, xAttrOf, xSetAttrOf, xHasattr, xIsinstance,
        xSuperT, xCallT, xCallFn, PyInh.Val.isNone, PyInh.isListVal, classOpt, newInst, *])

theorem create_loop0_runT (X : Ctx) (T : Tr) (C : Construct) (s : PVal) (p : Nat) (v0 v1 v7 v8 v9 : Option PVal) :
    ∀ (rest nk pk : List (PVal × PVal)) (w : FW) (v5 v6 : Option PVal),
      (∀ e, e ∈ rest → KwKey e.1) → (rest.map (·.1)).Nodup →
      (∀ e, e ∈ rest → (∀ e', e' ∈ nk → e'.1 ≠ e.1) ∧ (∀ e', e' ∈ pk → e'.1 ≠ e.1)) →
      ∃ v5' v6',
        forLoop (pairBody fun st a b => create_loop0.exec (xIfaceT X T C s) none ((st.setVar 5 a).setVar 6 b)) (pairsOf rest)
          { w := w, vars := [v0, v1, some (.cls p), some (PyInh.Val.ofList (pairsOf nk)), some (PyInh.Val.ofList (pairsOf pk)),
                             v5, v6, v7, v8, v9] } =
        .norm { w := w, vars := [v0, v1, some (.cls p),
                  some (PyInh.Val.ofList (pairsOf (nk ++ rest.filter fun e => !toParent X p e.1))),
                  some (PyInh.Val.ofList (pairsOf (pk ++ rest.filter fun e => toParent X p e.1))), v5', v6', v7, v8, v9] } := by
  intro rest
  induction rest with
  | nil => intro nk pk w v5 v6 _ _ _; exact ⟨v5, v6, by simp [pairsOf, forLoop]⟩
  | cons e rest ih =>
    intro nk pk w v5 v6 hkey hnd hfresh
    obtain ⟨key, val⟩ := e
    have hk := hkey (key, val) List.mem_cons_self
    obtain ⟨hf1, hf2⟩ := hfresh (key, val) List.mem_cons_self
    simp only [List.map_cons, List.nodup_cons, List.mem_map, not_exists, not_and] at hnd
    obtain ⟨hnotin, hnd'⟩ := hnd
    have hrest : ∀ e, e ∈ rest → KwKey e.1 := fun e he => hkey e (List.mem_cons_of_mem _ he)
    by_cases hP : toParent X p key = true
    · -- to the parent
      have hstep : create_loop0.exec (xIfaceT X T C s) none
          (PyInh.St.setVar (PyInh.St.setVar { w := w, vars := [v0, v1, some (.cls p), some (PyInh.Val.ofList (pairsOf nk)),
            some (PyInh.Val.ofList (pairsOf pk)), v5, v6, v7, v8, v9] } 5 key) 6 val) =
          .norm { w := w, vars := [v0, v1, some (.cls p), some (PyInh.Val.ofList (pairsOf nk)),
            some (PyInh.Val.ofList (pairsOf (pk ++ [(key, val)]))), some key, some val, v7, v8, v9] } := by
        unfold create_loop0
        rcases hk with ⟨a, j, rfl⟩ | rfl
        · simp only [toParent, List.contains_eq_mem, decide_eq_true_eq] at hP
          fhrunT
          simp [isListVal_ofList, vdSet_fresh _ _ pk hf2]
        · simp [toParent] at hP
      obtain ⟨v5', v6', hih⟩ := ih nk (pk ++ [(key, val)]) w (some key) (some val) hrest hnd' (by
        intro e' he'
        obtain ⟨g1, g2⟩ := hfresh e' (List.mem_cons_of_mem _ he')
        refine ⟨g1, ?_⟩
        intro e'' he''
        rcases List.mem_append.mp he'' with h1 | h1
        · exact g2 e'' h1
        · simp only [List.mem_singleton] at h1
          subst h1
          intro heq
          exact hnotin e' he' heq.symm)
      refine ⟨v5', v6', ?_⟩
      simp only [pairsOf, List.map_cons, forLoop, pairBody] at hih ⊢
      simp only [pairsOf] at hstep
      rw [hstep]; dsimp only; rw [hih]
      simp [hP]
    · -- stays here
      have hP' : toParent X p key = false := by simpa using hP
      have hstep : create_loop0.exec (xIfaceT X T C s) none
          (PyInh.St.setVar (PyInh.St.setVar { w := w, vars := [v0, v1, some (.cls p), some (PyInh.Val.ofList (pairsOf nk)),
            some (PyInh.Val.ofList (pairsOf pk)), v5, v6, v7, v8, v9] } 5 key) 6 val) =
          .norm { w := w, vars := [v0, v1, some (.cls p), some (PyInh.Val.ofList (pairsOf (nk ++ [(key, val)]))),
            some (PyInh.Val.ofList (pairsOf pk)), some key, some val, v7, v8, v9] } := by
        unfold create_loop0
        rcases hk with ⟨a, j, rfl⟩ | rfl
        · simp only [toParent, List.contains_eq_mem, decide_eq_false_iff_not] at hP'
          fhrunT
          simp [isListVal_ofList, vdSet_fresh _ _ nk hf1]
        · fhrunT
          simp [isListVal_ofList, vdSet_fresh _ _ nk hf1]
      obtain ⟨v5', v6', hih⟩ := ih (nk ++ [(key, val)]) pk w (some key) (some val) hrest hnd' (by
        intro e' he'
        obtain ⟨g1, g2⟩ := hfresh e' (List.mem_cons_of_mem _ he')
        refine ⟨?_, g2⟩
        intro e'' he''
        rcases List.mem_append.mp he'' with h1 | h1
        · exact g1 e'' h1
        · simp only [List.mem_singleton] at h1
          subst h1
          intro heq
          exact hnotin e' he' heq.symm)
      refine ⟨v5', v6', ?_⟩
      simp only [pairsOf, List.map_cons, forLoop, pairBody] at hih ⊢
      simp only [pairsOf] at hstep
      rw [hstep]; dsimp only; rw [hih]
      simp [hP']

theorem create_loop0_runT' (X : Ctx) (T : Tr) (C : Construct) (s : PVal) (p : Nat) {v0 v1 v5 v6 v7 v8 v9 : Option PVal}
    {rest : List (PVal × PVal)} {w : FW} {r : PyInh.Res FW}
    (hF : forLoop (pairBody fun st a b => create_loop0.exec (xIfaceT X T C s) none ((st.setVar 5 a).setVar 6 b)) (pairsOf rest)
          { w := w, vars := [v0, v1, some (.cls p), some .nil, some .nil, v5, v6, v7, v8, v9] } = r)
    (hkey : ∀ e, e ∈ rest → KwKey e.1) (hnd : (rest.map (·.1)).Nodup) :
    ∃ v5' v6', r = .norm { w := w, vars := [v0, v1, some (.cls p),
                  some (PyInh.Val.ofList (pairsOf (rest.filter fun e => !toParent X p e.1))),
                  some (PyInh.Val.ofList (pairsOf (rest.filter fun e => toParent X p e.1))), v5', v6', v7, v8, v9] } := by
  obtain ⟨v5', v6', h⟩ := create_loop0_runT X T C s p v0 v1 v7 v8 v9 rest [] [] w v5 v6 hkey hnd
    (fun e _ => ⟨fun e' h' => absurd h' List.not_mem_nil, fun e' h' => absurd h' List.not_mem_nil⟩)
  refine ⟨v5', v6', ?_⟩
  rw [← hF]
  simpa [pairsOf, PyInh.Val.ofList] using h

theorem create_loop1_runT (X : Ctx) (T : Tr) (C : Construct) (s : PVal) (a : Nat) (kwv : PVal) (hl : isListVal kwv = true)
    (hkw : ∀ j, j < (clsOf X.sch a).cols.length → X.nodefault a j = true → vdHas (.name a j) kwv = true)
    (v0 v2 v3 v4 v5 v6 v8 v9 : Option PVal) : ∀ (cols : List PVal) (w : FW) (v7 : Option PVal),
      (∀ col, col ∈ cols → ∃ j, j < (clsOf X.sch a).cols.length ∧ col = colObj a j) → ∃ v7',
      forLoop (fun st col => create_loop1.exec (xIfaceT X T C s) none (st.setVar 7 col)) cols
        { w := w, vars := [v0, some kwv, v2, v3, v4, v5, v6, v7, v8, v9] } =
      .norm { w := w, vars := [v0, some kwv, v2, v3, v4, v5, v6, v7', v8, v9] } := by
  intro cols
  induction cols with
  | nil => intro w v7 _; exact ⟨v7, rfl⟩
  | cons col cols ih =>
    intro w v7 hc
    have hstep : create_loop1.exec (xIfaceT X T C s) none
        (PyInh.St.setVar { w := w, vars := [v0, some kwv, v2, v3, v4, v5, v6, v7, v8, v9] } 7 col) =
        .norm { w := w, vars := [v0, some kwv, v2, v3, v4, v5, v6, some col, v8, v9] } := by
      unfold create_loop1
      obtain ⟨j, hj, rfl⟩ := hc col List.mem_cons_self
      have := hkw j hj
      cases hd : X.nodefault a j <;> (simp only [colObj]; fhrunT) <;> simp [noDefault]
    obtain ⟨v7', hih⟩ := ih w (some col) (fun c hc' => hc c (List.mem_cons_of_mem _ hc'))
    exact ⟨v7', by simp only [forLoop]; rw [hstep]; dsimp only; rw [hih]⟩

theorem create_loop1_runT' (X : Ctx) (T : Tr) (C : Construct) (s : PVal) (a : Nat) {kwv : PVal} (hl : isListVal kwv = true)
    (hkw : ∀ j, j < (clsOf X.sch a).cols.length → X.nodefault a j = true → vdHas (.name a j) kwv = true)
    {v0 v2 v3 v4 v5 v6 v7 v8 v9 : Option PVal} {cols : List PVal} {w : FW} {r : PyInh.Res FW}
    (hF : forLoop (fun st col => create_loop1.exec (xIfaceT X T C s) none (st.setVar 7 col)) cols
        { w := w, vars := [v0, some kwv, v2, v3, v4, v5, v6, v7, v8, v9] } = r)
    (hc : ∀ col, col ∈ cols → ∃ j, j < (clsOf X.sch a).cols.length ∧ col = colObj a j) :
    ∃ v7', r = .norm { w := w, vars := [v0, some kwv, v2, v3, v4, v5, v6, v7', v8, v9] } := by
  obtain ⟨v7', h⟩ := create_loop1_runT X T C s a kwv hl hkw v0 v2 v3 v4 v5 v6 v8 v9 cols w v7 hc
  exact ⟨v7', by rw [← hF, h]⟩

end SqlObjVerif.Fail.InhX
