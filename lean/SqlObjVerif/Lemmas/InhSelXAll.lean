import SqlObjVerif.Lemmas.InhSelXInit
/-!
`InheritableSelectResults.__init__` (translated): `clause=None` / `clause='all'` are replaced by `SQLTrueClause` by the
first statement (`selInitX_all`); the rest of the constructor runs as for the clause `tt`.
-/
set_option linter.unusedSimpArgs false
namespace SqlObjVerif.InhSel
open SqlObjVerif.PyIS
open SqlObjVerif.PyIS.Extracted
open SqlObjVerif.Inherit hiding Val Res Cmp Out

def tailOf : Block → Block
  | .cons _ r => r
  | .nil => .nil

/-- the first statement: `if clause is None or isinstance(clause, str) and clause == 'all': clause = SQLTrueClause` -/
def selInit_s0 : Stmt :=
  .ite (.or (.isNone (.var 1)) (.and (.isinstance (.var 1) "str") (.eq (.var 1) (.const (.str "all")))))
    (.cons (.assign 1 (.global "sqlbuilder.SQLTrueClause")) .nil) .nil

theorem selInitProg_split : selInitProg = .cons selInit_s0 (tailOf selInitProg) := rfl

theorem exec_cons {W : Type} (I : Iface W) (cur : Option Exc) (st : St W) (s : Stmt) (rest : Block) :
    Block.exec I cur st (.cons s rest) = (s.exec I cur st).seq fun st' => rest.exec I cur st' := by
  rw [Block.exec]

/-- `clause=None` and `clause='all'` select everything: the constructor replaces them by `SQLTrueClause` first -/
theorem selInitX_all (X : SCtx) (w : SW) (s : Nat) (ops : SVal) (cl : SVal) (hcl : cl = .none ∨ cl = .str "all") :
    selInitX X w s cl ops = selInitX X w s (.sql .tt) ops := by
  unfold selInitX PyIS.run
  rw [selInitProg_split]
  simp only [exec_cons]
  have hE : ∀ cl : SVal, cl = .none ∨ cl = .str "all" ∨ cl = .sql .tt →
      selInit_s0.exec (sIface X (.ref 10 0)) none { w := w, env := Env.ofArgs [.cls s, cl, .none, .none, ops] 0 } =
        .norm { w := w, env := Env.ofArgs [.cls s, .sql .tt, .none, .none, ops] 0 } := by
    intro cl hc
    have henv : ∀ v : SVal, (Env.ofArgs [.cls s, v, .none, .none, ops] 0).put 1 (.sql .tt) =
        Env.ofArgs [.cls s, .sql .tt, .none, .none, ops] 0 := by
      intro v
      funext y
      simp only [Env.ofArgs, put_apply]
      by_cases h0 : y = 0 <;> by_cases h1 : y = 1 <;> simp [h0, h1]
    rcases hc with rfl | rfl | rfl
    · unfold selInit_s0; isrunw [henv]
      exact henv .none
    · unfold selInit_s0; isrunw [henv]
      exact henv (.str "all")
    · unfold selInit_s0; isrunw [henv]
  rw [hE cl (by rcases hcl with h | h <;> simp [h]), hE (.sql .tt) (by simp)]
end SqlObjVerif.InhSel
