import SqlObjVerif.Lemmas.CodecXDtA
import SqlObjVerif.Lemmas.CodecXDtB
import SqlObjVerif.Lemmas.CodecXDtA2
import SqlObjVerif.Lemmas.CodecXDtB2
/-!
# CodecX — the translated DateTime / Date / Time validators = the hand model, for the three formats col.py uses
-/
namespace SqlObjVerif.PyCodec

open SqlObjVerif.Codec (Str PyVal FTok SPiece DT)
open Extracted

/-- a format with `.%f`: the translated fix-up is the hand model's `fixMicro`, for every text -/
theorem dt_str_dot (fs : Str) (F : List SPiece) (hp : parseFmt fs = some F) (k : Int)
    (hf : strFind [46, 37, 102] fs = k) (hk : 0 ≤ k) (hh : Codec.hasDotF F = true) (s : Str) :
    runV (cfgDt fs) dtToPython (.str s) = some (Codec.dtToPython F (.str s)) := by
  rw [model_dt_str, Codec.parseWith, hh]
  simp only [if_true]
  by_cases hd : 46 ∈ s
  · obtain ⟨p, u, rfl, hu⟩ := last_dot_decomp s hd
    rcases Nat.lt_trichotomy u.length 6 with c | c | c
    · exact dt_dot_lt fs F hp k hf hk p u hu c
    · exact dt_dot_eq fs F hp k hf hk p u hu c
    · exact dt_dot_gt fs F hp k hf hk p u hu c
  · exact dt_nodot fs F hp k hf hk s hd

/-! ### the formats of col.py: the text the validator searches (`self.format.find(".%f")`) and hands to `strptime`
is the text whose parse is the hand model's format (`Extracted/Codec.lean`) -/

theorem parseFmt_dt : parseFmt fmtDateTimeStr = some Codec.Extracted.fmtDateTime := by decide
theorem parseFmt_d : parseFmt fmtDateStr = some Codec.Extracted.fmtDate := by decide
theorem parseFmt_t : parseFmt fmtTimeStr = some Codec.Extracted.fmtTime := by decide

theorem dtToPython_dt_eq (v : PyVal) :
    runV (cfgDt fmtDateTimeStr) dtToPython v = some (Codec.dtToPython Codec.Extracted.fmtDateTime v) := by
  cases v with
  | str s => exact dt_str_dot _ _ parseFmt_dt _ rfl (by decide) Codec.hasDotF_dt s
  | _ => rfl

theorem dtToPython_t_eq (v : PyVal) :
    runV (cfgDt fmtTimeStr) dtToPython v = some (Codec.dtToPython Codec.Extracted.fmtTime v) := by
  cases v with
  | str s => exact dt_str_dot _ _ parseFmt_t _ rfl (by decide) Codec.hasDotF_t s
  | _ => rfl

theorem dtToPython_d_eq (v : PyVal) :
    runV (cfgDt fmtDateStr) dtToPython v = some (Codec.dtToPython Codec.Extracted.fmtDate v) := by
  cases v with
  | str s => exact dt_str_plain _ _ parseFmt_d _ rfl (by decide) Codec.hasDotF_d s
  | _ => rfl

theorem dtFromPython_eq (fs : Str) (v : PyVal) : runV (cfgDt fs) dtFromPython v = some (Codec.dtFromPython v) := by
  cases v <;> rfl

end SqlObjVerif.PyCodec
