import SqlObjVerif.Model.EvSubX
import SqlObjVerif.Lemmas.EventsX
/-!
C19 translator tie, part 18: `events._makeSubclassConnectionsPost` as translated (two nested loops, the translated `listen`)
= `subclassed`.
-/
namespace SqlObjVerif.Events
open SqlObjVerif.PyVer
open SqlObjVerif.PyVer.ExtractedEvSub

macro "subrun" "[" args:Lean.Parser.Tactic.simpLemma,* "]" : tactic => `(tactic|
  simp [PyVer.run, Block.exec, Stmt.exec, Expr.eval, Exprs.eval, Cond.eval, evalArgs, evalOpt, Env.get, St.setVar, St.setOpt,
        zipKw, paramsOf, subCall, subCallFn, gl, weakOf, afterCall, ProcRes.toCall, pairBody, Val.ofList, $args,*])

section
variable (bases : List PVal) (alive : PVal → Bool)

@[simp] theorem subIface_attr (w : LW) (v : PVal) (n : String) :
    (subIface bases alive).attr w v n = if n = "__bases__" then .ok (Val.ofList bases) else .stuck := rfl
@[simp] theorem subIface_global (n : String) :
    (subIface bases alive).global n = if n = "subclassClones" ∨ n = "listen" then some (gl n) else none := rfl
@[simp] theorem subIface_call : (subIface bases alive).call = subCall := rfl
@[simp] theorem subIface_callFn : (subIface bases alive).callFn = subCallFn alive := rfl

theorem inner_loop (new : PVal) (htr : ∀ r, alive r = true → pyBool r = true) :
    ∀ (l : List PVal), (∀ x ∈ l, ∃ r s, x = .pair (weakOf r) s) → ∀ (w : LW) (a1 a2 a3 a4 a5 : Option PVal),
    ∃ b2 b3 b4, forLoop (pairBody fun st p q => Block.exec (subIface bases alive) ((st.setVar 2 p).setVar 3 q) subPost_loop1) l
        { w := w, vars := [some new, a1, a2, a3, a4, a5] }
      = .norm { w := l.foldl (copyOne alive new) w, vars := [some new, a1, b2, b3, b4, a5] } := by
  intro l
  induction l with
  | nil => intro _ w a1 a2 a3 a4 a5; exact ⟨a2, a3, a4, rfl⟩
  | cons x l ih =>
    intro hl w a1 a2 a3 a4 a5
    obtain ⟨r, s, rfl⟩ := hl x (by simp)
    have hl' : ∀ x ∈ l, ∃ r s, x = .pair (weakOf r) s := fun x hx => hl x (by simp [hx])
    cases ha : alive r
    · obtain ⟨b2, b3, b4, h⟩ := ih hl' w a1 (some (weakOf r)) (some s) (some .none) a5
      refine ⟨b2, b3, b4, ?_⟩
      have hstep : (pairBody fun st p q => Block.exec (subIface bases alive) ((st.setVar 2 p).setVar 3 q) subPost_loop1)
          { w := w, vars := [some new, a1, a2, a3, a4, a5] } (.pair (weakOf r) s)
          = .norm { w := w, vars := [some new, a1, some (weakOf r), some s, some .none, a5] } := by
        subrun [subPost_loop1, ha]
      simp only [forLoop, hstep, List.foldl_cons]
      simpa [copyOne, weakOf, ha] using h
    · obtain ⟨b2, b3, b4, h⟩ := ih hl' (listened w r new s (.bool true)) a1 (some (weakOf r)) (some s) (some r) a5
      refine ⟨b2, b3, b4, ?_⟩
      have hstep : (pairBody fun st p q => Block.exec (subIface bases alive) ((st.setVar 2 p).setVar 3 q) subPost_loop1)
          { w := w, vars := [some new, a1, a2, a3, a4, a5] } (.pair (weakOf r) s)
          = .norm { w := listened w r new s (.bool true), vars := [some new, a1, some (weakOf r), some s, some r, a5] } := by
        subrun [subPost_loop1, ha, htr r ha, listenX_eq]
      simp only [forLoop, hstep, List.foldl_cons]
      simpa [copyOne, weakOf, ha] using h


theorem iterOf_ofList (I : Iface LW) (w : LW) (l : List PVal) : iterOf I w (Val.ofList l) = some l := by
  have h : ∀ l : List PVal, Val.toList (Val.ofList l) = some l := by
    intro l; induction l with
    | nil => rfl
    | cons a l ih => simp [Val.ofList, Val.toList, ih]
  cases l with
  | nil => rfl
  | cons a l => simpa [iterOf, Val.ofList] using h (a :: l)

theorem clonesOf_mem (cl : List (PVal × List PVal)) (c : PVal) (x : PVal) (hx : x ∈ clonesOf cl c) :
    ∃ p ∈ cl, x ∈ p.2 := by
  unfold clonesOf at hx
  cases hf : cl.find? (fun p => decide (p.1 = c)) with
  | none => rw [hf] at hx; simp at hx
  | some p => rw [hf] at hx; exact ⟨p, List.mem_of_find?_eq_some hf, hx⟩

theorem addClone_wf (c x : PVal) (hx : ∃ r s, x = .pair (weakOf r) s) : ∀ cl : List (PVal × List PVal),
    (∀ p ∈ cl, ∀ y ∈ p.2, ∃ r s, y = .pair (weakOf r) s) → ∀ p ∈ addClone c x cl, ∀ y ∈ p.2, ∃ r s, y = .pair (weakOf r) s := by
  intro cl
  induction cl with
  | nil => intro _ p hp; simp [addClone] at hp
  | cons q cl ih =>
    intro h p hp y hy
    simp only [addClone] at hp
    split at hp
    · simp only [List.mem_cons] at hp
      rcases hp with rfl | hp
      · simp only [List.mem_append, List.mem_singleton] at hy
        rcases hy with hy | rfl
        · exact h q (by simp) y hy
        · exact hx
      · exact h p (by simp [hp]) y hy
    · simp only [List.mem_cons] at hp
      rcases hp with rfl | hp
      · exact h _ (by simp) y hy
      · exact ih (fun p hp => h p (by simp [hp])) p hp y hy

theorem listened_wf (w : LW) (r c s b : PVal) (h : ClonesWF w) : ClonesWF (listened w r c s b) := by
  unfold ClonesWF listened
  apply addClone_wf _ _ ⟨r, s, rfl⟩
  split
  · exact h
  · intro p hp y hy
    simp only [List.mem_append, List.mem_singleton] at hp
    rcases hp with hp | rfl
    · exact h p hp y hy
    · simp at hy

theorem copyOne_wf (new : PVal) (w : LW) (x : PVal) (h : ClonesWF w) : ClonesWF (copyOne alive new w x) := by
  unfold copyOne
  split
  · split
    · exact listened_wf _ _ _ _ _ h
    · exact h
  · exact h

theorem foldl_copy_wf (new : PVal) (l : List PVal) : ∀ w, ClonesWF w → ClonesWF (l.foldl (copyOne alive new) w) := by
  induction l with
  | nil => intro w h; exact h
  | cons x l ih => intro w h; exact ih _ (copyOne_wf alive new w x h)

theorem outer_loop (new : PVal) (htr : ∀ r, alive r = true → pyBool r = true) :
    ∀ (bs : List PVal) (w : LW), ClonesWF w → ∀ (a1 a2 a3 a4 a5 : Option PVal),
    ∃ b1 b2 b3 b4 b5, forLoop (fun st a => Block.exec (subIface bases alive) (st.setVar 1 a) subPost_loop0) bs
        { w := w, vars := [some new, a1, a2, a3, a4, a5] }
      = .norm { w := bs.foldl (fun w b => (clonesOf w.clones b).foldl (copyOne alive new) w) w,
                vars := [some new, b1, b2, b3, b4, b5] } := by
  intro bs
  induction bs with
  | nil => intro w _ a1 a2 a3 a4 a5; exact ⟨a1, a2, a3, a4, a5, rfl⟩
  | cons b bs ih =>
    intro w hwf a1 a2 a3 a4 a5
    have hl : ∀ x ∈ clonesOf w.clones b, ∃ r s, x = .pair (weakOf r) s := by
      intro x hx
      obtain ⟨p, hp, hxp⟩ := clonesOf_mem _ _ _ hx
      exact hwf p hp x hxp
    obtain ⟨c2, c3, c4, hin⟩ := inner_loop bases alive new htr _ hl w (some b) a2 a3 a4
      (some (Val.ofList (clonesOf w.clones b)))
    obtain ⟨b1, b2, b3, b4, b5, h⟩ := ih _ (foldl_copy_wf alive new _ w hwf) (some b) c2 c3 c4
      (some (Val.ofList (clonesOf w.clones b)))
    refine ⟨b1, b2, b3, b4, b5, ?_⟩
    have hstep : Block.exec (subIface bases alive) (St.setVar { w := w, vars := [some new, a1, a2, a3, a4, a5] } 1 b) subPost_loop0
        = .norm { w := (clonesOf w.clones b).foldl (copyOne alive new) w,
                  vars := [some new, some b, c2, c3, c4, some (Val.ofList (clonesOf w.clones b))] } := by
      subrun [subPost_loop0, iterOf_ofList]
      simp only [St.setVar] at hin
      rw [hin]
    simp only [forLoop, hstep, List.foldl_cons]
    exact h

/-- **`events._makeSubclassConnectionsPost(new_class)` as translated** copies, base by base and entry by entry, every live
    `(receiver, signal)` of the base's clone list to the new class through the translated `listen` -/
theorem subPostX_eq (new : PVal) (htr : ∀ r, alive r = true → pyBool r = true) (w : LW) (hwf : ClonesWF w) :
    subPostX bases alive w new = .ret (subclassed bases alive w new) .none [new] := by
  unfold subPostX subclassed
  simp only [subPostProg, subPost_nlocals]
  obtain ⟨b1, b2, b3, b4, b5, h⟩ := outer_loop bases alive new htr bases w hwf none none none none none
  subrun [iterOf_ofList]
  simp only [St.setVar] at h
  rw [h]
  simp [Res.toProc, paramsOf]

end
end SqlObjVerif.Events
