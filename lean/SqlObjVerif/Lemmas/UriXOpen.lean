import SqlObjVerif.Lemmas.UriX
/-!
# C18 — the translated `ConnectionURIOpener.connectionForURI` equals the hand model `UriX.connectionForURI`
(built on `Uri.withParams`), and the translated `DBConnection.connectionFromURI`

`str.find(':')` / `str.split(':', 1)` of the reference semantics are tied to the hand model's `breakOn`;
`connectionFromOldURI` (and with it `_parseOldURI`) is not reached when `oldUri` is false.
-/
namespace SqlObjVerif.UriX
open SqlObjVerif.Uri
open SqlObjVerif.PyUri hiding Str
open SqlObjVerif.PyUri.Extracted

theorem findFrom_breakOn (c : Nat) (s : List Nat) (i : Nat) :
    match breakOn c s with
    | none => findFrom [c] s i = none
    | some (a, b) => findFrom [c] s i = some (i + a.length) ∧ s = a ++ c :: b := by
  induction s generalizing i with
  | nil => simp [breakOn, findFrom]
  | cons x s ih =>
    by_cases h : x = c
    · subst h; simp [breakOn, findFrom]
    · have h' : ¬ (c = x) := fun e => h e.symm
      have := ih (i + 1)
      simp only [breakOn, h, if_false]
      cases hb : breakOn c s with
      | none => simp [hb] at this; simp [findFrom, h', this]
      | some ab =>
        rcases ab with ⟨a, b⟩
        simp [hb] at this
        simp [findFrom, h', this.1]
        constructor
        · omega
        · exact this.2

theorem strFind_none (c : Nat) (s : List Nat) (h : breakOn c s = none) : strFind [c] s = -1 := by
  have := findFrom_breakOn c s 0
  simp [h] at this
  simp [strFind, this]

theorem strFind_some (c : Nat) (s a b : List Nat) (h : breakOn c s = some (a, b)) : strFind [c] s = (a.length : Int) := by
  have := findFrom_breakOn c s 0
  simp [h] at this
  simp [strFind, this.1]

theorem splitOnce_some (c : Nat) (s a b : List Nat) (h : breakOn c s = some (a, b)) : splitOnce [c] s = [a, b] := by
  have := findFrom_breakOn c s 0
  simp [h] at this
  obtain ⟨h1, h2⟩ := this
  subst h2
  simp [splitOnce, h1]

theorem strDict?_strDict (ps : List (List Nat × List Nat)) : strDict? (strDict ps) = some ps := by
  induction ps with
  | nil => rfl
  | cons kv ps ih => rcases kv with ⟨k, v⟩; simp [strDict, strDict?] at ih ⊢; simp [ih]

theorem truthy_strDict (ps : List (List Nat × List Nat)) : truthy (.dict (strDict ps)) = !ps.isEmpty := by
  cases ps <;> rfl

section
variable (os : List Nat) (cm : Val → String → List Val → R Val) (cv : Val → List Val → List (List Nat × Val) → R Val)

theorem connectionForURI_s0_exec (env : Env) (uri : List Nat) (ps : List (List Nat × List Nat))
    (h1 : env 1 = some (.str uri)) (h3 : env 3 = some (.dict (strDict ps))) :
    Stmt.exec (uriIface os cm cv) env connectionForURI_s0 =
      match withParams uri ps with
      | some u => .norm (env.put 1 (.str u))
      | none => .exc env .unicodeEncodeError := by
  unfold connectionForURI_s0 withParams
  cases ps with
  | nil => simp [strDict] at h3; pyu; simp [put_same, h1]
  | cons kv ps =>
    have ht : truthy (.dict (strDict (kv :: ps))) = true := rfl
    have hd := strDict?_strDict (kv :: ps)
    have hne : (kv :: ps).isEmpty = false := rfl
    generalize kv :: ps = qs at *
    rw [hne]
    rw [← strIn_single 63 uri]
    cases hc : strIn [63] uri <;> cases hq : urlencode qs <;> pyu

theorem connectionForURI_s1_exec (env : Env) (o : Opener) (u : List Nat) (h0 : env 0 = some (openerObj o))
    (h1 : env 1 = some (.str u)) :
    Stmt.exec (uriIface os cm cv) env connectionForURI_s1 =
      match aget u o.cached with
      | some conn => .ret env conn
      | none => .norm env := by
  unfold connectionForURI_s1
  simp only [openerObj] at h0
  cases hc : aget u o.cached <;> pyu

/-- new-style dispatch: `connectionFromOldURI` is not reached when `oldUri` is false -/
theorem connectionForURI_s2_view (env : Env) (o : Opener) (u : List Nat) (oldUri : Val) (k : Env → Res)
    (h0 : env 0 = some (openerObj o)) (h1 : env 1 = some (.str u)) (h2 : env 2 = some oldUri)
    (hold : truthy oldUri = false) :
    ((Stmt.exec (uriIface os cm cv) env connectionForURI_s2).seq k).view =
      match breakOn 58 u with
      | some (scheme, rest) =>
        match (cm (openerObj o) "dbConnectionForScheme" [.str scheme]).bind fun cls =>
            (methodOf (uriIface os cm cv) cls "connectionFromURI" [.str u]).bind fun conn => .ok (cls, conn) with
        | .ok (cls, conn) =>
          (k ((((env.put 4 (.str scheme)).put 5 (.str rest)).put 6 cls).put 7 conn)).view
        | .exc e => (.exc e, some (openerObj o))
        | .stuck => (.stuck, none)
      | none =>
        match aget u o.names with
        | some conn => (k (env.put 7 conn)).view
        | none => (.exc .assertionError, some (openerObj o)) := by
  unfold connectionForURI_s2
  cases hb : breakOn 58 u with
  | none =>
    have hf := strFind_none 58 u hb
    simp only [openerObj] at h0
    cases hn : aget u o.names <;> pyu <;> simp [Res.view, Res.out, Res.self, h0, openerObj]
  | some ab =>
    rcases ab with ⟨scheme, rest⟩
    have hf := strFind_some 58 u scheme rest hb
    have hsp := splitOnce_some 58 u scheme rest hb
    have hne : ((scheme.length : Int) == -1) = false := by
      simp only [beq_eq_false_iff_ne, ne_eq]
      omega
    simp only [openerObj] at h0 ⊢
    cases hcls : cm (Val.obj "ConnectionURIOpener" [("cachedURIs", Val.dict o.cached),
        ("instanceNames", Val.dict o.names)]) "dbConnectionForScheme" [.str scheme] with
    | stuck => pyu; simp [Res.view, Res.out, Res.self]
    | exc e => pyu; simp [Res.view, Res.out, Res.self, h0]
    | ok cls =>
      cases hconn : methodOf (uriIface os cm cv) cls "connectionFromURI" [.str u] with
      | stuck => pyu; simp [Res.view, Res.out, Res.self]
      | exc e => pyu; simp [Res.view, Res.out, Res.self, h0]
      | ok conn => pyu

theorem connectionForURI_s3_exec (env : Env) (o : Opener) (u : List Nat) (conn : Val)
    (h0 : env 0 = some (openerObj o)) (h1 : env 1 = some (.str u)) (h7 : env 7 = some conn) :
    Stmt.exec (uriIface os cm cv) env connectionForURI_s3 =
      .norm (env.put 0 (openerObj { o with cached := dset o.cached u conn })) := by
  unfold connectionForURI_s3
  simp only [openerObj] at h0 ⊢
  pyu
  simp [setAttrItemOf, h0, aget, fset]

theorem connectionForURI_s4_exec (env : Env) (conn : Val) (h7 : env 7 = some conn) :
    Stmt.exec (uriIface os cm cv) env connectionForURI_s4 = .ret env conn := by
  unfold connectionForURI_s4
  pyu

/-- statements 3 and 4: cache the connection under the final URI and return it -/
theorem connectionForURI_tail (env : Env) (o : Opener) (u : List Nat) (conn : Val)
    (h0 : env 0 = some (openerObj o)) (h1 : env 1 = some (.str u)) (h7 : env 7 = some conn) :
    (Block.exec (uriIface os cm cv) env (.cons connectionForURI_s3 (.cons connectionForURI_s4 .nil))).view =
      (.ret conn, some (openerObj { o with cached := dset o.cached u conn })) := by
  simp only [exec_cons]
  rw [connectionForURI_s3_exec os cm cv env o u conn h0 h1 h7]
  simp only [Res.seq_norm]
  rw [connectionForURI_s4_exec os cm cv _ conn (by simpa using h7)]
  simp [Res.view, Res.out, Res.self]

/-- the translated `ConnectionURIOpener.connectionForURI` (called with a false `oldUri`) is the hand model
    `UriX.connectionForURI`: same outcome, same opener afterwards — for every opener state, URI and parameters -/
theorem connectionForURI_translated (o : Opener) (uri : List Nat) (oldUri : Val) (ps : List (List Nat × List Nat))
    (hold : truthy oldUri = false) :
    connectionForURIX (uriIface os cm cv) o uri oldUri ps = connectionForURI (uriIface os cm cv) o uri ps := by
  unfold connectionForURIX runSelf PyUri.Extracted.connectionForURI connectionForURI
  rw [exec_cons, connectionForURI_s0_exec os cm cv _ uri ps rfl rfl]
  cases hw : withParams uri ps with
  | none => simp [Res.view, Res.out, Res.self, Env.ofArgs]
  | some u =>
    simp only [Res.seq_norm]
    rw [exec_cons, connectionForURI_s1_exec os cm cv _ o u rfl rfl]
    cases hc : aget u o.cached with
    | some conn => simp [Res.view, Res.out, Res.self, Env.ofArgs]
    | none =>
      simp only [Res.seq_norm]
      rw [exec_cons, connectionForURI_s2_view os cm cv _ o u oldUri _ rfl rfl rfl hold]
      cases hb : breakOn 58 u with
      | none =>
        simp only []
        cases hn : aget u o.names with
        | none => rfl
        | some conn =>
          simp only []
          rw [connectionForURI_tail os cm cv _ o u conn rfl rfl rfl]
          rfl
      | some ab =>
        rcases ab with ⟨scheme, rest⟩
        simp only []
        cases hcls : cm (openerObj o) "dbConnectionForScheme" [.str scheme] with
        | stuck => simp [remember]
        | exc e => simp [remember]
        | ok cls =>
          cases hconn : methodOf (uriIface os cm cv) cls "connectionFromURI" [.str u] with
          | stuck => simp [remember, hconn]
          | exc e => simp [remember, hconn]
          | ok conn =>
            simp only [R.bind_ok, hconn, remember]
            rw [connectionForURI_tail os cm cv _ o u conn rfl rfl rfl]

/-- the translated `DBConnection.connectionFromURI`: `cls._connectionFromParams(*cls._parseURI(uri))` -/
theorem connectionFromURI_translated (cls : Val) (uri : List Nat) :
    connectionFromURIX (uriIface os cm cv) cls uri =
      ofR ((methodOf (uriIface os cm cv) cls "_parseURI" [.str uri]).bind fun t =>
        match t with
        | .tuple as => methodOf (uriIface os cm cv) cls "_connectionFromParams" as
        | .list as => methodOf (uriIface os cm cv) cls "_connectionFromParams" as
        | _ => .stuck) := by
  unfold connectionFromURIX run PyUri.Extracted.connectionFromURI connectionFromURI_s0
  cases h : methodOf (uriIface os cm cv) cls "_parseURI" [.str uri] with
  | stuck => simp [Stmt.exec, Block.exec, Expr.eval, Exprs.eval, Env.ofArgs, h, Res.out, ofR]
  | exc e => simp [Stmt.exec, Block.exec, Expr.eval, Exprs.eval, Env.ofArgs, h, Res.out, ofR]
  | ok t =>
    simp [Stmt.exec, Block.exec, Expr.eval, Exprs.eval, Env.ofArgs, h, Res.out, ofR]
    cases t <;> simp <;> (generalize methodOf _ _ _ _ = r; cases r <;> rfl)

end
end SqlObjVerif.UriX
