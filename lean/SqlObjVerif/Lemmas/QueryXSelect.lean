import SqlObjVerif.Lemmas.QueryXOps
/-!
# C11 — the translated `Select.clone / newItems / unlimited / orderBy` and `DBAPI.accumulateSelect` (the clone chain)
-/
namespace SqlObjVerif.QueryX
open SqlObjVerif.PyQ
open SqlObjVerif.PyQ.Extracted

def selObj (d : List (Str × Val)) : Val := .obj "Select" [("ops", .dict d)]

section
variable (I : Iface)

/-- `Select.clone(**newOps)` = `self.__class__(**{**self.ops, **newOps})` -/
theorem selClone_translated (d newOps : List (Str × Val)) :
    selCloneX I (selObj d) newOps = ofR (I.callMethod (selObj d) "__class__" [] (aupdate d newOps)) := by
  unfold selCloneX run selClone selClone_s0 selClone_s1 selClone_s2 selObj
  pyqw [mutateOf, rebind]
  cases I.callMethod _ "__class__" [] (aupdate d newOps) <;> simp [ofR]

theorem selNewItems_translated (d : List (Str × Val)) (items : Val) :
    selNewItemsX I (selObj d) items = ofR (I.callMethod (selObj d) "clone" [] [(['i', 't', 'e', 'm', 's'], items)]) := by
  unfold selNewItemsX run selNewItems selNewItems_s0 selObj
  pyq
  cases I.callMethod _ "clone" [] _ <;> simp [ofR]

/-- `unlimited()` = `clone(limit=NoDefault, start=0, end=None)` -/
theorem selUnlimited_translated (d : List (Str × Val)) :
    selUnlimitedX I (selObj d) = ofR (I.callMethod (selObj d) "clone" []
      [(kLimit, .glob "NoDefault"), (kStart, .int 0), (kEnd, .none)]) := by
  unfold selUnlimitedX run selUnlimited selUnlimited_s0 selObj
  pyqw [kLimit, kStart, kEnd]
  cases I.callMethod _ "clone" [] _ <;> simp [ofR]

theorem selOrderBy_translated (d : List (Str × Val)) (o : Val) :
    selOrderByX I (selObj d) o = ofR (I.callMethod (selObj d) "clone" [] [(kOrderBy, o)]) := by
  unfold selOrderByX run selOrderBy selOrderBy_s0 selObj
  pyqw [kOrderBy]
  cases I.callMethod _ "clone" [] _ <;> simp [ofR]

/-- what `accumulateSelect` returns for the fetched `row`: the single value for a single expression -/
def accOut (exprs row : List Val) : Out :=
  match exprs, row with
  | [_], [] => .exc .indexError
  | [_], v :: _ => .ret v
  | _, _ => .ret (.tuple row)

/-- **`accumulateSelect(select, *expressions)`**: the clone chain
    `select.queryForSelect().newItems(expressions).unlimited().orderBy(None)`, rendered by `self.sqlrepr`, run by
    `self.queryOne`; one expression: the single value -/
theorem accumulateSelect_translated (conn select : Val) (c n : String) (fs : List (String × Val))
    (hsel : select = .obj c fs) (hconn : conn = .glob n) (exprs : List Val)
    (q0 q1 q2 q3 : List (Str × Val)) (text : Val) (row : List Val)
    (h0 : I.callMethod select "queryForSelect" [] [] = .ok (selObj q0))
    (h1 : I.callMethod (selObj q0) "newItems" [.tuple exprs] [] = .ok (selObj q1))
    (h2 : I.callMethod (selObj q1) "unlimited" [] [] = .ok (selObj q2))
    (h3 : I.callMethod (selObj q2) "orderBy" [.none] [] = .ok (selObj q3))
    (h4 : I.callMethod conn "sqlrepr" [selObj q3] [] = .ok text)
    (h5 : I.callMethod conn "queryOne" [text] [] = .ok (.tuple row)) :
    accumulateSelectX I conn select exprs = accOut exprs row := by
  subst hsel hconn
  unfold accOut
  unfold accumulateSelectX run accumulateSelect accumulateSelect_s0 accumulateSelect_s1 accumulateSelect_s2
    accumulateSelect_s3 accumulateSelect_s4
  unfold selObj at h0 h1 h2 h3 h4
  match exprs, row with
  | [], row => pyqw [h0, h1, h2, h3, h4, h5]
  | [e], [] => pyqw [h0, h1, h2, h3, h4, h5, normIdx]
  | [e], v :: r => pyqw [h0, h1, h2, h3, h4, h5, normIdx]
  | e :: e2 :: es, row =>
    have : ¬ ((es.length : Int) + 1 + 1 = 1) := by omega
    pyqw [h0, h1, h2, h3, h4, h5, this]
end
end SqlObjVerif.QueryX
