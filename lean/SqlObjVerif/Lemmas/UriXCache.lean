import SqlObjVerif.Model.UriX
/-!
# C18 — the per-URI cache of `connectionForURI` over HISTORIES of calls

`UriX.connectionForURI` (the hand model that `Lemmas/UriXOpen.lean` proves equal to the translated
`ConnectionURIOpener.connectionForURI`) never forgets: a URI that once gave a connection gives the very same
connection again after any number of other calls, for every opener state and every interface.
-/
namespace SqlObjVerif.UriX
open SqlObjVerif.Uri
open SqlObjVerif.PyUri hiding Str

/-- the opener after a call, as an `Opener` (the hand model returns it as a `Val`) -/
def rememberO (o : Opener) (u : List Nat) (r : R Val) : Out × Option Opener :=
  match r with
  | .ok conn => (.ret conn, some { o with cached := dset o.cached u conn })
  | .exc e => (.exc e, some o)
  | .stuck => (.stuck, none)

/-- `UriX.connectionForURI` with the opener state kept as a structure -/
def connectionForURIO (I : Iface) (o : Opener) (uri : List Nat) (ps : List (List Nat × List Nat)) : Out × Option Opener :=
  match withParams uri ps with
  | none => (.exc .unicodeEncodeError, some o)
  | some u =>
    match aget u o.cached with
    | some conn => (.ret conn, some o)
    | none =>
      match breakOn 58 u with
      | some (scheme, _) =>
        rememberO o u ((I.callMethod (openerObj o) "dbConnectionForScheme" [.str scheme]).bind fun cls =>
          methodOf I cls "connectionFromURI" [.str u])
      | none =>
        match aget u o.names with
        | some conn => rememberO o u (.ok conn)
        | none => (.exc .assertionError, some o)

theorem remember_eq (o : Opener) (u : List Nat) (r : R Val) :
    remember o u r = ((rememberO o u r).1, (rememberO o u r).2.map openerObj) := by
  cases r <;> rfl

/-- it is the hand model (hence, by `connectionForURI_translated`, the translated source) -/
theorem connectionForURI_eq_O (I : Iface) (o : Opener) (uri : List Nat) (ps : List (List Nat × List Nat)) :
    connectionForURI I o uri ps =
      ((connectionForURIO I o uri ps).1, (connectionForURIO I o uri ps).2.map openerObj) := by
  unfold connectionForURI connectionForURIO
  cases withParams uri ps with
  | none => rfl
  | some u =>
    simp only []
    cases aget u o.cached with
    | some conn => rfl
    | none =>
      simp only []
      cases breakOn 58 u with
      | some sp => obtain ⟨scheme, rest⟩ := sp; simp only [remember_eq]
      | none =>
        simp only []
        cases aget u o.names with
        | some conn => simp only [remember_eq]
        | none => rfl

/-! ### association-list facts -/

theorem aget_none_any {α : Type} (k : List Nat) (l : List (List Nat × α)) (h : aget k l = none) :
    l.any (fun e => e.1 == k) = false := by
  induction l with
  | nil => rfl
  | cons e l ih =>
    unfold aget at h
    by_cases he : (e.1 == k) = true
    · simp [he] at h
    · simp only [he] at h
      simp [he, ih h]

theorem aget_append_some {α : Type} (k : List Nat) (l m : List (List Nat × α)) (c : α) (h : aget k l = some c) :
    aget k (l ++ m) = some c := by
  induction l with
  | nil => simp [aget] at h
  | cons e l ih =>
    unfold aget at h
    simp only [List.cons_append]
    unfold aget
    by_cases he : (e.1 == k) = true
    · simpa [he] using h
    · simp only [he] at h ⊢
      exact ih h

theorem aget_append_self {α : Type} (k : List Nat) (l : List (List Nat × α)) (c : α) (h : aget k l = none) :
    aget k (l ++ [(k, c)]) = some c := by
  induction l with
  | nil => simp [aget]
  | cons e l ih =>
    unfold aget at h
    simp only [List.cons_append]
    unfold aget
    by_cases he : (e.1 == k) = true
    · simp [he] at h
    · simp only [he] at h ⊢
      exact ih h

/-- a fresh key is appended: what was stored stays -/
theorem aget_dset_other {α : Type} (k k' : List Nat) (l : List (List Nat × α)) (c c' : α)
    (h : aget k l = some c) (h' : aget k' l = none) : aget k (dset l k' c') = some c := by
  unfold dset
  rw [aget_none_any k' l h']
  exact aget_append_some k l _ c h

theorem aget_dset_self {α : Type} (k : List Nat) (l : List (List Nat × α)) (c : α) (h : aget k l = none) :
    aget k (dset l k c) = some c := by
  unfold dset
  rw [aget_none_any k l h]
  exact aget_append_self k l c h

/-! ### one call -/

/-- a cached URI survives any call -/
theorem cached_preserved (I : Iface) (o o' : Opener) (uri : List Nat) (ps : List (List Nat × List Nat)) (out : Out)
    (u : List Nat) (c : Val) (h : aget u o.cached = some c)
    (hs : connectionForURIO I o uri ps = (out, some o')) : aget u o'.cached = some c := by
  unfold connectionForURIO at hs
  cases hw : withParams uri ps with
  | none => simp only [hw] at hs; cases hs; exact h
  | some u' =>
    simp only [hw] at hs
    cases hc : aget u' o.cached with
    | some conn => simp only [hc] at hs; cases hs; exact h
    | none =>
      simp only [hc] at hs
      have key : ∀ r, rememberO o u' r = (out, some o') → aget u o'.cached = some c := by
        intro r hr
        cases r with
        | ok conn =>
          simp only [rememberO] at hr
          cases hr
          exact aget_dset_other u u' o.cached c conn h hc
        | exc e => simp only [rememberO] at hr; cases hr; exact h
        | stuck => simp only [rememberO] at hr; cases hr
      cases hb : breakOn 58 u' with
      | some sp =>
        obtain ⟨scheme, rest⟩ := sp
        simp only [hb] at hs
        exact key _ hs
      | none =>
        simp only [hb] at hs
        cases hn : aget u' o.names with
        | some conn => simp only [hn] at hs; exact key _ hs
        | none => simp only [hn] at hs; cases hs; exact h

/-- a call that returns a connection leaves it cached under the extended URI -/
theorem returned_is_cached (I : Iface) (o o' : Opener) (uri u : List Nat) (ps : List (List Nat × List Nat)) (c : Val)
    (hw : withParams uri ps = some u) (hs : connectionForURIO I o uri ps = (.ret c, some o')) :
    aget u o'.cached = some c := by
  unfold connectionForURIO at hs
  simp only [hw] at hs
  cases hc : aget u o.cached with
  | some conn => simp only [hc] at hs; cases hs; exact hc
  | none =>
    simp only [hc] at hs
    have key : ∀ r, rememberO o u r = (.ret c, some o') → aget u o'.cached = some c := by
      intro r hr
      cases r with
      | ok conn =>
        simp only [rememberO] at hr
        cases hr
        exact aget_dset_self u o.cached c hc
      | exc e => simp only [rememberO] at hr; cases hr
      | stuck => simp only [rememberO] at hr; cases hr
    cases hb : breakOn 58 u with
    | some sp =>
      obtain ⟨scheme, rest⟩ := sp
      simp only [hb] at hs
      exact key _ hs
    | none =>
      simp only [hb] at hs
      cases hn : aget u o.names with
      | some conn => simp only [hn] at hs; exact key _ hs
      | none => simp only [hn] at hs; cases hs

/-- a cached URI is answered from the cache, the opener is unchanged -/
theorem cached_hit (I : Iface) (o : Opener) (uri u : List Nat) (ps : List (List Nat × List Nat)) (c : Val)
    (hw : withParams uri ps = some u) (h : aget u o.cached = some c) :
    connectionForURIO I o uri ps = (.ret c, some o) := by
  unfold connectionForURIO
  simp only [hw, h]

/-! ### histories -/

/-- a history of calls `(uri, parameters)`; `none` when the model has no answer for one of them -/
def runCalls (I : Iface) : Opener → List (List Nat × List (List Nat × List Nat)) → Option Opener
  | o, [] => some o
  | o, (uri, ps) :: rest =>
    match (connectionForURIO I o uri ps).2 with
    | some o' => runCalls I o' rest
    | none => none

theorem runCalls_preserves (I : Iface) (calls : List (List Nat × List (List Nat × List Nat))) (o o' : Opener)
    (u : List Nat) (c : Val) (h : aget u o.cached = some c) (hr : runCalls I o calls = some o') :
    aget u o'.cached = some c := by
  induction calls generalizing o with
  | nil => simp only [runCalls] at hr; cases hr; exact h
  | cons call rest ih =>
    obtain ⟨uri, ps⟩ := call
    simp only [runCalls] at hr
    cases h2 : (connectionForURIO I o uri ps).2 with
    | none => simp only [h2] at hr; cases hr
    | some o1 =>
      simp only [h2] at hr
      have hs : connectionForURIO I o uri ps = ((connectionForURIO I o uri ps).1, some o1) := by
        rw [← h2]
      exact ih o1 (cached_preserved I o o1 uri ps _ u c h hs) hr

/-- THE CACHE NEVER FORGETS: if `connectionForURI(uri, **ps)` returned the connection `c`, then after ANY history of
    further calls (any URIs, any parameters, successful or raising) the same call returns the same `c`. -/
theorem same_connection_after_history (I : Iface) (o o1 o2 : Opener) (uri : List Nat)
    (ps : List (List Nat × List Nat)) (c : Val) (calls : List (List Nat × List (List Nat × List Nat)))
    (h1 : connectionForURIO I o uri ps = (.ret c, some o1)) (hr : runCalls I o1 calls = some o2) :
    connectionForURIO I o2 uri ps = (.ret c, some o2) := by
  cases hw : withParams uri ps with
  | none =>
    unfold connectionForURIO at h1
    simp only [hw] at h1
    cases h1
  | some u =>
    have hc1 := returned_is_cached I o o1 uri u ps c hw h1
    have hc2 := runCalls_preserves I calls o1 o2 u c hc1 hr
    exact cached_hit I o2 uri u ps c hw hc2

end SqlObjVerif.UriX
