import SqlObjVerif.Lemmas.EvMainXCreate
/-!
C19 translator tie, part 12: `__init__` as translated, with the translated `_create` / `set` / `_SO_finishCreate` / `_init` and the
flush of the postponed `_send_RowCreatedSignal` thunk = the model's `opCreate`.
-/
namespace SqlObjVerif.Events
open SqlObjVerif.PyEv
open SqlObjVerif.PyEv.Extracted
open SqlObjVerif.PyMain (R mapR ofOpt dget dhas dset dupdate dictOf sortByKey insByKey Exc FnKind)

@[simp] theorem initCalls_create (fuel : Nat) (create : World → List PV → PDict → Outcome) (args : List PV) (kw : PDict) (w : World) :
    (initCalls fuel create).meth "_create" args kw w = create w args kw := by simp [initCalls]
@[simp] theorem initCalls_thunk (fuel : Nat) (create : World → List PV → PDict → Outcome) (t : Thunk) (w : World) :
    (initCalls fuel create).thunk t w = thunkCall fuel t w := rfl

@[simp] theorem evOps_fuel (fuel : Nat) : (evOps fuel).fuel = fuel := rfl

theorem any_bad_create (c : Cfg) (K : Kw) (hnd : (K.map (·.1)).Nodup) :
    (colsOf c.ncols (addDefaults c (List.range c.ncols) K)).any (fun e => decide (e.2 = .bad)) = (newRow c K).contains .bad := by
  rw [← vecInvalid_kw _ _ (addDefaults_nodup c _ K hnd), colVec_addDefaults, vecInvalid_map_some]

theorem extra_create (c : Cfg) (K : Kw) :
    (extraOf c.ncols (addDefaults c (List.range c.ncols) K)).isEmpty = !unknownKey c.ncols K := by
  rw [extraOf_addDefaults c c.ncols _ K (fun j hj => by simpa using hj), unknownKey_kw]; simp

theorem createX_run' {fuel : Nat} {w : World} {K : Kw} {out : Outcome} (hcx : createX fuel w [.none] (kwPV K) = out)
    (l : List Thunk) (hnd : (K.map (·.1)).Nodup)
    (hpp : w.postponed = some l) (hn : 0 < w.c.ncols) (hfresh : rowOf? w.rows w.nextId = none) :
    ((newRow w.c K).contains .bad = true → out = .exc (creatingW w) .invalid)
    ∧ ((newRow w.c K).contains .bad = false → unknownKey w.c.ncols K = true → out = .exc (creatingW w) .typeError)
    ∧ ((newRow w.c K).contains .bad = false → unknownKey w.c.ncols K = false →
        ∃ t, GoodThunk t w.nextId ∧ t.cfg = w.c ∧ t.lvl = w.lvl ∧ out = .ret { w with
          rows := w.rows ++ [(w.nextId, newRow w.c K)], nextId := w.nextId + 1,
          log := w.log ++ [(w.lvl, Entry.ins w.nextId (newRow w.c K))],
          o := { w.o with id := some w.nextId, vals := fun c => (newRow w.c K)[c]?,
                          cv := some [], creating := false, dirty := false, lock := false },
          postponed := some (l ++ [t]) } .none) := by
  subst hcx
  have h := createX_run fuel w K l hnd hpp hn hfresh
  simp only [createKw] at h
  rw [any_bad_create _ _ hnd, extra_create, insRow_addDefaults] at h
  refine ⟨h.1, fun hb hu => h.2.1 hb (by simp [hu]), fun hb hu => h.2.2 hb (by simp [hu])⟩


/-- **`Cls(**kw)` as translated (`__init__` → `_create` → `set` → `_SO_finishCreate` → `_init`, thunk flush) = `opCreate`** -/
theorem initX_eq (f : Nat) (c : Cfg) (s : State) (kw0 : Kw) (hnd : (kw0.map (·.1)).Nodup) (hn : 0 < c.ncols)
    (hfresh : rowOf? s.rows s.nextId = none) :
    absNew s (initX (f + 2) (createX (f + 2)) (absW c s newObj) (kwPV kw0)) = some (opCreate c s kw0) := by
  have hr := deliver_nodup .create none c.listeners 0 kw0 [] hnd
  unfold initX initProg opCreate
  dsimp only
  evwith [absW, newObj]
  generalize deliver Sig.create none 0 c.listeners kw0 [] = D at hr ⊢
  generalize hcx : createX (f + 2) _ [PV.none] (kwPV D.1) = out
  obtain ⟨h1, h2, h3⟩ := createX_run' hcx [] hr rfl hn hfresh
  simp only [creatingW] at h1 h2 h3
  clear hcx
  by_cases hb : (newRow c D.1).contains .bad = true
  · have := h1 hb; subst this
    have hbm : Val.bad ∈ newRow c D.1 := by simpa using hb
    evwith [idxLoop, hbm]
    simp [absNew, outOf, excOut, untag]
  · have hb' : (newRow c D.1).contains .bad = false := by simpa using hb
    by_cases hu : unknownKey c.ncols D.1 = true
    · have := h2 hb' hu; subst this
      have hbm : ¬ Val.bad ∈ newRow c D.1 := by simpa using hb
      evwith [idxLoop, hbm, hu]
      simp [absNew, outOf, excOut, untag]
    · have hu' : unknownKey c.ncols D.1 = false := by simpa using hu
      obtain ⟨t, hg, hc, hl, rfl⟩ := h3 hb' hu'
      have hbm : ¬ Val.bad ∈ newRow c D.1 := by simpa using hb
      evwith [hbm, hu']
      generalize hF : forLoop _ _ _ = r
      obtain ⟨vs', rfl, hvs⟩ := post_loop' hF rfl s.nextId rfl
      clear hF
      have e0 : vs' 0 = some (.bool true) := by rw [hvs 0 (by decide)]; simp
      evwith [idxLoop, init_for1, e0, thunkCall_run _ t s.nextId _ hg, hc, hl]
      simp [absNew, outOf, quiet, objOf, untag, createdLog, colVec_nil, Function.comp_def]

end SqlObjVerif.Events
