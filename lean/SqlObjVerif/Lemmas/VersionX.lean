import SqlObjVerif.Model.VersionX
import SqlObjVerif.Lemmas.PyVersion
import SqlObjVerif.Lemmas.Version
/-!
Symbolic execution of the TRANSLATED `sqlobject/versioning/__init__.py` (PyVersion programs regenerated from /repo on
every run) against the hand-written model `Model/Version.lean`.  This file: constructor lemmas of the interpreter's
helpers, the `vxrun` evaluation macro, dict lemmas, and `Versioning.rowUpdate` = the snapshot step of `vUpdateVec`.
-/
namespace SqlObjVerif.Version
open SqlObjVerif.Events
open SqlObjVerif.PyVer
open SqlObjVerif.PyVer.Extracted

/-! ### the interface, folded -/
@[simp] theorem xIface_self (X : Ctx) (C : Calls) (s : PVal) : (xIface X C s).self = s := rfl
@[simp] theorem xIface_attr (X : Ctx) (C : Calls) (s : PVal) : (xIface X C s).attr = xAttr X := rfl
@[simp] theorem xIface_setAttr (X : Ctx) (C : Calls) (s : PVal) : (xIface X C s).setAttr = xSetAttr := rfl
@[simp] theorem xIface_global (X : Ctx) (C : Calls) (s : PVal) (n : String) :
    (xIface X C s).global n = if n = "AND" then some (.obj "global" (.str "AND") .none) else none := rfl
@[simp] theorem xIface_contains (X : Ctx) (C : Calls) (s : PVal) (w : XW) : (xIface X C s).contains w = xContains := rfl
@[simp] theorem xIface_getItem (X : Ctx) (C : Calls) (s : PVal) : (xIface X C s).getItem = xGetItem := rfl
@[simp] theorem xIface_call (X : Ctx) (C : Calls) (s : PVal) : (xIface X C s).call = xCall X C := rfl
@[simp] theorem xIface_callFn (X : Ctx) (C : Calls) (s : PVal) : (xIface X C s).callFn = xCallFn := rfl
@[simp] theorem xIface_super (X : Ctx) (C : Calls) (s : PVal) : (xIface X C s).super = xSuper s := rfl

macro "vxrun" : tactic => `(tactic|
  simp [PyVer.run, Block.exec, Stmt.exec, Cond.eval, Expr.eval, Exprs.eval, evalArgs, evalOpt, Env.get, St.setVar,
        St.setOpt, zipKw, paramsOf, xAttr, xSetAttr, xCall, xCallFn, xSuper, xContains, *])

macro "vxwith" "[" ts:Lean.Parser.Tactic.simpLemma,* "]" : tactic => `(tactic|
  simp [PyVer.run, Block.exec, Stmt.exec, Cond.eval, Expr.eval, Exprs.eval, evalArgs, evalOpt, Env.get, St.setVar,
        St.setOpt, zipKw, paramsOf, xAttr, xSetAttr, xCall, xCallFn, xSuper, xContains, $ts,*, *])

/-! ### world lemmas -/
theorem dset_self (S : DState) (d : Nat) : dset S d (S d) = S := by
  funext x; by_cases h : x = d <;> simp [dset, h]

@[simp] theorem dset_same (S : DState) (d : Nat) (s : VState) : dset S d s d = s := by simp [dset]

theorem dset_ne (S : DState) (d d' : Nat) (s : VState) (h : d' ≠ d) : dset S d s d' = S d' := by simp [dset, h]

@[simp] theorem dset_dset (S : DState) (d : Nat) (s t : VState) : dset (dset S d s) d t = dset S d t := by
  funext x; by_cases h : x = d <;> simp [dset, h]

@[simp] theorem setS_S (w : XW) (d : Nat) (s : VState) : (w.setS d s).S = dset w.S d s := rfl
@[simp] theorem setS_vconn (w : XW) (d : Nat) (s : VState) : (w.setS d s).vconn = w.vconn := rfl
@[simp] theorem setS_setS (w : XW) (d : Nat) (s t : VState) : (w.setS d s).setS d t = w.setS d t := by
  simp [XW.setS]
theorem setS_self (w : XW) (d : Nat) : w.setS d (w.S d) = w := by
  cases w; simp [XW.setS, dset_self]

/-! ### dict bodies -/
theorem dec_enc (v : Events.Val) : dec (enc v) = v := by cases v <;> rfl

theorem body_cons (p : String × PVal) (ps : List (String × PVal)) :
    body (p :: ps) = .cons (.pair (.str p.1) p.2) (body ps) := rfl

theorem body_nil : body [] = .nil := rfl

theorem vdGet_body (ps : List (String × PVal)) (n : String) : vdGet (.str n) (body ps) = List.lookup n ps := by
  induction ps with
  | nil => rfl
  | cons p ps ih =>
    obtain ⟨k, v⟩ := p
    simp only [body_cons, vdGet, List.lookup]
    by_cases h : k = n
    · subst h; simp
    · have h' : (n == k) = false := by simpa using fun e => h e.symm
      simp [h, h', ih]

theorem vdHas_body (ps : List (String × PVal)) (n : String) : vdHas (.str n) (body ps) = (List.lookup n ps).isSome := by
  simp [vdHas, vdGet_body]

theorem vdKeys_body (ps : List (String × PVal)) : vdKeys (body ps) = ps.map fun p => .str p.1 := by
  induction ps with
  | nil => rfl
  | cons p ps ih => simp [body_cons, vdKeys, ih]

theorem lookup_append_left {β : Type} (l1 l2 : List (String × β)) (n : String) (h : n ∈ l1.map (·.1)) :
    List.lookup n (l1 ++ l2) = List.lookup n l1 := by
  induction l1 with
  | nil => simp at h
  | cons p l1 ih =>
    obtain ⟨k, v⟩ := p
    simp only [List.cons_append, List.lookup]
    cases hb : (n == k)
    · simp only [List.map_cons, List.mem_cons] at h
      rcases h with h | h
      · simp [h] at hb
      · exact ih h
    · rfl

theorem lookup_append_right {β : Type} (l1 l2 : List (String × β)) (n : String) (h : n ∉ l1.map (·.1)) :
    List.lookup n (l1 ++ l2) = List.lookup n l2 := by
  induction l1 with
  | nil => rfl
  | cons p l1 ih =>
    obtain ⟨k, v⟩ := p
    simp only [List.map_cons, List.mem_cons, not_or] at h
    have hb : (n == k) = false := by simpa using h.1
    simp only [List.cons_append, List.lookup, hb]
    exact ih h.2

/-- deleting a key: the first entry with that key goes -/
theorem vdDel_body_mid (l1 l2 : List (String × PVal)) (k : String) (v : PVal) (h : k ∉ l1.map (·.1)) :
    vdDel (.str k) (body (l1 ++ (k, v) :: l2)) = body (l1 ++ l2) := by
  induction l1 with
  | nil => simp [body_cons, vdDel]
  | cons p l1 ih =>
    obtain ⟨k', v'⟩ := p
    simp only [List.map_cons, List.mem_cons, not_or] at h
    have hne : ¬ k' = k := fun e => h.1 e.symm
    simp [body_cons, vdDel, hne, ih h.2]

theorem vdHas_body_mid (l1 l2 : List (String × PVal)) (k : String) (v : PVal) :
    vdHas (.str k) (body (l1 ++ (k, v) :: l2)) = true := by
  induction l1 with
  | nil => simp [body_cons, vdHas, vdGet]
  | cons p l1 ih =>
    obtain ⟨k', v'⟩ := p
    simp only [vdHas] at ih
    by_cases h : k' = k <;> simp [body_cons, vdHas, vdGet, h, ih]

/-- setting a key the dict does not have appends it -/
theorem vdSet_body_new (ps : List (String × PVal)) (k : String) (v : PVal) (h : k ∉ ps.map (·.1)) :
    vdSet (.str k) v (body ps) = body (ps ++ [(k, v)]) := by
  induction ps with
  | nil => rfl
  | cons p ps ih =>
    obtain ⟨k', v'⟩ := p
    simp only [List.map_cons, List.mem_cons, not_or] at h
    have hne : ¬ k' = k := fun e => h.1 e.symm
    simp [body_cons, vdSet, hne, ih h.2]

theorem colPairs_keys (names : List String) (row : List Events.Val) (h : row.length = names.length) :
    (colPairs names row).map (·.1) = names := by
  induction names generalizing row with
  | nil => simp [colPairs]
  | cons n ns ih =>
    cases row with
    | nil => simp at h
    | cons v vs =>
      simp only [colPairs, List.zipWith_cons_cons, List.map_cons, List.cons.injEq, true_and]
      exact ih vs (by simpa using h)

theorem colPairs_keys_sub (names : List String) (row : List Events.Val) : ∀ n ∈ (colPairs names row).map (·.1), n ∈ names := by
  induction names generalizing row with
  | nil => simp [colPairs]
  | cons n ns ih =>
    cases row with
    | nil => simp [colPairs]
    | cons v vs =>
      intro x hx
      simp only [colPairs, List.zipWith_cons_cons, List.map_cons, List.mem_cons] at hx
      rcases hx with hx | hx
      · simp [hx]
      · exact List.mem_cons_of_mem _ (ih vs x hx)

/-- reading the columns back from the pairs of a row -/
theorem lookup_colPairs (names : List String) (hnd : names.Nodup) (row : List Events.Val) (h : row.length = names.length) :
    names.map (fun n => (List.lookup n (colPairs names row)).map dec) = row.map some := by
  induction names generalizing row with
  | nil => cases row with
    | nil => rfl
    | cons _ _ => simp at h
  | cons n ns ih =>
    cases row with
    | nil => simp at h
    | cons v vs =>
      have hn : n ∉ ns := (List.nodup_cons.mp hnd).1
      have hns := (List.nodup_cons.mp hnd).2
      simp only [colPairs, List.zipWith_cons_cons, List.map_cons, List.lookup, BEq.rfl, Option.map_some, dec_enc,
        List.cons.injEq, true_and]
      rw [← ih hns vs (by simpa using h)]
      apply List.map_congr_left
      intro x hx
      have : (x == n) = false := by simpa using fun e : x = n => hn (e ▸ hx)
      simp [this, colPairs]

theorem vecOf_body (X : Ctx) (ps : List (String × PVal)) :
    vecOf X (body ps) = X.names.map fun n => (List.lookup n ps).map dec := by
  simp [vecOf, vdGet_body]

theorem unkOf_body (X : Ctx) (ps : List (String × PVal)) (h : ∀ p ∈ ps, p.1 ∈ X.names) : unkOf X (body ps) = false := by
  simp only [unkOf, vdKeys_body, List.any_eq_false, List.mem_map]
  rintro k ⟨p, hp, rfl⟩
  simp only [Bool.not_eq_true, Bool.not_eq_false', List.contains_eq_mem, List.mem_map, decide_eq_true_eq]
  exact ⟨p.1, h p hp, rfl⟩

end SqlObjVerif.Version
