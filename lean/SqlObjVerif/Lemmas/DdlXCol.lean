import SqlObjVerif.Lemmas.DdlXTypeB
import SqlObjVerif.Lemmas.DdlXTypeB0
import SqlObjVerif.Lemmas.DdlXTypeC
import SqlObjVerif.Lemmas.DdlXEnum
import SqlObjVerif.Lemmas.DdlXFk
/-!
# C14 translation — `col.<dialect>CreateSQL(…)` of every modelled column class = `colText` of the hand model
-/
namespace SqlObjVerif.DdlX
open SqlObjVerif.Ddl
open SqlObjVerif.PyDdl hiding Str isUpperC
open SqlObjVerif.PyDdl.Extracted

def isPlain : Kind → Bool
  | .enum _ => false
  | .fk .. => false
  | _ => true

theorem typePieces_plain (d : Dialect) (c : Caps) (db : Str) (k : Kind) (hk : isPlain k = true) :
    ∃ pre, typePieces TX d c db k = some (pre, []) ∧ pre ≠ [] := by
  cases k with
  | simple k => cases d <;> cases k <;> exact ⟨_, rfl, by simp⟩
  | enum _ => cases hk
  | fk _ _ _ _ => cases hk
  | _ => exact ⟨_, rfl, by simp⟩

theorem resolve_plain_cs (k : Kind) (d : Dialect) (hk : isPlain k = true) :
    prog.resolve (.meth (clsOf k) (csM d)) = some (csFn d) := by
  cases k with
  | simple k => cases k <;> cases d <;> rfl
  | int k _ _ _ => cases k <;> cases d <;> rfl
  | str b _ _ => cases b <;> cases d <;> rfl
  | enum _ => cases hk
  | fk _ _ _ _ => cases hk
  | _ => cases d <;> rfl

theorem plain_not_enum (k : Kind) (hk : isPlain k = true) : C_SOEnumCol ∉ prog.mroOf (clsOf k) := by
  cases k with
  | simple k => cases k <;> decide
  | int k _ _ _ => rw [clsOf_int]; cases k <;> decide
  | str b _ _ => cases b <;> first | (rw [clsOf_str_false]; decide) | (rw [clsOf_str_true]; decide)
  | enum _ => cases hk
  | fk _ _ _ _ => cases hk
  | blob _ _ => rw [clsOf_blob]; decide
  | pickle _ _ => rw [clsOf_pickle]; decide
  | decimal _ _ => rw [clsOf_decimal]; decide
  | currency => decide

theorem colText_plain (d : Dialect) (c : Caps) (st : Style) (col : Col) (pre : List Str) (hk : isPlain col.kind = true)
    (hp : typePieces TX d c (col.db st) col.kind = some (pre, [])) :
    colText TX d c st col = some (col.db st ++ spaced (pre ++ extraPieces TX col)) := by
  obtain ⟨name, dbn, kind, nn, uq, alt, ds⟩ := col
  cases kind with
  | enum _ => cases hk
  | fk _ _ _ _ => cases hk
  | _ => simp only [colText, colPieces] at hp ⊢; rw [hp]; simp

/-- a class rendered by `SOCol.<dialect>CreateSQL` whose type method returns the blank-joined `pre` pieces -/
theorem agrees_of_pieces (n : Nat) (st : Style) (tb : Str) (c0 : Val) (col : Col) (d : Dialect) (c : Caps)
    (pre : List Str) (hne : pre ≠ [])
    (hr : prog.resolve (.meth (clsOf col.kind) (csM d)) = some (csFn d))
    (hfb : d = .firebird → C_SOEnumCol ∉ prog.mroOf (clsOf col.kind))
    (hct : colText TX d c st col = some (col.db st ++ spaced (pre ++ extraPieces TX col)))
    (hty : callN prog ddlI (n + 4) (.meth (clsOf col.kind) (tyM d)) [colV TX st tb (connDuring d c c0) col] =
      .ok (.str (joinStr [32] pre))) :
    agrees (callN prog ddlI (n + 5) (.meth (clsOf col.kind) (csM d)) (colV TX st tb c0 col :: csArgs d c))
      (colText TX d c st col) := by
  have h := createSQL_generic (n + 3) TX st tb c0 col d c _ _ hr hfb hty
  rw [hct]
  simp only [agrees]
  rw [h, spaced_cons, spaced_append]
  have e := spaced_joinStr pre hne
  rw [spaced_cons] at e
  simp only [spaced, List.flatMap_nil, List.append_nil] at e
  rw [← spaced] at e
  rw [← e]

/-- the constant-type, integer, string, blob and decimal classes -/
theorem plain_createSQL (n : Nat) (st : Style) (tb : Str) (c0 : Val) (col : Col) (d : Dialect) (c : Caps)
    (hk : isPlain col.kind = true)
    (hty : callN prog ddlI (n + 4) (.meth (clsOf col.kind) (tyM d)) [colV TX st tb (connDuring d c c0) col] =
      tyRes (typePieces TX d c (col.db st) col.kind)) :
    agrees (callN prog ddlI (n + 5) (.meth (clsOf col.kind) (csM d)) (colV TX st tb c0 col :: csArgs d c))
      (colText TX d c st col) := by
  obtain ⟨pre, hp, hne⟩ := typePieces_plain d c (col.db st) col.kind hk
  rw [hp, tyRes_some] at hty
  exact agrees_of_pieces n st tb c0 col d c pre hne (resolve_plain_cs col.kind d hk)
    (fun _ => plain_not_enum col.kind hk) (colText_plain d c st col pre hk hp) hty

/-! ### EnumCol -/

theorem allStr_append (a b : List Val) : allStr (a ++ b) = (allStr a).bind fun x => (allStr b).map (x ++ ·) := by
  induction a with
  | nil => simp [allStr]
  | cons v a ih =>
    cases v <;> simp [allStr, ih]
    cases allStr a <;> cases allStr b <;> simp

theorem enum_pieces_check (d : Dialect) (c : Caps) (db : Str) (vals : List (Option Str)) (hv : vals ≠ [])
    (h1 : d ≠ .maxdb) (h2 : d ≠ .mysql) (h3 : d ≠ .firebird) :
    ∃ pre, typePieces TX d c db (.enum vals) = some (pre, []) ∧ pre ≠ [] := by
  refine ⟨[wordParen TX.enumVarchar.1 (natDigits (enumMaxLen vals)), TX.enumCheck.1,
      enumCheckGroup TX db (vals.map (enumLit (TX.enumLit d)))], ?_, by simp⟩
  cases d
  case maxdb => exact absurd rfl h1
  case mysql => exact absurd rfl h2
  case firebird => exact absurd rfl h3
  all_goals simp [typePieces, hv]

theorem enum_colText (d : Dialect) (c : Caps) (st : Style) (name : Str) (dbn : Option Str) (vals : List (Option Str))
    (nn : Bool) (uq : Option Bool) (alt : Bool) (ds : Option Str) :
    colText TX d c st (enumCol name dbn vals nn uq alt ds) =
      (typePieces TX d c ((enumCol name dbn vals nn uq alt ds).db st) (.enum vals)).map fun p =>
        (enumCol name dbn vals nn uq alt ds).db st ++
          spaced (p.1 ++ extraPieces TX (enumCol name dbn vals nn uq alt ds) ++ p.2) := by
  cases d <;> simp only [colText, colPieces, Option.map_map] <;> rfl

set_option maxHeartbeats 1000000 in
theorem enum_createSQL (n : Nat) (st : Style) (tb : Str) (c0 : Val) (d : Dialect) (c : Caps)
    (name : Str) (dbn : Option Str) (vals : List (Option Str)) (nn : Bool) (uq : Option Bool) (alt : Bool)
    (ds : Option Str) :
    agrees (callN prog ddlI (n + 5) (.meth C_SOEnumCol (csM d))
        (colV TX st tb c0 (enumCol name dbn vals nn uq alt ds) :: csArgs d c))
      (colText TX d c st (enumCol name dbn vals nn uq alt ds)) := by
  have hr : prog.resolve (.meth (clsOf (enumCol name dbn vals nn uq alt ds).kind) (csM d)) = some (csFn d) := by
    cases d <;> rfl
  by_cases hmax : d = .maxdb
  · subst hmax
    have ht := enum_type_maxdb (n + 1) TX st tb c0 vals name dbn nn uq alt ds
    have h := createSQL_generic_exc (n + 3) TX st tb c0 (enumCol name dbn vals nn uq alt ds) .maxdb c _ _ hr
      (by intro h; cases h) ht
    rw [enum_colText]
    exact ⟨_, h⟩
  by_cases hmy : d = .mysql
  · subst hmy
    have ht := enum_type (n + 1) TX st tb c0 vals .mysql c name dbn nn uq alt ds (by decide) (by decide)
      (by intro h; exact absurd rfl h)
    have hp : typePieces TX .mysql c ((enumCol name dbn vals nn uq alt ds).db st) (.enum vals) =
        some ([wordParen TX.enumMysql.1 (joinWith TX.enumSep ((vals.filterMap id).map (sqlLit .mysql)))], []) := by
      simp [typePieces, Ddl.Extracted.tables]
    rw [hp, tyRes_some] at ht
    refine agrees_of_pieces n st tb c0 _ .mysql c _ (by simp) hr (by intro h; cases h) ?_ ht
    rw [enum_colText, hp]; simp
  by_cases hv : vals = []
  · subst hv
    have ht := enum_type_empty (n + 1) TX st tb c0 d c name dbn nn uq alt ds hmax hmy
    by_cases hfb : d = .firebird
    · subst hfb
      rw [enum_colText]
      refine ⟨.valueError, ?_⟩
      rw [show csM .firebird = M_firebirdCreateSQL from rfl, callX_succ _ _ _ _ (rfl : prog.resolve _ = some SOCol__firebirdCreateSQL_fn)]
      simp only [tyM, connDuring] at ht
      pyxwith [csArgs, normIdx]
    · have h := createSQL_generic_exc (n + 3) TX st tb c0 (enumCol name dbn [] nn uq alt ds) d c _ _ hr
        (by intro h; exact absurd h hfb) ht
      rw [enum_colText]
      have : typePieces TX d c ((enumCol name dbn [] nn uq alt ds).db st) (.enum []) = none := by
        cases d <;> first | rfl | exact absurd rfl hmax | exact absurd rfl hmy
      rw [this]
      exact ⟨_, h⟩
  by_cases hfb : d = .firebird
  · subst hfb
    have ht := enum_type_firebird (n + 1) TX st tb c0 vals name dbn nn uq alt ds hv
    have hx : callN prog ddlI (n + 4) (.meth C_SOEnumCol M__extraSQL)
        [colV TX st tb c0 (enumCol name dbn vals nn uq alt ds)] =
        .ok (strList (extraPieces TX (enumCol name dbn vals nn uq alt ds))) :=
      extraSQL_call (n + 3) TX st tb c0 (enumCol name dbn vals nn uq alt ds) rfl
    rw [enum_colText]
    simp only [agrees, typePieces, hv, if_false, Option.map_some, if_true]
    rw [show csM .firebird = M_firebirdCreateSQL from rfl, callX_succ _ _ _ _ (rfl : prog.resolve _ = some SOCol__firebirdCreateSQL_fn)]
    simp only [tyM] at ht
    have e := spaced_joinStr [TX.enumCheck.1, enumCheckGroup TX ((enumCol name dbn vals nn uq alt ds).db st)
      (vals.map (enumLit (TX.enumLit .firebird)))] (by simp)
    pyxwith [csArgs, strList, allStr_append, joinStr_blank, spaced_cons, spaced_append, normIdx, joinStr, spaced]
  · have ht := enum_type (n + 1) TX st tb c0 vals d c name dbn nn uq alt ds hfb hmax (fun _ => hv)
    obtain ⟨pre, hp, hne⟩ := enum_pieces_check d c ((enumCol name dbn vals nn uq alt ds).db st) vals hv hmax hmy hfb
    rw [hp, tyRes_some] at ht
    refine agrees_of_pieces n st tb c0 _ d c pre hne hr (by intro h; exact absurd h hfb) ?_ ht
    rw [enum_colText, hp]; simp

/-! ### every modelled column class -/

/-- **`col.<dialect>CreateSQL(…)` translated = `colText`**, for every column declaration, dialect, capability record,
    style, initial `self.connection` and call depth ≥ 5: the same text, or both refuse (EnumCol on MaxDB / without
    values). -/
theorem col_createSQL (n : Nat) (st : Style) (tb : Str) (c0 : Val) (col : Col) (d : Dialect) (c : Caps) :
    agrees (callN prog ddlI (n + 5) (.meth (clsOf col.kind) (csM d)) (colV TX st tb c0 col :: csArgs d c))
      (colText TX d c st col) := by
  obtain ⟨name, dbn, kind, nn, uq, alt, ds⟩ := col
  cases kind with
  | simple k =>
    exact plain_createSQL n st tb c0 _ d c rfl (simple_type (n + 1) TX st tb c0 k d c name dbn nn uq alt ds _)
  | int k len u z =>
    exact plain_createSQL n st tb c0 _ d c rfl (int_type (n + 1) TX st tb _ k len u z d c name dbn nn uq alt ds _)
  | str un len v =>
    by_cases hl : len = 0
    · subst hl
      exact plain_createSQL n st tb c0 _ d c rfl (str_type_nolen n TX st tb c0 un v d c name dbn nn uq alt ds _)
    · exact plain_createSQL n st tb c0 _ d c rfl (str_type_len n TX st tb c0 un len v d c name dbn nn uq alt ds _ hl)
  | blob len v =>
    exact plain_createSQL n st tb c0 _ d c rfl (blob_type n TX st tb c0 false len v d c name dbn nn uq alt ds _)
  | pickle len v =>
    exact plain_createSQL n st tb c0 _ d c rfl (blob_type n TX st tb c0 true len v d c name dbn nn uq alt ds _)
  | decimal s p =>
    exact plain_createSQL n st tb c0 _ d c rfl (decimal_type (n + 1) TX st tb _ s p d c name dbn nn uq alt ds _)
  | currency =>
    exact plain_createSQL n st tb c0 _ d c rfl (currency_type (n + 1) st tb _ d c name dbn nn uq alt ds _)
  | enum vals => exact enum_createSQL n st tb c0 d c name dbn vals nn uq alt ds
  | fk tT tI tS cas =>
    have h := fk_createSQL n TX st tb c0 tT tI tS cas d c name dbn nn uq alt ds
    have hs : ∃ t, colText TX d c st (fkCol name dbn tT tI tS cas nn uq alt ds) = some t := by
      cases d <;> exact ⟨_, rfl⟩
    obtain ⟨t, ht⟩ := hs
    rw [ht] at h ⊢
    exact h

end SqlObjVerif.DdlX
