import SqlObjVerif.Lemmas.CodecXStr
/-!
# CodecX — `DateTimeValidator.to_python` on a text without `.`, and with a format without `.%f`
-/
namespace SqlObjVerif.PyCodec

open SqlObjVerif.Codec (Str PyVal FTok SPiece DT)
open Extracted

theorem dt_nodot (fs : Str) (F : List SPiece) (hp : parseFmt fs = some F) (k : Int)
    (hf : strFind [46, 37, 102] fs = k) (hk : 0 ≤ k) (s : Str) (hd : 46 ∉ s) :
    runV (cfgDt fs) dtToPython (.str s) = some (dtRes (Codec.strptime F (Codec.fixMicro s))) := by
  have hst : ∀ x, strptimeText fs x = Codec.strptime F x := by intro x; simp [strptimeText, hp]
  have h2 : strIn [46] s = false := by simp [strIn_single, hd]
  rw [fixMicro_nodot s hd]
  pyxw [dtToPython, dtToPython_s0, dtToPython_s1, dtToPython_s2, dtToPython_s3, dtToPython_s4, hf, hk, h2, hst]
  generalize Codec.strptime F _ = r
  cases r <;> simp [dtRes]

/-- a format without `.%f`: the text goes to `strptime` as it is -/
theorem dt_str_plain (fs : Str) (F : List SPiece) (hp : parseFmt fs = some F) (k : Int)
    (hf : strFind [46, 37, 102] fs = k) (hk : ¬ (0 ≤ k)) (hh : Codec.hasDotF F = false) (s : Str) :
    runV (cfgDt fs) dtToPython (.str s) = some (Codec.dtToPython F (.str s)) := by
  have hst : ∀ x, strptimeText fs x = Codec.strptime F x := by intro x; simp [strptimeText, hp]
  rw [model_dt_str, Codec.parseWith, hh]
  pyxw [dtToPython, dtToPython_s0, dtToPython_s1, dtToPython_s2, dtToPython_s3, dtToPython_s4, hf, hk, hst]
  generalize Codec.strptime F _ = r
  cases r <;> simp [dtRes]

end SqlObjVerif.PyCodec
