import SqlObjVerif.Model.Like
import SqlObjVerif.Lemmas.Lex
/-!
# Lemmas about `Model/Like.lean`
-/
namespace SqlObjVerif.Like
open Lex Lex.Extracted

/-! ### the reference matcher on a quoted argument -/

/-- what the LIKE pass must make of one argument character: `\\`, `%`, `_` escaped, the rest itself -/
def likeQ1 (c : Nat) : Str := if c = 92 ∨ c = 37 ∨ c = 95 then [92, c] else [c]
def likeQ (a : Str) : Str := a.flatMap likeQ1

/-- match `a` (modulo `eqv`) at the head of `s` and return what is left -/
def stripMod (eqv : Nat → Nat → Bool) : Str → Str → Option Str
  | [], s => some s
  | _ :: _, [] => none
  | a :: as, c :: cs => if eqv a c then stripMod eqv as cs else none

theorem likeMatch_likeQ (eqv : Nat → Nat → Bool) (a R s : Str) :
    likeMatch eqv 92 (likeQ a ++ R) s =
      match stripMod eqv a s with
      | some t => likeMatch eqv 92 R t
      | none => false := by
  induction a generalizing s with
  | nil => simp [likeQ, stripMod]
  | cons c a ih =>
    simp only [likeQ, List.flatMap_cons, List.append_assoc] at ih ⊢
    by_cases hc : c = 92 ∨ c = 37 ∨ c = 95
    · simp only [likeQ1, hc, if_true, List.cons_append, List.nil_append]
      cases s with
      | nil => rw [likeMatch.eq_def]; simp [stripMod]
      | cons x xs =>
        rw [likeMatch.eq_def]
        simp only [if_true]
        rw [ih xs]
        cases h : eqv c x <;> simp [stripMod, h]
    · simp only [likeQ1, hc, if_false, List.cons_append, List.nil_append]
      have h1 : c ≠ 92 := fun h => hc (Or.inl h)
      have h2 : c ≠ 37 := fun h => hc (Or.inr (Or.inl h))
      have h3 : c ≠ 95 := fun h => hc (Or.inr (Or.inr h))
      cases s with
      | nil => rw [likeMatch.eq_def]; simp [h1, h2, h3, stripMod]
      | cons x xs =>
        rw [likeMatch.eq_def]
        simp only [h1, h2, h3, if_false]
        rw [ih xs]
        cases h : eqv c x <;> simp [stripMod, h]

theorem likeMatch_nil (eqv : Nat → Nat → Bool) (esc : Nat) (s : Str) : likeMatch eqv esc [] s = s.isEmpty := by
  rw [likeMatch.eq_def]

theorem existsSuffix_true (f : Str → Bool) (hf : f [] = true) (s : Str) : existsSuffix f s = true := by
  induction s with
  | nil => simpa [existsSuffix] using hf
  | cons c cs ih => simp [existsSuffix, ih]

theorem likeMatch_percent (eqv : Nat → Nat → Bool) (R s : Str) :
    likeMatch eqv 92 (37 :: R) s = existsSuffix (likeMatch eqv 92 R) s := by
  rw [likeMatch.eq_def]; simp

theorem prefixMod_strip (eqv : Nat → Nat → Bool) (a s : Str) :
    prefixMod eqv a s = (stripMod eqv a s).isSome := by
  induction a generalizing s with
  | nil => simp [prefixMod, stripMod]
  | cons c a ih =>
    cases s with
    | nil => simp [prefixMod, stripMod]
    | cons x xs => cases h : eqv c x <;> simp [prefixMod, stripMod, h, ih]

theorem eqMod_strip (eqv : Nat → Nat → Bool) (a s : Str) :
    eqMod eqv a s = (match stripMod eqv a s with | some t => t.isEmpty | none => false) := by
  induction a generalizing s with
  | nil => simp [eqMod, stripMod]
  | cons c a ih =>
    cases s with
    | nil => simp [eqMod, stripMod]
    | cons x xs => cases h : eqv c x <;> simp [eqMod, stripMod, h, ih]

theorem existsSuffix_congr (f g : Str → Bool) (h : ∀ s, f s = g s) (s : Str) : existsSuffix f s = existsSuffix g s := by
  induction s with
  | nil => simp [existsSuffix, h]
  | cons c cs ih => simp [existsSuffix, h, ih]

theorem match_startswith (eqv : Nat → Nat → Bool) (a s : Str) :
    likeMatch eqv 92 ([] ++ likeQ a ++ [37]) s = prefixMod eqv a s := by
  simp only [List.nil_append]
  rw [likeMatch_likeQ, prefixMod_strip]
  cases stripMod eqv a s with
  | none => rfl
  | some t => simp [likeMatch_percent, existsSuffix_true (likeMatch eqv 92 []) (by rw [likeMatch.eq_def]; rfl)]

theorem match_endswith (eqv : Nat → Nat → Bool) (a s : Str) :
    likeMatch eqv 92 ([37] ++ likeQ a ++ []) s = suffixMod eqv a s := by
  simp only [List.singleton_append, List.append_nil, likeMatch_percent, suffixMod]
  apply existsSuffix_congr
  intro t
  have := likeMatch_likeQ eqv a [] t
  simp only [List.append_nil] at this
  rw [this, eqMod_strip]
  cases stripMod eqv a t <;> simp [likeMatch_nil]

theorem match_contains (eqv : Nat → Nat → Bool) (a s : Str) :
    likeMatch eqv 92 ([37] ++ likeQ a ++ [37]) s = containsMod eqv a s := by
  simp only [List.singleton_append, List.cons_append, List.nil_append, likeMatch_percent, containsMod]
  apply existsSuffix_congr
  intro t
  rw [likeMatch_likeQ, prefixMod_strip]
  cases stripMod eqv a t with
  | none => rfl
  | some u => simp [likeMatch_percent, existsSuffix_true (likeMatch eqv 92 []) (by rw [likeMatch.eq_def]; rfl)]

/-! ### the pattern literal, decoded -/

theorem push_push (p q : Str) (k : Option (Str × Str)) : push p (push q k) = push (p ++ q) k := by
  cases k with
  | none => rfl
  | some x => obtain ⟨s, r⟩ := x; simp [push]

theorem push_nil (k : Option (Str × Str)) : push [] k = k := by
  cases k with
  | none => rfl
  | some x => obtain ⟨s, r⟩ := x; simp [push]

theorem lexBody_flatMap_push (m : Mode) (f g : Nat → Str) (s tail : Str)
    (hf : ∀ c ∈ s, ∀ cs, lexBody m (f c ++ cs) = push (g c) (lexBody m cs)) :
    lexBody m (s.flatMap f ++ tail) = push (s.flatMap g) (lexBody m tail) := by
  induction s with
  | nil => simp [push_nil]
  | cons c s ih =>
    simp only [List.flatMap_cons, List.append_assoc]
    rw [hf c (by simp), ih (fun x hx => hf x (by simp [hx])), push_push]

/-- what `_quote_like_special` makes of one character of the (already SQL-escaped) text -/
def likeChar (d : Dialect) (x : Nat) : Str :=
  if x = 92 then [92, 92] else if x = 37 then likeEsc d ++ [37] else if x = 95 then likeEsc d ++ [95] else [x]

theorem likeSpecial_eq (d : Dialect) (s : Str) :
    likeSpecial d s = escapeSeq (likeChain.map fun p => (p.1, likeReplOf d p.2)) s := by
  simp [likeSpecial, escapeSeq, List.foldl_map]

theorem likeEsc_no (d : Dialect) : 37 ∉ likeEsc d ∧ 95 ∉ likeEsc d := by
  cases d <;> decide

theorem likeSpecial_char (d : Dialect) (x : Nat) : likeSpecial d [x] = likeChar d x := by
  have hE : likeEsc d = [92] ∨ likeEsc d = [92, 92] := by cases d <;> decide
  simp only [likeSpecial, likeChain, List.foldl_cons, List.foldl_nil, replace1, likeReplOf, likeChar]
  by_cases h1 : x = 92
  · subst h1; simp
  by_cases h2 : x = 37
  · subst h2; rcases hE with h | h <;> simp [h]
  by_cases h3 : x = 95
  · subst h3; rcases hE with h | h <;> simp [h]
  simp [h1, h2, h3]

theorem likeSpecial_flatMap (d : Dialect) (s : Str) : likeSpecial d s = s.flatMap (likeChar d) := by
  rw [likeSpecial_eq, escapeSeq_eq_flatMap]
  congr 1; funext c
  rw [← likeSpecial_eq, likeSpecial_char]

theorem dropLast_append_singleton (l : Str) (x : Nat) : (l ++ [x]).dropLast = l := by simp

theorem getLast_snoc (l : Str) (x : Nat) : (l ++ [x]).getLast? = some x := by simp

theorem unquote_plain (e : Str) : unquoteStr (39 :: (e ++ [39])) = e := by
  cases e with
  | nil => simp [unquoteStr]
  | cons x xs =>
    have hl : (39 :: x :: (xs ++ [39])).getLast? = some 39 := getLast_snoc (39 :: x :: xs) 39
    simp only [List.cons_append, unquoteStr, hl]
    have : (x :: (xs ++ [39])).dropLast = x :: xs := by
      have := List.dropLast_concat (l₁ := x :: xs) (b := 39)
      simpa using this
    simpa using this

theorem unquote_E (e : Str) : unquoteStr (69 :: 39 :: (e ++ [39])) = e := by
  have hl : (69 :: 39 :: (e ++ [39])).getLast? = some 39 := getLast_snoc (69 :: 39 :: e) 39
  simp only [unquoteStr, hl]
  simp

theorem unquote_render (d : Dialect) (a : Str) : unquoteStr (renderString d a) = escape d a := by
  rw [renderString_eq]
  cases usesE d a
  · simp only [Bool.false_eq_true, if_false]; exact unquote_plain _
  · simp only [if_true]; exact unquote_E _

/-- the argument characters for which the two escaping passes compose correctly -/
def likeOkChar (d : Dialect) (c : Nat) : Bool :=
  c != 0 && (!fullEsc d || (c != 8 && c != 10 && c != 13 && c != 9))

def likeAdm (d : Dialect) (a : Str) : Bool := a.all (likeOkChar d)

/-- body of the pattern literal contributed by one argument character -/
def patChar (d : Dialect) (c : Nat) : Str := (escChar d c).flatMap (likeChar d)

theorem patChar_ansi (d : Dialect) (hd : fullEsc d = false) (c : Nat) (hc : c ≠ 0) (cs : Str) :
    lexBody .ansi (patChar d c ++ cs) = push (likeQ1 c) (lexBody .ansi cs) := by
  have hd' : ¬ (d = .mysql ∨ d = .postgres) := by cases d <;> simp [fullEsc] at hd ⊢
  have hE : likeEsc d = [92] := by cases d <;> first | rfl | simp [fullEsc] at hd
  simp only [patChar, escChar, hd', if_false]
  by_cases h1 : c = 39
  · subst h1; simp [likeChar, likeQ1, lexBody_quote2]
  have pl : ∀ (x : Nat) (t : Str), x ≠ 39 → x ≠ 0 → lexBody .ansi (x :: t) = push [x] (lexBody .ansi t) :=
    fun x t hx h0 => lexBody_plain .ansi x t hx h0 (Or.inr rfl)
  by_cases h2 : c = 92
  · subst h2
    have e : likeChar d 92 = [92, 92] := by simp [likeChar]
    simp [e, likeQ1, pl, push_push]
  by_cases h3 : c = 37
  · subst h3
    have e : likeChar d 37 = [92, 37] := by simp [likeChar, hE]
    simp [e, likeQ1, pl, push_push]
  by_cases h4 : c = 95
  · subst h4
    have e : likeChar d 95 = [92, 95] := by simp [likeChar, hE]
    simp [e, likeQ1, pl, push_push]
  simp [h1, h2, h3, h4, likeChar, likeQ1, lexBody_plain .ansi c _ h1 hc (Or.inr rfl)]

theorem patChar_mysql (c : Nat) (hc : likeOkChar .mysql c = true) (cs : Str) :
    lexBody .mysql (patChar .mysql c ++ cs) = push (likeQ1 c) (lexBody .mysql cs) := by
  have h0 : c ≠ 0 := by rintro rfl; simp [likeOkChar] at hc
  have h8 : c ≠ 8 := by rintro rfl; simp [likeOkChar, fullEsc] at hc
  have h10 : c ≠ 10 := by rintro rfl; simp [likeOkChar, fullEsc] at hc
  have h13 : c ≠ 13 := by rintro rfl; simp [likeOkChar, fullEsc] at hc
  have h9 : c ≠ 9 := by rintro rfl; simp [likeOkChar, fullEsc] at hc
  have hE : likeEsc .mysql = [92] := rfl
  simp only [patChar, escChar, true_or, if_true]
  by_cases h1 : c = 39
  · subst h1; simp [likeChar, likeQ1, lexBody_quote2]
  by_cases h2 : c = 92
  · subst h2
    simp [likeChar, likeQ1, lexBody_mysql_esc, mysqlEsc, push_push]
  by_cases h3 : c = 37
  · subst h3; simp [likeChar, likeQ1, hE, lexBody_mysql_esc, mysqlEsc]
  by_cases h4 : c = 95
  · subst h4; simp [likeChar, likeQ1, hE, lexBody_mysql_esc, mysqlEsc]
  simp [h1, h2, h3, h4, h0, h8, h10, h13, h9, likeChar, likeQ1, lexBody_plain .mysql c _ h1 h0 (Or.inl h2)]

theorem patChar_pgE (c : Nat) (hc : likeOkChar .postgres c = true) (cs : Str) :
    lexBody .pgE (patChar .postgres c ++ cs) = push (likeQ1 c) (lexBody .pgE cs) := by
  have h0 : c ≠ 0 := by rintro rfl; simp [likeOkChar] at hc
  have h8 : c ≠ 8 := by rintro rfl; simp [likeOkChar, fullEsc] at hc
  have h10 : c ≠ 10 := by rintro rfl; simp [likeOkChar, fullEsc] at hc
  have h13 : c ≠ 13 := by rintro rfl; simp [likeOkChar, fullEsc] at hc
  have h9 : c ≠ 9 := by rintro rfl; simp [likeOkChar, fullEsc] at hc
  have hE : likeEsc .postgres = [92, 92] := rfl
  have bs : ∀ t, lexBody .pgE (92 :: 92 :: t) = push [92] (lexBody .pgE t) :=
    fun t => lexBody_pg_esc 92 92 t (by decide) (by decide)
  simp only [patChar, escChar, or_true, if_true]
  by_cases h1 : c = 39
  · subst h1; simp [likeChar, likeQ1, lexBody_quote2]
  by_cases h2 : c = 92
  · subst h2
    simp [likeChar, likeQ1, bs, push_push]
  by_cases h3 : c = 37
  · subst h3
    simp [likeChar, likeQ1, hE, bs, lexBody_plain .pgE 37 _ (by decide) (by decide) (Or.inl (by decide)), push_push]
  by_cases h4 : c = 95
  · subst h4
    simp [likeChar, likeQ1, hE, bs, lexBody_plain .pgE 95 _ (by decide) (by decide) (Or.inl (by decide)), push_push]
  simp [h1, h2, h3, h4, h0, h8, h10, h13, h9, likeChar, likeQ1, lexBody_plain .pgE c _ h1 h0 (Or.inl h2)]

/-- postgres, no backslash anywhere in the pattern text: plain quotes, ANSI reading -/
theorem patChar_pgPlain (c : Nat) (hc : likeOkChar .postgres c = true) (hno : 92 ∉ patChar .postgres c) (cs : Str) :
    lexBody .ansi (patChar .postgres c ++ cs) = push (likeQ1 c) (lexBody .ansi cs) := by
  have h0 : c ≠ 0 := by rintro rfl; simp [likeOkChar] at hc
  have h8 : c ≠ 8 := by rintro rfl; simp [likeOkChar, fullEsc] at hc
  have h10 : c ≠ 10 := by rintro rfl; simp [likeOkChar, fullEsc] at hc
  have h13 : c ≠ 13 := by rintro rfl; simp [likeOkChar, fullEsc] at hc
  have h9 : c ≠ 9 := by rintro rfl; simp [likeOkChar, fullEsc] at hc
  have hE : likeEsc .postgres = [92, 92] := rfl
  simp only [patChar, escChar, or_true, if_true] at hno ⊢
  by_cases h1 : c = 39
  · subst h1; simp [likeChar, likeQ1, lexBody_quote2]
  by_cases h2 : c = 92
  · subst h2; simp [likeChar] at hno
  by_cases h3 : c = 37
  · subst h3; simp [likeChar, hE] at hno
  by_cases h4 : c = 95
  · subst h4; simp [likeChar, hE] at hno
  simp [h1, h2, h3, h4, h0, h8, h10, h13, h9, likeChar, likeQ1, lexBody_plain .ansi c _ h1 h0 (Or.inr rfl)]

theorem safe_chars (m : Mode) (p tail : Str) (hp : ∀ c ∈ p, safeChar c = true) :
    lexBody m (p ++ tail) = push p (lexBody m tail) := by
  have := lexBody_flatMap_push m (fun c => [c]) (fun c => [c]) p tail ?_
  · simpa using this
  · intro c hc cs
    have := hp c hc
    simp only [safeChar, Bool.and_eq_true, bne_iff_ne, ne_eq] at this
    exact lexBody_plain m c cs this.1.1 this.2 (Or.inl this.1.2)

theorem likePattern_body (d : Dialect) (op : LikeOp) (a : Str) :
    likePattern d op a = quoteStr d (op.pre ++ a.flatMap (patChar d) ++ op.post) := by
  simp only [likePattern, unquote_render, escape_onepass, likeSpecial_flatMap, List.flatMap_assoc]
  rfl

theorem quoteStr_eq (d : Dialect) (t : Str) :
    quoteStr d t = if d = .postgres ∧ 92 ∈ t then 69 :: 39 :: (t ++ [39]) else 39 :: (t ++ [39]) := by
  cases d <;> simp [quoteStr, quoteWith, qsDialects, qsTrigger, qsEOpen, qsEClose, qsOpen, qsClose]

/-- the pattern the server sees -/
theorem decoded_pattern (d : Dialect) (op : LikeOp) (a rest : Str) (ha : likeAdm d a = true)
    (hpre : ∀ c ∈ op.pre, safeChar c = true) (hpost : ∀ c ∈ op.post, safeChar c = true)
    (hr : rest.head? ≠ some 39) :
    lexString d (likePattern d op a ++ rest) = some (op.pre ++ likeQ a ++ op.post, rest) := by
  have hall : ∀ c ∈ a, likeOkChar d c = true := by simpa [likeAdm, List.all_eq_true] using ha
  have fin : ∀ (m : Mode), (∀ c ∈ a, ∀ cs, lexBody m (patChar d c ++ cs) = push (likeQ1 c) (lexBody m cs)) →
      lexBody m ((op.pre ++ a.flatMap (patChar d) ++ op.post) ++ [39] ++ rest) = some (op.pre ++ likeQ a ++ op.post, rest) := by
    intro m h
    simp only [List.append_assoc]
    rw [safe_chars m op.pre _ hpre, lexBody_flatMap_push m (patChar d) likeQ1 a _ h, safe_chars m op.post _ hpost,
      List.singleton_append, lexBody_close m rest hr]
    simp [push, likeQ]
  rw [likePattern_body, quoteStr_eq]
  by_cases hp : d = .postgres
  · subst hp
    by_cases h92 : 92 ∈ op.pre ++ a.flatMap (patChar .postgres) ++ op.post
    · simp only [h92, and_self, if_true, List.cons_append, lexString_E]
      have := fin .pgE (fun c hc cs => patChar_pgE c (hall c hc) cs)
      simpa using this
    · simp only [h92, and_false, if_false, List.cons_append, lexString_plain, plainMode]
      have hno : ∀ c ∈ a, 92 ∉ patChar .postgres c := by
        intro c hc hm
        apply h92
        simp only [List.mem_append, List.mem_flatMap]
        exact Or.inl (Or.inr ⟨c, hc, hm⟩)
      have := fin .ansi (fun c hc cs => patChar_pgPlain c (hall c hc) (hno c hc) cs)
      simpa using this
  · simp only [hp, false_and, if_false, List.cons_append, lexString_plain]
    by_cases hm : d = .mysql
    · subst hm
      have := fin .mysql (fun c hc cs => patChar_mysql c (hall c hc) cs)
      simpa [plainMode] using this
    · have hf : fullEsc d = false := by cases d <;> simp [fullEsc] at hm hp ⊢
      have hpm : plainMode d = .ansi := by cases d <;> simp [plainMode] at hm ⊢
      have h0 : ∀ c ∈ a, c ≠ 0 := by
        intro c hc
        have := hall c hc
        simp [likeOkChar] at this
        exact this.1
      have := fin .ansi (fun c hc cs => patChar_ansi d hf c (h0 c hc) cs)
      simpa [hpm] using this

/-! ### the LIKE clause as a statement position (C02) -/

theorem tokens_likePattern (d : Dialect) (op : LikeOp) (a rest : Str) (ha : likeAdm d a = true)
    (hpre : ∀ c ∈ op.pre, safeChar c = true) (hpost : ∀ c ∈ op.post, safeChar c = true)
    (hr : rest.head? ≠ some 39) :
    tokens d (likePattern d op a ++ rest) = (tokens d rest).map (Tok.str (op.pre ++ likeQ a ++ op.post) :: ·) := by
  have hl := decoded_pattern d op a rest ha hpre hpost hr
  rw [likePattern_body, quoteStr_eq] at hl ⊢
  by_cases h : d = .postgres ∧ 92 ∈ op.pre ++ a.flatMap (patChar d) ++ op.post
  · rw [if_pos h] at hl ⊢
    rw [List.cons_append, List.cons_append] at hl ⊢
    exact tokens_of_lex d 69 _ _ rest (Or.inr ⟨h.1, Or.inl rfl, by simp⟩) hl (by simp; omega)
  · rw [if_neg h] at hl ⊢
    rw [List.cons_append] at hl ⊢
    exact tokens_of_lex d 39 _ _ rest (Or.inl rfl) hl (by simp; omega)

/-- tokens of `(expr LIKE (<pattern>) ESCAPE <esc>)` -/
def likeToks (expr pat esc : Str) : List Tok :=
  [.punct 40, .word expr, .word likeOpName, .punct 40, .str pat, .punct 41,
   .word [69, 83, 67, 65, 80, 69], .str esc, .punct 41]

theorem tokens_likeClause (d : Dialect) (op : LikeOp) (expr a : Str) (ha : likeAdm d a = true)
    (hexpr : identLike expr = true)
    (hpre : ∀ c ∈ op.pre, safeChar c = true) (hpost : ∀ c ∈ op.post, safeChar c = true) (hesc : op.esc = [92]) :
    tokens d (likeClause d op expr a) = some (likeToks expr (op.pre ++ likeQ a ++ op.post) [92]) := by
  simp only [likeClause, likeEscFmt, likeFmt, fmt, List.append_nil, List.append_assoc, hesc]
  rw [List.singleton_append, tokens_punct d 40 _ (by decide),
    tokens_ident d expr hexpr _ (by simp [okAfter, isWordChar]),
    List.singleton_append, tokens_space d 32 _ (by decide),
    tokens_ident d likeOpName (by decide) _ (by simp [okAfter, isWordChar]),
    tokens_skel d [32, 40] _ (by decide) (Or.inl (by decide)),
    tokens_likePattern d op a _ ha hpre hpost (by simp),
    List.singleton_append, tokens_punct d 41 _ (by decide),
    tokens_skel d _ _ (by decide) (Or.inl (by decide)),
    tokens_string d [92] _ (by cases d <;> simp [admissible]) (by simp),
    tokens_close]
  have e1 : skelToks [32, 40] [] = [Tok.punct 40] := by decide
  have e2 : skelToks [32, 69, 83, 67, 65, 80, 69, 32] [] = [Tok.word [69, 83, 67, 65, 80, 69]] := by decide
  simp [e1, e2, likeToks]

end SqlObjVerif.Like
