import SqlObjVerif.Lemmas.DdlXWRead
import SqlObjVerif.Lemmas.DdlXSql
import SqlObjVerif.Lemmas.DdlXJoin
import SqlObjVerif.Lemmas.DdlXIndex
/-!
# C14 translation (stateful part) — the connection classes' statements against the catalogue
-/
namespace SqlObjVerif.DdlX
open SqlObjVerif.Ddl
open SqlObjVerif.PyDdl hiding Str isUpperC
open SqlObjVerif.PyDdl.Extracted

theorem callXW_succ (n : Nat) (w : Cat) (c : Callee) (args : List Val) (f : Fn) (h : prog.resolve c = some f) :
    callNW prog ddlI EX (n + 1) w c args = f.runW (callNW prog ddlI EX n) (callN prog ddlI n) IX EX w args :=
  callNW_succ prog ddlI EX n w c args f h

@[simp] theorem EX_eff_query (w : Cat) (r : Val) (as : List Val) : EX.eff w r "query" as = some (queryX w as) := rfl
@[simp] theorem EX_eff_send (w : Cat) (r : Val) (as : List Val) : EX.eff w r "send" as = some (.ok .none, w) := rfl
@[simp] theorem EX_effMeths : EX.effMeths = effMeths := rfl
@[simp] theorem queryX_str (w : Cat) (sql : Str) : queryX w [.str sql] = queryRes w (execSQL sql w) := rfl

@[simp] theorem clsRes_connV (w : Cat) (d : Dialect) (c : Caps) (k : Nat → R Val × Cat) :
    clsRes w (connV d c) k = k (connCls d) := rfl
@[simp] theorem clsRes_soClassV (w : Cat) (decl : Decl) (c0 : Val) (x : ClsX) (k : Nat → R Val × Cat) :
    clsRes w (soClassV decl c0 x) k = k C_SQLObject := rfl

/-- evaluate a world-threading function body (its definitions are passed explicitly) -/
macro "pyw" "[" ts:Lean.Parser.Tactic.simpLemma,* "]" : tactic =>
  `(tactic| simp +decide [Fn.runW, Fn.args, Block.execW, Stmt.execW, evalTop, evalCond, ResW.seq_norm, Expr.eval, Exprs.eval,
      effMeths, aget, pyFmt, fmtPos, $ts,*, *])

theorem joinTableSQL_shape (d : Dialect) (j : Join) : ∃ rest, joinTableSQL TX d j = pCT ++ j.table ++ 32 :: rest :=
  ⟨40 :: 10 :: (j.joinColumn ++ 32 :: TX.joinType d ++ TX.colSep ++ (j.otherColumn ++ 32 :: TX.joinType d) ++ TX.createTable.2.2),
    by simp [joinTableSQL, Ddl.Extracted.tables, pCT]⟩

theorem createTableSQL_shape (d : Dialect) (c : Caps) (decl : Decl) (text : Str)
    (h : createTableSQL TX d c decl = some text) : ∃ rest, text = pCT ++ decl.tableName ++ 32 :: rest := by
  rw [createTableSQL_eq_colsModel] at h
  cases hm : colsModel d c decl with
  | none => rw [hm] at h; cases h
  | some b =>
    rw [hm] at h; injection h with h
    exact ⟨40 :: 10 :: (b ++ [10, 41]), by rw [← h]; simp [Ddl.Extracted.tables, pCT]⟩

/-- the outcome of one statement that creates table `t` -/
def createRes (t : Name) (v : Val) (w : Cat) : R Val × Cat :=
  if t ∈ w.tables then (.exc .operationalError, w) else (.ok v, addTbl t w)

/-- `conn._SO_createJoinTable(join)`: one `CREATE TABLE` statement -/
theorem connCreateJoinTable (n : Nat) (d : Dialect) (c : Caps) (j : JoinD) (w : Cat) (hb : 32 ∉ j.join.table) :
    callNW prog ddlI EX (n + 3) w (.meth (connCls d) M__SO_createJoinTable) [connV d c, jV j] =
      createRes j.join.table .none w := by
  have hr : prog.resolve (.meth (connCls d) M__SO_createJoinTable) = some DBAPI___SO_createJoinTable_fn := by
    cases d <;> rfl
  rw [callXW_succ _ _ _ _ _ hr]
  have ht := createJoinTableSQL_jV n d c j
  obtain ⟨rest, hs⟩ := joinTableSQL_shape d j.join
  have he := exec_create j.join.table rest w hb
  rw [← hs] at he
  clear hs
  by_cases hm : j.join.table ∈ w.tables
  · rw [if_pos hm] at he
    pyw [DBAPI___SO_createJoinTable_fn, DBAPI___SO_createJoinTable, DBAPI___SO_createJoinTable_s0, createRes]
  · rw [if_neg hm] at he
    pyw [DBAPI___SO_createJoinTable_fn, DBAPI___SO_createJoinTable, DBAPI___SO_createJoinTable_s0, createRes]

/-- the outcome of one statement that drops table `t` -/
def dropRes (t : Name) (w : Cat) : R Val × Cat :=
  if t ∈ w.tables then (.ok .none, dropTbl t w) else (.exc .operationalError, w)

/-- `conn._SO_dropJoinTable(join)`: one `DROP TABLE` statement -/
theorem connDropJoinTable (n : Nat) (d : Dialect) (c : Caps) (j : JoinD) (w : Cat) (hb : 32 ∉ j.join.table) :
    callNW prog ddlI EX (n + 1) w (.meth (connCls d) M__SO_dropJoinTable) [connV d c, jV j] =
      dropRes j.join.table w := by
  have hr : prog.resolve (.meth (connCls d) M__SO_dropJoinTable) = some DBAPI___SO_dropJoinTable_fn := by
    cases d <;> rfl
  rw [callXW_succ _ _ _ _ _ hr]
  have he := exec_drop j.join.table w hb
  simp only [pDT, List.cons_append, List.nil_append] at he
  by_cases hm : j.join.table ∈ w.tables
  · rw [if_pos hm] at he
    pyw [DBAPI___SO_dropJoinTable_fn, DBAPI___SO_dropJoinTable, DBAPI___SO_dropJoinTable_s0, dropRes]
  · rw [if_neg hm] at he
    pyw [DBAPI___SO_dropJoinTable_fn, DBAPI___SO_dropJoinTable, DBAPI___SO_dropJoinTable_s0, dropRes]

/-- the outcome of one `CREATE INDEX` statement -/
def indexRes (t nm : Name) (w : Cat) : R Val × Cat :=
  if (t, nm) ∈ w.indexes then (.exc .operationalError, w)
  else (.ok .none, { w with indexes := w.indexes ++ [(t, nm)] })

/-- `conn._SO_createIndex(soClass, index)`, all seven connection classes -/
theorem connCreateIndex (n : Nat) (d : Dialect) (c : Caps) (decl : Decl) (c0 : Val) (x : ClsX)
    (ix : Index) (w : Cat) (h1 : 32 ∉ decl.tableName) (h2 : 32 ∉ ix.name) :
    callNW prog ddlI EX (n + 3) w (.meth (connCls d) M__SO_createIndex) [connV d c, soClassV decl c0 x, ixV decl ix] =
      indexRes decl.tableName ix.name w := by
  have hr : prog.resolve (.meth (connCls d) M__SO_createIndex) = some DBAPI___SO_createIndex_fn := by
    cases d <;> rfl
  rw [callXW_succ _ _ _ _ _ hr]
  have ht := createIndexSQL_eq n d c decl c0 x ix
  have he := exec_index_all d decl ix w h1 h2
  by_cases hm : (decl.tableName, ix.name) ∈ w.indexes
  · rw [if_pos hm] at he
    pyw [DBAPI___SO_createIndex_fn, DBAPI___SO_createIndex, DBAPI___SO_createIndex_s0, indexRes]
  · rw [if_neg hm] at he
    pyw [DBAPI___SO_createIndex_fn, DBAPI___SO_createIndex, DBAPI___SO_createIndex_s0, indexRes]

/-- a run of the translated code against the model's verdict: the same catalogue, or both fail -/
def agreesW (r : R Val × Cat) (m : Except Unit Cat) : Prop :=
  match m with
  | .ok w' => r.2 = w' ∧ ∃ v, r.1 = .ok v
  | .error _ => r.1 = .exc .operationalError

@[simp] theorem EX_read_tableExists (w : Cat) (r : Val) (t : Str) :
    EX.read w r "tableExists" [.str t] = some (.ok (.bool (decide (t ∈ w.tables)))) := rfl

end SqlObjVerif.DdlX
