import SqlObjVerif.Lemmas.InhSelXPatch
/-!
The TRANSLATED nested functions of `InheritableSQLObject.select` compute `patchSql` for EVERY clause (`patch_eq`):
one lemma per kind of `SQLOp` (each a closed evaluation of the body of `_patch_id_clause` given what `_get_patched` returns
for the operands), then structural induction over the clause with a level bound that grows with the nesting.
-/
set_option linter.unusedSimpArgs false
namespace SqlObjVerif.InhSel
open SqlObjVerif.PyIS
open SqlObjVerif.PyIS.Extracted
open SqlObjVerif.Inherit hiding Val Res Cmp Out

@[simp] theorem pyBool_fldId (a : Nat) : pyBool (.fldId a) = true := rfl
@[simp] theorem pyBool_fldCol (a k : Nat) : pyBool (.fldCol a k) = true := rfl
@[simp] theorem pyBool_fldKind (a : Nat) : pyBool (.fldKind a) = true := rfl
@[simp] theorem pyBool_int' (z : Int) : pyBool (.int z) = (z != 0) := rfl
@[simp] theorem pyBool_kindName (a : Nat) : pyBool (.kindName a) = true := rfl

theorem ite_idc (a p : Nat) (op : Cmp) (v : Int) :
    (if a = p then some (Sql.idc a op v) else some (Sql.idc p op v)) = some (Sql.idc p op v) := by
  by_cases h : a = p <;> simp [h]
theorem ite_idIn (a p : Nat) (ids : List Nat) :
    (if a = p then some (Sql.idIn a ids) else some (Sql.idIn p ids)) = some (Sql.idIn p ids) := by
  by_cases h : a = p <;> simp [h]

theorem patch_unfold (L : Nat) (args : List SVal) :
    cProc (L + 1) "_patch_id_clause" args = PyIS.runProc (pIface (cProc L)) select_patch_id_clause args () := by
  have hne : "_patch_id_clause" ≠ "_get_patched" := by decide
  simp only [cProc, hne, if_false, if_true]

theorem getPatched_int (c p n : Nat) (z : Int) : cProc (n + 1) "_get_patched" [.int z, .fldId c, .fldId p] = .ok (.int z, .none) :=
  getPatched_other c p n _ rfl rfl
theorem getPatched_kindName (c p n a : Nat) :
    cProc (n + 1) "_get_patched" [.kindName a, .fldId c, .fldId p] = .ok (.kindName a, .none) :=
  getPatched_other c p n _ rfl rfl
theorem getPatched_nats (c p n : Nat) (l : List Nat) :
    cProc (n + 1) "_get_patched" [Val.ofList (l.map Val.nat), .fldId c, .fldId p] = .ok (Val.ofList (l.map Val.nat), .none) := by
  apply getPatched_other <;> cases l <;> rfl

theorem patch_tt (c p L : Nat) : cProc (L + 1) "_patch_id_clause" [.sql .tt, .fldId c, .fldId p] = .ok (.sql .tt, .none) := by
  rw [patch_unfold]; unfold select_patch_id_clause; pprun [sqlExpr1]

theorem patch_not (c p L : Nat) (x : Sql) :
    cProc (L + 1) "_patch_id_clause" [.sql (.not x), .fldId c, .fldId p] = .ok (.sql (.not x), .none) := by
  rw [patch_unfold]; unfold select_patch_id_clause; pprun [sqlExpr1]

theorem patch_col (c p L a j : Nat) (op : Cmp) (v : Int) :
    cProc (L + 2) "_patch_id_clause" [.sql (.col a j op v), .fldId c, .fldId p] = .ok (.sql (.col a j op v), .none) := by
  rw [patch_unfold]; unfold select_patch_id_clause
  pprun [sqlExpr1, sqlExpr2, sqlSet1, sqlSet2, getPatched_fldCol c p L a j, getPatched_int c p L v]

theorem patch_kind (c p L q b : Nat) :
    cProc (L + 2) "_patch_id_clause" [.sql (.kind q b), .fldId c, .fldId p] = .ok (.sql (.kind q b), .none) := by
  rw [patch_unfold]; unfold select_patch_id_clause
  pprun [sqlExpr1, sqlExpr2, sqlSet1, sqlSet2, getPatched_fldKind c p L q, getPatched_kindName c p L b]

theorem patch_idc (c p L a : Nat) (op : Cmp) (v : Int) :
    cProc (L + 2) "_patch_id_clause" [.sql (.idc a op v), .fldId c, .fldId p] =
      .ok (.sql (.idc (if a = c then p else a) op v), .none) := by
  rw [patch_unfold]; unfold select_patch_id_clause
  by_cases h : a = c
  · subst h
    pprun [sqlExpr1, sqlExpr2, sqlSet1, sqlSet2, sqlSet1.sqlPut1, getPatched_fldId a p L a, getPatched_int a p L v, ite_idc]
  · pprun [h, sqlExpr1, sqlExpr2, sqlSet1, sqlSet2, getPatched_fldId c p L a, getPatched_int c p L v]

theorem patch_idIn (c p L a : Nat) (ids : List Nat) :
    cProc (L + 2) "_patch_id_clause" [.sql (.idIn a ids), .fldId c, .fldId p] =
      .ok (.sql (.idIn (if a = c then p else a) ids), .none) := by
  rw [patch_unfold]; unfold select_patch_id_clause
  by_cases h : a = c
  · subst h
    pprun [sqlExpr1, sqlExpr2, sqlSet1, sqlSet2, sqlSet1.sqlPut1, getPatched_fldId a p L a, getPatched_nats a p L ids, ite_idIn]
  · pprun [h, sqlExpr1, sqlExpr2, sqlSet1, sqlSet2, getPatched_fldId c p L a, getPatched_nats c p L ids]


theorem patch_idEq (c p L a b : Nat) :
    cProc (L + 2) "_patch_id_clause" [.sql (.idEq a b), .fldId c, .fldId p] =
      .ok (.sql (.idEq (if a = c then p else a) (if b = c then p else b)), .none) := by
  rw [patch_unfold]; unfold select_patch_id_clause
  have i1 : ∀ x y : Nat, (if x = p then some (Sql.idEq x y) else some (Sql.idEq p y)) = some (Sql.idEq p y) := by
    intro x y; by_cases h : x = p <;> simp [h]
  have i2 : ∀ x y : Nat, (if y = p then some (Sql.idEq x y) else some (Sql.idEq x p)) = some (Sql.idEq x p) := by
    intro x y; by_cases h : y = p <;> simp [h]
  by_cases ha : a = c <;> by_cases hb : b = c
  · subst ha; subst hb
    pprun [sqlExpr1, sqlExpr2, sqlSet1, sqlSet2, sqlSet1.sqlPut1, sqlSet2.sqlPut2, getPatched_fldId b p L b, i1, i2]
  · subst ha
    pprun [hb, sqlExpr1, sqlExpr2, sqlSet1, sqlSet2, sqlSet1.sqlPut1, sqlSet2.sqlPut2, getPatched_fldId a p L a,
      getPatched_fldId a p L b, i1, i2]
  · subst hb
    pprun [ha, sqlExpr1, sqlExpr2, sqlSet1, sqlSet2, sqlSet1.sqlPut1, sqlSet2.sqlPut2, getPatched_fldId b p L a,
      getPatched_fldId b p L b, i1, i2]
  · pprun [ha, hb, sqlExpr1, sqlExpr2, sqlSet1, sqlSet2, sqlSet1.sqlPut1, sqlSet2.sqlPut2, getPatched_fldId c p L a,
      getPatched_fldId c p L b, i1, i2]

theorem patch_and (c p L : Nat) (x y x' y' : Sql)
    (hx : cProc L "_get_patched" [.sql x, .fldId c, .fldId p] = .ok (.sql x', .none))
    (hy : cProc L "_get_patched" [.sql y, .fldId c, .fldId p] = .ok (.sql y', .none)) :
    cProc (L + 1) "_patch_id_clause" [.sql (.and x y), .fldId c, .fldId p] = .ok (.sql (.and x' y'), .none) := by
  rw [patch_unfold]; unfold select_patch_id_clause
  have i1 : (if x = x' then some (Sql.and x y) else some (Sql.and x' y)) = some (Sql.and x' y) := by
    by_cases h : x = x' <;> simp [h]
  have i2 : (if y = y' then some (Sql.and x' y) else some (Sql.and x' y')) = some (Sql.and x' y') := by
    by_cases h : y = y' <;> simp [h]
  pprun [sqlExpr1, sqlExpr2, sqlSet1, sqlSet2, sqlSet1.sqlPut1, sqlSet2.sqlPut2, hx, hy, i1, i2]

theorem patch_or (c p L : Nat) (x y x' y' : Sql)
    (hx : cProc L "_get_patched" [.sql x, .fldId c, .fldId p] = .ok (.sql x', .none))
    (hy : cProc L "_get_patched" [.sql y, .fldId c, .fldId p] = .ok (.sql y', .none)) :
    cProc (L + 1) "_patch_id_clause" [.sql (.or x y), .fldId c, .fldId p] = .ok (.sql (.or x' y'), .none) := by
  rw [patch_unfold]; unfold select_patch_id_clause
  have i1 : (if x = x' then some (Sql.or x y) else some (Sql.or x' y)) = some (Sql.or x' y) := by
    by_cases h : x = x' <;> simp [h]
  have i2 : (if y = y' then some (Sql.or x' y) else some (Sql.or x' y')) = some (Sql.or x' y') := by
    by_cases h : y = y' <;> simp [h]
  pprun [sqlExpr1, sqlExpr2, sqlSet1, sqlSet2, sqlSet1.sqlPut1, sqlSet2.sqlPut2, hx, hy, i1, i2]

/-- **the translated nested functions compute `patchSql`** for every clause, given enough levels of mutual recursion -/
theorem patch_eq (c p : Nat) : ∀ e : Sql, ∃ N, ∀ L, N ≤ L →
    cProc L "_patch_id_clause" [.sql e, .fldId c, .fldId p] = .ok (.sql (patchSql c p e), .none) := by
  intro e
  induction e with
  | tt => exact ⟨1, fun L hL => by obtain ⟨k, rfl⟩ : ∃ k, L = k + 1 := ⟨L - 1, by omega⟩; exact patch_tt c p k⟩
  | not x _ => exact ⟨1, fun L hL => by obtain ⟨k, rfl⟩ : ∃ k, L = k + 1 := ⟨L - 1, by omega⟩; exact patch_not c p k x⟩
  | col a j op v =>
    exact ⟨2, fun L hL => by obtain ⟨k, rfl⟩ : ∃ k, L = k + 2 := ⟨L - 2, by omega⟩; exact patch_col c p k a j op v⟩
  | kind q b =>
    exact ⟨2, fun L hL => by obtain ⟨k, rfl⟩ : ∃ k, L = k + 2 := ⟨L - 2, by omega⟩; exact patch_kind c p k q b⟩
  | idc a op v =>
    exact ⟨2, fun L hL => by obtain ⟨k, rfl⟩ : ∃ k, L = k + 2 := ⟨L - 2, by omega⟩; exact patch_idc c p k a op v⟩
  | idIn a ids =>
    exact ⟨2, fun L hL => by obtain ⟨k, rfl⟩ : ∃ k, L = k + 2 := ⟨L - 2, by omega⟩; exact patch_idIn c p k a ids⟩
  | idEq a b =>
    exact ⟨2, fun L hL => by obtain ⟨k, rfl⟩ : ∃ k, L = k + 2 := ⟨L - 2, by omega⟩; exact patch_idEq c p k a b⟩
  | and x y ihx ihy =>
    obtain ⟨Nx, hx⟩ := ihx
    obtain ⟨Ny, hy⟩ := ihy
    refine ⟨max Nx Ny + 2, fun L hL => ?_⟩
    obtain ⟨k, rfl⟩ : ∃ k, L = k + 2 := ⟨L - 2, by omega⟩
    exact patch_and c p (k + 1) x y _ _ (getPatched_sql c p k x (hx k (by omega))) (getPatched_sql c p k y (hy k (by omega)))
  | or x y ihx ihy =>
    obtain ⟨Nx, hx⟩ := ihx
    obtain ⟨Ny, hy⟩ := ihy
    refine ⟨max Nx Ny + 2, fun L hL => ?_⟩
    obtain ⟨k, rfl⟩ : ∃ k, L = k + 2 := ⟨L - 2, by omega⟩
    exact patch_or c p (k + 1) x y _ _ (getPatched_sql c p k x (hx k (by omega))) (getPatched_sql c p k y (hy k (by omega)))

end SqlObjVerif.InhSel
