import SqlObjVerif.Model.GraphTrav
/-!
# Lemmas for C12: frame (`Ev`), cleanliness of deleted keys (`Clean`), closure (`Reach`)
-/
namespace SqlObjVerif.Graph

def Present (db : DB) (x : Key) : Prop := ∃ r ∈ db.rows, r.key = x

/-- row `r` references key `x` through its `f`-th foreign key -/
def RefVia (S : Schema) (r : Row) (f : Nat) (x : Key) : Prop :=
  (S.fk r.cls f).target = x.1 ∧ r.val f = some x.2

def CascRef (S : Schema) (r : Row) (x : Key) : Prop :=
  ∃ f, (S.fk r.cls f).policy = .cascade ∧ RefVia S r f x

/-- `Reach S db v x`: `x` is in the cascade closure of `v` (reflexive, through rows of `db`) -/
inductive Reach (S : Schema) (db : DB) (v : Key) : Key → Prop
  | refl : Reach S db v v
  | step {r : Row} {y : Key} : r ∈ db.rows → CascRef S r y → Reach S db v y → Reach S db v r.key

/-- link row `l` is an entry of key `y` in a many-to-many table, on either declared side -/
def Touches (S : Schema) (l : Link) (y : Key) : Prop :=
  (∃ j ∈ (S.cls y.1).joins, l.table = j.table ∧ l.col j.ownFirst = y.2) ∨
  (∃ k, ∃ j ∈ (S.cls k).joins, j.other = y.1 ∧ l.table = j.table ∧ l.col (!j.ownFirst) = y.2)

/-- `db'` comes from `db` by deleting rows / link rows / cache entries of keys in `D` and by
    NULLing `cascade='null'` references to keys in `D`; nothing else changed. -/
structure Ev (S : Schema) (D : Key → Prop) (db db' : DB) : Prop where
  rows : ∀ r' ∈ db'.rows, ∃ r ∈ db.rows, r.cls = r'.cls ∧ r.id = r'.id ∧ r.vals.length = r'.vals.length ∧
    ∀ f, r'.val f = r.val f ∨
      (r'.val f = none ∧ (S.fk r.cls f).policy = .setNull ∧ ∃ j, r.val f = some j ∧ D ((S.fk r.cls f).target, j))
  gone : ∀ r ∈ db.rows, Present db' r.key ∨ D r.key
  links : ∀ l ∈ db'.links, l ∈ db.links
  unlinked : ∀ l ∈ db.links, l ∈ db'.links ∨ ∃ y, D y ∧ Touches S l y
  cache : ∀ x ∈ db'.cache, x ∈ db.cache
  uncached : ∀ x ∈ db.cache, x ∈ db'.cache ∨ D x

/-- nothing in `db'` refers to key `y` any more -/
structure Clean (S : Schema) (db' : DB) (y : Key) : Prop where
  norow : ¬ Present db' y
  noref : ∀ r' ∈ db'.rows, ∀ f, (S.fk r'.cls f).policy ≠ .keep → ¬ RefVia S r' f y
  nolink : ∀ l ∈ db'.links, ¬ Touches S l y
  nocache : y ∉ db'.cache

def Res.db : Res → DB
  | .ok db => db | .refused db => db | .fuel db => db

def Res.isFuel : Res → Bool
  | .fuel _ => true | _ => false

/-! ## basic facts -/

theorem Ev.refl (S : Schema) (D : Key → Prop) (db : DB) : Ev S D db db :=
  ⟨fun r h => ⟨r, h, rfl, rfl, rfl, fun _ => .inl rfl⟩, fun r h => .inl ⟨r, h, rfl⟩,
   fun _ h => h, fun _ h => .inl h, fun _ h => h, fun _ h => .inl h⟩

theorem Ev.mono {S : Schema} {D D' : Key → Prop} {db db' : DB} (h : Ev S D db db') (hd : ∀ y, D y → D' y) :
    Ev S D' db db' := by
  refine ⟨?_, ?_, h.links, ?_, h.cache, ?_⟩
  · intro r' hr'
    obtain ⟨r, hr, h1, h2, h3, h4⟩ := h.rows r' hr'
    refine ⟨r, hr, h1, h2, h3, fun f => ?_⟩
    rcases h4 f with h | ⟨ha, hb, j, hj, hD⟩
    · exact .inl h
    · exact .inr ⟨ha, hb, j, hj, hd _ hD⟩
  · intro r hr
    rcases h.gone r hr with h | h
    · exact .inl h
    · exact .inr (hd _ h)
  · intro l hl
    rcases h.unlinked l hl with h | ⟨y, hy, ht⟩
    · exact .inl h
    · exact .inr ⟨y, hd _ hy, ht⟩
  · intro x hx
    rcases h.uncached x hx with h | h
    · exact .inl h
    · exact .inr (hd _ h)

theorem Ev.present {S : Schema} {D : Key → Prop} {db db' : DB} (h : Ev S D db db') {x : Key}
    (hp : Present db' x) : Present db x := by
  obtain ⟨r', hr', hk⟩ := hp
  obtain ⟨r, hr, h1, h2, _⟩ := h.rows r' hr'
  exact ⟨r, hr, by simp [Row.key, h1, h2] at hk ⊢; exact hk⟩

theorem Ev.trans {S : Schema} {D : Key → Prop} {db db' db'' : DB} (h1 : Ev S D db db') (h2 : Ev S D db' db'') :
    Ev S D db db'' := by
  refine ⟨?_, ?_, fun l hl => h1.links l (h2.links l hl), ?_, fun x hx => h1.cache x (h2.cache x hx), ?_⟩
  · intro r'' hr''
    obtain ⟨r', hr', a1, a2, a3, a4⟩ := h2.rows r'' hr''
    obtain ⟨r, hr, b1, b2, b3, b4⟩ := h1.rows r' hr'
    refine ⟨r, hr, b1.trans a1, b2.trans a2, b3.trans a3, fun f => ?_⟩
    rcases a4 f with ha | ⟨ha, hb, j, hj, hD⟩
    · rcases b4 f with hb | ⟨hb1, hb2, j, hj, hD⟩
      · exact .inl (ha.trans hb)
      · exact .inr ⟨ha.trans hb1, hb2, j, hj, hD⟩
    · rcases b4 f with hb' | ⟨hb1, _, _⟩
      · exact .inr ⟨ha, b1 ▸ hb, j, hb' ▸ hj, b1 ▸ hD⟩
      · rw [hb1] at hj; cases hj
  · intro r hr
    rcases h1.gone r hr with ⟨r', hr', hk⟩ | h
    · rcases h2.gone r' hr' with h | h
      · exact .inl (hk ▸ h)
      · exact .inr (hk ▸ h)
    · exact .inr h
  · intro l hl
    rcases h1.unlinked l hl with h | h
    · exact h2.unlinked l h
    · exact .inr h
  · intro x hx
    rcases h1.uncached x hx with h | h
    · exact h2.uncached x h
    · exact .inr h

/-- a reference that is still there was there before (values only ever become NULL) -/
theorem Ev.ref_back {S : Schema} {D : Key → Prop} {db db' : DB} (h : Ev S D db db') {r' : Row} (hr' : r' ∈ db'.rows) :
    ∃ r ∈ db.rows, r.key = r'.key ∧ ∀ f y, RefVia S r' f y → RefVia S r f y := by
  obtain ⟨r, hr, h1, h2, _, h4⟩ := h.rows r' hr'
  refine ⟨r, hr, by simp [Row.key, h1, h2], fun f y ⟨ha, hb⟩ => ?_⟩
  rcases h4 f with h | ⟨h, _⟩
  · exact ⟨h1 ▸ ha, h ▸ hb⟩
  · rw [h] at hb; cases hb

theorem Clean.ev {S : Schema} {D : Key → Prop} {db db' : DB} {y : Key} (h : Ev S D db db') (hc : Clean S db y) :
    Clean S db' y := by
  refine ⟨fun hp => hc.norow (h.present hp), ?_, fun l hl => hc.nolink l (h.links l hl),
    fun hx => hc.nocache (h.cache _ hx)⟩
  intro r' hr' f hpol href
  obtain ⟨r, hr, hk, hb⟩ := h.ref_back hr'
  have hcls : r.cls = r'.cls := by simpa [Row.key] using congrArg Prod.fst hk
  exact hc.noref r hr f (hcls ▸ hpol) (hb f y href)

/-- the closure only shrinks: a closure computed later lies inside the closure computed before -/
theorem Reach.back {S : Schema} {D : Key → Prop} {db db' : DB} (h : Ev S D db db') {v x : Key}
    (hx : Reach S db' v x) : Reach S db v x := by
  induction hx with
  | refl => exact .refl
  | @step r' y hr' hc _ ih =>
    obtain ⟨r, hr, hk, hb⟩ := h.ref_back hr'
    obtain ⟨f, hp, hf⟩ := hc
    have hcls : r.cls = r'.cls := by simpa [Row.key] using congrArg Prod.fst hk
    rw [← hk]
    exact .step hr ⟨f, hcls ▸ hp, hb f y hf⟩ ih

theorem Reach.trans {S : Schema} {db : DB} {v w x : Key} (h1 : Reach S db v w) (h2 : Reach S db w x) :
    Reach S db v x := by
  induction h2 with
  | refl => exact h1
  | step hr hc _ ih => exact .step hr hc ih

/-! ## the primitive steps -/

theorem fk_keep_of_ge (S : Schema) (k f : Nat) (h : (S.cls k).fks.length ≤ f) : (S.fk k f).policy = .keep := by
  simp [Schema.fk, List.getD, List.getElem?_eq_none h]

theorem cls_default_of_ge (S : Schema) (k : Nat) (h : S.length ≤ k) : S.cls k = ⟨[], []⟩ := by
  simp [Schema.cls, List.getD, List.getElem?_eq_none h]

theorem mem_depCols {S : Schema} {c k f : Nat} :
    f ∈ depCols S c k ↔ (S.fk k f).target = c ∧ (S.fk k f).policy ≠ .keep := by
  simp only [depCols, List.mem_filter, List.mem_range, Bool.and_eq_true, beq_iff_eq, bne_iff_ne]
  constructor
  · exact fun h => h.2
  · intro h
    refine ⟨?_, h⟩
    apply Classical.byContradiction
    intro hlt
    exact h.2 (fk_keep_of_ge S k f (by omega))

theorem mem_dependents {S : Schema} {c k : Nat} : k ∈ dependents S c ↔ isDependent S c k = true := by
  simp only [dependents, List.mem_filter, List.mem_range]
  constructor
  · exact fun h => h.2
  · intro h
    refine ⟨?_, h⟩
    apply Classical.byContradiction
    intro hlt
    have hd := cls_default_of_ge S k (by omega)
    simp [isDependent, depCols, hd] at h

theorem mem_delLinks {t : Nat} {b : Bool} {i : Nat} {ls : List Link} {l : Link} :
    l ∈ delLinks t b i ls ↔ l ∈ ls ∧ ¬ (l.table = t ∧ l.col b = i) := by
  simp only [delLinks, List.mem_filter, Bool.not_eq_true', Bool.and_eq_false_iff, beq_eq_false_iff_ne, ne_eq, not_and]
  grind

/-- the victim's own joins are cleaned by `joinColumn`, the dependents' joins by `otherColumn`
    (about the **extracted** `destroySelf` statements: `rfl` fails if the source names other columns) -/
theorem ownDeleteCol_first (b : Bool) : Extracted.Graph.ownDeleteCol.first b = b := rfl
theorem depDeleteCol_first (b : Bool) : Extracted.Graph.depDeleteCol.first b = !b := rfl

theorem mem_delOwnLinks {S : Schema} {c i : Nat} {ls : List Link} {l : Link} :
    l ∈ delOwnLinks S c i ls ↔ l ∈ ls ∧ ∀ j ∈ (S.cls c).joins, ¬ (l.table = j.table ∧ l.col j.ownFirst = i) := by
  unfold delOwnLinks
  simp only [ownDeleteCol_first]
  generalize (S.cls c).joins = js
  induction js generalizing ls with
  | nil => simp
  | cons j js ih =>
    simp only [List.foldl_cons, ih, mem_delLinks, List.mem_cons, forall_eq_or_imp]
    grind

theorem mem_delDepLinks {S : Schema} {k c i : Nat} {ls : List Link} {l : Link} :
    l ∈ delDepLinks S k c i ls ↔
      l ∈ ls ∧ ∀ j ∈ (S.cls k).joins, j.other = c → ¬ (l.table = j.table ∧ l.col (!j.ownFirst) = i) := by
  unfold delDepLinks
  simp only [depDeleteCol_first]
  generalize (S.cls k).joins = js
  induction js generalizing ls with
  | nil => simp
  | cons j js ih =>
    simp only [List.foldl_cons, ih, List.mem_cons, forall_eq_or_imp]
    by_cases h : j.other = c
    · simp only [h, beq_self_eq_true, if_true, mem_delLinks]; grind
    · have : (j.other == c) = false := by simp [h]
      simp only [this]; simp [h]

theorem nullRow_cls (S : Schema) (k : Nat) (cols : List Nat) (i : Nat) (r : Row) : (nullRow S k cols i r).cls = r.cls := by
  unfold nullRow; split <;> rfl

theorem nullRow_id (S : Schema) (k : Nat) (cols : List Nat) (i : Nat) (r : Row) : (nullRow S k cols i r).id = r.id := by
  unfold nullRow; split <;> rfl

theorem nullRow_len (S : Schema) (k : Nat) (cols : List Nat) (i : Nat) (r : Row) :
    (nullRow S k cols i r).vals.length = r.vals.length := by
  unfold nullRow; split <;> simp

theorem nullRow_val (S : Schema) (k : Nat) (cols : List Nat) (i : Nat) (r : Row) (f : Nat) :
    (nullRow S k cols i r).val f =
      if r.cls = k ∧ f ∈ cols ∧ (S.fk k f).policy = .setNull ∧ r.val f = some i then none else r.val f := by
  unfold nullRow Row.val
  by_cases hk : r.cls = k
  · simp only [hk, beq_self_eq_true, if_true, true_and]
    simp only [List.getD_eq_getElem?_getD, List.getElem?_mapIdx]
    cases hv : r.vals[f]? with
    | none => simp
    | some v =>
      simp only [Option.map_some, Option.getD_some, List.contains_eq_mem, Bool.and_eq_true, decide_eq_true_eq, beq_iff_eq]
      by_cases h1 : f ∈ cols <;> by_cases h2 : (S.fk k f).policy = .setNull <;> by_cases h3 : v = some i <;> simp [h1, h2, h3]
  · have : (r.cls == k) = false := by simp [hk]
    simp [this, hk]

theorem present_iff {db : DB} {k i : Nat} : present db k i = true ↔ Present db (k, i) := by
  simp [present, Present, Row.key, List.any_eq_true, Prod.ext_iff]

/-! ## lifting through the loops -/

/-- what the induction on the recursion fuel carries about the recursive call -/
structure RecOK (S : Schema) (rec : DB → Nat → Nat → Res) : Prop where
  ev : ∀ db k j, Ev S (Reach S db (k, j)) db (rec db k j).db
  ok : ∀ db k j db', rec db k j = .ok db' →
    Clean S db' (k, j) ∧ ∀ y, Present db y → ¬ Present db' y → Clean S db' y

theorem destroyRows_spec {S : Schema} {rec : DB → Nat → Nat → Res} (h : RecOK S rec) (D : Key → Prop) (k : Nat) :
    ∀ (ids : List Nat) (db : DB),
      (∀ dbj, Ev S D db dbj → ∀ j ∈ ids, ∀ y, Reach S dbj (k, j) y → D y) →
      Ev S D db (destroyRows rec k ids db).db ∧
      ∀ db3, destroyRows rec k ids db = .ok db3 →
        (∀ j ∈ ids, ¬ Present db3 (k, j)) ∧ ∀ y, Present db y → ¬ Present db3 y → Clean S db3 y := by
  intro ids
  induction ids with
  | nil =>
    intro db _
    refine ⟨Ev.refl _ _ _, ?_⟩
    intro db3 h3
    simp only [destroyRows, Res.ok.injEq] at h3
    subst h3
    exact ⟨by simp, fun y hp hn => absurd hp hn⟩
  | cons i is ih =>
    intro db hD
    unfold destroyRows
    by_cases hp : present db k i = true
    · simp only [hp, if_true]
      have hev : Ev S D db (rec db k i).db :=
        (h.ev db k i).mono (fun y hy => hD db (Ev.refl _ _ _) i (by simp) y hy)
      cases hr : rec db k i with
      | ok db' =>
        simp only
        rw [hr] at hev
        simp only [Res.db] at hev
        have hD' : ∀ dbj, Ev S D db' dbj → ∀ j ∈ is, ∀ y, Reach S dbj (k, j) y → D y :=
          fun dbj hj j hjm y hy => hD dbj (hev.trans hj) j (by simp [hjm]) y hy
        obtain ⟨e2, o2⟩ := ih db' hD'
        refine ⟨hev.trans e2, ?_⟩
        intro db3 h3
        obtain ⟨a, b⟩ := o2 db3 h3
        obtain ⟨c1, c2⟩ := h.ok db k i db' hr
        have e23 : Ev S D db' db3 := by rw [h3] at e2; exact e2
        refine ⟨?_, ?_⟩
        · intro j hj
          rcases List.mem_cons.mp hj with rfl | hj
          · exact fun hp3 => c1.norow (e23.present hp3)
          · exact a j hj
        · intro y hy hn
          by_cases hy' : Present db' y
          · exact b y hy' hn
          · exact (c2 y hy hy').ev e23
      | refused db' =>
        simp only
        rw [hr] at hev
        exact ⟨hev, fun db3 h3 => by cases h3⟩
      | fuel db' =>
        simp only
        rw [hr] at hev
        exact ⟨hev, fun db3 h3 => by cases h3⟩
    · have hp' : present db k i = false := by simpa using hp
      simp only [hp', Bool.false_eq_true, if_false]
      have hD' : ∀ dbj, Ev S D db dbj → ∀ j ∈ is, ∀ y, Reach S dbj (k, j) y → D y :=
        fun dbj hj j hjm y hy => hD dbj hj j (by simp [hjm]) y hy
      obtain ⟨e2, o2⟩ := ih db hD'
      refine ⟨e2, ?_⟩
      intro db3 h3
      obtain ⟨a, b⟩ := o2 db3 h3
      refine ⟨?_, b⟩
      intro j hj
      rcases List.mem_cons.mp hj with rfl | hj
      · have e23 : Ev S D db db3 := by rw [h3] at e2; exact e2
        exact fun hp3 => hp (present_iff.mpr (e23.present hp3))
      · exact a j hj

theorem hasPolicy_iff {S : Schema} {k : Nat} {cols : List Nat} {p : Policy} :
    hasPolicy S k cols p = true ↔ ∃ f ∈ cols, (S.fk k f).policy = p := by
  simp [hasPolicy, List.any_eq_true]

theorem mem_matching {db : DB} {k : Nat} {cols : List Nat} {i : Nat} {r : Row} :
    r ∈ matching db k cols i ↔ r ∈ db.rows ∧ r.cls = k ∧ ∃ f ∈ cols, r.val f = some i := by
  simp [matching, refsVia, List.mem_filter, List.any_eq_true]

/-- after the restriction test and the set-null pass, what still matches does so through a cascade key -/
theorem passed_cascade {S : Schema} {c k i : Nat} {db1 : DB} {r : Row} {f : Nat}
    (hpass : (matching db1 k (restrictCols S k (depCols S c k)) i).isEmpty = true)
    (hr : r ∈ db1.rows) (hk : r.cls = k) (hf : f ∈ depCols S c k)
    (hv : (nullRow S k (depCols S c k) i r).val f = some i) : (S.fk k f).policy = .cascade := by
  rw [nullRow_val] at hv
  have hrv : r.val f = some i := by
    split at hv
    · cases hv
    · exact hv
  have hpol := (mem_depCols.mp hf).2
  cases hp : (S.fk k f).policy with
  | cascade => rfl
  | keep => exact absurd hp hpol
  | setNull =>
    rw [if_pos ⟨hk, hf, hp, hrv⟩] at hv
    cases hv
  | restrict =>
    exfalso
    have hfr : f ∈ restrictCols S k (depCols S c k) := by
      simp only [restrictCols, List.mem_filter, beq_iff_eq]; exact ⟨hf, hp⟩
    have : r ∈ matching db1 k (restrictCols S k (depCols S c k)) i := mem_matching.mpr ⟨hr, hk, f, hfr, hrv⟩
    rw [List.isEmpty_iff.mp hpass] at this
    cases this

theorem ev_delDepLinks (S : Schema) (D : Key → Prop) (db : DB) (k c i : Nat) (hv : D (c, i)) :
    Ev S D db { db with links := delDepLinks S k c i db.links } := by
  refine ⟨(Ev.refl S D db).rows, fun r hr => .inl ⟨r, hr, rfl⟩, fun l hl => (mem_delDepLinks.mp hl).1, ?_,
    fun _ h => h, fun _ h => .inl h⟩
  intro l hl
  by_cases h : l ∈ delDepLinks S k c i db.links
  · exact .inl h
  · refine .inr ⟨(c, i), hv, .inr ?_⟩
    rw [mem_delDepLinks] at h
    simp only [hl, true_and] at h
    apply Classical.byContradiction
    intro hn
    apply h
    intro j hj ho hc
    exact hn ⟨k, j, hj, ho, hc.1, hc.2⟩

theorem ev_nullRefs (S : Schema) (D : Key → Prop) (db : DB) (k c i : Nat) (hv : D (c, i)) :
    Ev S D db (nullRefs S db k (depCols S c k) i) := by
  refine ⟨?_, ?_, fun _ h => h, fun _ h => .inl h, fun _ h => h, fun _ h => .inl h⟩
  · intro r' hr'
    simp only [nullRefs, List.mem_map] at hr'
    obtain ⟨r, hr, rfl⟩ := hr'
    refine ⟨r, hr, (nullRow_cls ..).symm, (nullRow_id ..).symm, (nullRow_len ..).symm, fun f => ?_⟩
    rw [nullRow_val]
    split
    · next h =>
      obtain ⟨hk, hf, hp, hrv⟩ := h
      refine .inr ⟨rfl, hk ▸ hp, i, hrv, ?_⟩
      rw [hk, (mem_depCols.mp hf).1]
      exact hv
    · exact .inl rfl
  · intro r hr
    refine .inl ⟨nullRow S k (depCols S c k) i r, ?_, ?_⟩
    · simp only [nullRefs, List.mem_map]; exact ⟨r, hr, rfl⟩
    · simp [Row.key, nullRow_cls, nullRow_id]

theorem procDep_spec {S : Schema} {rec : DB → Nat → Nat → Res} (h : RecOK S rec) (D : Key → Prop)
    (c i : Nat) (db : DB) (k : Nat) (hv : D (c, i))
    (hD : ∀ dbj, Ev S D db dbj → ∀ r ∈ db.rows, CascRef S r (c, i) → ∀ y, Reach S dbj r.key y → D y) :
    Ev S D db (procDep S rec c i db k).db ∧
    ∀ db', procDep S rec c i db k = .ok db' →
      (∀ r' ∈ db'.rows, r'.cls = k → ∀ f, (S.fk k f).policy ≠ .keep → ¬ RefVia S r' f (c, i)) ∧
      (∀ l ∈ db'.links, ∀ j ∈ (S.cls k).joins, j.other = c → ¬ (l.table = j.table ∧ l.col (!j.ownFirst) = i)) ∧
      (∀ y, Present db y → ¬ Present db' y → Clean S db' y) := by
  have e1 := ev_delDepLinks S D db k c i hv
  unfold procDep
  simp only
  generalize hdb1 : ({ db with links := delDepLinks S k c i db.links } : DB) = db1 at e1 ⊢
  have hrows1 : db1.rows = db.rows := by subst hdb1; rfl
  have hlinks1 : ∀ l ∈ db1.links, ∀ j ∈ (S.cls k).joins, j.other = c → ¬ (l.table = j.table ∧ l.col (!j.ownFirst) = i) := by
    subst hdb1; intro l hl; exact (mem_delDepLinks.mp hl).2
  by_cases hemp : (depCols S c k).isEmpty = true
  · simp only [hemp, if_true]
    refine ⟨e1, ?_⟩
    intro db' hok
    simp only [Res.ok.injEq] at hok
    subst hok
    refine ⟨?_, hlinks1, ?_⟩
    · intro r' _ _ f hpol href
      have : f ∈ depCols S c k := mem_depCols.mpr ⟨by simpa [RefVia, *] using href.1, hpol⟩
      simp [List.isEmpty_iff.mp hemp] at this
    · intro y hp hn
      exact absurd (by simpa [Present, hrows1] using hp) hn
  · simp only [hemp, Bool.false_eq_true, if_false]
    by_cases hres : (!(matching db1 k (restrictCols S k (depCols S c k)) i).isEmpty) = true
    · simp only [hres, if_true]
      exact ⟨e1, fun db' hok => by cases hok⟩
    · simp only [hres, Bool.false_eq_true, if_false]
      have hpass : (matching db1 k (restrictCols S k (depCols S c k)) i).isEmpty = true := by
        simpa using hres
      have e2 : Ev S D db1 (nullRefs S db1 k (depCols S c k) i) := ev_nullRefs S D db1 k c i hv
      have e12 := e1.trans e2
      generalize hdb2 : nullRefs S db1 k (depCols S c k) i = db2 at e2 e12 ⊢
      have hmem2 : ∀ r2 ∈ db2.rows, ∃ r1 ∈ db1.rows, r2 = nullRow S k (depCols S c k) i r1 := by
        subst hdb2; intro r2 hr2
        simp only [nullRefs, List.mem_map] at hr2
        obtain ⟨r1, h1, rfl⟩ := hr2
        exact ⟨r1, h1, rfl⟩
      have hlinks2 : db2.links = db1.links := by subst hdb2; rfl
      have hpres2 : ∀ y, Present db y → Present db2 y := by
        intro y ⟨r, hr, hk⟩
        rcases e12.gone r hr with hp | _
        · exact hk ▸ hp
        · subst hdb2
          refine ⟨nullRow S k (depCols S c k) i r, ?_, ?_⟩
          · simp only [nullRefs, List.mem_map]; exact ⟨r, hrows1 ▸ hr, rfl⟩
          · simpa [Row.key, nullRow_cls, nullRow_id] using hk
      -- what still references the victim from class `k` does so through a cascade key
      have hcasc : ∀ r2 ∈ db2.rows, r2.cls = k → ∀ f, (S.fk k f).policy ≠ .keep → RefVia S r2 f (c, i) →
          (S.fk k f).policy = .cascade := by
        intro r2 hr2 hk f hpol href
        obtain ⟨r1, hr1, rfl⟩ := hmem2 r2 hr2
        rw [nullRow_cls] at hk
        have hf : f ∈ depCols S c k := mem_depCols.mpr ⟨by simpa [RefVia, nullRow_cls, hk] using href.1, hpol⟩
        exact passed_cascade hpass hr1 hk hf href.2
      by_cases hcas : hasPolicy S k (depCols S c k) .cascade = true
      · simp only [hcas, if_true]
        have hD2 : ∀ dbj, Ev S D db2 dbj → ∀ j ∈ (matching db2 k (depCols S c k) i).map (·.id),
            ∀ y, Reach S dbj (k, j) y → D y := by
          intro dbj hj j hjm y hy
          simp only [List.mem_map] at hjm
          obtain ⟨r2, hr2, rfl⟩ := hjm
          obtain ⟨hr2m, hk2, f, hf, hfv⟩ := mem_matching.mp hr2
          have href : RefVia S r2 f (c, i) := ⟨by rw [hk2]; exact (mem_depCols.mp hf).1, hfv⟩
          have hp := hcasc r2 hr2m hk2 f (mem_depCols.mp hf).2 href
          obtain ⟨r, hr, hkey, hb⟩ := e12.ref_back hr2m
          have hcls : r.cls = r2.cls := by simpa [Row.key] using congrArg Prod.fst hkey
          have : CascRef S r (c, i) := ⟨f, by rw [hcls, hk2]; exact hp, hb f _ href⟩
          have hkk : r.key = (k, r2.id) := by rw [hkey]; simp [Row.key, hk2]
          exact hD dbj (e12.trans hj) r hr this y (hkk ▸ hy)
        obtain ⟨e3, o3⟩ := destroyRows_spec h D k _ db2 hD2
        refine ⟨e12.trans e3, ?_⟩
        intro db3 hok
        obtain ⟨a, b⟩ := o3 db3 hok
        have e23 : Ev S D db2 db3 := by rw [hok] at e3; exact e3
        refine ⟨?_, ?_, fun y hp hn => b y (hpres2 y hp) hn⟩
        · intro r' hr' hk' f hpol href
          obtain ⟨r2, hr2, hkey, hb⟩ := e23.ref_back hr'
          have hcls : r2.cls = r'.cls := by simpa [Row.key] using congrArg Prod.fst hkey
          have hid : r2.id = r'.id := by simpa [Row.key] using congrArg Prod.snd hkey
          have href2 := hb f _ href
          have hf : f ∈ depCols S c k := mem_depCols.mpr ⟨by simpa [RefVia, hk'] using href.1, hpol⟩
          have hm : r2 ∈ matching db2 k (depCols S c k) i := mem_matching.mpr ⟨hr2, hcls.trans hk', f, hf, href2.2⟩
          apply a r2.id (List.mem_map.mpr ⟨r2, hm, rfl⟩)
          exact ⟨r', hr', by simp [Row.key, hk', hid]⟩
        · intro l hl
          exact hlinks1 l (hlinks2 ▸ e23.links l hl)
      · simp only [hcas, Bool.false_eq_true, if_false]
        refine ⟨e12, ?_⟩
        intro db' hok
        simp only [Res.ok.injEq] at hok
        subst hok
        refine ⟨?_, fun l hl => hlinks1 l (hlinks2 ▸ hl), fun y hp hn => absurd (hpres2 y hp) hn⟩
        intro r' hr' hk' f hpol href
        have hp := hcasc r' hr' hk' f hpol href
        apply hcas
        exact hasPolicy_iff.mpr ⟨f, mem_depCols.mpr ⟨by simpa [RefVia, hk'] using href.1, hpol⟩, hp⟩

/-- per dependent class: no reference from it and no link row declared by it points at the victim -/
def DepDone (S : Schema) (db' : DB) (c i k : Nat) : Prop :=
  (∀ r' ∈ db'.rows, r'.cls = k → ∀ f, (S.fk k f).policy ≠ .keep → ¬ RefVia S r' f (c, i)) ∧
  (∀ l ∈ db'.links, ∀ j ∈ (S.cls k).joins, j.other = c → ¬ (l.table = j.table ∧ l.col (!j.ownFirst) = i))

theorem DepDone.ev {S : Schema} {D : Key → Prop} {db db' : DB} {c i k : Nat} (h : Ev S D db db')
    (hd : DepDone S db c i k) : DepDone S db' c i k := by
  refine ⟨?_, fun l hl => hd.2 l (h.links l hl)⟩
  intro r' hr' hk f hpol href
  obtain ⟨r, hr, hkey, hb⟩ := h.ref_back hr'
  have hcls : r.cls = r'.cls := by simpa [Row.key] using congrArg Prod.fst hkey
  exact hd.1 r hr (hcls.trans hk) f hpol (hb f _ href)

theorem procDeps_spec {S : Schema} {rec : DB → Nat → Nat → Res} (h : RecOK S rec) (D : Key → Prop)
    (c i : Nat) (hv : D (c, i)) :
    ∀ (ks : List Nat) (db : DB),
      (∀ dbj, Ev S D db dbj → ∀ r ∈ db.rows, CascRef S r (c, i) → ∀ y, Reach S dbj r.key y → D y) →
      Ev S D db (procDeps S rec c i ks db).db ∧
      ∀ db', procDeps S rec c i ks db = .ok db' →
        (∀ k ∈ ks, DepDone S db' c i k) ∧ (∀ y, Present db y → ¬ Present db' y → Clean S db' y) := by
  intro ks
  induction ks with
  | nil =>
    intro db _
    refine ⟨Ev.refl _ _ _, ?_⟩
    intro db' hok
    simp only [procDeps, Res.ok.injEq] at hok
    subst hok
    exact ⟨by simp, fun y hp hn => absurd hp hn⟩
  | cons k ks ih =>
    intro db hD
    obtain ⟨e1, o1⟩ := procDep_spec h D c i db k hv hD
    unfold procDeps
    cases hr : procDep S rec c i db k with
    | ok db1 =>
      simp only
      rw [hr] at e1
      simp only [Res.db] at e1
      have hD1 : ∀ dbj, Ev S D db1 dbj → ∀ r ∈ db1.rows, CascRef S r (c, i) → ∀ y, Reach S dbj r.key y → D y := by
        intro dbj hj r1 hr1 ⟨f, hp, hf⟩ y hy
        obtain ⟨r, hr0, hkey, hb⟩ := e1.ref_back hr1
        have hcls : r.cls = r1.cls := by simpa [Row.key] using congrArg Prod.fst hkey
        exact hD dbj (e1.trans hj) r hr0 ⟨f, hcls ▸ hp, hb f _ hf⟩ y (hkey ▸ hy)
      obtain ⟨e2, o2⟩ := ih db1 hD1
      refine ⟨e1.trans e2, ?_⟩
      intro db' hok
      obtain ⟨a, b⟩ := o2 db' hok
      obtain ⟨p1, p2, p3⟩ := o1 db1 hr
      have e12 : Ev S D db1 db' := by rw [hok] at e2; exact e2
      refine ⟨?_, ?_⟩
      · intro k' hk'
        rcases List.mem_cons.mp hk' with rfl | hk'
        · exact DepDone.ev e12 ⟨p1, p2⟩
        · exact a k' hk'
      · intro y hp hn
        by_cases hy1 : Present db1 y
        · exact b y hy1 hn
        · exact (p3 y hp hy1).ev e12
    | refused db1 =>
      simp only
      rw [hr] at e1
      exact ⟨e1, fun db' hok => by cases hok⟩
    | fuel db1 =>
      simp only
      rw [hr] at e1
      exact ⟨e1, fun db' hok => by cases hok⟩

theorem present_delRow {db : DB} {c i : Nat} {y : Key} :
    Present (delRow db c i) y ↔ Present db y ∧ y ≠ (c, i) := by
  simp only [Present, delRow, List.mem_filter, Bool.not_eq_true', Bool.and_eq_false_iff, beq_eq_false_iff_ne, ne_eq]
  constructor
  · rintro ⟨r, ⟨hr, hne⟩, rfl⟩
    refine ⟨⟨r, hr, rfl⟩, ?_⟩
    simp only [Row.key, Prod.mk.injEq, not_and]
    grind
  · rintro ⟨⟨r, hr, rfl⟩, hne⟩
    refine ⟨r, ⟨hr, ?_⟩, rfl⟩
    simp only [Row.key, Prod.mk.injEq, not_and] at hne
    grind

theorem ev_delRow (S : Schema) (D : Key → Prop) (db : DB) (c i : Nat) (hv : D (c, i)) : Ev S D db (delRow db c i) := by
  refine ⟨?_, ?_, fun _ h => h, fun _ h => .inl h, ?_, ?_⟩
  · intro r' hr'
    simp only [delRow, List.mem_filter] at hr'
    exact (Ev.refl S D db).rows r' hr'.1
  · intro r hr
    by_cases hk : r.key = (c, i)
    · exact .inr (hk ▸ hv)
    · exact .inl (present_delRow.mpr ⟨⟨r, hr, rfl⟩, hk⟩)
  · intro x hx
    simp only [delRow, List.mem_filter] at hx
    exact hx.1
  · intro x hx
    by_cases hk : x = (c, i)
    · exact .inr (hk ▸ hv)
    · refine .inl ?_
      simp only [delRow, List.mem_filter, hx, true_and, Bool.not_eq_true', Bool.and_eq_false_iff, beq_eq_false_iff_ne, ne_eq]
      rw [Prod.ext_iff] at hk
      simp only [not_and] at hk
      grind

theorem ev_delOwnLinks (S : Schema) (D : Key → Prop) (db : DB) (c i : Nat) (hv : D (c, i)) :
    Ev S D db { db with links := delOwnLinks S c i db.links } := by
  refine ⟨(Ev.refl S D db).rows, fun r hr => .inl ⟨r, hr, rfl⟩, fun l hl => (mem_delOwnLinks.mp hl).1, ?_,
    fun _ h => h, fun _ h => .inl h⟩
  intro l hl
  by_cases h : l ∈ delOwnLinks S c i db.links
  · exact .inl h
  · refine .inr ⟨(c, i), hv, .inl ?_⟩
    rw [mem_delOwnLinks] at h
    simp only [hl, true_and] at h
    apply Classical.byContradiction
    intro hn
    apply h
    intro j hj hc
    exact hn ⟨j, hj, hc.1, hc.2⟩

/-! ## the invariant holds for every recursion depth -/

theorem recOK_step {S : Schema} {rec : DB → Nat → Nat → Res} (h : RecOK S rec) : RecOK S (destroyStep S rec) := by
  have key : ∀ db c i,
      Ev S (Reach S db (c, i)) db (destroyStep S rec db c i).db ∧
      ∀ db', destroyStep S rec db c i = .ok db' →
        Clean S db' (c, i) ∧ ∀ y, Present db y → ¬ Present db' y → Clean S db' y := by
    intro db c i
    have hv : Reach S db (c, i) (c, i) := .refl
    have e0 := ev_delOwnLinks S (Reach S db (c, i)) db c i hv
    unfold destroyStep
    simp only
    generalize hdb1 : ({ db with links := delOwnLinks S c i db.links } : DB) = db1 at e0 ⊢
    have hrows1 : db1.rows = db.rows := by subst hdb1; rfl
    have hlinks1 : ∀ l ∈ db1.links, ∀ j ∈ (S.cls c).joins, ¬ (l.table = j.table ∧ l.col j.ownFirst = i) := by
      subst hdb1; intro l hl; exact (mem_delOwnLinks.mp hl).2
    have hD : ∀ dbj, Ev S (Reach S db (c, i)) db1 dbj → ∀ r ∈ db1.rows, CascRef S r (c, i) →
        ∀ y, Reach S dbj r.key y → Reach S db (c, i) y := by
      intro dbj hj r hr hc y hy
      have h1 : Reach S db (c, i) r.key := .step (hrows1 ▸ hr) hc .refl
      exact h1.trans (Reach.back (e0.trans hj) hy)
    obtain ⟨e1, o1⟩ := procDeps_spec h (Reach S db (c, i)) c i hv (dependents S c) db1 hD
    cases hr : procDeps S rec c i (dependents S c) db1 with
    | ok db2 =>
      simp only
      rw [hr] at e1
      simp only [Res.db] at e1
      have e2 := ev_delRow S (Reach S db (c, i)) db2 c i hv
      refine ⟨(e0.trans e1).trans e2, ?_⟩
      intro db' hok
      simp only [Res.ok.injEq] at hok
      subst hok
      obtain ⟨a, b⟩ := o1 db2 hr
      have hclean : Clean S (delRow db2 c i) (c, i) := by
        refine ⟨fun hp => (present_delRow.mp hp).2 rfl, ?_, ?_, ?_⟩
        · intro r' hr' f hpol href
          have hr2 : r' ∈ db2.rows := by
            simp only [delRow, List.mem_filter] at hr'; exact hr'.1
          have hf : f ∈ depCols S c r'.cls := mem_depCols.mpr ⟨href.1, hpol⟩
          have hdep : r'.cls ∈ dependents S c := by
            rw [mem_dependents]
            simp only [isDependent, Bool.or_eq_true, Bool.not_eq_true']
            left
            cases hm : depCols S c r'.cls with
            | nil => rw [hm] at hf; cases hf
            | cons _ _ => rfl
          exact (a _ hdep).1 r' hr2 rfl f hpol href
        · intro l hl ht
          have hl2 : l ∈ db2.links := hl
          rcases ht with ⟨j, hj, h1, h2⟩ | ⟨k, j, hj, ho, h1, h2⟩
          · exact hlinks1 l (e1.links l hl2) j hj ⟨h1, h2⟩
          · have hdep : k ∈ dependents S c := by
              rw [mem_dependents]
              simp only [isDependent, Bool.or_eq_true]
              right
              exact List.any_eq_true.mpr ⟨j, hj, by simpa using ho⟩
            exact (a _ hdep).2 l hl2 j hj ho ⟨h1, h2⟩
        · simp [delRow, List.mem_filter]
      refine ⟨hclean, ?_⟩
      intro y hp hn
      by_cases hy : y = (c, i)
      · exact hy ▸ hclean
      · have hn2 : ¬ Present db2 y := fun hp2 => hn (present_delRow.mpr ⟨hp2, hy⟩)
        have hp1 : Present db1 y := by simpa [Present, hrows1] using hp
        exact (b y hp1 hn2).ev e2
    | refused db2 =>
      simp only
      rw [hr] at e1
      exact ⟨e0.trans e1, fun db' hok => by cases hok⟩
    | fuel db2 =>
      simp only
      rw [hr] at e1
      exact ⟨e0.trans e1, fun db' hok => by cases hok⟩
  exact ⟨fun db c i => (key db c i).1, fun db c i db' hok => (key db c i).2 db' hok⟩

theorem recOK_destroy (S : Schema) : ∀ n, RecOK S (destroy S n)
  | 0 => ⟨fun db _ _ => Ev.refl _ _ db, fun _ _ _ _ hok => by cases hok⟩
  | n + 1 => recOK_step (recOK_destroy S n)

/-- primary key: no two rows of a class share an id -/
def DB.WF (db : DB) : Prop := db.rows.Pairwise fun a b => a.key ≠ b.key

theorem DB.WF.uniq {db : DB} (h : db.WF) {a b : Row} (ha : a ∈ db.rows) (hb : b ∈ db.rows) (hk : a.key = b.key) : a = b := by
  unfold DB.WF at h
  generalize db.rows = l at h ha hb
  induction l with
  | nil => cases ha
  | cons x xs ih =>
    rw [List.pairwise_cons] at h
    rcases List.mem_cons.mp ha with rfl | ha' <;> rcases List.mem_cons.mp hb with rfl | hb'
    · rfl
    · exact absurd hk (h.1 b hb')
    · exact absurd hk.symm (h.1 a ha')
    · exact ih h.2 ha' hb'

/-- every key of the closure is clean afterwards -/
theorem closure_clean {S : Schema} {n : Nat} {db db' : DB} {c i : Nat} (hwf : db.WF)
    (hok : destroy S n db c i = .ok db') {x : Key} (hx : Reach S db (c, i) x) : Clean S db' x := by
  have E : Ev S (Reach S db (c, i)) db db' := by
    have := (recOK_destroy S n).ev db c i; rw [hok] at this; exact this
  obtain ⟨O1, O2⟩ := (recOK_destroy S n).ok db c i db' hok
  induction hx with
  | refl => exact O1
  | @step r y hr hc _ ih =>
    apply O2 _ ⟨r, hr, rfl⟩
    rintro ⟨r', hr', hk⟩
    obtain ⟨r0, hr0, h1, h2, _, h4⟩ := E.rows r' hr'
    have : r0 = r := hwf.uniq hr0 hr (by rw [← hk]; simp [Row.key, h1, h2])
    subst this
    obtain ⟨f, hp, ht, hv⟩ := hc
    have hval : r'.val f = some y.2 := by
      rcases h4 f with h | ⟨_, hn, _⟩
      · rw [h]; exact hv
      · rw [hp] at hn; cases hn
    exact ih.noref r' hr' f (by rw [← h1, hp]; simp) ⟨h1 ▸ ht, hval⟩

/-! ## termination on acyclic data -/

/-- `ρ` strictly decreases along cascade references: the data has no cascade cycle -/
def Ranked (S : Schema) (db : DB) (ρ : Key → Nat) : Prop :=
  ∀ r ∈ db.rows, ∀ y, CascRef S r y → ρ r.key < ρ y

theorem Ranked.ev {S : Schema} {D : Key → Prop} {db db' : DB} {ρ : Key → Nat} (h : Ev S D db db')
    (hr : Ranked S db ρ) : Ranked S db' ρ := by
  intro r' hr' y ⟨f, hp, hf⟩
  obtain ⟨r, hr0, hkey, hb⟩ := h.ref_back hr'
  have hcls : r.cls = r'.cls := by simpa [Row.key] using congrArg Prod.fst hkey
  rw [← hkey]
  exact hr r hr0 y ⟨f, hcls ▸ hp, hb f y hf⟩

def NoFuel (S : Schema) (ρ : Key → Nat) (m : Nat) (rec : DB → Nat → Nat → Res) : Prop :=
  ∀ db k j, Ranked S db ρ → ρ (k, j) < m → (rec db k j).isFuel = false

theorem destroyRows_nofuel {S : Schema} {rec : DB → Nat → Nat → Res} {ρ : Key → Nat} {m : Nat} (h : RecOK S rec)
    (ht : NoFuel S ρ m rec) (k : Nat) :
    ∀ (ids : List Nat) (db : DB), Ranked S db ρ → (∀ j ∈ ids, ρ (k, j) < m) →
      (destroyRows rec k ids db).isFuel = false := by
  intro ids
  induction ids with
  | nil => intro db _ _; rfl
  | cons i is ih =>
    intro db hr hm
    unfold destroyRows
    split
    · have h1 := ht db k i hr (hm i (by simp))
      have e1 := h.ev db k i
      cases hrec : rec db k i with
      | ok db' =>
        simp only
        rw [hrec] at e1
        exact ih db' (Ranked.ev e1 hr) (fun j hj => hm j (by simp [hj]))
      | refused db' => rfl
      | fuel db' => rw [hrec] at h1; cases h1
    · exact ih db hr (fun j hj => hm j (by simp [hj]))

theorem procDep_nofuel {S : Schema} {rec : DB → Nat → Nat → Res} {ρ : Key → Nat} {m : Nat} (h : RecOK S rec)
    (ht : NoFuel S ρ m rec) (c i : Nat) (db : DB) (k : Nat) (hr : Ranked S db ρ) (hm : ρ (c, i) ≤ m) :
    (procDep S rec c i db k).isFuel = false := by
  unfold procDep
  simp only
  have e1 := ev_delDepLinks S (fun _ => True) db k c i trivial
  generalize ({ db with links := delDepLinks S k c i db.links } : DB) = db1 at e1 ⊢
  split
  · rfl
  · split
    · rfl
    · next hres =>
      have hpass : (matching db1 k (restrictCols S k (depCols S c k)) i).isEmpty = true := by
        simpa using hres
      have e2 := ev_nullRefs S (fun _ => True) db1 k c i trivial
      split
      · apply destroyRows_nofuel h ht k _ _ (Ranked.ev (e1.trans e2) hr)
        intro j hj
        simp only [List.mem_map] at hj
        obtain ⟨r2, hr2, rfl⟩ := hj
        obtain ⟨hr2m, hk2, f, hf, hfv⟩ := mem_matching.mp hr2
        simp only [nullRefs, List.mem_map] at hr2m
        obtain ⟨r1, hr1, rfl⟩ := hr2m
        rw [nullRow_cls] at hk2
        have hp := passed_cascade hpass hr1 hk2 hf hfv
        have hc : CascRef S (nullRow S k (depCols S c k) i r1) (c, i) :=
          ⟨f, by rw [nullRow_cls, hk2]; exact hp, by rw [nullRow_cls, hk2]; exact (mem_depCols.mp hf).1, hfv⟩
        have hlt := Ranked.ev (e1.trans e2) hr _ (by simp only [nullRefs, List.mem_map]; exact ⟨r1, hr1, rfl⟩) _ hc
        have hkey : (nullRow S k (depCols S c k) i r1).key = (k, (nullRow S k (depCols S c k) i r1).id) := by
          simp [Row.key, nullRow_cls, hk2]
        rw [hkey] at hlt
        omega
      · rfl

theorem procDeps_nofuel {S : Schema} {rec : DB → Nat → Nat → Res} {ρ : Key → Nat} {m : Nat} (h : RecOK S rec)
    (ht : NoFuel S ρ m rec) (c i : Nat) (hm : ρ (c, i) ≤ m) :
    ∀ (ks : List Nat) (db : DB), Ranked S db ρ → (procDeps S rec c i ks db).isFuel = false := by
  intro ks
  induction ks with
  | nil => intro db _; rfl
  | cons k ks ih =>
    intro db hr
    unfold procDeps
    have h1 := procDep_nofuel h ht c i db k hr hm
    have e1 := (procDep_spec h (fun _ => True) c i db k trivial (fun _ _ _ _ _ _ _ => trivial)).1
    cases hrec : procDep S rec c i db k with
    | ok db' =>
      simp only
      rw [hrec] at e1
      exact ih db' (Ranked.ev e1 hr)
    | refused db' => rfl
    | fuel db' => rw [hrec] at h1; cases h1

theorem destroy_nofuel (S : Schema) (ρ : Key → Nat) : ∀ n, NoFuel S ρ n (destroy S n)
  | 0 => fun _ _ _ _ hlt => absurd hlt (Nat.not_lt_zero _)
  | n + 1 => by
    intro db c i hr hlt
    show (destroyStep S (destroy S n) db c i).isFuel = false
    unfold destroyStep
    simp only
    have e0 := ev_delOwnLinks S (fun _ => True) db c i trivial
    have h1 := procDeps_nofuel (recOK_destroy S n) (destroy_nofuel S ρ n) c i (by omega) (dependents S c) _ (Ranked.ev e0 hr)
    generalize procDeps S (destroy S n) c i (dependents S c) _ = res at h1
    cases res with
    | ok _ => rfl
    | refused _ => rfl
    | fuel _ => cases h1

/-! ## a refusal is always justified by a cascade=False reference into the closure -/

/-- some row references a member of the cascade closure of `v` through a `cascade=False` key -/
def Restricted (S : Schema) (db : DB) (v : Key) : Prop :=
  ∃ x, Reach S db v x ∧ ∃ r ∈ db.rows, ∃ f, (S.fk r.cls f).policy = .restrict ∧ RefVia S r f x

theorem Restricted.back {S : Schema} {D : Key → Prop} {db db' : DB} {v : Key} (h : Ev S D db db')
    (hq : Restricted S db' v) : Restricted S db v := by
  obtain ⟨x, hx, r', hr', f, hp, hf⟩ := hq
  obtain ⟨r, hr, hkey, hb⟩ := h.ref_back hr'
  have hcls : r.cls = r'.cls := by simpa [Row.key] using congrArg Prod.fst hkey
  exact ⟨x, Reach.back h hx, r, hr, f, hcls ▸ hp, hb f x hf⟩

theorem Restricted.of_reach {S : Schema} {db : DB} {v w : Key} (h : Reach S db v w) (hq : Restricted S db w) :
    Restricted S db v := by
  obtain ⟨x, hx, rest⟩ := hq
  exact ⟨x, h.trans hx, rest⟩

def RefusedOK (S : Schema) (rec : DB → Nat → Nat → Res) : Prop :=
  ∀ db k j db', rec db k j = .refused db' → Restricted S db (k, j)

theorem destroyRows_refused {S : Schema} {rec : DB → Nat → Nat → Res} (h : RecOK S rec) (hq : RefusedOK S rec) (k : Nat) :
    ∀ (ids : List Nat) (db db' : DB), destroyRows rec k ids db = .refused db' → ∃ j ∈ ids, Restricted S db (k, j) := by
  intro ids
  induction ids with
  | nil => intro db db' hr; cases hr
  | cons i is ih =>
    intro db db' hr
    unfold destroyRows at hr
    split at hr
    · have e1 := h.ev db k i
      cases hrec : rec db k i with
      | ok db1 =>
        rw [hrec] at hr e1
        simp only at hr
        obtain ⟨j, hj, hres⟩ := ih db1 db' hr
        exact ⟨j, by simp [hj], hres.back e1⟩
      | refused db1 =>
        exact ⟨i, by simp, hq db k i db1 hrec⟩
      | fuel db1 =>
        rw [hrec] at hr
        cases hr
    · obtain ⟨j, hj, hres⟩ := ih db db' hr
      exact ⟨j, by simp [hj], hres⟩

theorem procDep_refused {S : Schema} {rec : DB → Nat → Nat → Res} (h : RecOK S rec) (hq : RefusedOK S rec)
    (c i : Nat) (db db' : DB) (k : Nat) (hr : procDep S rec c i db k = .refused db') : Restricted S db (c, i) := by
  unfold procDep at hr
  simp only at hr
  have e1 := ev_delDepLinks S (fun _ => True) db k c i trivial
  generalize hdb1 : ({ db with links := delDepLinks S k c i db.links } : DB) = db1 at e1 hr
  have hrows1 : db1.rows = db.rows := by subst hdb1; rfl
  split at hr
  · cases hr
  · split at hr
    · next hne =>
      -- refused here: a row holds the victim's id in a cascade=False column
      cases hm : matching db1 k (restrictCols S k (depCols S c k)) i with
      | nil => rw [hm] at hne; simp at hne
      | cons r rs =>
        have hrm : r ∈ matching db1 k (restrictCols S k (depCols S c k)) i := by rw [hm]; simp
        obtain ⟨hr1, hk, f, hf, hv⟩ := mem_matching.mp hrm
        simp only [restrictCols, List.mem_filter, beq_iff_eq] at hf
        exact ⟨(c, i), .refl, r, hrows1 ▸ hr1, f, hk ▸ hf.2, by rw [hk]; exact (mem_depCols.mp hf.1).1, hv⟩
    · next hres =>
      have hpass : (matching db1 k (restrictCols S k (depCols S c k)) i).isEmpty = true := by
        simpa using hres
      have e2 := ev_nullRefs S (fun _ => True) db1 k c i trivial
      have e12 := e1.trans e2
      split at hr
      · obtain ⟨j, hj, hres⟩ := destroyRows_refused h hq k _ _ _ hr
        simp only [List.mem_map] at hj
        obtain ⟨r2, hr2, rfl⟩ := hj
        obtain ⟨hr2m, hk2, f, hf, hfv⟩ := mem_matching.mp hr2
        have hr2m' := hr2m
        simp only [nullRefs, List.mem_map] at hr2m
        obtain ⟨r1, hr1, rfl⟩ := hr2m
        rw [nullRow_cls] at hk2
        have hp := passed_cascade hpass hr1 hk2 hf hfv
        have hc : CascRef S (nullRow S k (depCols S c k) i r1) (c, i) :=
          ⟨f, by rw [nullRow_cls, hk2]; exact hp, by rw [nullRow_cls, hk2]; exact (mem_depCols.mp hf).1, hfv⟩
        have hkey : (nullRow S k (depCols S c k) i r1).key = (k, (nullRow S k (depCols S c k) i r1).id) := by
          simp [Row.key, nullRow_cls, hk2]
        have hreach : Reach S (nullRefs S db1 k (depCols S c k) i) (c, i) (k, (nullRow S k (depCols S c k) i r1).id) :=
          hkey ▸ Reach.step hr2m' hc .refl
        exact (Restricted.of_reach hreach hres).back e12
      · cases hr

theorem procDeps_refused {S : Schema} {rec : DB → Nat → Nat → Res} (h : RecOK S rec) (hq : RefusedOK S rec)
    (c i : Nat) : ∀ (ks : List Nat) (db db' : DB), procDeps S rec c i ks db = .refused db' → Restricted S db (c, i) := by
  intro ks
  induction ks with
  | nil => intro db db' hr; cases hr
  | cons k ks ih =>
    intro db db' hr
    unfold procDeps at hr
    have e1 := (procDep_spec h (fun _ => True) c i db k trivial (fun _ _ _ _ _ _ _ => trivial)).1
    cases hrec : procDep S rec c i db k with
    | ok db1 =>
      rw [hrec] at hr e1
      simp only at hr
      exact (ih db1 db' hr).back e1
    | refused db1 => exact procDep_refused h hq c i db db1 k hrec
    | fuel db1 => rw [hrec] at hr; cases hr

theorem refusedOK_destroy (S : Schema) : ∀ n, RefusedOK S (destroy S n)
  | 0 => fun _ _ _ _ hr => by cases hr
  | n + 1 => by
    intro db c i db' hr
    change destroyStep S (destroy S n) db c i = .refused db' at hr
    unfold destroyStep at hr
    simp only at hr
    have e0 := ev_delOwnLinks S (fun _ => True) db c i trivial
    cases hrec : procDeps S (destroy S n) c i (dependents S c) { db with links := delOwnLinks S c i db.links } with
    | ok db2 => rw [hrec] at hr; cases hr
    | refused db2 =>
      exact (procDeps_refused (recOK_destroy S n) (refusedOK_destroy S n) c i _ _ _ hrec).back e0
    | fuel db2 => rw [hrec] at hr; cases hr

/-! ## acyclic data has a bounded rank -/

section
open Classical

/-- a nonempty path of cascade references from a row (given by its key) to a key -/
inductive CPath (S : Schema) (db : DB) : Key → Key → Prop
  | one {r : Row} {y : Key} : r ∈ db.rows → CascRef S r y → CPath S db r.key y
  | cons {r : Row} {y z : Key} : r ∈ db.rows → CascRef S r y → CPath S db y z → CPath S db r.key z

/-- no row reaches itself through cascade=True references -/
def AcyclicData (S : Schema) (db : DB) : Prop := ∀ x, ¬ CPath S db x x

theorem CPath.snoc {S : Schema} {db : DB} {x k : Key} (h : CPath S db x k) :
    ∀ {r : Row} {y : Key}, r ∈ db.rows → r.key = k → CascRef S r y → CPath S db x y := by
  induction h with
  | @one r0 k hr0 hc0 =>
    intro r y hr hk hc
    exact .cons hr0 (hk ▸ hc0) (hk ▸ CPath.one hr hc)
  | @cons r0 m k hr0 hc0 _ ih =>
    intro r y hr hk hc
    exact .cons hr0 hc0 (ih hr hk hc)

/-- `Chain y l`: `l` lists rows `r₁, r₂, …` with `r₁ → y`, `r₂ → r₁`, … (cascade references) -/
inductive Chain (S : Schema) (db : DB) : Key → List Key → Prop
  | nil (y : Key) : Chain S db y []
  | cons {r : Row} {y : Key} {l : List Key} : r ∈ db.rows → CascRef S r y → Chain S db r.key l → Chain S db y (r.key :: l)

theorem Chain.path {S : Schema} {db : DB} {y : Key} {l : List Key} (h : Chain S db y l) :
    ∀ x ∈ l, CPath S db x y := by
  induction h with
  | nil => intro x hx; cases hx
  | @cons r y l hr hc _ ih =>
    intro x hx
    rcases List.mem_cons.mp hx with rfl | hx
    · exact .one hr hc
    · exact (ih x hx).snoc hr rfl hc

theorem Chain.rows {S : Schema} {db : DB} {y : Key} {l : List Key} (h : Chain S db y l) :
    l ⊆ db.rows.map Row.key := by
  induction h with
  | nil => intro x hx; cases hx
  | @cons r y l hr _ _ ih =>
    intro x hx
    rcases List.mem_cons.mp hx with rfl | hx
    · exact List.mem_map.mpr ⟨r, hr, rfl⟩
    · exact ih hx

theorem Chain.nodup {S : Schema} {db : DB} (hac : AcyclicData S db) {y : Key} {l : List Key}
    (h : Chain S db y l) : l.Nodup := by
  induction h with
  | nil => exact List.nodup_nil
  | @cons r y l _ _ hch ih =>
    rw [List.nodup_cons]
    exact ⟨fun hm => hac _ (hch.path _ hm), ih⟩

theorem Chain.length_le {S : Schema} {db : DB} (hac : AcyclicData S db) {y : Key} {l : List Key}
    (h : Chain S db y l) : l.length ≤ db.rows.length := by
  have := (h.nodup hac).length_le_of_subset h.rows
  simpa using this

/-- greatest `n ≤ N` satisfying `P` (0 if none) -/
noncomputable def greatest (P : Nat → Prop) : Nat → Nat
  | 0 => 0
  | N + 1 => if P (N + 1) then N + 1 else greatest P N

theorem greatest_spec (P : Nat → Prop) (h0 : P 0) : ∀ N, P (greatest P N) ∧ greatest P N ≤ N ∧ ∀ n ≤ N, P n → n ≤ greatest P N
  | 0 => ⟨h0, Nat.le_refl _, fun n hn _ => hn⟩
  | N + 1 => by
    obtain ⟨a, b, c⟩ := greatest_spec P h0 N
    unfold greatest
    by_cases h : P (N + 1)
    · rw [if_pos h]
      exact ⟨h, Nat.le_refl _, fun n hn _ => hn⟩
    · rw [if_neg h]
      refine ⟨a, Nat.le_succ_of_le b, fun n hn hp => ?_⟩
      rcases Nat.lt_or_ge n (N + 1) with hlt | hge
      · exact c n (by omega) hp
      · have : n = N + 1 := by omega
        exact absurd (this ▸ hp) h

/-- length of the longest chain of cascade referrers below a key -/
noncomputable def height (S : Schema) (db : DB) (y : Key) : Nat :=
  greatest (fun n => ∃ l, Chain S db y l ∧ l.length = n) db.rows.length

/-- **graph lemma**: acyclic data has a rank that strictly decreases along cascade references and is bounded by
    the number of rows -/
theorem ranked_of_acyclic {S : Schema} {db : DB} (hac : AcyclicData S db) :
    Ranked S db (height S db) ∧ ∀ y, height S db y ≤ db.rows.length := by
  have spec := fun y => greatest_spec (fun n => ∃ l, Chain S db y l ∧ l.length = n) ⟨[], .nil y, rfl⟩ db.rows.length
  refine ⟨?_, fun y => (spec y).2.1⟩
  intro r hr y hc
  obtain ⟨⟨l, hl, hlen⟩, _, _⟩ := spec r.key
  have hch : Chain S db y (r.key :: l) := .cons hr hc hl
  have hle := hch.length_le hac
  have := (spec y).2.2 (l.length + 1) (by simpa using hle) ⟨r.key :: l, hch, by simp⟩
  unfold height
  omega

end

/-! ## fuel monotonicity -/

/-- `rec'` answers like `rec` wherever `rec` did not run out of fuel -/
def Refines (rec rec' : DB → Nat → Nat → Res) : Prop :=
  ∀ db k j, (rec db k j).isFuel = false → rec' db k j = rec db k j

theorem destroyRows_refines {rec rec' : DB → Nat → Nat → Res} (h : Refines rec rec') (k : Nat) :
    ∀ (ids : List Nat) (db : DB), (destroyRows rec k ids db).isFuel = false →
      destroyRows rec' k ids db = destroyRows rec k ids db := by
  intro ids
  induction ids with
  | nil => intro db _; rfl
  | cons i is ih =>
    intro db hnf
    unfold destroyRows at hnf ⊢
    split
    · next hp =>
      rw [if_pos hp] at hnf
      cases hrec : rec db k i with
      | ok db' =>
        rw [hrec] at hnf
        rw [h db k i (by rw [hrec]; rfl), hrec]
        exact ih db' hnf
      | refused db' =>
        rw [h db k i (by rw [hrec]; rfl), hrec]
      | fuel db' =>
        rw [hrec] at hnf
        cases hnf
    · next hp =>
      rw [if_neg hp] at hnf
      exact ih db hnf

theorem procDep_refines {S : Schema} {rec rec' : DB → Nat → Nat → Res} (h : Refines rec rec') (c i : Nat) (db : DB) (k : Nat)
    (hnf : (procDep S rec c i db k).isFuel = false) : procDep S rec' c i db k = procDep S rec c i db k := by
  unfold procDep at hnf ⊢
  simp only at hnf ⊢
  split
  · rfl
  · next h1 =>
    rw [if_neg h1] at hnf
    split
    · rfl
    · next h2 =>
      rw [if_neg h2] at hnf
      split
      · next h3 =>
        rw [if_pos h3] at hnf
        exact destroyRows_refines h k _ _ hnf
      · rfl

theorem procDeps_refines {S : Schema} {rec rec' : DB → Nat → Nat → Res} (h : Refines rec rec') (c i : Nat) :
    ∀ (ks : List Nat) (db : DB), (procDeps S rec c i ks db).isFuel = false →
      procDeps S rec' c i ks db = procDeps S rec c i ks db := by
  intro ks
  induction ks with
  | nil => intro db _; rfl
  | cons k ks ih =>
    intro db hnf
    unfold procDeps at hnf ⊢
    cases hrec : procDep S rec c i db k with
    | ok db' =>
      rw [hrec] at hnf
      rw [procDep_refines h c i db k (by rw [hrec]; rfl), hrec]
      exact ih db' hnf
    | refused db' =>
      rw [procDep_refines h c i db k (by rw [hrec]; rfl), hrec]
    | fuel db' =>
      rw [hrec] at hnf
      cases hnf

theorem destroyStep_refines {S : Schema} {rec rec' : DB → Nat → Nat → Res} (h : Refines rec rec') :
    Refines (destroyStep S rec) (destroyStep S rec') := by
  intro db c i hnf
  unfold destroyStep at hnf ⊢
  simp only at hnf ⊢
  have key : (procDeps S rec c i (dependents S c) { db with links := delOwnLinks S c i db.links }).isFuel = false := by
    cases hr : procDeps S rec c i (dependents S c) { db with links := delOwnLinks S c i db.links } with
    | ok _ => rfl
    | refused _ => rfl
    | fuel _ => rw [hr] at hnf; cases hnf
  rw [procDeps_refines h c i _ _ key]

/-- more fuel never changes an outcome that was reached without running out of it -/
theorem destroy_refines (S : Schema) : ∀ n, Refines (destroy S n) (destroy S (n + 1))
  | 0 => fun _ _ _ h => by cases h
  | n + 1 => destroyStep_refines (destroy_refines S n)

theorem destroy_fuel_mono (S : Schema) (n m : Nat) (db : DB) (c i : Nat) (hnf : (destroy S n db c i).isFuel = false)
    (hm : n ≤ m) : destroy S m db c i = destroy S n db c i := by
  induction m with
  | zero => have : n = 0 := by omega
            subst this; rfl
  | succ m ih =>
    rcases Nat.lt_or_ge m n with hlt | hge
    · have : n = m + 1 := by omega
      subst this; rfl
    · have e := ih hge
      rw [destroy_refines S m db c i (by rw [e]; exact hnf), e]

theorem CPath.rank_lt {S : Schema} {db : DB} {ρ : Key → Nat} (h : Ranked S db ρ) {x y : Key} (p : CPath S db x y) :
    ρ x < ρ y := by
  induction p with
  | one hr hc => exact h _ hr _ hc
  | cons hr hc _ ih => exact Nat.lt_trans (h _ hr _ hc) ih

end SqlObjVerif.Graph
