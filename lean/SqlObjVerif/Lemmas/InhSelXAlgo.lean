import SqlObjVerif.Model.InhSelX
import SqlObjVerif.Lemmas.InheritXGet
/-!
The join-chain computation of `InheritableSelectResults.__init__` as pure functions (`Model/InhSelX.lean`: `regStep`,
`step3`, `step2`): association-list lemmas, the walk `while currentClass:` (`walk_get`), and the result when every table
the query uses lies on the class chain of the deepest one: the registry ends as `{deepest ↦ topmost used}`
(`registry_chain`), whatever order `allClasses()` yields the classes in.
-/
set_option linter.unusedSimpArgs false
namespace SqlObjVerif.InhSel
open SqlObjVerif.PyIS (Sql)
open SqlObjVerif.Inherit hiding Val Res Cmp Out

/-- the keys of a registry dict are distinct -/
def KN (R : AL) : Prop := (R.map (·.1)).Nodup

theorem alGet_none_iff (k : Nat) (R : AL) : alGet k R = none ↔ k ∉ R.map (·.1) := by
  induction R with
  | nil => simp [alGet]
  | cons p R ih =>
    obtain ⟨k', v⟩ := p
    by_cases h : k' = k
    · simp [alGet, h]
    · have h' : ¬ k = k' := fun e => h e.symm
      simp [alGet, h, h', ih]

theorem alGet_alSet (k v y : Nat) (R : AL) : alGet y (alSet k v R) = if y = k then some v else alGet y R := by
  induction R with
  | nil =>
    by_cases h : y = k
    · simp [alSet, alGet, h]
    · have h' : ¬ k = y := fun e => h e.symm
      simp [alSet, alGet, h, h']
  | cons p R ih =>
    obtain ⟨k', v'⟩ := p
    by_cases h : k' = k
    · subst h
      by_cases hy : y = k' <;> simp [alSet, alGet, hy, eq_comm]
    · simp only [alSet, h, if_false, alGet, ih]
      by_cases hy : y = k
      · subst hy; simp [h]
      · simp [hy]

theorem KN_alSet (k v : Nat) (R : AL) (hn : KN R) : KN (alSet k v R) := by
  induction R with
  | nil => simp [alSet, KN]
  | cons p R ih =>
    obtain ⟨k', v'⟩ := p
    simp only [KN, List.map_cons, List.nodup_cons] at hn
    by_cases h : k' = k
    · subst h; simpa [alSet, KN] using hn
    · simp only [alSet, h, if_false, KN, List.map_cons, List.nodup_cons]
      refine ⟨?_, ih hn.2⟩
      rw [← alGet_none_iff, alGet_alSet, if_neg h, alGet_none_iff]
      exact hn.1

theorem alDel_sublist (k : Nat) (R : AL) : (alDel k R).Sublist R := by
  induction R with
  | nil => simp [alDel]
  | cons p R ih =>
    obtain ⟨k', v'⟩ := p
    by_cases h : k' = k
    · simp [alDel, h]
    · simp only [alDel, h, if_false]; exact ih.cons_cons _

theorem KN_alDel (k : Nat) (R : AL) (hn : KN R) : KN (alDel k R) :=
  List.Nodup.sublist ((alDel_sublist k R).map _) hn

theorem alGet_alDel (k y : Nat) (R : AL) (hn : KN R) : alGet y (alDel k R) = if y = k then none else alGet y R := by
  induction R with
  | nil => simp [alDel, alGet]
  | cons p R ih =>
    obtain ⟨k', v'⟩ := p
    simp only [KN, List.map_cons, List.nodup_cons] at hn
    by_cases h : k' = k
    · subst h
      simp only [alDel, if_true, alGet]
      by_cases hy : y = k'
      · subst hy; simp [alGet_none_iff, hn.1]
      · have : ¬ k' = y := fun e => hy e.symm
        simp [hy, this]
    · simp only [alDel, h, if_false, alGet, ih hn.2]
      by_cases hy : y = k
      · subst hy; simp [h]
      · simp [hy]

theorem al_eq_single (R : AL) (hn : KN R) (d t : Nat) (hd : alGet d R = some t)
    (ho : ∀ y, y ≠ d → alGet y R = none) : R = [(d, t)] := by
  cases R with
  | nil => simp [alGet] at hd
  | cons p R =>
    obtain ⟨k, v⟩ := p
    have hk : k = d := by
      apply Classical.byContradiction; intro hne
      have := ho k hne
      simp [alGet] at this
    subst hk
    simp only [alGet, if_true, Option.some.injEq] at hd
    subst hd
    cases R with
    | nil => rfl
    | cons q R =>
      obtain ⟨k2, v2⟩ := q
      simp only [KN, List.map_cons, List.nodup_cons, List.mem_cons, not_or] at hn
      have hne : k2 ≠ k := fun e => hn.1.1 e.symm
      have := ho k2 hne
      have h' : ¬ k = k2 := hn.1.1
      simp [alGet, h'] at this

/-- the topmost class of the walked chain that satisfies `p` (`acc` when there is none) -/
def topUsed (p : Nat → Bool) : List Nat → Option Nat → Option Nat
  | [], acc => acc
  | z :: zs, acc => topUsed p zs (if p z then some z else acc)

/-- lookups after the walk `while currentClass:` over `ys` (which does not contain `x`) -/
theorem walk_get (copy : AL) (x : Nat) : ∀ (ys : List Nat) (R : AL), KN R → x ∉ ys →
    KN (ys.foldl (step3 copy x) R) ∧
    ∀ y, alGet y (ys.foldl (step3 copy x) R) =
      if y = x then topUsed (fun z => (alGet z copy).isSome) ys (alGet x R)
      else if y ∈ ys ∧ (alGet y copy).isSome then none else alGet y R := by
  intro ys
  induction ys with
  | nil =>
    intro R hn _
    refine ⟨hn, fun y => ?_⟩
    by_cases hy : y = x <;> simp [topUsed, hy]
  | cons z zs ih =>
    intro R hn hx
    simp only [List.mem_cons, not_or] at hx
    have hzx : z ≠ x := fun e => hx.1 e.symm
    have hn1 : KN (step3 copy x R z) := by
      unfold step3
      split
      · apply KN_alSet
        split
        · exact KN_alDel _ _ hn
        · exact hn
      · exact hn
    have hg1 : ∀ y, alGet y (step3 copy x R z) =
        if (alGet z copy).isSome then (if y = x then some z else if y = z then none else alGet y R) else alGet y R := by
      intro y
      unfold step3
      by_cases hc : (alGet z copy).isSome = true
      · simp only [hc, if_true, alGet_alSet]
        by_cases hy : y = x
        · simp [hy]
        · simp only [hy, if_false]
          by_cases hz : (alGet z R).isSome = true
          · simp only [hz, if_true, alGet_alDel _ _ _ hn]
          · simp only [hz, if_false]
            by_cases hyz : y = z
            · subst hyz
              cases hh : alGet y R with
              | none => simp [hh]
              | some v => simp [hh] at hz
            · simp [hyz]
      · simp [hc]
    obtain ⟨hn2, hg2⟩ := ih _ hn1 hx.2
    refine ⟨hn2, ?_⟩
    intro y
    simp only [List.foldl_cons, hg2, hg1, topUsed]
    by_cases hy : y = x
    · subst hy
      by_cases hc : (alGet z copy).isSome = true <;> simp [hc]
    · simp only [hy, if_false, List.mem_cons]
      by_cases hyz : y = z
      · subst hyz
        by_cases hc : (alGet y copy).isSome = true <;> simp [hc]
      · by_cases hc : (alGet z copy).isSome = true <;> simp [hc, hyz]


theorem alSet_fresh (k v : Nat) (R : AL) (hk : alGet k R = none) : alSet k v R = R ++ [(k, v)] := by
  induction R with
  | nil => rfl
  | cons p R ih =>
    obtain ⟨k', v'⟩ := p
    by_cases h : k' = k
    · simp [alGet, h] at hk
    · simp only [alGet, h, if_false] at hk
      simp [alSet, h, ih hk]

theorem alGet_append_single (y c v : Nat) (R : AL) (hy : alGet y R = none) (hne : y ≠ c) :
    alGet y (R ++ [(c, v)]) = none := by
  rw [alGet_none_iff] at hy ⊢
  simp only [List.map_append, List.map_cons, List.map_nil, List.mem_append, List.mem_singleton, not_or]
  exact ⟨hy, hne⟩

/-- loop 1 builds the identity dict of the used classes, in registry order -/
theorem regfold (tabs : List Nat) : ∀ (reg : List Nat) (acc : AL), reg.Nodup → (∀ c, c ∈ reg → alGet c acc = none) →
    reg.foldl (regStep tabs) acc = acc ++ idAL (reg.filter fun c => tabs.contains c) := by
  intro reg
  induction reg with
  | nil => intro acc _ _; simp [idAL]
  | cons c reg ih =>
    intro acc hnd hfresh
    rw [List.nodup_cons] at hnd
    simp only [List.foldl_cons]
    by_cases hc : c ∈ tabs
    · have hc' : tabs.contains c = true := by simpa using hc
      have h1 : regStep tabs acc c = acc ++ [(c, c)] := by
        simp only [regStep, hc', if_true]
        exact alSet_fresh c c acc (hfresh c List.mem_cons_self)
      rw [h1, ih _ hnd.2]
      · simp [List.filter_cons, hc, idAL]
      · intro c' hc''
        apply alGet_append_single _ _ _ _ (hfresh c' (List.mem_cons_of_mem _ hc''))
        intro e; exact hnd.1 (e ▸ hc'')
    · have hc' : ¬ tabs.contains c = true := by simpa using hc
      have h1 : regStep tabs acc c = acc := by simp only [regStep, hc', if_false]; rfl
      rw [h1, ih _ hnd.2 (fun c' hc'' => hfresh c' (List.mem_cons_of_mem _ hc''))]
      simp [List.filter_cons, hc]

theorem alGet_idAL (z : Nat) (ks : List Nat) : alGet z (idAL ks) = if z ∈ ks then some z else none := by
  induction ks with
  | nil => simp [idAL, alGet]
  | cons k ks ih =>
    simp only [idAL, List.map_cons, alGet, List.mem_cons] at ih ⊢
    by_cases h : k = z
    · simp [h]
    · have h' : ¬ z = k := fun e => h e.symm
      simp [h, h', ih]

theorem KN_idAL (ks : List Nat) (hnd : ks.Nodup) : KN (idAL ks) := by
  show ((ks.map fun c => (c, c)).map (·.1)).Nodup
  rw [List.map_map]
  have : ((fun x : Nat × Nat => x.1) ∘ fun c => (c, c)) = id := rfl
  rw [this, List.map_id]; exact hnd

theorem topUsed_some (p : Nat → Bool) : ∀ (l : List Nat) (a : Nat), ∃ b, topUsed p l (some a) = some b ∧ (b = a ∨ p b = true) := by
  intro l
  induction l with
  | nil => intro a; exact ⟨a, rfl, Or.inl rfl⟩
  | cons z zs ih =>
    intro a
    simp only [topUsed]
    by_cases hz : p z = true
    · obtain ⟨b, hb, hor⟩ := ih z
      refine ⟨b, by simpa [hz] using hb, ?_⟩
      rcases hor with rfl | hp
      · exact Or.inr hz
      · exact Or.inr hp
    · obtain ⟨b, hb, hor⟩ := ih a
      exact ⟨b, by simpa [hz] using hb, hor⟩

/-- the topmost used class above-or-equal `d` -/
def topOf (T : Tree) (ks : List Nat) (d : Nat) : Nat :=
  (topUsed (fun z => (alGet z (idAL ks)).isSome) (T.anc d).tail (some d)).getD d

theorem anc_eq_cons' (T : Tree) (c : Nat) : T.anc c = c :: (T.anc c).tail := by
  have := anc_head T c
  cases hl : T.anc c with
  | nil => rw [hl] at this; cases this
  | cons x xs => rw [hl] at this; simp at this; subst this; rfl

/-- lookups after one full `for childClass` step on a class still in the registry -/
theorem step2_get {T : Tree} (h : T.WF) (ks : List Nat) (x : Nat) (hx : x ∈ ks) (R : AL) (hn : KN R)
    (hin : (alGet x R).isSome = true) :
    KN (step2 T (idAL ks) R x) ∧
    ∀ y, alGet y (step2 T (idAL ks) R x) =
      if y = x then some (topOf T ks x)
      else if y ∈ (T.anc x).tail ∧ y ∈ ks then none else alGet y R := by
  have hnd := anc_nodup h x
  rw [anc_eq_cons'] at hnd
  rw [List.nodup_cons] at hnd
  have hcx : (alGet x (idAL ks)).isSome = true := by simp [alGet_idAL, hx]
  have hR1n : KN (step3 (idAL ks) x R x) := by
    simp only [step3, hcx, if_true, hin]
    exact KN_alSet _ _ _ (KN_alDel _ _ hn)
  have hR1g : ∀ y, alGet y (step3 (idAL ks) x R x) = if y = x then some x else alGet y R := by
    intro y
    simp only [step3, hcx, if_true, hin, alGet_alSet, alGet_alDel _ _ _ hn]
    by_cases hy : y = x <;> simp [hy]
  obtain ⟨hn2, hg2⟩ := walk_get (idAL ks) x (T.anc x).tail _ hR1n hnd.1
  have hstep : step2 T (idAL ks) R x = (T.anc x).tail.foldl (step3 (idAL ks) x) (step3 (idAL ks) x R x) := by
    simp only [step2, hin, if_true]
    conv => lhs; rw [anc_eq_cons']
    rfl
  rw [hstep]
  refine ⟨hn2, ?_⟩
  intro y
  rw [hg2, hR1g, hR1g]
  by_cases hy : y = x
  · simp only [hy, if_true, topOf]
    obtain ⟨b, hb, _⟩ := topUsed_some (fun z => (alGet z (idAL ks)).isSome) (T.anc x).tail x
    rw [hb]; rfl
  · simp only [hy, if_false, alGet_idAL]
    by_cases hyk : y ∈ ks <;> simp [hyk]

/-- all used classes lie on the chain of the deepest one: the registry ends as `{deepest ↦ topmost}` -/
theorem registry_chain {T : Tree} (h : T.WF) (ks : List Nat) (hnd : ks.Nodup) (d : Nat) (hd : d ∈ ks)
    (hall : ∀ c, c ∈ ks → c ∈ T.anc d) :
    ks.foldl (step2 T (idAL ks)) (idAL ks) = [(d, topOf T ks d)] := by
  obtain ⟨pre, post, hsplit⟩ := List.append_of_mem hd
  have hpre : ∀ x, x ∈ pre → x ∈ ks ∧ x ≠ d := by
    intro x hx
    refine ⟨by rw [hsplit]; simp [hx], ?_⟩
    rintro rfl
    rw [hsplit] at hnd
    have := (List.nodup_append.1 hnd).2.2 x hx x List.mem_cons_self
    exact this rfl
  have hpost : ∀ x, x ∈ post → x ≠ d := by
    intro x hx
    rintro rfl
    rw [hsplit] at hnd
    have := (List.nodup_append.1 hnd).2.1
    rw [List.nodup_cons] at this
    exact this.1 hx
  -- phase A
  have hA : ∀ (l : List Nat) (R : AL), (∀ x, x ∈ l → x ∈ ks ∧ x ≠ d) → KN R → alGet d R = some d →
      (∀ y, y ∉ ks → alGet y R = none) →
      KN (l.foldl (step2 T (idAL ks)) R) ∧ alGet d (l.foldl (step2 T (idAL ks)) R) = some d ∧
      (∀ y, y ∉ ks → alGet y (l.foldl (step2 T (idAL ks)) R) = none) := by
    intro l
    induction l with
    | nil => intro R _ hn hdR hout; exact ⟨hn, hdR, hout⟩
    | cons x l ih =>
      intro R hl hn hdR hout
      obtain ⟨hxk, hxd⟩ := hl x List.mem_cons_self
      simp only [List.foldl_cons]
      apply ih _ (fun x' hx' => hl x' (List.mem_cons_of_mem _ hx'))
      all_goals by_cases hin : (alGet x R).isSome = true
      · exact (step2_get h ks x hxk R hn hin).1
      · simpa [step2, hin] using hn
      · rw [(step2_get h ks x hxk R hn hin).2, if_neg (fun e => hxd e.symm)]
        have : d ∉ (T.anc x).tail := by
          intro hmem
          have h1 : d ∈ T.anc x := by rw [anc_eq_cons']; exact List.mem_cons_of_mem _ hmem
          have h2 := mem_anc_le h x d h1
          have h3 := mem_anc_le h d x (hall x hxk)
          exact hxd (Nat.le_antisymm h3 h2)
        simp [this, hdR]
      · simpa [step2, hin] using hdR
      · intro y hy
        rw [(step2_get h ks x hxk R hn hin).2]
        have : y ≠ x := fun e => hy (e ▸ hxk)
        simp [this, hy, hout y hy]
      · simpa [step2, hin] using hout
  obtain ⟨hn1, hd1, hout1⟩ := hA pre (idAL ks) hpre (KN_idAL ks hnd) (by simp [alGet_idAL, hd])
    (fun y hy => by simp [alGet_idAL, hy])
  -- phase d
  have hD : step2 T (idAL ks) (pre.foldl (step2 T (idAL ks)) (idAL ks)) d = [(d, topOf T ks d)] := by
    obtain ⟨hn2, hg2⟩ := step2_get h ks d hd _ hn1 (by simp [hd1])
    apply al_eq_single _ hn2
    · rw [hg2]; simp
    · intro y hy
      rw [hg2, if_neg hy]
      by_cases hyk : y ∈ ks
      · have : y ∈ (T.anc d).tail := by
          have := hall y hyk
          rw [anc_eq_cons'] at this
          simpa [hy] using this
        simp [this, hyk]
      · simp [hyk, hout1 y hyk]
  -- phase B
  have hB : ∀ (l : List Nat), (∀ x, x ∈ l → x ≠ d) →
      l.foldl (step2 T (idAL ks)) [(d, topOf T ks d)] = [(d, topOf T ks d)] := by
    intro l
    induction l with
    | nil => intro _; rfl
    | cons x l ih =>
      intro hl
      have hx := hl x List.mem_cons_self
      have : step2 T (idAL ks) [(d, topOf T ks d)] x = [(d, topOf T ks d)] := by
        have hx' : ¬ d = x := fun e => hx e.symm
        simp [step2, alGet, hx']
      simp only [List.foldl_cons, this]
      exact ih (fun x' hx' => hl x' (List.mem_cons_of_mem _ hx'))
  rw [hsplit, List.foldl_append, List.foldl_cons]
  rw [hsplit] at hD hB
  rw [hD]
  exact hB post hpost

end SqlObjVerif.InhSel
