import SqlObjVerif.Lemmas.SelXRepr
/-!
# C03 translation — the whole translated `Select.__sqlrepr__` composed

`Select_sqlrepr_spec`: all 25 statements and 4 loops of the translated function, for EVERY interface, on a Select
without joins / GROUP BY / HAVING / ORDER BY / DISTINCT ON and with all columns: the returned text is
`selectText` (`SELECT [DISTINCT] items [FROM sorted tables] [WHERE clause]`), handed to `_queryAddLimitOffset` when a
window is set, then ` FOR UPDATE`.  Method: stage predicates `Sl` (slots 0, 1, 2 and the heap) and `Sj` (no joins, the
table set so far); every statement lemma has the form "there is a next state satisfying the stage predicate"; the block
is unfolded once with `exec_cons` and the statements are consumed by `rw`.
-/
namespace SqlObjVerif.SelX
open SqlObjVerif.PyExpr hiding Expr Exprs Stmt Block Res
open SqlObjVerif.PySel SqlObjVerif.PySel.Extracted

set_option linter.unusedSimpArgs false

/-- the state holds the Select in slot 0, the dialect in slot 1, the text so far in slot 2, and the heap is `h` -/
structure Sl (s : St) (p : Nat) (db : Val) (h : Heap) (sel : Str) : Prop where
  e0 : s.env 0 = some (selObj p)
  e1 : s.env 1 = some db
  e2 : s.env 2 = some (.str sel)
  hh : s.heap = h

/-- no joins (`join = []`, `join_str = ''`) and the table set collected so far -/
structure Sj (s : St) (T : List Str) : Prop where
  e4 : s.env 4 = some (.list [])
  e5 : s.env 5 = some (.str [])
  e7 : s.env 7 = some (setV (T.map .str))

theorem Sl.put {s : St} {p : Nat} {db : Val} {h : Heap} {sel : Str} (a : Sl s p db h sel) (k : Nat) (v : Val)
    (h0 : k ≠ 0) (h1 : k ≠ 1) (h2 : k ≠ 2) : Sl (s.put k v) p db h sel :=
  ⟨by simp [St.put, Ne.symm h0, a.e0], by simp [St.put, Ne.symm h1, a.e1], by simp [St.put, Ne.symm h2, a.e2], a.hh⟩

theorem Sl.put2 {s : St} {p : Nat} {db : Val} {h : Heap} {sel : Str} (a : Sl s p db h sel) (sel' : Str) :
    Sl (s.put 2 (.str sel')) p db h sel' :=
  ⟨by simp [St.put, a.e0], by simp [St.put, a.e1], by simp [St.put], a.hh⟩

theorem Sj.put {s : St} {T : List Str} (a : Sj s T) (k : Nat) (v : Val) (h4 : k ≠ 4) (h5 : k ≠ 5) (h7 : k ≠ 7) :
    Sj (s.put k v) T :=
  ⟨by simp [St.put, Ne.symm h4, a.e4], by simp [St.put, Ne.symm h5, a.e5], by simp [St.put, Ne.symm h7, a.e7]⟩

theorem Sj.put7 {s : St} {T : List Str} (a : Sj s T) (T' : List Str) : Sj (s.put 7 (setV (T'.map .str))) T' :=
  ⟨by simp [St.put, a.e4], by simp [St.put, a.e5], by simp [St.put]⟩

macro "pyk" : tactic => `(tactic|
  simp [PySel.Block.exec, PySel.Stmt.exec, PySel.Expr.eval, PySel.Exprs.eval, Target.bind, bindAll,
    attrS, attrOf, aget, St.put, indexS, refOf_refV, selObj, keyRes, globV, noDefault, forLoop, iterOf, *])

/-! ### statements that do nothing in the fragment (no join, no GROUP BY / HAVING / ORDER BY) -/

theorem skip_s5 (I : SIface) (s : St) (p : Nat) (d : Dict) (h0 : s.env 0 = some (selObj p))
    (hp : s.heap.cells p = some d) (hj : aget k_join d = some noDefault) :
    PySel.Stmt.exec I s Select_sqlrepr_s5 = .norm s := by
  have hj' : aget [106, 111, 105, 110] d = some (globV "@NoDefault") := hj
  simp only [Select_sqlrepr_s5]; pyk

theorem skip_s17 (I : SIface) (s : St) (p : Nat) (d : Dict) (h0 : s.env 0 = some (selObj p))
    (hp : s.heap.cells p = some d) (hj : aget k_groupBy d = some noDefault) :
    PySel.Stmt.exec I s Select_sqlrepr_s17 = .norm s := by
  have hj' : aget [103, 114, 111, 117, 112, 66, 121] d = some (globV "@NoDefault") := hj
  simp only [Select_sqlrepr_s17]; pyk

theorem skip_s18 (I : SIface) (s : St) (p : Nat) (d : Dict) (h0 : s.env 0 = some (selObj p))
    (hp : s.heap.cells p = some d) (hj : aget k_having d = some noDefault) :
    PySel.Stmt.exec I s Select_sqlrepr_s18 = .norm s := by
  have hj' : aget [104, 97, 118, 105, 110, 103] d = some (globV "@NoDefault") := hj
  simp only [Select_sqlrepr_s18]; pyk

theorem skip_s19 (I : SIface) (s : St) (p : Nat) (d : Dict) (ob : Val) (h0 : s.env 0 = some (selObj p))
    (hp : s.heap.cells p = some d) (hj : aget k_orderBy d = some ob) (hob : ob = noDefault ∨ ob = .none) :
    PySel.Stmt.exec I s Select_sqlrepr_s19 = .norm s := by
  have hj' : aget [111, 114, 100, 101, 114, 66, 121] d = some ob := hj
  simp only [Select_sqlrepr_s19]
  rcases hob with rfl | rfl <;> pyk

/-- the two loops over `join` when there is no join, and `if join_str:` -/
theorem skip_joins (I : SIface) (s : St) (h4 : s.env 4 = some (.list [])) (h5 : s.env 5 = some (.str [])) :
    PySel.Stmt.exec I s Select_sqlrepr_s11 = .norm s ∧ PySel.Stmt.exec I s Select_sqlrepr_s14 = .norm s ∧
    PySel.Stmt.exec I s Select_sqlrepr_s15 = .norm s := by
  refine ⟨?_, ?_, ?_⟩
  · simp only [Select_sqlrepr_s11]; pyk
  · simp only [Select_sqlrepr_s14]; pyk
  · simp only [Select_sqlrepr_s15]; pyk

/-! ### sets of table names -/

def addStr (T : List Str) (x : Str) : List Str := if T.any (fun y => x == y) then T else T ++ [x]

def unionStr (T : List Str) : List Str → List Str
  | [] => T
  | y :: l => unionStr (addStr T y) l

theorem any_map_str (T : List Str) (x : Str) : (T.map Val.str).any (valEqStr (.str x)) = T.any (fun y => x == y) := by
  induction T with
  | nil => rfl
  | cons a T ih => simp only [List.map_cons, List.any_cons, ih, valEqStr]

theorem setAdd_map (T : List Str) (x : Str) : setAdd (T.map .str) (.str x) = (addStr T x).map .str := by
  unfold setAdd addStr
  rw [any_map_str]
  split <;> simp

theorem setUnion_map (ys : List Str) : ∀ T : List Str, setUnion (T.map .str) (ys.map .str) = (unionStr T ys).map .str := by
  induction ys with
  | nil => intro T; rfl
  | cons y ys ih => intro T; simp only [List.map_cons, setUnion, unionStr, setAdd_map, ih]

/-! ### the loops that collect the table set -/

theorem body7 (I : SIface) (hsub : ∀ h, (I.E h).isSub = ExprX.isSub) (s : St) (T : List Str) (x : Str)
    (h7 : s.env 7 = some (setV (T.map .str))) :
    PySel.Block.exec I (s.put 8 (.str x)) Select_sqlrepr_for0 =
      .norm ((s.put 8 (.str x)).put 7 (setV ((addStr T x).map .str))) := by
  have hn : ExprX.isSub "str" "SQLExpression" = false := by decide
  simp only [Select_sqlrepr_for0]
  pyk
  simp [hsub, hn, mutateS, mutate1, setMut, h7, setAdd_map]
  rfl

/-- `for x in self.ops['staticTables']: … tables.add(x)` over table NAMES -/
theorem loop7 (I : SIface) (hsub : ∀ h, (I.E h).isSub = ExprX.isSub) (p : Nat) (db : Val) (h : Heap) (sel : Str) :
    ∀ (sts : List Str) (s : St) (T : List Str), Sl s p db h sel → Sj s T →
    ∃ s', forLoop (fun s' v => PySel.Block.exec I (s'.put 8 v) Select_sqlrepr_for0) (sts.map .str) s = .norm s' ∧
      Sl s' p db h sel ∧ Sj s' (sts.foldl addStr T) := by
  intro sts
  induction sts with
  | nil => intro s T a b; exact ⟨s, rfl, a, b⟩
  | cons x sts ih =>
    intro s T a b
    simp only [List.map_cons, forLoop, body7 I hsub s T x b.e7, List.foldl_cons]
    exact ih _ _ ((a.put 8 _ (by decide) (by decide) (by decide)).put 7 _ (by decide) (by decide) (by decide))
      ((b.put 8 _ (by decide) (by decide) (by decide)).put7 _)

/-- what one `thing` contributes: nothing unless it is an `SQLExpression`, else the names `tablesUsedSet` returns -/
def Contributes (I : SIface) (h : Heap) (db : Val) (v : Val) (ys : List Str) : Prop :=
  ((I.E h).isSub (typeName v) "SQLExpression" = false ∧ ys = []) ∨
  ((I.E h).isSub (typeName v) "SQLExpression" = true ∧
    ∃ r, (I.E h).call "tablesUsedSet" [v, db] = .ok r ∧ updItems r = some (ys.map .str))

theorem callS_tus (I : SIface) (h : Heap) (args : List Val) :
    callS I h "tablesUsedSet" args = (I.E h).call "tablesUsedSet" args := by
  have e1 : ("tablesUsedSet" = "set") = False := by decide
  have e2 : ("tablesUsedSet" = "list") = False := by decide
  have e3 : ("tablesUsedSet" = "str") = False := by decide
  have e4 : ("tablesUsedSet" = "sorted") = False := by decide
  have e5 : ("tablesUsedSet" = "int") = False := by decide
  have e6 : ("tablesUsedSet" = "repr") = False := by decide
  simp only [callS, callFn, e1, e2, e3, e4, e5, e6, if_false]

theorem body10 (I : SIface) (s : St) (db : Val) (T : List Str) (v : Val) (ys : List Str)
    (h1 : s.env 1 = some db) (h7 : s.env 7 = some (setV (T.map .str))) (hc : Contributes I s.heap db v ys) :
    PySel.Block.exec I (s.put 10 v) Select_sqlrepr_for1 =
      .norm ((s.put 10 v).put 7 (setV ((unionStr T ys).map .str))) := by
  simp only [Select_sqlrepr_for1]
  rcases hc with ⟨hf, rfl⟩ | ⟨ht, r, hr, hu⟩
  · pyk
    simp only [unionStr]
    cases s with
    | mk env heap =>
      simp only [St.mk.injEq, and_true]
      funext y; simp only [Env.put_apply]
      by_cases e7 : y = 7
      · subst e7; simp at h7 ⊢; exact h7
      · simp [e7]
  · pyk
    simp [callS_tus, h1, hr, mutateS, mutate1, setMut, h7, hu, setUnion_map]
    rfl

/-- `for thing in things: if isinstance(thing, SQLExpression): tables.update(tablesUsedSet(thing, db))` -/
theorem loop10 (I : SIface) (p : Nat) (db : Val) (h : Heap) (sel : Str) :
    ∀ (ths : List Val) (yss : List (List Str)) (s : St) (T : List Str),
    ExprX.AllR (Contributes I h db) ths yss → Sl s p db h sel → Sj s T →
    ∃ s', forLoop (fun s' v => PySel.Block.exec I (s'.put 10 v) Select_sqlrepr_for1) ths s = .norm s' ∧
      Sl s' p db h sel ∧ Sj s' (yss.foldl unionStr T) := by
  intro ths yss s T hall
  induction hall generalizing s T with
  | nil => intro a b; exact ⟨s, rfl, a, b⟩
  | cons hx _ ih =>
    intro a b
    simp only [forLoop, body10 I s db T _ _ a.e1 b.e7 (a.hh ▸ hx), List.foldl_cons]
    exact ih _ _ ((a.put 10 _ (by decide) (by decide) (by decide)).put 7 _ (by decide) (by decide) (by decide))
      ((b.put 10 _ (by decide) (by decide) (by decide)).put7 _)

/-! ### the remaining statements -/

theorem stmt_s7 (I : SIface) (hsub : ∀ h, (I.E h).isSub = ExprX.isSub) (s : St) (p : Nat) (db : Val) (h : Heap)
    (sel : Str) (d : Dict) (sts T : List Str) (a : Sl s p db h sel) (b : Sj s T) (hp : h.cells p = some d)
    (hst : aget k_staticTables d = some (.list (sts.map .str))) :
    ∃ s', PySel.Stmt.exec I s Select_sqlrepr_s7 = .norm s' ∧ Sl s' p db h sel ∧ Sj s' (sts.foldl addStr T) := by
  have hst' : aget [115, 116, 97, 116, 105, 99, 84, 97, 98, 108, 101, 115] d = some (.list (sts.map .str)) := hst
  have h0 := a.e0
  have hp' : s.heap.cells p = some d := a.hh ▸ hp
  obtain ⟨s', e, r⟩ := loop7 I hsub p db h sel sts s T a b
  refine ⟨s', ?_, r⟩
  simp only [Select_sqlrepr_s7]
  simp [PySel.Stmt.exec, PySel.Expr.eval, attrS, attrOf, aget, indexS, refOf_refV, selObj, keyRes, h0, hp', hst', iterOf,
    St.put, e]
  exact e

theorem stmt_s8_s9 (I : SIface) (s : St) (p : Nat) (db : Val) (h : Heap) (sel : Str) (d : Dict) (vs : List Val)
    (c : Val) (T : List Str) (a : Sl s p db h sel) (b : Sj s T) (hp : h.cells p = some d)
    (hi : aget k_items d = some (.list vs)) (hc : aget k_clause d = some c) :
    ∃ s', (∀ k : St → Res, ((PySel.Stmt.exec I s Select_sqlrepr_s8).seq fun s1 =>
        (PySel.Stmt.exec I s1 Select_sqlrepr_s9).seq k) = k s') ∧
      Sl s' p db h sel ∧ Sj s' T ∧
      s'.env 9 = some (.list (if typeName c == "@NoDefault" then vs else vs ++ [c])) := by
  have hi' : aget [105, 116, 101, 109, 115] d = some (.list vs) := hi
  have hc' : aget [99, 108, 97, 117, 115, 101] d = some c := hc
  have h0 := a.e0
  have h4 := b.e4
  have hp' : s.heap.cells p = some d := a.hh ▸ hp
  have e8 : PySel.Stmt.exec I s Select_sqlrepr_s8 = .norm (s.put 9 (.list vs)) := by
    simp only [Select_sqlrepr_s8]
    simp [PySel.Stmt.exec, PySel.Expr.eval, PySel.Exprs.eval, attrS, attrOf, aget, indexS, refOf_refV, selObj, keyRes, h0,
      h4, hp', hi', callS, addS, Target.bind, St.put]
  have a9 := a.put 9 (.list vs) (by decide) (by decide) (by decide)
  have b9 := b.put 9 (.list vs) (by decide) (by decide) (by decide)
  cases hn : (typeName c == "@NoDefault")
  · refine ⟨(s.put 9 (.list vs)).put 9 (.list (vs ++ [c])), fun k => ?_, a9.put 9 _ (by decide) (by decide) (by decide),
      b9.put 9 _ (by decide) (by decide) (by decide), by simp [St.put]⟩
    rw [e8, PySel.Res.seq_norm]
    suffices hh : PySel.Stmt.exec I (s.put 9 (.list vs)) Select_sqlrepr_s9 =
        .norm ((s.put 9 (.list vs)).put 9 (.list (vs ++ [c]))) by rw [hh, PySel.Res.seq_norm]
    simp only [Select_sqlrepr_s9]
    simp [PySel.Block.exec, PySel.Stmt.exec, PySel.Expr.eval, PySel.Exprs.eval, attrS, attrOf, aget, indexS, refOf_refV,
      selObj, keyRes, h0, hp', hc', hn, St.put, mutateS, mutate1, listMut]
  · refine ⟨s.put 9 (.list vs), fun k => ?_, a9, b9, by simp [St.put]⟩
    rw [e8, PySel.Res.seq_norm]
    suffices hh : PySel.Stmt.exec I (s.put 9 (.list vs)) Select_sqlrepr_s9 = .norm (s.put 9 (.list vs)) by
      rw [hh, PySel.Res.seq_norm]
    simp only [Select_sqlrepr_s9]
    simp [PySel.Block.exec, PySel.Stmt.exec, PySel.Expr.eval, PySel.Exprs.eval, attrS, attrOf, aget, indexS, refOf_refV,
      selObj, keyRes, h0, hp', hc', hn, St.put]

theorem stmt_s10 (I : SIface) (s : St) (p : Nat) (db : Val) (h : Heap) (sel : Str) (ths : List Val)
    (yss : List (List Str)) (T : List Str) (a : Sl s p db h sel) (b : Sj s T) (h9 : s.env 9 = some (.list ths))
    (hall : ExprX.AllR (Contributes I h db) ths yss) :
    ∃ s', PySel.Stmt.exec I s Select_sqlrepr_s10 = .norm s' ∧ Sl s' p db h sel ∧ Sj s' (yss.foldl unionStr T) := by
  obtain ⟨s', e, r⟩ := loop10 I p db h sel ths yss s T hall a b
  refine ⟨s', ?_, r⟩
  simp only [Select_sqlrepr_s10]
  simp [PySel.Stmt.exec, PySel.Expr.eval, h9, iterOf, St.put]
  exact e

@[simp] theorem truthyS_int (i : Int) : truthyS (.int i) = (i != 0) := by simp [truthyS, setOf, truthy]

/-- `end` after `if self.ops['limit'] is not NoDefault: end = start + self.ops['limit']` -/
def endOf (lim : Val) (st : Int) (en : Val) : Val :=
  match lim with
  | .int l => .int (st + l)
  | _ => en

/-- `dbConnectionForScheme(db)._queryAddLimitOffset(select, start, end)` through the interface -/
def limitCall (I : SIface) (h : Heap) (db : Val) (sel : Str) (st : Int) (en : Val) : R Val :=
  ((I.E h).call "dbConnectionForScheme" [db]).bind fun c => methodS I h c "_queryAddLimitOffset" [.str sel, .int st, en]

theorem callS_conn (I : SIface) (h : Heap) (args : List Val) :
    callS I h "dbConnectionForScheme" args = (I.E h).call "dbConnectionForScheme" args := by
  unfold callS
  rw [if_neg (by decide), if_neg (by decide), if_neg (by decide), if_neg (by decide)]
  unfold callFn
  rw [if_neg (by decide), if_neg (by decide)]

/-- the LIMIT / OFFSET hand-off (statements 20–22): when `start` is non-zero or `end` (after adding a limit) is not
    `None`, the text so far is replaced by what `_queryAddLimitOffset` returns -/
theorem stmt_limit (I : SIface) (s : St) (p : Nat) (db : Val) (h : Heap) (sel sel2 : Str) (d : Dict) (st : Int)
    (en lim : Val) (a : Sl s p db h sel) (hp : h.cells p = some d) (hs : aget k_start d = some (.int st))
    (he : aget k_end d = some en) (hl : aget k_limit d = some lim)
    (hlim : lim = noDefault ∨ ∃ l, lim = .int l) (hen : en = .none ∨ ∃ e, en = .int e)
    (hcall : (st != 0 || !isNoneV (endOf lim st en)) = true → limitCall I h db sel st (endOf lim st en) = .ok (.str sel2)) :
    ∃ s', (∀ k : St → Res, ((PySel.Stmt.exec I s Select_sqlrepr_s20).seq fun s1 =>
        (PySel.Stmt.exec I s1 Select_sqlrepr_s21).seq fun s2 => (PySel.Stmt.exec I s2 Select_sqlrepr_s22).seq k) = k s') ∧
      Sl s' p db h (if (st != 0 || !isNoneV (endOf lim st en)) then sel2 else sel) := by
  have hs' : aget [115, 116, 97, 114, 116] d = some (.int st) := hs
  have he' : aget [101, 110, 100] d = some en := he
  have hl' : aget [108, 105, 109, 105, 116] d = some lim := hl
  have h0 := a.e0
  have h1 := a.e1
  have h2 := a.e2
  have hp' : s.heap.cells p = some d := a.hh ▸ hp
  have e20 : PySel.Stmt.exec I s Select_sqlrepr_s20 = .norm ((s.put 20 (.int st)).put 21 en) := by
    simp only [Select_sqlrepr_s20]
    simp [PySel.Stmt.exec, PySel.Expr.eval, PySel.Exprs.eval, attrS, attrOf, aget, indexS, refOf_refV, selObj, keyRes, h0,
      hp', hs', he', Target.bind, bindAll, St.put]
  have a1 : Sl ((s.put 20 (.int st)).put 21 en) p db h sel :=
    (a.put 20 _ (by decide) (by decide) (by decide)).put 21 _ (by decide) (by decide) (by decide)
  have e21 : PySel.Stmt.exec I ((s.put 20 (.int st)).put 21 en) Select_sqlrepr_s21 =
      .norm (((s.put 20 (.int st)).put 21 en).put 21 (endOf lim st en)) := by
    simp only [Select_sqlrepr_s21]
    rcases hlim with rfl | ⟨l, rfl⟩
    · simp [PySel.Block.exec, PySel.Stmt.exec, PySel.Expr.eval, attrS, attrOf, aget, indexS, refOf_refV, selObj, keyRes, h0,
        hp', hl', St.put, noDefault, globV, endOf]
      cases s; simp only [St.mk.injEq, and_true]; funext y; simp only [Env.put_apply]; split <;> rfl
    · simp [PySel.Block.exec, PySel.Stmt.exec, PySel.Expr.eval, attrS, attrOf, aget, indexS, refOf_refV, selObj, keyRes, h0,
        hp', hl', St.put, endOf, addS, pyAdd, Target.bind]
  have a2 : Sl (((s.put 20 (.int st)).put 21 en).put 21 (endOf lim st en)) p db h sel :=
    a1.put 21 _ (by decide) (by decide) (by decide)
  have hen' : (isNoneV (endOf lim st en) = true) ∨ ∃ e, endOf lim st en = .int e := by
    rcases hlim with rfl | ⟨l, rfl⟩
    · rcases hen with rfl | ⟨e, rfl⟩
      · left; rfl
      · right; exact ⟨e, rfl⟩
    · right; exact ⟨_, rfl⟩
  by_cases hneed : (st != 0 || !isNoneV (endOf lim st en)) = true
  · have hc := hcall hneed
    unfold limitCall at hc
    rw [if_pos hneed]
    refine ⟨(((s.put 20 (.int st)).put 21 en).put 21 (endOf lim st en)).put 2 (.str sel2), fun k => ?_, a2.put2 sel2⟩
    rw [e20, PySel.Res.seq_norm, e21, PySel.Res.seq_norm]
    suffices hh : PySel.Stmt.exec I (((s.put 20 (.int st)).put 21 en).put 21 (endOf lim st en)) Select_sqlrepr_s22 =
        .norm ((((s.put 20 (.int st)).put 21 en).put 21 (endOf lim st en)).put 2 (.str sel2)) by
      rw [hh, PySel.Res.seq_norm]
    simp only [Select_sqlrepr_s22]
    have h1' := a2.e1; have h2' := a2.e2
    have hh2 : (((s.put 20 (.int st)).put 21 en).put 21 (endOf lim st en)).heap = h := a2.hh
    cases hst0 : (st != 0)
    · simp only [hst0, Bool.false_or] at hneed
      simp [PySel.Block.exec, PySel.Stmt.exec, PySel.Expr.eval, PySel.Exprs.eval, St.put, hst0, hneed, callS_conn, Target.bind]
      simp [St.put] at h1' h2' hh2
      simp [h1', h2', hh2, a.e1, a.e2, a.hh]
      cases hcc : (I.E h).call "dbConnectionForScheme" [db] with
      | ok c => rw [hcc] at hc; simp at hc; simp [hc]
      | exc e => rw [hcc] at hc; simp at hc
      | stuck => rw [hcc] at hc; simp at hc
    · simp [PySel.Block.exec, PySel.Stmt.exec, PySel.Expr.eval, PySel.Exprs.eval, St.put, hst0, callS_conn, Target.bind]
      simp [St.put] at h1' h2' hh2
      simp [a.e1, a.e2, a.hh]
      cases hcc : (I.E h).call "dbConnectionForScheme" [db] with
      | ok c => rw [hcc] at hc; simp at hc; simp [hc]
      | exc e => rw [hcc] at hc; simp at hc
      | stuck => rw [hcc] at hc; simp at hc
  · rw [if_neg hneed]
    refine ⟨((s.put 20 (.int st)).put 21 en).put 21 (endOf lim st en), fun k => ?_, a2⟩
    rw [e20, PySel.Res.seq_norm, e21, PySel.Res.seq_norm]
    suffices hh : PySel.Stmt.exec I (((s.put 20 (.int st)).put 21 en).put 21 (endOf lim st en)) Select_sqlrepr_s22 =
        .norm (((s.put 20 (.int st)).put 21 en).put 21 (endOf lim st en)) by rw [hh, PySel.Res.seq_norm]
    have hn2 : (st != 0) = false ∧ isNoneV (endOf lim st en) = true := by
      cases h1 : (st != 0) <;> cases h2 : isNoneV (endOf lim st en) <;> simp [h1, h2] at hneed ⊢
    simp only [Select_sqlrepr_s22]
    simp [PySel.Block.exec, PySel.Stmt.exec, PySel.Expr.eval, St.put, hn2.1, hn2.2]

/-! ### the statement lemmas in "there is a next state" form -/

theorem E0 (I : SIface) (p : Nat) (db : Val) (h : Heap) :
    ∃ s', PySel.Stmt.exec I ⟨Env.ofArgs [selObj p, db], h⟩ Select_sqlrepr_s0 = .norm s' ∧
      Sl s' p db h [83, 69, 76, 69, 67, 84] := by
  refine ⟨(⟨Env.ofArgs [selObj p, db], h⟩ : St).put 2 (.str [83, 69, 76, 69, 67, 84]), ?_, ⟨rfl, rfl, rfl, rfl⟩⟩
  simp only [Select_sqlrepr_s0]; simp [PySel.Stmt.exec, PySel.Expr.eval, Target.bind, St.put]

theorem E1 (I : SIface) (s : St) (p : Nat) (db : Val) (h : Heap) (sel : Str) (d : Dict) (b : Bool)
    (a : Sl s p db h sel) (hp : h.cells p = some d) (hc : aget k_distinct d = some (.bool b))
    (hon : aget k_distinctOn d = some noDefault) :
    ∃ s', PySel.Stmt.exec I s Select_sqlrepr_s1 = .norm s' ∧
      Sl s' p db h (sel ++ (if b then [32, 68, 73, 83, 84, 73, 78, 67, 84] else [])) := by
  rw [sqlrepr_distinct I s p d b sel a.e0 a.e2 (by rw [a.hh]; exact hp) hc hon]
  cases b
  · exact ⟨s, rfl, by simpa using a⟩
  · exact ⟨_, rfl, by simpa using a.put2 _⟩

theorem E2 (I : SIface) (s : St) (p : Nat) (db : Val) (h : Heap) (sel : Str) (d : Dict) (vs : List Val) (ts : List Str)
    (a : Sl s p db h sel) (hp : h.cells p = some d) (hl : aget k_lazyColumns d = some (.bool false))
    (hi : aget k_items d = some (.list vs))
    (ht : ExprX.AllR (fun v t => (I.E h).call "_str_or_sqlrepr" [v, db] = .ok (.str t)) vs ts) :
    ∃ s', PySel.Stmt.exec I s Select_sqlrepr_s2 = .norm s' ∧ Sl s' p db h (sel ++ (32 :: joinStr [44, 32] ts)) := by
  rw [sqlrepr_items I s p d db vs ts sel a.e0 a.e1 a.e2 (by rw [a.hh]; exact hp) hl hi (by rw [a.hh]; exact ht)]
  exact ⟨_, rfl, a.put2 _⟩

/-- `join = []`, `join_str = ''`, the join statement (no join), `tables = set()` -/
theorem E3456 (I : SIface) (s : St) (p : Nat) (db : Val) (h : Heap) (sel : Str) (d : Dict)
    (a : Sl s p db h sel) (hp : h.cells p = some d) (hj : aget k_join d = some noDefault) :
    ∃ s', (∀ k : St → Res, ((PySel.Stmt.exec I s Select_sqlrepr_s3).seq fun s1 =>
        (PySel.Stmt.exec I s1 Select_sqlrepr_s4).seq fun s2 => (PySel.Stmt.exec I s2 Select_sqlrepr_s5).seq fun s3 =>
        (PySel.Stmt.exec I s3 Select_sqlrepr_s6).seq k) = k s') ∧
      Sl s' p db h sel ∧ Sj s' [] := by
  have e3 : PySel.Stmt.exec I s Select_sqlrepr_s3 = .norm (s.put 4 (.list [])) := by
    simp only [Select_sqlrepr_s3]; simp [PySel.Stmt.exec, PySel.Expr.eval, PySel.Exprs.eval, Target.bind, St.put]
  have e4 : PySel.Stmt.exec I (s.put 4 (.list [])) Select_sqlrepr_s4 = .norm ((s.put 4 (.list [])).put 5 (.str [])) := by
    simp only [Select_sqlrepr_s4]; simp [PySel.Stmt.exec, PySel.Expr.eval, Target.bind, St.put]
  have a2 : Sl ((s.put 4 (.list [])).put 5 (.str [])) p db h sel :=
    (a.put 4 _ (by decide) (by decide) (by decide)).put 5 _ (by decide) (by decide) (by decide)
  have e5 := skip_s5 I ((s.put 4 (.list [])).put 5 (.str [])) p d a2.e0 (by rw [a2.hh]; exact hp) hj
  have e6 : PySel.Stmt.exec I ((s.put 4 (.list [])).put 5 (.str [])) Select_sqlrepr_s6 =
      .norm (((s.put 4 (.list [])).put 5 (.str [])).put 7 (setV [])) := by
    simp only [Select_sqlrepr_s6]; simp [PySel.Stmt.exec, PySel.Expr.eval, PySel.Exprs.eval, Target.bind, St.put, callS]
  refine ⟨((s.put 4 (.list [])).put 5 (.str [])).put 7 (setV []), fun k => ?_,
    a2.put 7 _ (by decide) (by decide) (by decide), ⟨by simp [St.put], by simp [St.put], by simp [St.put]⟩⟩
  rw [e3, PySel.Res.seq_norm, e4, PySel.Res.seq_norm, e5, PySel.Res.seq_norm, e6, PySel.Res.seq_norm]

theorem E12 (I : SIface) (s : St) (p : Nat) (db : Val) (h : Heap) (sel : Str) (T : List Str)
    (a : Sl s p db h sel) (b : Sj s T) :
    ∃ s', PySel.Stmt.exec I s Select_sqlrepr_s12 = .norm s' ∧ Sj s' T ∧
      Sl s' p db h (if T.isEmpty then sel else sel ++ ([32, 70, 82, 79, 77, 32] ++ joinStr [44, 32] (sortS I.strLe T))) := by
  rw [sqlrepr_from I s T sel a.e2 b.e7 b.e4]
  cases hT : T.isEmpty
  · exact ⟨s.put 2 (.str (sel ++ ([32, 70, 82, 79, 77, 32] ++ joinStr [44, 32] (sortS I.strLe T)))), by simp,
      b.put 2 _ (by decide) (by decide) (by decide), by simpa using a.put2 _⟩
  · exact ⟨s, by simp, b, by simpa using a⟩

/-- ` WHERE <clause text>` appended, when there is a clause -/
def appWhere (sel : Str) : Option Str → Str
  | Option.none => sel
  | some t => sel ++ ([32, 87, 72, 69, 82, 69, 32] ++ t)

theorem E16 (I : SIface) (s : St) (p : Nat) (db : Val) (h : Heap) (sel : Str) (d : Dict) (c : Val) (ct : Option Str)
    (a : Sl s p db h sel) (hp : h.cells p = some d) (hc : aget k_clause d = some c)
    (hcn : ct = Option.none → (typeName c == "@NoDefault") = true)
    (hcs : ∀ t, ct = some t → (typeName c == "@NoDefault") = false ∧
      (I.E h).call "_str_or_sqlrepr" [c, db] = .ok (.str t)) :
    ∃ s', PySel.Stmt.exec I s Select_sqlrepr_s16 = .norm s' ∧
      Sl s' p db h (appWhere sel ct) := by
  cases ct with
  | none =>
    refine ⟨s, ?_, a⟩
    have hc' : aget [99, 108, 97, 117, 115, 101] d = some c := hc
    have h0 := a.e0
    have hp' : s.heap.cells p = some d := by rw [a.hh]; exact hp
    have hn : (typeName c == "@NoDefault") = true := hcn rfl
    simp only [Select_sqlrepr_s16]
    simp [PySel.Block.exec, PySel.Stmt.exec, PySel.Expr.eval, attrS, attrOf, aget, indexS, refOf_refV, selObj, keyRes, h0,
      hp', hc', hn]
  | some t =>
    have hcl := hcs t rfl
    rw [sqlrepr_where I s p d c db sel t a.e0 a.e1 a.e2 (by rw [a.hh]; exact hp) hc (by rw [a.hh]; exact hcl.2), hcl.1]
    exact ⟨s.put 2 (.str (appWhere sel (some t))), by simp [appWhere], a.put2 _⟩

theorem E23 (I : SIface) (s : St) (p : Nat) (db : Val) (h : Heap) (sel : Str) (d : Dict) (b : Bool)
    (a : Sl s p db h sel) (hp : h.cells p = some d) (hc : aget k_forUpdate d = some (.bool b)) :
    ∃ s', PySel.Stmt.exec I s Select_sqlrepr_s23 = .norm s' ∧
      Sl s' p db h (sel ++ (if b then [32, 70, 79, 82, 32, 85, 80, 68, 65, 84, 69] else [])) := by
  rw [sqlrepr_forUpdate I s p d b sel a.e0 a.e2 (by rw [a.hh]; exact hp) hc]
  cases b
  · exact ⟨s, rfl, by simpa using a⟩
  · exact ⟨_, rfl, by simpa using a.put2 _⟩

/-! ### the text-level hand model of the statement, and the composition -/

def selectKw : Str := [83, 69, 76, 69, 67, 84]

/-- `SELECT [DISTINCT] <items> [FROM <tables, sorted>] [WHERE <clause>]` -/
def selectText (le : Str → Str → Bool) (bd : Bool) (its T : List Str) (ct : Option Str) : Str :=
  let s0 := selectKw ++ (if bd then [32, 68, 73, 83, 84, 73, 78, 67, 84] else [])
  let s1 := s0 ++ (32 :: joinStr [44, 32] its)
  let s2 := if T.isEmpty then s1 else s1 ++ ([32, 70, 82, 79, 77, 32] ++ joinStr [44, 32] (sortS le T))
  appWhere s2 ct

/-- the things whose tables are collected: the items, then the clause unless it is `NoDefault` -/
def thingsOf (vs : List Val) (c : Val) : List Val := if typeName c == "@NoDefault" then vs else vs ++ [c]

/-- **`Select.__sqlrepr__` as translated** (all 25 statements and 4 loops), for every interface, on a Select without
    joins, GROUP BY, HAVING, ORDER BY and DISTINCT ON, all columns: the text is
    `SELECT [DISTINCT] items [FROM sorted(tables)] [WHERE clause]`, handed to `_queryAddLimitOffset` when a window is
    set, then ` FOR UPDATE` -/
theorem Select_sqlrepr_spec (I : SIface) (hsub : ∀ h, (I.E h).isSub = ExprX.isSub) (h : Heap) (p : Nat) (db : Val)
    (o : OpsM) (hp : h.cells p = some (opsDict o)) (bd bf : Bool) (vs : List Val) (its sts : List Str)
    (yss : List (List Str)) (ct : Option Str) (st : Int) (sel2 : Str)
    (hd : o.distinct = .bool bd) (hdo : o.distinctOn = noDefault) (hlz : o.lazyColumns = .bool false)
    (hit : o.items = .list vs) (hj : o.join = noDefault) (hst : o.staticTables = .list (sts.map .str))
    (hg : o.groupBy = noDefault) (hhv : o.having = noDefault) (hob : o.orderBy = noDefault ∨ o.orderBy = .none)
    (hfu : o.forUpdate = .bool bf) (hstart : o.start = .int st)
    (hlim : o.limit = noDefault ∨ ∃ l, o.limit = .int l) (hen : o.end_ = .none ∨ ∃ e, o.end_ = .int e)
    (hits : ExprX.AllR (fun v t => (I.E h).call "_str_or_sqlrepr" [v, db] = .ok (.str t)) vs its)
    (hcn : ct = Option.none → (typeName o.clause == "@NoDefault") = true)
    (hcs : ∀ t, ct = some t → (typeName o.clause == "@NoDefault") = false ∧
      (I.E h).call "_str_or_sqlrepr" [o.clause, db] = .ok (.str t))
    (hall : ExprX.AllR (Contributes I h db) (thingsOf vs o.clause) yss)
    (hcall : (st != 0 || !isNoneV (endOf o.limit st o.end_)) = true →
      limitCall I h db (selectText I.strLe bd its (yss.foldl unionStr (sts.foldl addStr [])) ct) st
        (endOf o.limit st o.end_) = .ok (.str sel2)) :
    runP I Select_sqlrepr [selObj p, db] h =
      .ok (.str ((if (st != 0 || !isNoneV (endOf o.limit st o.end_)) then sel2
          else selectText I.strLe bd its (yss.foldl unionStr (sts.foldl addStr [])) ct) ++
        (if bf then [32, 70, 79, 82, 32, 85, 80, 68, 65, 84, 69] else []))) := by
  have ag_distinct : aget k_distinct (opsDict o) = some (.bool bd) := by rw [← hd]; simp [opsDict, aget, k_distinct, k_items, k_clause, k_groupBy, k_having, k_orderBy, k_limit, k_join, k_lazyColumns]
  have ag_distinctOn : aget k_distinctOn (opsDict o) = some noDefault := by rw [← hdo]; simp [opsDict, aget, k_distinctOn, k_distinct, k_items, k_clause, k_groupBy, k_having, k_orderBy, k_limit, k_join, k_lazyColumns]
  have ag_lazy : aget k_lazyColumns (opsDict o) = some (.bool false) := by rw [← hlz]; simp [opsDict, aget, k_items, k_clause, k_groupBy, k_having, k_orderBy, k_limit, k_join, k_lazyColumns]
  have ag_items : aget k_items (opsDict o) = some (.list vs) := by rw [← hit]; simp [opsDict, aget]
  have ag_join : aget k_join (opsDict o) = some noDefault := by rw [← hj]; simp [opsDict, aget, k_items, k_clause, k_groupBy, k_having, k_orderBy, k_limit, k_join]
  have ag_static : aget k_staticTables (opsDict o) = some (.list (sts.map .str)) := by rw [← hst]; simp [opsDict, aget, k_staticTables, k_distinctOn, k_distinct, k_items, k_clause, k_groupBy, k_having, k_orderBy, k_limit, k_join, k_lazyColumns, k_start, k_end, k_reversed, k_forUpdate]
  have ag_clause : aget k_clause (opsDict o) = some o.clause := by simp [opsDict, aget, k_items, k_clause]
  have ag_group : aget k_groupBy (opsDict o) = some noDefault := by rw [← hg]; simp [opsDict, aget, k_items, k_clause, k_groupBy]
  have ag_having : aget k_having (opsDict o) = some noDefault := by rw [← hhv]; simp [opsDict, aget, k_items, k_clause, k_groupBy, k_having]
  have ag_order : aget k_orderBy (opsDict o) = some o.orderBy := by simp [opsDict, aget, k_items, k_clause, k_groupBy, k_having, k_orderBy]
  have ag_fu : aget k_forUpdate (opsDict o) = some (.bool bf) := by rw [← hfu]; simp [opsDict, aget, k_distinctOn, k_distinct, k_items, k_clause, k_groupBy, k_having, k_orderBy, k_limit, k_join, k_lazyColumns, k_start, k_end, k_reversed, k_forUpdate]
  have ag_start : aget k_start (opsDict o) = some (.int st) := by rw [← hstart]; simp [opsDict, aget, k_distinctOn, k_distinct, k_items, k_clause, k_groupBy, k_having, k_orderBy, k_limit, k_join, k_lazyColumns, k_start]
  have ag_end : aget k_end (opsDict o) = some o.end_ := by simp [opsDict, aget, k_distinctOn, k_distinct, k_items, k_clause, k_groupBy, k_having, k_orderBy, k_limit, k_join, k_lazyColumns, k_start, k_end]
  have ag_limit : aget k_limit (opsDict o) = some o.limit := by simp [opsDict, aget, k_items, k_clause, k_groupBy, k_having, k_orderBy, k_limit]
  have hth : thingsOf vs o.clause = (if typeName o.clause == "@NoDefault" then vs else vs ++ [o.clause]) := rfl
  unfold runP runH
  simp only [Select_sqlrepr, exec_cons, exec_nil]
  obtain ⟨S0, e0, A0⟩ := E0 I p db h
  rw [e0, PySel.Res.seq_norm]
  obtain ⟨S1, e1, A1⟩ := E1 I S0 p db h _ _ bd A0 hp ag_distinct ag_distinctOn
  rw [e1, PySel.Res.seq_norm]
  obtain ⟨S2, e2, A2⟩ := E2 I S1 p db h _ _ vs its A1 hp ag_lazy ag_items hits
  rw [e2, PySel.Res.seq_norm]
  obtain ⟨S6, e6, A6, B6⟩ := E3456 I S2 p db h _ _ A2 hp ag_join
  rw [e6]
  obtain ⟨S7, e7, A7, B7⟩ := stmt_s7 I hsub S6 p db h _ _ sts [] A6 B6 hp ag_static
  rw [e7, PySel.Res.seq_norm]
  obtain ⟨S9, e9, A9, B9, h9⟩ := stmt_s8_s9 I S7 p db h _ _ vs o.clause _ A7 B7 hp ag_items ag_clause
  rw [e9]
  obtain ⟨S10, e10, A10, B10⟩ := stmt_s10 I S9 p db h _ _ yss _ A9 B9 h9 (hth ▸ hall)
  rw [e10, PySel.Res.seq_norm]
  have sk := skip_joins I S10 B10.e4 B10.e5
  rw [sk.1, PySel.Res.seq_norm]
  obtain ⟨S12, e12, B12, A12⟩ := E12 I S10 p db h _ _ A10 B10
  rw [e12, PySel.Res.seq_norm]
  have e13 : PySel.Stmt.exec I S12 Select_sqlrepr_s13 = .norm (S12.put 14 (setV ((yss.foldl unionStr (sts.foldl addStr [])).map .str))) := by
    simp only [Select_sqlrepr_s13]; simp [PySel.Stmt.exec, PySel.Expr.eval, Target.bind, St.put, B12.e7]
  rw [e13, PySel.Res.seq_norm]
  have A13 := A12.put 14 (setV ((yss.foldl unionStr (sts.foldl addStr [])).map .str)) (by decide) (by decide) (by decide)
  have B13 := B12.put 14 (setV ((yss.foldl unionStr (sts.foldl addStr [])).map .str)) (by decide) (by decide) (by decide)
  have sk2 := skip_joins I _ B13.e4 B13.e5
  rw [sk2.2.1, PySel.Res.seq_norm, sk2.2.2, PySel.Res.seq_norm]
  obtain ⟨S16, e16, A16⟩ := E16 I _ p db h _ _ o.clause ct A13 hp ag_clause hcn hcs
  rw [e16, PySel.Res.seq_norm]
  rw [skip_s17 I S16 p _ A16.e0 (by rw [A16.hh]; exact hp) ag_group, PySel.Res.seq_norm,
    skip_s18 I S16 p _ A16.e0 (by rw [A16.hh]; exact hp) ag_having, PySel.Res.seq_norm,
    skip_s19 I S16 p _ _ A16.e0 (by rw [A16.hh]; exact hp) ag_order hob, PySel.Res.seq_norm]
  have hsel : appWhere (if (yss.foldl unionStr (sts.foldl addStr [])).isEmpty then
        [83, 69, 76, 69, 67, 84] ++ (if bd then [32, 68, 73, 83, 84, 73, 78, 67, 84] else []) ++ (32 :: joinStr [44, 32] its)
      else [83, 69, 76, 69, 67, 84] ++ (if bd then [32, 68, 73, 83, 84, 73, 78, 67, 84] else []) ++ (32 :: joinStr [44, 32] its) ++
        ([32, 70, 82, 79, 77, 32] ++ joinStr [44, 32] (sortS I.strLe (yss.foldl unionStr (sts.foldl addStr []))))) ct =
      selectText I.strLe bd its (yss.foldl unionStr (sts.foldl addStr [])) ct := rfl
  rw [hsel] at A16
  obtain ⟨S22, e22, A22⟩ := stmt_limit I S16 p db h _ sel2 _ st o.end_ o.limit A16 hp ag_start ag_end ag_limit hlim hen hcall
  rw [e22]
  obtain ⟨S23, e23, A23⟩ := E23 I S22 p db h _ _ bf A22 hp ag_fu
  rw [e23, PySel.Res.seq_norm]
  have e24 : PySel.Stmt.exec I S23 Select_sqlrepr_s24 = .ret S23 (.str ((if (st != 0 || !isNoneV (endOf o.limit st o.end_)) then sel2
          else selectText I.strLe bd its (yss.foldl unionStr (sts.foldl addStr [])) ct) ++
        (if bf then [32, 70, 79, 82, 32, 85, 80, 68, 65, 84, 69] else []))) := by
    simp only [Select_sqlrepr_s24]; simp [PySel.Stmt.exec, PySel.Expr.eval, A23.e2]
  rw [e24]
  simp
end SqlObjVerif.SelX
