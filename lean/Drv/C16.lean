import SqlObjVerif.Model.OrmVal
import SqlObjVerif.Model.DrvUtil
/-! Driver for C16 (same protocol and model as `Drv/C05.lean`).  One request per line:

`reset docache lazy0 cv0 n0 fk0 codec0 … ` (codec: `-` or `j<col>` = that column stores a tagged representation: stored = shown + 1000) (fk: `-`, `n<T>` = ForeignKey to class T cascade='null', `c<T>` = cascade=True) | `create h cls id c=v…` | `fetch h cls id 0|1` | `refresh h` | `selstmt cls` |
`read h c` | `setattr h c v fail` | `set h fail c=v…` | `syncupdate h fail` | `sync h fail` | `expire h` |
`expireall` | `expireallcls cls` | `destroy h [S<k> | r<hr> | R<hr>:<k>:<id>]…` (dependents loop: select over class k, held / library-built referencing instance) | `pickle h fail` | `drop h` | `oobupdate cls id c v` |
`oobdelete cls id` | `bulkdelete cls id…` | `unpickle h cls id clash c=v…` (attribute values in the pickled state) | `oobinsert cls id c=v…` | `peek h` | `row cls id`
Values: integer, `N` (None), `B` (rejected by the validator).
Answer of an operation: `<out> | <statements sent by it> | u=<UPDATE statements sent by it>`. -/
namespace SqlObjVerif.OrmVal.Drv
open SqlObjVerif SqlObjVerif.OrmVal SqlObjVerif.DrvUtil

structure D where
  cfg : Cfg
  s : State

def showVal : Val → String
  | none => "N"
  | some i => toString i

def showPend (p : Pend) : String :=
  if p.isEmpty then "-" else ",".intercalate (p.map fun kv => toString kv.1 ++ "=" ++ showVal kv.2)

def showStmt : Stmt → String
  | .insert c i p => s!"I {c} {i} {showPend p}"
  | .update c i p => s!"U {c} {i} {showPend p}"
  | .delete c i => s!"D {c} {i}"
  | .selectRow c i => s!"S {c} {i}"
  | .selectCol c i k => s!"Sc {c} {i} {k}"
  | .selectCls c => s!"Sa {c}"
  | .selectRefs k c i => s!"Sr {k} {c} {i}"
  | .deleteWhere c => s!"Dw {c}"

def showOut : Out → String
  | .ok => "ok"
  | .val v => "val " ++ showVal v
  | .notFound => "NotFound"
  | .invalid => "Invalid"
  | .dbError => "DbError"
  | .assertion => "Assert"
  | .valueError => "ValueError"
  | .badCol => "bad-col"
  | .badHandle => "bad-handle"

def inp? (s : String) : Option Inp :=
  if s == "B" then some .bad
  else if s == "N" then some (.ok none)
  else (s.toInt?).map fun i => .ok (some i)

def val? (s : String) : Option Val :=
  if s == "N" then some none else (s.toInt?).map some

def kv? {α} (f : String → Option α) (s : String) : Option (Col × α) :=
  match s.splitOn "=" with
  | [c, v] => match c.toNat?, f v with
    | some c, some v => some (c, v)
    | _, _ => none
  | _ => none

def all? {α} (l : List (Option α)) : Option (List α) :=
  l.foldr (fun x acc => match x, acc with
    | some a, some r => some (a :: r)
    | _, _ => none) (some [])

def bool? (s : String) : Option Bool :=
  if s == "1" then some true else if s == "0" then some false else none

def fk? (s : String) : Option (Option (Cls × FkKind)) :=
  if s == "-" then some none
  else if s.startsWith "n" then ((s.drop 1).toNat?).map fun t => some (t, FkKind.null)
  else if s.startsWith "c" then ((s.drop 1).toNat?).map fun t => some (t, FkKind.cascade)
  else none

def codec? (s : String) : Option (Option Col) :=
  if s == "-" then some none
  else if s.startsWith "j" then ((s.drop 1).toNat?).map some
  else none

def parseCfg : List String → Option (List (Bool × Bool × Nat × Option (Cls × FkKind) × Option Col))
  | [] => some []
  | l :: c :: n :: f :: j :: r => match bool? l, bool? c, n.toNat?, fk? f, codec? j, parseCfg r with
    | some l, some c, some n, some f, some j, some rest => some ((l, c, n, f, j) :: rest)
    | _, _, _, _, _, _ => none
  | _ => none

/-- the abstract codec of a "JSON" column: the stored representation is the shown value tagged (+1000);
    NULL ↔ None -/
def encJ (v : Val) : Val := v.map (· + 1000)
def decJ (v : Val) : Val := v.map (· - 1000)

def mkCfg (doCache : Bool) (l : List (Bool × Bool × Nat × Option (Cls × FkKind) × Option Col)) : Cfg :=
  { lazyUpdate := fun c => (l[c]?.map (·.1)).getD false,
    cacheValues := fun c => (l[c]?.map (·.2.1)).getD true,
    ncols := fun c => (l[c]?.map (·.2.2.1)).getD 0,
    fk := fun c => (l[c]?.map (·.2.2.2.1)).getD none,
    enc := fun c k v => if (l[c]?.map (·.2.2.2.2)).getD none = some k then encJ v else v,
    dec := fun c k v => if (l[c]?.map (·.2.2.2.2)).getD none = some k then decJ v else v,
    doCache := doCache }

def refStep? (s : String) : Option RefStep :=
  if s.startsWith "S" then ((s.drop 1).toNat?).map RefStep.sel
  else if s.startsWith "r" then ((s.drop 1).toNat?).map fun h => RefStep.row h none
  else if s.startsWith "R" then
    match (s.drop 1).toString.splitOn ":" with
    | [h, k, i] => match h.toNat?, k.toNat?, i.toNat? with
      | some h, some k, some i => some (RefStep.row h (some (k, i)))
      | _, _, _ => none
    | _ => none
  else none

def parseOp (ws : List String) : Option Op :=
  match ws with
  | "create" :: h :: c :: i :: kvs =>
    match h.toNat?, c.toNat?, i.toNat?, all? (kvs.map (kv? inp?)) with
    | some h, some c, some i, some kvs => some (.create h c i kvs)
    | _, _, _, _ => none
  | ["fetch", h, c, i, v] =>
    match h.toNat?, c.toNat?, i.toNat?, bool? v with
    | some h, some c, some i, some v => some (.fetch h c i v)
    | _, _, _, _ => none
  | ["refresh", h] => h.toNat?.map .refresh
  | ["selstmt", c] => c.toNat?.map .selectStmt
  | ["read", h, c] => match h.toNat?, c.toNat? with
    | some h, some c => some (.read h c)
    | _, _ => none
  | ["setattr", h, c, v, f] => match h.toNat?, c.toNat?, inp? v, bool? f with
    | some h, some c, some v, some f => some (.setattr h c v f)
    | _, _, _, _ => none
  | "set" :: h :: f :: kvs => match h.toNat?, bool? f, all? (kvs.map (kv? inp?)) with
    | some h, some f, some kvs => some (.set h kvs f)
    | _, _, _ => none
  | ["syncupdate", h, f] => match h.toNat?, bool? f with
    | some h, some f => some (.syncUpdate h f)
    | _, _ => none
  | ["sync", h, f] => match h.toNat?, bool? f with
    | some h, some f => some (.sync h f)
    | _, _ => none
  | ["expire", h] => h.toNat?.map .expire
  | ["expireall"] => some .expireAll
  | ["expireallcls", c] => c.toNat?.map .expireAllCls
  | "destroy" :: h :: refs => match h.toNat?, all? (refs.map refStep?) with
    | some h, some refs => some (.destroy h refs)
    | _, _ => none
  | ["pickle", h, f] => match h.toNat?, bool? f with
    | some h, some f => some (.pickle h f)
    | _, _ => none
  | ["drop", h] => h.toNat?.map .drop
  | "unpickle" :: h :: c :: i :: cl :: kvs => match h.toNat?, c.toNat?, i.toNat?, bool? cl, all? (kvs.map (kv? val?)) with
    | some h, some c, some i, some cl, some kvs => some (.unpickle h c i kvs cl)
    | _, _, _, _, _ => none
  | "bulkdelete" :: c :: ids => match c.toNat?, all? (ids.map (·.toNat?)) with
    | some c, some ids => some (.bulkDelete c ids)
    | _, _ => none
  | ["oobupdate", c, i, k, v] => match c.toNat?, i.toNat?, k.toNat?, val? v with
    | some c, some i, some k, some v => some (.oobUpdate c i k v)
    | _, _, _, _ => none
  | ["oobdelete", c, i] => match c.toNat?, i.toNat? with
    | some c, some i => some (.oobDelete c i)
    | _, _ => none
  | "oobinsert" :: c :: i :: kvs => match c.toNat?, i.toNat?, all? (kvs.map (kv? val?)) with
    | some c, some i, some kvs => some (.oobInsert c i kvs)
    | _, _, _ => none
  | _ => none

def showBool (b : Bool) : String := if b then "1" else "0"

def showInst (cfg : Cfg) (o : Inst) : String :=
  let cols := (List.range (cfg.ncols o.cls)).map fun c =>
    match o.cached c with
    | none => "-"
    | some v => showVal v
  s!"cls={o.cls} id={o.id} cached={",".intercalate cols} expired={showBool o.expired} dirty={showBool o.dirty} pending={showPend o.pending} obsolete={showBool o.obsolete} incache={showBool o.inCache}"

def handle (d : D) (line : String) : D × String :=
  match words line with
  | "reset" :: dc :: rest =>
    match bool? dc, parseCfg rest with
    | some dc, some l => ({ cfg := mkCfg dc l, s := init }, "ok")
    | _, _ => (d, "bad-request")
  | ["peek", h] =>
    match h.toNat? with
    | some h => (d, match d.s.objs h with
      | none => "none"
      | some o => showInst d.cfg o)
    | none => (d, "bad-request")
  | ["row", c, i] =>
    match c.toNat?, i.toNat? with
    | some c, some i => (d, match d.s.db c i with
      | none => "none"
      | some row => ",".intercalate ((List.range (d.cfg.ncols c)).map fun k => showVal (row k)))
    | _, _ => (d, "bad-request")
  | ws =>
    match parseOp ws with
    | none => (d, "bad-request")
    | some op =>
      let r := step d.cfg d.s op
      let stmts := r.1.log.drop d.s.log.length
      ({ d with s := r.1 },
       s!"{showOut r.2} | {";".intercalate (stmts.map showStmt)} | u={r.1.updates - d.s.updates}")

def dinit : D := { cfg := mkCfg true [], s := init }

end SqlObjVerif.OrmVal.Drv

def main : IO Unit := SqlObjVerif.DrvUtil.loop SqlObjVerif.OrmVal.Drv.handle SqlObjVerif.OrmVal.Drv.dinit
