import SqlObjVerif.Model.Cache
import SqlObjVerif.Model.DrvUtil
/-! Driver for C04 (stateful).  Requests (classes `P`=0, `K`=1, `F`=2, `S`=3; objects are named by application slots):
    `reset <doCache> <cullFrequency> <cullFraction>` | `create <cls> <id|->` | `get <cls> <id>` |
    `select <cls> <ids|->` | `look <cls> <id>` | `fk <slot> <cls> <id|->` | `join <slot> <cls> <ids|->` |
    `drop <slot>` | `gc <slot>*` | `expire <slot>` | `expireAll` | `destroy <slot>` | `pickle <slot>` |
    `unpickle <p>` | `noop`.
    Answers: `ok` | `obj <slot>` | `objs <slot>*` | `none` | `err NotFound|Duplicate|ValueError` | `pickled <p>` |
    `gc <refused>` | `invalid`, optionally followed by ` #<branch tags>`.
    A returned object the application already holds answers with its slot, any other gets a fresh slot. -/
open SqlObjVerif SqlObjVerif.Cache SqlObjVerif.DrvUtil

structure D where
  s : State
  slotOf : List (Handle × Nat)    -- latest slot of a handle
  handleOf : List (Nat × Handle)  -- every slot ever
  next : Nat

def D.init (cfg : Cfg) : D := { s := Cache.init cfg, slotOf := [], handleOf := [], next := 0 }

def cls? : String → Option Cls
  | "P" => some 0 | "K" => some 1 | "F" => some 2 | "S" => some 3 | _ => none

def ids? (s : String) : Option (List Nat) :=
  if s == "-" then some [] else
  (s.splitOn ",").foldr (fun t acc => match t.toNat?, acc with
    | some n, some l => some (n :: l)
    | _, _ => none) (some [])

def optId? (s : String) : Option (Option Nat) :=
  if s == "-" then some none else s.toNat?.map some

def lookupA (k : Nat) : List (Nat × Nat) → Option Nat
  | [] => none
  | (a, b) :: l => if a = k then some b else lookupA k l

/-- slot of a returned handle: its slot when the application held it before the op, else a fresh one -/
def D.slotFor (d : D) (pre : State) (h : Handle) : D × Nat :=
  match (if h < pre.n && (pre.obj h).held then lookupA h d.slotOf else none) with
  | some k => (d, k)
  | none =>
    let k := d.next
    ({ d with slotOf := (h, k) :: d.slotOf.filter (fun e => e.1 ≠ h), handleOf := (k, h) :: d.handleOf, next := k + 1 }, k)

def D.slotsFor (d : D) (pre : State) : List Handle → D × List Nat
  | [] => (d, [])
  | h :: hs =>
    let (d1, k) := d.slotFor pre h
    -- a handle returned twice by one op keeps the slot it just got
    let pre1 : State := { pre with obj := upd pre.obj h { pre.obj h with held := true }, n := max pre.n (h + 1) }
    let (d2, ks) := d1.slotsFor pre1 hs
    (d2, k :: ks)

def D.handle? (d : D) (slot : String) : Option Handle :=
  match slot.toNat? with
  | some k => lookupA k d.handleOf
  | none => none

def tags (pre post : State) (c : Cls) : String :=
  let f0 := pre.fac c
  let f1 := post.fac c
  (if f1.cullOffset ≠ f0.cullOffset || (f1.cullCount = 0 && f0.cullCount ≠ 0) then " cull" else "") ++
  (if f1.weak.length > f0.weak.length then " toWeak" else "") ++
  (if f1.weak.length < f0.weak.length && f1.strong.length > f0.strong.length then " promote" else "")

def showOut (d : D) (pre : State) : Out → D × String
  | .ok => (d, "ok")
  | .obj h => let (d1, k) := d.slotFor pre h; (d1, "obj " ++ toString k)
  | .objs hs => let (d1, ks) := d.slotsFor pre hs; (d1, "objs" ++ String.join (ks.map fun k => " " ++ toString k))
  | .none => (d, "none")
  | .notFound => (d, "err NotFound")
  | .duplicate => (d, "err Duplicate")
  | .valueError => (d, "err ValueError")
  | .pickled p => (d, "pickled " ++ toString p)
  | .gc r => (d, "gc " ++ toString r)
  | .invalid => (d, "invalid")

def exec (d : D) (op : Op) (c : Cls) : D × String :=
  let pre := d.s
  let (s1, out) := step pre op
  let (d1, txt) := showOut { d with s := s1 } pre out
  let t := tags pre s1 c
  (d1, if t.isEmpty then txt else txt ++ " #" ++ t)

def handle (d : D) (line : String) : D × String :=
  match words line with
  | ["reset", dc, fr, fc] =>
    match dc.toNat?, fr.toNat?, fc.toNat? with
    | some dc, some fr, some fc =>
      (D.init { doCache := dc != 0, cullFrequency := fr, cullFraction := fc, refcount := true }, "ok")
    | _, _, _ => (d, "bad-op")
  | ["noop"] => (d, "ok")
  | ["create", c, i] =>
    match cls? c, optId? i with
    | some c, some i => exec d (.create c i) c
    | _, _ => (d, "bad-op")
  | ["get", c, i] =>
    match cls? c, i.toNat? with
    | some c, some i => exec d (.get c i) c
    | _, _ => (d, "bad-op")
  | ["look", c, i] =>
    match cls? c, i.toNat? with
    | some c, some i => exec d (.look c i) c
    | _, _ => (d, "bad-op")
  | ["select", c, l] =>
    match cls? c, ids? l with
    | some c, some l => exec d (.select c l) c
    | _, _ => (d, "bad-op")
  | ["fk", h, c, i] =>
    match d.handle? h, cls? c, optId? i with
    | some h, some c, some i => exec d (.fk h c i) c
    | _, _, _ => (d, "bad-op")
  | ["join", h, c, l] =>
    match d.handle? h, cls? c, ids? l with
    | some h, some c, some l => exec d (.join h c l) c
    | _, _, _ => (d, "bad-op")
  | ["drop", h] =>
    match d.handle? h with
    | some h => exec d (.drop h) 0
    | none => (d, "bad-op")
  | "gc" :: slots =>
    -- a death report names a slot; it concerns the handle only if that slot is the handle's latest
    let hs := slots.filterMap fun t => match t.toNat? with
      | some k => match lookupA k d.handleOf with
        | some h => if lookupA h d.slotOf = some k then some h else none
        | none => none
      | none => none
    exec d (.gc hs) 0
  | ["expire", h] =>
    match d.handle? h with
    | some h => exec d (.expire h) 0
    | none => (d, "bad-op")
  | ["expireAll"] => exec d .expireAll 0
  | ["destroy", h] =>
    match d.handle? h with
    | some h => exec d (.destroy h) 0
    | none => (d, "bad-op")
  | ["pickle", h] =>
    match d.handle? h with
    | some h => exec d (.pickle h) 0
    | none => (d, "bad-op")
  | ["unpickle", p] =>
    match p.toNat? with
    | some p => exec d (.unpickle p) (match d.s.pickles[p]? with | some (c, _, _) => c | none => 0)
    | none => (d, "bad-op")
  | _ => (d, "bad-op")

def main : IO Unit :=
  loop handle (D.init (Cfg.default true))
