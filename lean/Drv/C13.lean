import SqlObjVerif.Model.Joins
import SqlObjVerif.Model.DrvUtil
/-! Driver for C13 (stateful).  Requests:
    `schema <K | F t p | J o t s>*` reset · `new c i nf x y` · `set c i f v` · `add t s a b` · `rem t s a b` · `del c i`
    · `m k f owner key*` MultipleJoin ids · `s k f owner` SingleJoin · `r t s owner cls key*` RelatedJoin ids
    (key = `a<attr>` ascending / `d<attr>` descending; `-` = None). -/
open SqlObjVerif SqlObjVerif.Graph SqlObjVerif.Joins SqlObjVerif.DrvUtil

structure St where
  S : Schema := []
  db : DB := ⟨[], [], []⟩
  attrs : List ((Nat × Nat) × List (Option Int)) := []

def policy? : String → Option Policy
  | "c" => some .cascade | "r" => some .restrict | "n" => some .setNull | "k" => some .keep | _ => none

def addToLast (S : List Cls) (f : Cls → Cls) : List Cls :=
  match S.reverse with
  | [] => []
  | c :: cs => (f c :: cs).reverse

partial def parseSchema (S : List Cls) : List String → Option (List Cls)
  | [] => some S
  | "K" :: ts => parseSchema (S ++ [⟨[], []⟩]) ts
  | "F" :: t :: p :: ts =>
    match t.toNat?, policy? p with
    | some t, some p => parseSchema (addToLast S fun c => { c with fks := c.fks ++ [⟨t, p⟩] }) ts
    | _, _ => none
  | "J" :: o :: t :: b :: ts =>
    match o.toNat?, t.toNat? with
    | some o, some t => parseSchema (addToLast S fun c => { c with joins := c.joins ++ [⟨o, t, b == "1"⟩] }) ts
    | _, _ => none
  | _ => none

def key? (s : String) : Option SortKey :=
  match s.toList with
  | 'a' :: r => (String.ofList r).toNat?.map fun n => ⟨n, false⟩
  | 'd' :: r => (String.ofList r).toNat?.map fun n => ⟨n, true⟩
  | _ => none

def keys? (ts : List String) : Option (List SortKey) :=
  ts.foldr (fun t acc => match key? t, acc with | some k, some l => some (k :: l) | _, _ => none) (some [])

def attrOf (st : St) (cls : Nat) (i a : Nat) : Option Int :=
  match st.attrs.find? (fun e => e.1 == (cls, i)) with
  | some e => e.2.getD a none
  | none => none

def showIds (l : List Nat) : String := "ids" ++ String.join (l.map fun x => " " ++ toString x)

def optNat? (s : String) : Option (Option Nat) := if s == "-" then some none else s.toNat?.map some

def step (st : St) (line : String) : St × String :=
  match words line with
  | "schema" :: ts =>
    match parseSchema [] ts with
    | some S => ({ S := S }, "ok")
    | none => (st, "bad-op")
  | ["new", c, i, nf, x, y] =>
    match c.toNat?, i.toNat?, nf.toNat?, optInt? x, optInt? y with
    | some c, some i, some nf, some x, some y =>
      ({ st with db := create st.db c i nf, attrs := st.attrs ++ [((c, i), [x, y])] }, "ok")
    | _, _, _, _, _ => (st, "bad-op")
  | ["attr", c, i, a, v] =>
    match c.toNat?, i.toNat?, a.toNat?, optInt? v with
    | some c, some i, some a, some v =>
      ({ st with attrs := st.attrs.map fun e => if e.1 == (c, i) then (e.1, e.2.set a v) else e }, "ok")
    | _, _, _, _ => (st, "bad-op")
  | ["set", c, i, f, v] =>
    match c.toNat?, i.toNat?, f.toNat?, optNat? v with
    | some c, some i, some f, some v => ({ st with db := setFK st.db c i f v }, "ok")
    | _, _, _, _ => (st, "bad-op")
  | ["del", c, i] =>
    match c.toNat?, i.toNat? with
    | some c, some i =>
      match destroy st.S (st.db.rows.length + 1) st.db c i with
      | .ok db' => ({ st with db := db' }, "ok")
      | .refused db' => ({ st with db := db' }, "refused")
      | .fuel db' => ({ st with db := db' }, "fuel")
    | _, _ => (st, "bad-op")
  | "m" :: k :: f :: o :: ks =>
    match k.toNat?, f.toNat?, o.toNat?, keys? ks with
    | some k, some f, some o, some ks => (st, showIds (multipleJoin (attrOf st k) st.db k f ks o))
    | _, _, _, _ => (st, "bad-op")
  | ["s", k, f, o] =>
    match k.toNat?, f.toNat?, o.toNat? with
    | some k, some f, some o =>
      (st, match single st.db k f o with | some j => "one " ++ toString j | none => "none")
    | _, _, _ => (st, "bad-op")
  | ["n", t, s, o] =>
    match t.toNat?, o.toNat? with
    | some t, some o => (st, showIds (manyToMany st.db t (s == "1") o))
    | _, _ => (st, "bad-op")
  | "r" :: t :: s :: o :: cls :: ks =>
    match t.toNat?, o.toNat?, cls.toNat?, keys? ks with
    | some t, some o, some cls, some ks => (st, showIds (relatedJoin (attrOf st cls) st.db t (s == "1") ks o))
    | _, _, _, _ => (st, "bad-op")
  | [op, t, s, a, b] =>
    match t.toNat?, a.toNat?, b.toNat? with
    | some t, some a, some b =>
      if op == "add" then ({ st with db := addLink st.db t (s == "1") a b }, "ok")
      else if op == "addn" then ({ st with db := m2mAdd st.db t (s == "1") a b }, "ok")
      else if op == "remn" then ({ st with db := m2mRemove st.db t (s == "1") a b }, "ok")
      else if op == "rem" then ({ st with db := removeLink st.db t (s == "1") a b }, "ok")
      else (st, "bad-op")
    | _, _, _ => (st, "bad-op")
  | _ => (st, "bad-op")

def main : IO Unit := loop step {}
