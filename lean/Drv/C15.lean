import SqlObjVerif.Model.Inherit
import SqlObjVerif.Model.DrvUtil
/-! Driver for C15 (stateful).  Requests:
    `tree <n> (<parent|-> <ncols> <inh 0|1>)*n`      -> `ok` (resets the database)
    `create <c> (<a>:<k>:<v>)*`                       -> `id <id> ins <classes in INSERT order>` | `dup`
    `get <e> <i>`                                     -> `ok <m>` | `NotFound` | `KeyError`
    `read <e> <i> <a> <k>`                            -> `val <v>` | `NotFound` | `NoAttr` | `KeyError`
    `write <e> <i> <a> <k> <v>` / `set <e> <i> (<a>:<k>:<v>)*` -> `ok` | …
    `destroy <e> <i>`                                 -> `ok del <classes in DELETE order>` | `NotFound`
    `select <c> <filter, prefix notation>` / `selectby <c> (<a>:<k>:<v>)*` -> `sel (<i>:<m|error>)*`
    `bulkdel <c> <filter>` / `bulkdelby <c> (<a>:<k>:<v>)*` -> `ok`  (`cls.deleteMany(where)` / `cls.deleteBy(**kw)`)
    `destroyb <e> <i> <blocked level>*`               -> `ok del …` | `Integrity del <levels deleted before the refusal>`
    `conn <k>` / `begin` / `rollback` / `commit`      -> `ok`  (select the database the next requests go to; snapshot / restore it)
    `byalt <e> <a> <k> <v>`                           -> `ok <m>` | `NotFound`  (`E.by<Col>(v)`, column k of class a)
    `dump`                                            -> every row of every table
    `views <i>`                                       -> what every entry level shows for id `i` -/
open SqlObjVerif SqlObjVerif.Inherit SqlObjVerif.DrvUtil

/-- `hi r` = last id the root table `r` allocated (SQLite `INTEGER PRIMARY KEY AUTOINCREMENT`:
    one more than the largest id that ever existed in the table) — database engine, not library -/
structure St where
  T : Tree
  db : DB
  maxId : Nat
  hi : Nat → Nat

def St.init : St := ⟨⟨0, fun _ => none, fun _ => 0, fun _ => false⟩, DB.empty, 0, fun _ => 0⟩

def parseTree (n : Nat) (toks : List String) : Option Tree :=
  let rec go (c : Nat) (fuel : Nat) (toks : List String) (acc : List (Option Nat × Nat × Bool)) :
      Option (List (Option Nat × Nat × Bool)) :=
    match fuel, toks with
    | 0, [] => some acc.reverse
    | fuel + 1, p :: k :: h :: rest =>
      let par : Option (Option Nat) := if p == "-" then some none else (p.toNat?).map some
      match par, k.toNat?, h.toNat? with
      | some par, some k, some h =>
        let okPar := match par with
          | none => true
          | some q => decide (q < c)
        if okPar then go (c + 1) fuel rest ((par, k, h != 0) :: acc) else none
      | _, _, _ => none
    | _, _ => none
  match go 0 n toks [] with
  | none => none
  | some l =>
    let arr := l.toArray
    some ⟨n, fun c => (arr[c]?).bind (·.1), fun c => ((arr[c]?).map (·.2.1)).getD 0,
          fun c => ((arr[c]?).map (·.2.2)).getD false⟩

def parseKV (s : String) : Option (Nat × Nat × Val) :=
  match s.splitOn ":" with
  | [a, k, v] => match a.toNat?, k.toNat?, v.toInt? with
    | some a, some k, some v => some (a, k, v)
    | _, _, _ => none
  | _ => none

def parseKVs (l : List String) : Option (List (Nat × Nat × Val)) :=
  l.foldr (fun s acc => match parseKV s, acc with
    | some x, some r => some (x :: r)
    | _, _ => none) (some [])

def cmp? : String → Option Cmp
  | "eq" => some .eq | "ne" => some .ne | "lt" => some .lt
  | "le" => some .le | "gt" => some .gt | "ge" => some .ge | _ => none

def parseFilter : Nat → List String → Option (Filter × List String)
  | 0, _ => none
  | _ + 1, "tt" :: rest => some (.tt, rest)
  | _ + 1, "attr" :: a :: k :: op :: v :: rest =>
    match a.toNat?, k.toNat?, cmp? op, v.toInt? with
    | some a, some k, some op, some v => some (.attr a k op v, rest)
    | _, _, _, _ => none
  | _ + 1, "id" :: op :: v :: rest =>
    match cmp? op, v.toInt? with
    | some op, some v => some (.idc op v, rest)
    | _, _ => none
  | f + 1, "and" :: rest =>
    match parseFilter f rest with
    | some (x, rest) => match parseFilter f rest with
      | some (y, rest) => some (.and x y, rest)
      | none => none
    | none => none
  | f + 1, "or" :: rest =>
    match parseFilter f rest with
    | some (x, rest) => match parseFilter f rest with
      | some (y, rest) => some (.or x y, rest)
      | none => none
    | none => none
  | f + 1, "not" :: rest =>
    match parseFilter f rest with
    | some (x, rest) => some (.not x, rest)
    | none => none
  | _, _ => none

def showRes : Res → String
  | .ok m => "ok " ++ toString m
  | .notFound => "NotFound"
  | .keyError => "KeyError"

def showResC : Res → String
  | .ok m => toString m
  | .notFound => "NotFound"
  | .keyError => "KeyError"

def showOut : Out → String
  | .ok => "ok" | .notFound => "NotFound" | .keyError => "KeyError" | .noAttr => "NoAttr"
  | .duplicate => "dup" | .integrity => "Integrity"

def showRd : RdOut → String
  | .val v => "val " ++ toString v
  | .notFound => "NotFound" | .keyError => "KeyError" | .noAttr => "NoAttr"

def classesStr (l : List Nat) : String := String.join (l.map fun c => " " ++ toString c)

def ids (s : St) : List Nat := (List.range s.maxId).map (· + 1)

def showChild : Option Nat → String
  | none => "-"
  | some c => toString c

def dump (s : St) : String :=
  let rows := (List.range s.T.n).flatMap fun c =>
    (ids s).filterMap fun i =>
      match s.db c i with
      | none => none
      | some r => some (toString c ++ ":" ++ toString i ++ ":" ++ showChild r.child ++ ":" ++
          ",".intercalate ((List.range (s.T.ncols c)).map fun k => toString (r.vals k)))
  "dump" ++ String.join (rows.map fun r => " " ++ r)

def views (s : St) (i : Nat) : String :=
  let parts := (List.range s.T.n).map fun e =>
    match get s.T s.db e i with
    | .ok m =>
      let attrs := (s.T.anc m).reverse.flatMap fun a =>
        (List.range (s.T.ncols a)).map fun k =>
          toString a ++ "." ++ toString k ++ "=" ++ showRd (readVia s.T s.db e i a k)
      toString e ++ "=" ++ toString m ++ "[" ++ ",".intercalate attrs ++ "]"
    | r => toString e ++ "=" ++ showResC r
  "views " ++ " ".intercalate parts

def nextId (s : St) (c : Nat) : Nat := s.hi (s.T.root c) + 1

def selOut (s : St) (f : Nat → Option Res) : String :=
  "sel" ++ String.join ((ids s).filterMap fun i =>
    (f i).map fun r => " " ++ toString i ++ ":" ++ showResC r)

def handleOne (s : St) (line : String) : St × String :=
  match words line with
  | "destroyb" :: e :: i :: bl =>
    match e.toNat?, i.toNat? with
    | some e, some i =>
      let bl := bl.filterMap String.toNat?
      let blocked : Nat → Bool := fun a => bl.contains a
      match get s.T s.db e i with
      | .ok m =>
        let (db, out) := destroyGuardedVia s.T s.db e i blocked
        ({ s with db := db }, showOut out ++ " del" ++ classesStr (deletedLevels s.T m blocked))
      | r => (s, showResC r)
    | _, _ => (s, "bad-op")
  | "create" :: c :: kvs =>
    match c.toNat?, parseKVs kvs with
    | some c, some kvs =>
      let id := nextId s c
      let vals : Nat → Nat → Val := fun a k =>
        match kvs.find? (fun x => x.1 == a && x.2.1 == k) with
        | some x => x.2.2
        | none => 0
      let (db, out) := create s.T s.db c id vals
      match out with
      | .ok => (⟨s.T, db, max s.maxId id, fun r => if r = s.T.root c then id else s.hi r⟩, "id " ++ toString id ++ " ins" ++ classesStr (insertOrder s.T c))
      | o => (s, showOut o)
    | _, _ => (s, "bad-op")
  | ["get", e, i] =>
    match e.toNat?, i.toNat? with
    | some e, some i => (s, showRes (get s.T s.db e i))
    | _, _ => (s, "bad-op")
  | ["read", e, i, a, k] =>
    match e.toNat?, i.toNat?, a.toNat?, k.toNat? with
    | some e, some i, some a, some k => (s, showRd (readVia s.T s.db e i a k))
    | _, _, _, _ => (s, "bad-op")
  | ["write", e, i, a, k, v] =>
    match e.toNat?, i.toNat?, a.toNat?, k.toNat?, v.toInt? with
    | some e, some i, some a, some k, some v =>
      let (db, out) := writeVia s.T s.db e i a k v
      ({ s with db := db }, showOut out)
    | _, _, _, _, _ => (s, "bad-op")
  | "set" :: e :: i :: kvs =>
    match e.toNat?, i.toNat?, parseKVs kvs with
    | some e, some i, some kvs =>
      let (db, out) := setVia s.T s.db e i kvs
      ({ s with db := db }, showOut out)
    | _, _, _ => (s, "bad-op")
  | ["destroy", e, i] =>
    match e.toNat?, i.toNat? with
    | some e, some i =>
      match get s.T s.db e i with
      | .ok m =>
        let (db, _) := destroyVia s.T s.db e i
        ({ s with db := db }, "ok del" ++ classesStr (deleteOrder s.T m))
      | r => (s, showResC r)
    | _, _ => (s, "bad-op")
  | "select" :: c :: rest =>
    match c.toNat?, parseFilter (rest.length + 1) rest with
    | some c, some (f, []) => (s, selOut s (selectRow s.T s.db c f))
    | _, _ => (s, "bad-op")
  | "selectby" :: c :: kvs =>
    match c.toNat?, parseKVs kvs with
    | some c, some kvs => (s, selOut s (selectByRow s.T s.db c kvs))
    | _, _ => (s, "bad-op")
  | "bulkdel" :: c :: rest =>
    match c.toNat?, parseFilter (rest.length + 1) rest with
    | some c, some (f, []) => ({ s with db := deleteMany s.T s.db c f }, "ok")
    | _, _ => (s, "bad-op")
  | "bulkdelby" :: c :: kvs =>
    match c.toNat?, parseKVs kvs with
    | some c, some kvs => ({ s with db := deleteBy s.T s.db c kvs }, "ok")
    | _, _ => (s, "bad-op")
  | ["byalt", e, a, k, v] =>
    match e.toNat?, a.toNat?, k.toNat?, v.toInt? with
    | some e, some a, some k, some v =>
      match (ids s).filterMap (fun i => byAltRow s.T s.db e a k v i) with
      | r :: _ => (s, showRes r)
      | [] => (s, "NotFound")
    | _, _, _, _ => (s, "bad-op")
  | ["dump"] => (s, dump s)
  | ["views", i] =>
    match i.toNat? with
    | some i => (s, views s i)
    | none => (s, "bad-op")
  | _ => (s, "bad-op")

/-- connection ↦ tables (and the id allocator of that database); `saved` = state at `begin` -/
structure MSt where
  conns : Nat → St
  saved : Nat → St
  cur : Nat

def handle (ms : MSt) (line : String) : MSt × String :=
  match words line with
  | "tree" :: n :: rest =>
    match n.toNat? with
    | some n => match parseTree n rest with
      | some T => (⟨fun _ => ⟨T, DB.empty, 0, fun _ => 0⟩, fun _ => ⟨T, DB.empty, 0, fun _ => 0⟩, 0⟩, "ok")
      | none => (ms, "bad-tree")
    | none => (ms, "bad-tree")
  | ["conn", k] =>
    match k.toNat? with
    | some k => ({ ms with cur := k }, "ok")
    | none => (ms, "bad-op")
  | ["begin"] =>
    ({ ms with saved := fun k => if k = ms.cur then ms.conns ms.cur else ms.saved k }, "ok")
  | ["rollback"] =>
    ({ ms with conns := fun k => if k = ms.cur then ms.saved ms.cur else ms.conns k }, "ok")
  | ["commit"] => (ms, "ok")
  | _ =>
    let (s', out) := handleOne (ms.conns ms.cur) line
    ({ ms with conns := fun k => if k = ms.cur then s' else ms.conns k }, out)

def main : IO Unit := loop handle ⟨fun _ => St.init, fun _ => St.init, 0⟩
