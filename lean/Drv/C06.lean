import SqlObjVerif.Props.C06
import SqlObjVerif.Model.DrvUtil
/-! Driver for C06 (stateful).  Requests:
  `schema <nlinks> <cls>…`   cls = `<col>,<col>…/<L|E>/<parent|->/<tab:other:side>,…|-`
                             col = `-` or `.`-joined flags `u` `n` `k<bound>` `f<cls><x|r|n|c>`
  `reset` | `save` | `load` | `link t a b` (history only: add a link row) | `forget c id` (drop the instance)
  `op <inj> setattr c id col v` | `op <inj> set c id <kw> <extras>` | `op <inj> sync c id`
  `op <inj> create c <missing 0|1> <kw> <extras>` | `op <inj> createChild c <pkw> <ckw>`
  `op <inj> createChain <c:kw>… (leaf first)` | `op <inj> destroy c id`       inj = `-` | `<k>o` | `<k>i`; kw = `col=v,…|-`; v = `bad|bad2~<int>|N|<int>`;
                                extras = `-` or `,`-joined `u` `o` `b` `f<col>=<v>` `p<cls>.<col>=<v>`
  Answer to `op`: `<ok|Err> # <statement log> # <changes> <syn|gap> # <dump>` (`syn`: `AtomicSyn` holds before the call). -/
open SqlObjVerif SqlObjVerif.Fail SqlObjVerif.DrvUtil

structure DSt where
  sch : Schema := []
  nlinks : Nat := 0
  st : St := St.empty [] 0
  saved : St := St.empty [] 0

def parsePol : Char → Pol
  | 'r' => .restrict | 'n' => .null | 'c' => .cascade | _ => .none

def parseCol (t : String) : Col :=
  if t == "-" then {} else
  (t.splitOn ".").foldl (fun c f =>
    if f == "u" then { c with unique := true }
    else if f == "n" then { c with notNull := true }
    else if f.startsWith "k" then { c with check := (f.drop 1).toInt? }
    else if f.startsWith "f" then
      let body := (f.drop 1).toString
      let pol := parsePol (body.back)
      { c with fk := some (((body.dropEnd 1).toNat?).getD 0, pol) }
    else c) {}

def parseJoin (t : String) : Option Join :=
  match t.splitOn ":" with
  | [a, b, c] => some { tab := a.toNat?.getD 0, other := b.toNat?.getD 0, side := c == "1" }
  | _ => none

def parseCls (t : String) : Cls :=
  match t.splitOn "/" with
  | [cols, lz, par, js] =>
    { cols := if cols == "" then [] else (cols.splitOn ",").map parseCol,
      lazy := lz == "L",
      parent := par.toNat?,
      joins := if js == "-" then [] else (js.splitOn ",").filterMap parseJoin }
  | _ => { cols := [] }

def parseIn (t : String) : In :=
  if t == "bad" then .bad else if t == "N" then .ok none
  else if t.startsWith "bad2~" then .bad2 ((t.drop 5).toString.toInt?)
  else .ok (t.toInt?)

def parseKw (t : String) : List (Nat × In) :=
  if t == "-" then [] else
  (t.splitOn ",").filterMap fun a => match a.splitOn "=" with
    | [c, v] => some (c.toNat?.getD 0, parseIn v)
    | _ => none

def parseExtras (t : String) : List Extra :=
  if t == "-" then [] else (t.splitOn ",").map fun it =>
    if it == "u" then .unknown else if it == "b" then .badProp
    else if it.startsWith "p" then
      match ((it.drop 1).toString).splitOn "=" with
      | [lhs, v] => match lhs.splitOn "." with
        | [pc, col] => .parentAttr (pc.toNat?.getD 0) (col.toNat?.getD 0) (parseIn v)
        | _ => .okProp
      | _ => .okProp
    else if it.startsWith "f" then
      match ((it.drop 1).toString).splitOn "=" with
      | [c, v] => .fk (c.toNat?.getD 0) (parseIn v).val
      | _ => .okProp
    else .okProp

def parseInj (t : String) : Option Inj :=
  if t == "-" then none else
  let e := if t.back == 'i' then Err.interrupt else Err.operational
  (t.dropEnd 1).toNat?.map fun k => ⟨k, e⟩

def parseOp : List String → Option Op
  | ["setattr", c, id, col, v] => some (.setattr c.toNat!  id.toNat! col.toNat! (parseIn v))
  | ["set", c, id, kw, ex] => some (.set c.toNat! id.toNat! (parseKw kw) (parseExtras ex))
  | ["sync", c, id] => some (.sync c.toNat! id.toNat!)
  | ["create", c, m, kw, ex] => some (.create c.toNat! (m == "1") (parseKw kw) (parseExtras ex))
  | ["createChild", c, pkw, ckw] => some (.createChild c.toNat! (parseKw pkw) (parseKw ckw))
  | ["destroy", c, id] => some (.destroy c.toNat! id.toNat!)
  | "createChain" :: levels =>
    some (.createChain (levels.filterMap fun t => match t.splitOn ":" with
      | [c, kw] => some (c.toNat?.getD 0, parseKw kw)
      | _ => none))
  | _ => none

def showVal : Val → String
  | none => "N"
  | some i => toString i

def showErr : Err → String
  | .invalid => "Invalid" | .typeError => "TypeError" | .attrError => "AttributeError"
  | .duplicate => "Duplicate" | .dbIntegrity => "DbIntegrity" | .operational => "Operational"
  | .interrupt => "Interrupt" | .integrity => "Integrity" | .recursion => "Recursion"

def showStmt : Stmt → String
  | .insert c _ _ => s!"I{c}"
  | .update c id asg => s!"U{c}.{id}." ++ "+".intercalate (asg.map fun a => toString a.1)
  | .delete c id => s!"D{c}.{id}"
  | .delLinks t side id => s!"X{t}.{if side then 1 else 0}.{id}"
  | .select c => s!"S{c}"

def commaVals (vs : List Val) : String := ",".intercalate (vs.map showVal)

def showDump (k : Core) : String :=
  let tabs := (List.range k.tabs.length).zip k.tabs |>.map fun (c, rows) =>
    ";".intercalate (rows.map fun r => s!"{c}:{r.id}={commaVals r.vals}")
  let links := (List.range k.links.length).zip k.links |>.map fun (t, ls) =>
    ";".intercalate (ls.map fun l => s!"{t}:{l.1}-{l.2}")
  let insts := k.insts.map fun i =>
    s!"{i.cls}:{i.id}={commaVals i.vals}/" ++
      ",".intercalate (i.pending.map fun a => s!"{a.1}={showVal a.2}") ++
      s!"/{if i.dirty then 1 else 0}/{if i.obsolete then 1 else 0}"
  let reg := k.reg.map fun r => s!"{r.1}:{r.2}"
  "T " ++ ";".intercalate (tabs.filter (· ≠ "")) ++ " L " ++ ";".intercalate (links.filter (· ≠ "")) ++
    " I " ++ ";".intercalate insts ++ " R " ++ ";".intercalate reg

def handle (d : DSt) (line : String) : DSt × String :=
  match words line with
  | "schema" :: nl :: cls =>
    let sch := cls.map parseCls
    let nlinks := nl.toNat?.getD 0
    ({ sch := sch, nlinks := nlinks, st := St.empty sch nlinks, saved := St.empty sch nlinks }, "ok")
  | ["reset"] => ({ d with st := St.empty d.sch d.nlinks }, "ok")
  | ["save"] => ({ d with saved := d.st }, "ok")
  | ["load"] => ({ d with st := d.saved }, "ok")
  | ["link", t, a, b] =>
    let c := d.st.core
    let t := t.toNat!
    let c' := { c with links := c.links.set t (c.links.getD t [] ++ [(a.toNat!, b.toNat!)]) }
    ({ d with st := { d.st with core := c' } }, "ok")
  | ["forget", c, id] =>
    let k := applyMem (.drop c.toNat! id.toNat!) (applyMem (.unreg c.toNat! id.toNat!) d.st.core)
    ({ d with st := { d.st with core := k } }, "ok")
  | "op" :: inj :: rest =>
    match parseOp rest with
    | none => (d, "bad-op")
    | some op =>
      let c0 := d.st.changes
      let (s', r) := step d.sch d.st op (parseInj inj)
      -- the syntactic condition of theorem C06_failed_op_is_noop_syntactic, decided on the state BEFORE the call
      let syn := if decide (AtomicSyn d.sch d.st op (parseInj inj)) then "syn" else "gap"
      let out := (match r with | none => "ok" | some e => showErr e) ++ " # " ++
        " ".intercalate (s'.log.reverse.map showStmt) ++ " # " ++ toString (s'.changes - c0) ++ " " ++ syn ++ " # " ++ showDump s'.core
      ({ d with st := s' }, out)
  | _ => (d, "bad-request")

def main : IO Unit := loop handle {}
