import SqlObjVerif.Model.SliceX
import SqlObjVerif.Model.SelHeap
import SqlObjVerif.Model.DrvUtil
/-! Driver for C10 (runs the TRANSLATED `__getitem__`: `stepSelX` / `finishX`).  Request: `<dialect> <n> <a:b>* [i=<int>]` with `-` for an omitted bound.
    Answer: `<result> | <window clause tokens of the final select, or "list">`.
    Session request: `S <dialect> <n> <i>:<a>:<b>*` (statement k: `v_k = v_i[a:b]`, v_0 = the unsliced select), run
    by `runC` = the translated `__getitem__` + `clone` + `__init__` on a heap; answer: the rows of every variable,
    read after the whole session, separated by ` ; `. -/
open SqlObjVerif SqlObjVerif.Slice SqlObjVerif.DrvUtil

def dialect? : String → Option Dialect
  | "sqlite" => some .sqlite | "mysql" => some .mysql | "postgres" => some .postgres | _ => none

def showOut : Out Nat → String
  | .rows l => "rows" ++ String.join (l.map fun x => " " ++ toString x)
  | .item x => "item " ++ toString x
  | .indexError => "IndexError"
  | .error => "error"

def showTok : Tok → String
  | .kw s => s | .n i => toString i | .nComma i => toString i ++ ","

def showSel (d : Dialect) : Sel Nat → String
  | .q w => match windowToks d w with
    | some ts => "sql" ++ String.join (ts.map fun t => " " ++ showTok t)
    | none => "sql-error"
  | .lst _ => "list"
  | .err => "error"

def parseOp (s : String) : Option SliceOp :=
  match s.splitOn ":" with
  | [a, b] => match optInt? a, optInt? b with
    | some a, some b => some (a, b)
    | _, _ => none
  | _ => none

def handle (line : String) : String :=
  match words line with
  | d :: n :: rest =>
    match dialect? d, n.toNat? with
    | some d, some n =>
      let (ixs, ops) := rest.partition (·.startsWith "i=")
      let ix : Option (Option Int) := match ixs with
        | [] => some none
        | [s] => ((s.drop 2).toInt?).map some
        | _ => none
      let ops := ops.map parseOp
      if ops.any Option.isNone then "bad-op" else
      match ix with
      | none => "bad-op"
      | some ix =>
        let ops := ops.filterMap id
        let xs := List.range n
        let sel := ops.foldl (stepSelX d xs) (.q ⟨0, none⟩)
        showOut (finishX d xs sel ix) ++ " | " ++ showSel d sel
    | _, _ => "bad-op"
  | _ => "bad-op"

def parseSOp (s : String) : Option SOp :=
  match s.splitOn ":" with
  | [i, a, b] => match i.toNat?, optInt? a, optInt? b with
    | some i, some a, some b => some (i, a, b)
    | _, _, _ => none
  | _ => none

def sessOrc : SqlObjVerif.PyOps.Orc := { val := fun n => .obj n, cond := fun _ => false, truthy := fun _ => true }

def handleSession (rest : List String) : String :=
  match rest with
  | d :: n :: ops =>
    match dialect? d, n.toNat? with
    | some d, some n =>
      let ops := ops.map parseSOp
      if ops.any Option.isNone then "bad-op" else
      let xs := List.range n
      let st := runC sessOrc d xs (ops.filterMap id)
      " ; ".intercalate (st.vals.map fun v => match rowsOfC d xs st.heap v with
        | some l => "rows" ++ String.join (l.map fun x => " " ++ toString x)
        | none => "error")
    | _, _ => "bad-op"
  | _ => "bad-op"

def handleAny (line : String) : String :=
  match words line with
  | "S" :: rest => handleSession rest
  | _ => handle line

def main : IO Unit := loopPure handleAny
