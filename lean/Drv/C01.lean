import SqlObjVerif.Model.Codec
import SqlObjVerif.Model.CodecX
import SqlObjVerif.Model.DrvUtil
/-! Driver for C01.
Requests:  `w <T> <value>`  — full pipeline for writing `<value>` into a column of type `<T>`
           `r <T> <value>`  — `toPy T` of a value handed back by the driver (read path)
Values: `N` | `b0` `b1` | `i<int>` | `f<cps>` (float, repr text) | `g<int>` (float(int)) | `s<cps>` | `y<cps>` (bytes)
        | `D<y>,<mo>,<d>,<h>,<mi>,<s>,<us>` | `d<y>,<mo>,<d>` | `t<h>,<mi>,<s>,<us>` | `c<cps>` (Decimal)
        | `u<cps>` (UUID) | `j<cps>` (json) | `p<cps>` (pickled) | `o<id>` | `x`
Types: constructor names, `enum:<cps>;<cps>;…`.
           `k cls <value>` / `k attr <value>` — the interface tables of `Model/CodecX.lean` the translated validators are
                       run with: the classes / the attribute names (cps, `;`-joined) of the value's tag; `?` = not interpreted
Answer of `w`: `db=… lit=… cell=… rd=… wc=… q=…`. -/
open SqlObjVerif SqlObjVerif.Codec SqlObjVerif.DrvUtil

def tailS (s : String) : String := String.ofList (s.toList.drop 1)

def nats? (s : String) : Option (List Nat) :=
  (s.splitOn ",").foldr (fun t acc => match t.toNat?, acc with
    | some n, some l => some (n :: l)
    | _, _ => none) (some [])

def val? (s : String) : Option PyVal :=
  let r := tailS s
  match s.toList.head? with
  | some 'N' => some .none
  | some 'b' => if r == "1" then some (.bool true) else if r == "0" then some (.bool false) else none
  | some 'i' => r.toInt?.map .int
  | some 'f' => (decodeCps? r).map fun t => .float (.lit t)
  | some 'g' => r.toInt?.map fun i => .float (.ofInt i)
  | some 's' => (decodeCps? r).map .str
  | some 'y' => (decodeCps? r).map .bytes
  | some 'D' => match nats? r with
    | some [y, mo, d, h, mi, s, us] => some (.datetime y mo d h mi s us)
    | _ => none
  | some 'd' => match nats? r with
    | some [y, mo, d] => some (.date y mo d)
    | _ => none
  | some 't' => match nats? r with
    | some [h, mi, s, us] => some (.time h mi s us)
    | _ => none
  | some 'c' => (decodeCps? r).map .decimal
  | some 'u' => (decodeCps? r).map .uuid
  | some 'j' => (decodeCps? r).map .json
  | some 'p' => (decodeCps? r).map .pickled
  | some 'o' => r.toInt?.map .sqlobj
  | some 'O' => (decodeCps? r).map .sqlobjS
  | some 'x' => some .other
  | _ => none

def showFTok : FTok → String
  | .lit t => "f" ++ encodeCps t
  | .ofInt i => "g" ++ toString i

def commas (l : List Nat) : String := ",".intercalate (l.map toString)

def showVal : PyVal → String
  | .none => "N"
  | .bool b => if b then "b1" else "b0"
  | .int i => "i" ++ toString i
  | .float t => showFTok t
  | .str s => "s" ++ encodeCps s
  | .bytes b => "y" ++ encodeCps b
  | .datetime y mo d h mi s us => "D" ++ commas [y, mo, d, h, mi, s, us]
  | .date y mo d => "d" ++ commas [y, mo, d]
  | .time h mi s us => "t" ++ commas [h, mi, s, us]
  | .decimal t => "c" ++ encodeCps t
  | .uuid t => "u" ++ encodeCps t
  | .json t => "j" ++ encodeCps t
  | .pickled b => "p" ++ encodeCps b
  | .sqlobj id => "o" ++ toString id
  | .sqlobjS id => "O" ++ encodeCps id
  | .other => "x"

def showRes {α} (f : α → String) : Res α → String
  | .ok a => f a
  | .invalid => "Invalid"
  | .reject => "Reject"
  | .unmodelled => "?"

def showCell : DbVal → String
  | .null => "null"
  | .integer i => "int:" ++ toString i
  | .real t => "real:" ++ showFTok t
  | .text s => "text:" ++ encodeCps s
  | .blob b => "blob:" ++ encodeCps b

def colT? (s : String) : Option ColT :=
  match s with
  | "string" => some .string | "unicode" => some .unicode
  | "int" => some .int | "tinyInt" => some .tinyInt | "smallInt" => some .smallInt
  | "mediumInt" => some .mediumInt | "bigInt" => some .bigInt
  | "bool" => some .bool | "float" => some .float
  | "dateTime" => some .dateTime | "date" => some .date | "time" => some .time | "timestamp" => some .timestamp
  | "decimal" => some .decimal | "currency" => some .currency | "decimalString" => some .decimalString
  | "blob" => some .blob | "pickle" => some .pickle | "uuid" => some .uuid | "json" => some .json
  | "fkInt" => some .fkInt | "fkStr" => some .fkStr | "fkIntS" => some .fkIntS
  | _ =>
    if s.startsWith "enum:" then
      let body := String.ofList (s.toList.drop 5)
      let parts := (body.splitOn ";").map decodeCps?
      if parts.any Option.isNone then none else some (.enum (parts.filterMap id))
    else none

def cellOf (T : ColT) (y : PyVal) : Res DbVal :=
  match lit y with
  | .ok l => match evalLit l with
    | none => .reject
    | some v => match applyAff (aff T) v with
      | none => .unmodelled
      | some c => .ok c
  | .invalid => .invalid
  | .reject => .reject
  | .unmodelled => .unmodelled

def handleK (what : String) (x : PyVal) : String :=
  if what == "cls" then
    match PyCodec.classesOf x with
    | some l => ";".intercalate l ++ ";"
    | none => "?"
  else if what == "attr" then
    match PyCodec.attrsOf x with
    | some l => ";".intercalate (l.map encodeCps) ++ ";"
    | none => "?"
  else "bad-op"

def handle (line : String) : String :=
  match words line with
  | [op, t, v] =>
    if op == "k" then
      match val? v with
      | some x => handleK t x
      | none => "bad-arg"
    else
    match colT? t, val? v with
    | some T, some x =>
      if op == "w" then
        let db := toDb T x
        let l := db.bind lit
        let cell := db.bind (cellOf T)
        let q := db.bind fun y => (cellOf T y).bind fun c => whereFinds T y c
        "db=" ++ showRes showVal db ++ " lit=" ++ showRes encodeCps l ++ " cell=" ++ showRes showCell cell
          ++ " rd=" ++ showRes showVal (readBack T x) ++ " wc=" ++ showRes showVal (writerCache T x)
          ++ " q=" ++ showRes (fun b => if b then "1" else "0") q
      else if op == "r" then showRes showVal (toPy T x)
      else "bad-op"
    | _, _ => "bad-arg"
  | _ => "bad-line"

def main : IO Unit := loopPure handle
