import SqlObjVerif.Model.Events
import SqlObjVerif.Model.DrvUtil
/-! Driver for C19.  One case (class configuration + whole history) per line.

Plain class:  `P <lazy 0|1> <ncols> <defaults v,v,..> [<cacheValues 0|1>] | <listener>* | <op> ; <op> ; … [| <listener of class B>*]`
  (act `x` = the listener creates a row of class B; callbacks `p.<n>` with n ≥ 1000 do so when run; B entries are prefixed `b:`)
  value `i<int>` / `n` / `b`;  kwargs `k=v,k=v` or `-`;  listener `<sig>:<act>` with sig in
  c C u U d D (create created update updated destroy destroyed) and act `o`, `s.<k>.<v>`, `d.<k>`, `p.<p>`;
  ops `C kw`, `A h k v`, `S h kw`, `Y h` (syncUpdate), `N h` (sync), `D h`, `F h`, `L`.
  Answer: per op `<out> <entry>* # <table>` joined by ` ; `.
Chain:  `H | <listeners of level 0> / <level 1> / … | <level>*`  listener `<sig>:<act>:<early 0|1>`.
  Answer: the entries of the whole run. -/
open SqlObjVerif SqlObjVerif.Events SqlObjVerif.DrvUtil

def dropFirst (s : String) : String := String.ofList (s.toList.drop 1)
def firstChar (s : String) : Char := (s.toList.head?).getD ' '

def val? (s : String) : Option Val :=
  if s == "n" then some .null
  else if s == "b" then some .bad
  else if firstChar s == 'i' then ((dropFirst s).toInt?).map Val.int
  else none

def kw? (s : String) : Option Kw :=
  if s == "-" then some [] else
  (s.splitOn ",").foldr (fun t acc =>
    match t.splitOn "=", acc with
    | [k, v], some l => match k.toNat?, val? v with
      | some k, some v => some ((k, v) :: l)
      | _, _ => none
    | _, _ => none) (some [])

def sig? : String → Option Sig
  | "c" => some .create | "C" => some .created | "u" => some .update | "U" => some .updated
  | "d" => some .destroy | "D" => some .destroyed | _ => none

def act? (s : String) : Option Act :=
  match s.splitOn "." with
  | ["o"] => some .observe
  | ["s", k, v] => match k.toNat?, val? v with
    | some k, some v => some (.setKey k v)
    | _, _ => none
  | ["d", k] => (k.toNat?).map Act.delKey
  | ["p", p] => (p.toNat?).map Act.post
  | ["x"] => some .spawn
  | _ => none

def listener? (s : String) : Option Listener :=
  match s.splitOn ":" with
  | [a, b] => match sig? a, act? b with
    | some a, some b => some ⟨a, b⟩
    | _, _ => none
  | _ => none

def clistener? (s : String) : Option Chain.CListener :=
  match s.splitOn ":" with
  | [a, b, e] => match sig? a, act? b with
    | some a, some b => some ⟨a, b, e == "1"⟩
    | _, _ => none
  | _ => none

def allSome {α : Type} (l : List (Option α)) : Option (List α) :=
  l.foldr (fun x acc => match x, acc with
    | some x, some l => some (x :: l)
    | _, _ => none) (some [])

def op? (s : String) : Option Op :=
  match words s with
  | ["C", kw] => (kw? kw).map Op.create
  | ["A", h, k, v] => match h.toNat?, k.toNat?, val? v with
    | some h, some k, some v => some (.assign h k v)
    | _, _, _ => none
  | ["S", h, kw] => match h.toNat?, kw? kw with
    | some h, some kw => some (.set h kw)
    | _, _ => none
  | ["Y", h] => (h.toNat?).map Op.syncUpdate
  | ["N", h] => (h.toNat?).map Op.sync
  | ["D", h] => (h.toNat?).map Op.destroy
  | ["F", h] => (h.toNat?).map Op.fetch
  | ["L"] => some .select
  | _ => none

def showVal : Val → String
  | .int n => "i" ++ toString n
  | .null => "n"
  | .bad => "b"

def showSig : Sig → String
  | .create => "c" | .created => "C" | .update => "u" | .updated => "U"
  | .destroy => "d" | .destroyed => "D"

def insertKey (k : Nat) : List Nat → List Nat
  | [] => [k]
  | x :: xs => if k < x then k :: x :: xs else if k = x then x :: xs else x :: insertKey k xs

/-- dict shown with its keys sorted (the harness sorts too) -/
def showKw (kw : Kw) : String :=
  let keys := (kw.map (·.1)).foldr insertKey []
  if keys.isEmpty then "-" else
  ",".intercalate (keys.map fun k => toString k ++ "=" ++ showVal ((Kw.get kw k).getD .null))

def showVec (vec : List (Option Val)) : String :=
  let items := (vec.zipIdx).filterMap fun (v, k) => v.map fun v => toString k ++ "=" ++ showVal v
  if items.isEmpty then "-" else ",".intercalate items

def showId : Option Nat → String
  | none => "-"
  | some i => toString i

def showEntry : Entry → String
  | .ev sig lis id kw => "e" ++ showSig sig ++ toString lis ++ "@" ++ showId id ++
      (match kw with | some kw => "[" ++ showKw kw ++ "]" | none => "~")
  | .ins id row => "I" ++ toString id ++ "[" ++ ",".intercalate (row.map showVal) ++ "]"
  | .upd id vec => "U" ++ toString id ++ "[" ++ showVec vec ++ "]"
  | .del id => "D" ++ toString id
  | .post p id => "p" ++ toString p ++ "@" ++ toString id

def showOut : Out → String
  | .ok => "ok" | .invalid => "Invalid" | .typeError => "TypeError" | .notFound => "NotFound"
  | .nohandle => "nohandle" | .skip => "skip"

def showTable (rows : List (Nat × List Val)) : String :=
  if rows.isEmpty then "-" else
  " ".intercalate (rows.map fun r => toString r.1 ++ ":" ++ ",".intercalate (r.2.map showVal))

def showCEntry : Chain.CEntry → String
  | .ev sig level lis id => "e" ++ showSig sig ++ toString level ++ "." ++ toString lis ++ "@" ++ showId id
  | .ins level id => "I" ++ toString level ++ "@" ++ toString id
  | .post p level id => "p" ++ toString p ++ "." ++ toString level ++ "@" ++ toString id

def showXEntry : XEntry → String
  | .a e => showEntry e
  | .b e => "b:" ++ showEntry e

def runShow (c : Cfg) (LB : List Listener) : State → Nat → List Op → List String
  | _, _, [] => []
  | s, nB, op :: ops =>
    let q := stepX c LB s nB op
    (showOut q.1.2.2 ++ " " ++ (if q.1.2.1.isEmpty then "-" else " ".intercalate (q.1.2.1.map showXEntry))
      ++ " # " ++ showTable q.1.1.rows ++ " # b" ++ toString (q.2 - 1)) :: runShow c LB q.1.1 q.2 ops

def sections (line : String) : List String := (line.splitOn "|").map fun s => s.trimAscii.toString

def handle (line : String) : String :=
  let secs := sections line
  let lb : Option (List Listener) := match secs with
    | [_, _, _, lb] => allSome ((words lb).map listener?)
    | _ => some []
  match secs.take 3 with
  | [hd, ls, ops] =>
    match (match words hd with | [a, b, c, d] => [a, b, c, d, "1"] | w => w) with
    | ["P", lz, n, dfl, cv] =>
      let dfl := if dfl == "-" then some [] else allSome ((dfl.splitOn ",").map val?)
      let ls := allSome ((words ls).map listener?)
      let ops := if ops.isEmpty then some [] else
        allSome ((ops.splitOn ";").map fun s => op? s.trimAscii.toString)
      match n.toNat?, dfl, ls, ops, lb with
      | some n, some dfl, some ls, some ops, some lb =>
        let c : Cfg := { ncols := n, lazy := lz == "1", defaults := dfl, listeners := ls, cacheValues := cv == "1" }
        " ; ".intercalate (runShow c lb init 1 ops)
      | _, _, _, _, _ => "bad-case"
    | ["H"] =>
      let levels := (ls.splitOn "/").map fun s => allSome ((words s).map clistener?)
      let lv := allSome ((words ops).map String.toNat?)
      match allSome levels, lv with
      | some cfg, some lv =>
        let es := Chain.runCreates cfg 1 lv
        if es.isEmpty then "-" else " ".intercalate (es.map showCEntry)
      | _, _ => "bad-case"
    | _ => "bad-case"
  | _ => "bad-case"

def main : IO Unit := loopPure handle
