import SqlObjVerif.Model.Ddl
import SqlObjVerif.Model.DdlCat
import SqlObjVerif.Extracted.Ddl
import SqlObjVerif.Model.DrvUtil
/-! Driver for C14.
Request: `ddl <dialect> <micro> <maxTypes> <decl…>` (grammar in harness/c14.py `enc_decl`).
Answer: `<create table text | !> <n constraints> <c1> … <join tables text> <indexes text> <skeleton>`; strings as
`.`-joined hex code points.  `skel <bs> <text>` answers the reader's skeleton of any text.
`link <a> <b>` answers whether class `a` creates the link table of a join with `b`;
`own <clsA> <tblA> <clsB> <tblB>`: `<A creates> <A drops>` by the extracted ownership tests. -/
open SqlObjVerif SqlObjVerif.Ddl SqlObjVerif.DrvUtil

abbrev P := StateT (List String) Option

def tok : P String := do
  let s ← get
  match s with
  | [] => failure
  | t :: rest => set rest; pure t

def pStr : P Str := do
  let t ← tok
  match decodeCps? t with
  | some l => pure l
  | none => failure

def pOptStr : P (Option Str) := do
  let s ← get
  match s with
  | "~" :: rest => set rest; pure none
  | _ => some <$> pStr

def pNat : P Nat := do
  let t ← tok
  match t.toNat? with
  | some n => pure n
  | none => failure

def pBool : P Bool := do
  let t ← tok
  match t with
  | "0" => pure false
  | "1" => pure true
  | _ => failure

def pOptBool : P (Option Bool) := do
  let t ← tok
  match t with
  | "~" => pure none
  | "0" => pure (some false)
  | "1" => pure (some true)
  | _ => failure

def pList {α} (p : P α) : P (List α) := do
  let n ← pNat
  let rec go : Nat → P (List α)
    | 0 => pure []
    | k + 1 => do
      let a ← p
      let rest ← go k
      pure (a :: rest)
  go n

def pDialect : P Dialect := do
  let t ← tok
  match t with
  | "sqlite" => pure .sqlite | "mysql" => pure .mysql | "postgres" => pure .postgres
  | "firebird" => pure .firebird | "mssql" => pure .mssql | "sybase" => pure .sybase | "maxdb" => pure .maxdb
  | _ => failure

def pSimple : P SimpleKind := do
  let t ← tok
  match t with
  | "bool" => pure .bool | "float" => pure .float | "dateTime" => pure .dateTime | "date" => pure .date
  | "time" => pure .time | "timestamp" => pure .timestamp | "uuid" => pure .uuid
  | _ => failure

def pIntKind : P IntKind := do
  let t ← tok
  match t with
  | "int" => pure .int | "tiny" => pure .tiny | "small" => pure .small | "medium" => pure .medium | "big" => pure .big
  | _ => failure

def pCascade : P Cascade := do
  let t ← tok
  match t with
  | "n" => pure .none | "c" => pure .cascade | "r" => pure .restrict | "s" => pure .setNull
  | _ => failure

def pIdSize : P IdSize := do
  let t ← tok
  match t with
  | "-" => pure .none | "T" => pure .tiny | "S" => pure .small | "M" => pure .medium | "B" => pure .big
  | _ => failure

def pStyle : P Style := do
  let t ← tok
  match t with
  | "u" => pure .under | "m" => pure .mixed | "p" => pure .plain
  | _ => failure

def pKind : P Kind := do
  let t ← tok
  match t with
  | "s" => Kind.simple <$> pSimple
  | "i" => do
    let k ← pIntKind; let l ← pNat; let u ← pBool; let z ← pBool
    pure (.int k l u z)
  | "t" => do
    let u ← pBool; let l ← pNat; let v ← pOptBool
    pure (.str u l v)
  | "b" => do
    let l ← pNat; let v ← pOptBool
    pure (.blob l v)
  | "p" => do
    let l ← pNat; let v ← pOptBool
    pure (.pickle l v)
  | "d" => do
    let s ← pNat; let p ← pNat
    pure (.decimal s p)
  | "c" => pure .currency
  | "e" => Kind.enum <$> pList pOptStr
  | "f" => do
    let t ← pStr; let i ← pStr; let s ← pBool; let c ← pCascade
    pure (.fk t i s c)
  | _ => failure

def pCol : P Col := do
  let name ← pStr; let db ← pOptStr; let nn ← pBool; let uq ← pOptBool; let alt ← pBool
  let ds ← pOptStr; let k ← pKind
  pure ⟨name, db, k, nn, uq, alt, ds⟩

def pIndex : P Index := do
  let name ← pStr; let u ← pBool; let cols ← pList pNat
  pure ⟨name, u, cols⟩

def pJoin : P Join := do
  let t ← pStr; let a ← pStr; let b ← pStr
  pure ⟨t, a, b⟩

def pDecl : P Decl := do
  let cn ← pStr; let st ← pStyle; let lid ← pBool; let tbl ← pOptStr; let idn ← pOptStr
  let ids ← pBool; let sz ← pIdSize
  let cols ← pList pCol; let ixs ← pList pIndex; let js ← pList pJoin
  pure ⟨cn, st, lid, tbl, idn, ids, sz, cols, ixs, js⟩

def showKey : KeyMark → String
  | .none => "-" | .primaryKey => "pk" | .identity => "ident"

def showSkel (l : List ColSkel) : String :=
  if l.isEmpty then "[]" else
  ",".intercalate (l.map fun c =>
    encodeCps c.name ++ ":" ++ (if c.notNull then "N" else "n") ++ (if c.unique then "U" else "u") ++ ":" ++ showKey c.key)

def showAction : Action → String
  | .none => "none" | .cascade => "cascade" | .restrict => "restrict" | .setNull => "setnull" | .other => "other"

def showRefs (l : List RefSkel) : String :=
  if l.isEmpty then "[]" else
  ",".intercalate (l.map fun r => encodeCps r.col ++ ":" ++ encodeCps r.target ++ ":" ++ showAction r.action)

def T := SqlObjVerif.Ddl.Extracted.tables

def handleDdl : P String := do
  let d ← pDialect; let micro ← pBool; let mx ← pBool
  let decl ← pDecl
  let caps : Caps := ⟨micro, mx⟩
  let cons := constraints T d decl
  let main := createTableSQL T d caps decl
  let mainS := match main with
    | some t => encodeCps t
    | none => "!"
  let sk := match main with
    | some t => showSkel (skeleton false t) ++ " " ++ showRefs (inlineRefs false t)
    | none => "! !"
  pure (mainS ++ " " ++ toString cons.length ++ String.join (cons.map fun c => " " ++ encodeCps c) ++ " " ++
    encodeCps (joinTablesSQL T d decl) ++ " " ++ encodeCps (indexesSQL d decl) ++ " " ++ sk)

def handle (line : String) : String :=
  match words line with
  | "ddl" :: rest =>
    match handleDdl.run rest with
    | some (out, []) => out
    | some (_, _) => "bad-trailing"
    | none => "bad-request"
  | ["skel", bs, text] =>
    match decodeCps? text with
    | some t => showSkel (skeleton (bs == "1") t) ++ " " ++ showRefs (inlineRefs (bs == "1") t)
    | none => "bad-request"
  | ["own", ca, ta, cb, tb] =>
    match decodeCps? ca, decodeCps? ta, decodeCps? cb, decodeCps? tb with
    | some ca, some ta, some cb, some tb =>
      let a : ClsNames := ⟨ca, ta⟩
      let b : ClsNames := ⟨cb, tb⟩
      (if sideActs SqlObjVerif.Ddl.Extracted.linkCreateKey a b then "1" else "0") ++ " " ++
        (if sideActs SqlObjVerif.Ddl.Extracted.linkDropKey a b then "1" else "0")
    | _, _, _, _ => "bad-request"
  | "cat" :: op :: fl :: jn :: rest =>
    -- cat <create|drop> <if flag> <joins flag> <table> <n links> links… <n tables> tables…
    let p : P (Str × List Str × List Str) := do
      let t ← pStr; let ls ← pList pStr; let ts ← pList pStr
      pure (t, ls, ts)
    match p.run rest with
    | some ((t, ls, ts), []) =>
      let r : Req := ⟨t, ls, []⟩
      let c : Cat := ⟨ts, []⟩
      let res :=
        if op == "drop" then
          dropTableG SqlObjVerif.Ddl.Extracted.dropPassesIfExists SqlObjVerif.Ddl.Extracted.dropDedupes (fl == "1") (jn == "1") r c
        else
          createTableG SqlObjVerif.Ddl.Extracted.createPassesIfNotExists SqlObjVerif.Ddl.Extracted.createDedupes (fl == "1") (jn == "1") r c
      match res with
      | .ok c1 => "ok" ++ String.join (c1.tables.map fun x => " " ++ encodeCps x)
      | .error _ => "err"
    | _ => "bad-request"
  | ["link", a, b] =>
    match decodeCps? a, decodeCps? b with
    | some a, some b => if createsLink a b then "1" else "0"
    | _, _ => "bad-request"
  | _ => "bad-request"

def main : IO Unit := loopPure handle
