import SqlObjVerif.Model.Tx
import SqlObjVerif.Model.TxLazy
import SqlObjVerif.Model.DrvUtil
/-! Driver for C07 (stateful).  Requests:
    `init <0|1>` | `create <P|T> k v0 v1` | `get <P|T> k <0|1>` | `read <P|T> j c` | `set <P|T> j c v` |
    `destroy <P|T> j` | `expire <P|T> j` | `select <P|T> cls` | `drop <P|T> j` | `weaken <P|T> k` | `purge <P|T> cls` |
    `commit <0|1>` | `rollback` | `begin` | `dump`.
    `dump` answers the committed rows, the transaction's view (or `obsolete`), and the cached values of the held,
    not destroyed instances of both sides. -/
open SqlObjVerif SqlObjVerif.Tx SqlObjVerif.DrvUtil

def side? : String → Option Side
  | "P" => some .P | "T" => some .T | _ => none

def showOut : Out → String
  | .ok => "ok"
  | .inst j => "inst " ++ toString j
  | .val v => "val " ++ toString v
  | .rows l => "rows" ++ String.join (l.map fun (j, k) => " " ++ toString j ++ ":" ++ toString k)
  | .notFound => "NotFound"
  | .dup => "Duplicate"
  | .locked => "Locked"
  | .assert => "Assert"
  | .bad => "bad"

def ncols : Nat := 2

def showRows (dom : List Key) (f : Key → Option Row) : String :=
  String.join (dom.filterMap fun k => (f k).map fun r =>
    " " ++ toString k ++ "=" ++ ",".intercalate ((List.range ncols).map fun c => toString (r c)))

def showInsts (c : Conn) : String :=
  String.join ((List.range c.n).filterMap fun j =>
    let i := c.insts j
    if i.held && !i.destroyed then
      some (" " ++ toString j ++ ":" ++ toString i.key ++ ":" ++
        ",".intercalate ((List.range ncols).map fun col => match i.cached col with
          | some v => toString v
          | none => "-"))
    else none)

def dump (s : St) : String :=
  "db" ++ showRows s.dom s.db ++ " | view" ++ (if s.obsolete then " obsolete" else showRows s.dom (s.view .T))
    ++ " | P" ++ showInsts s.p ++ " | T" ++ showInsts s.t

def parseOp (ws : List String) : Option Op :=
  match ws with
  | ["create", sd, k, v0, v1] => do
    let sd ← side? sd; let k ← k.toNat?; let v0 ← v0.toInt?; let v1 ← v1.toInt?
    pure (.create sd k fun c => if c = 0 then v0 else if c = 1 then v1 else 0)
  | ["get", sd, k, b] => do
    let sd ← side? sd; let k ← k.toNat?
    pure (.get sd k (b == "1"))
  | ["read", sd, j, c] => do
    let sd ← side? sd; let j ← j.toNat?; let c ← c.toNat?
    pure (.read sd j c)
  | ["set", sd, j, c, v] => do
    let sd ← side? sd; let j ← j.toNat?; let c ← c.toNat?; let v ← v.toInt?
    pure (.set sd j c v)
  | ["destroy", sd, j] => do
    let sd ← side? sd; let j ← j.toNat?
    pure (.destroy sd j)
  | ["expire", sd, j] => do
    let sd ← side? sd; let j ← j.toNat?
    pure (.expire sd j)
  | ["select", sd, cls] => do
    let sd ← side? sd; let cls ← cls.toNat?
    pure (.select sd cls)
  | ["drop", sd, j] => do
    let sd ← side? sd; let j ← j.toNat?
    pure (.drop sd j)
  | ["weaken", sd, k] => do
    let sd ← side? sd; let k ← k.toNat?
    pure (.weaken sd k)
  | ["purge", sd, cls] => do
    let sd ← side? sd; let cls ← cls.toNat?
    pure (.purge sd cls)
  | ["commit", b] => some (.commit (b == "1"))
  | ["rollback"] => some .rollback
  | ["begin"] => some .begin
  | _ => none

/-! lazy mode: lines starting with `L`: `L init` | `L insert k v0 v1` | `L get <P|T> k` | `L assign <P|T> j c v` |
    `L sync <P|T> j` | `L read <P|T> j c` | `L expire <P|T> j` | `L commit <0|1>` | `L rollback` | `L begin` | `L dump` -/
namespace Lz
open SqlObjVerif.TxLazy

def side? : String → Option TxLazy.Side
  | "P" => some .P | "T" => some .T | _ => none

def showOut : TxLazy.Out → String
  | .ok => "ok" | .inst j => "inst " ++ toString j | .val v => "val " ++ toString v | .notFound => "NotFound"
  | .dup => "Duplicate" | .locked => "Locked" | .assert => "Assert" | .bad => "bad"

def parseOp (ws : List String) : Option TxLazy.Op :=
  match ws with
  | ["insert", k, v0, v1] => do
    let k ← k.toNat?; let v0 ← v0.toInt?; let v1 ← v1.toInt?
    pure (.insert k fun c => if c = 0 then v0 else if c = 1 then v1 else 0)
  | ["get", sd, k] => do pure (.get (← side? sd) (← k.toNat?))
  | ["assign", sd, j, c, v] => do pure (.assign (← side? sd) (← j.toNat?) (← c.toNat?) (← v.toInt?))
  | ["sync", sd, j] => do pure (.sync (← side? sd) (← j.toNat?))
  | ["read", sd, j, c] => do pure (.read (← side? sd) (← j.toNat?) (← c.toNat?))
  | ["expire", sd, j] => do pure (.expire (← side? sd) (← j.toNat?))
  | ["commit", b] => some (.commit (b == "1"))
  | ["rollback"] => some .rollback
  | ["begin"] => some .begin
  | _ => none

def showRows (f : Nat → Option TxLazy.Row) : String :=
  String.join ((List.range 8).filterMap fun k => (f k).map fun r =>
    " " ++ toString k ++ "=" ++ toString (r 0) ++ "," ++ toString (r 1))

def dump (s : TxLazy.St) : String :=
  "db" ++ showRows s.db ++ " | view" ++ (if s.obsolete then " obsolete" else showRows s.txv)

end Lz

def handle2 (st : St × TxLazy.St) (line : String) : (St × TxLazy.St) × String :=
  match words line with
  | "L" :: rest =>
    match rest with
    | ["init"] => ((st.1, TxLazy.init), "ok")
    | ["dump"] => (st, Lz.dump st.2)
    | ws => match Lz.parseOp ws with
      | some op => let r := TxLazy.step st.2 op; ((st.1, r.1), Lz.showOut r.2)
      | none => (st, "bad-op")
  | ["init", b] => ((init (b == "1"), st.2), "ok")
  | ["dump"] => (st, dump st.1)
  | ws =>
    match parseOp ws with
    | some op => let r := step st.1 op; ((r.1, st.2), showOut r.2)
    | none => (st, "bad-op")

def main : IO Unit := loop handle2 (init true, TxLazy.init)
