import SqlObjVerif.Model.Tx
import SqlObjVerif.Model.DrvUtil
/-! Driver for C07 (stateful).  Requests:
    `init <0|1>` | `create <P|T> k v0 v1` | `get <P|T> k <0|1>` | `read <P|T> j c` | `set <P|T> j c v` |
    `destroy <P|T> j` | `expire <P|T> j` | `select <P|T> cls` | `drop <P|T> j` | `weaken <P|T> k` | `purge <P|T> cls` |
    `commit <0|1>` | `rollback` | `begin` | `dump`.
    `dump` answers the committed rows, the transaction's view (or `obsolete`), and the cached values of the held,
    not destroyed instances of both sides. -/
open SqlObjVerif SqlObjVerif.Tx SqlObjVerif.DrvUtil

def side? : String → Option Side
  | "P" => some .P | "T" => some .T | _ => none

def showOut : Out → String
  | .ok => "ok"
  | .inst j => "inst " ++ toString j
  | .val v => "val " ++ toString v
  | .rows l => "rows" ++ String.join (l.map fun (j, k) => " " ++ toString j ++ ":" ++ toString k)
  | .notFound => "NotFound"
  | .dup => "Duplicate"
  | .locked => "Locked"
  | .assert => "Assert"
  | .bad => "bad"

def ncols : Nat := 2

def showRows (dom : List Key) (f : Key → Option Row) : String :=
  String.join (dom.filterMap fun k => (f k).map fun r =>
    " " ++ toString k ++ "=" ++ ",".intercalate ((List.range ncols).map fun c => toString (r c)))

def showInsts (c : Conn) : String :=
  String.join ((List.range c.n).filterMap fun j =>
    let i := c.insts j
    if i.held && !i.destroyed then
      some (" " ++ toString j ++ ":" ++ toString i.key ++ ":" ++
        ",".intercalate ((List.range ncols).map fun col => match i.cached col with
          | some v => toString v
          | none => "-"))
    else none)

def dump (s : St) : String :=
  "db" ++ showRows s.dom s.db ++ " | view" ++ (if s.obsolete then " obsolete" else showRows s.dom (s.view .T))
    ++ " | P" ++ showInsts s.p ++ " | T" ++ showInsts s.t

def parseOp (ws : List String) : Option Op :=
  match ws with
  | ["create", sd, k, v0, v1] => do
    let sd ← side? sd; let k ← k.toNat?; let v0 ← v0.toInt?; let v1 ← v1.toInt?
    pure (.create sd k fun c => if c = 0 then v0 else if c = 1 then v1 else 0)
  | ["get", sd, k, b] => do
    let sd ← side? sd; let k ← k.toNat?
    pure (.get sd k (b == "1"))
  | ["read", sd, j, c] => do
    let sd ← side? sd; let j ← j.toNat?; let c ← c.toNat?
    pure (.read sd j c)
  | ["set", sd, j, c, v] => do
    let sd ← side? sd; let j ← j.toNat?; let c ← c.toNat?; let v ← v.toInt?
    pure (.set sd j c v)
  | ["destroy", sd, j] => do
    let sd ← side? sd; let j ← j.toNat?
    pure (.destroy sd j)
  | ["expire", sd, j] => do
    let sd ← side? sd; let j ← j.toNat?
    pure (.expire sd j)
  | ["select", sd, cls] => do
    let sd ← side? sd; let cls ← cls.toNat?
    pure (.select sd cls)
  | ["drop", sd, j] => do
    let sd ← side? sd; let j ← j.toNat?
    pure (.drop sd j)
  | ["weaken", sd, k] => do
    let sd ← side? sd; let k ← k.toNat?
    pure (.weaken sd k)
  | ["purge", sd, cls] => do
    let sd ← side? sd; let cls ← cls.toNat?
    pure (.purge sd cls)
  | ["commit", b] => some (.commit (b == "1"))
  | ["rollback"] => some .rollback
  | ["begin"] => some .begin
  | _ => none

def handle (s : St) (line : String) : St × String :=
  match words line with
  | ["init", b] => (init (b == "1"), "ok")
  | ["dump"] => (s, dump s)
  | ws =>
    match parseOp ws with
    | some op => let r := step s op; (r.1, showOut r.2)
    | none => (s, "bad-op")

def main : IO Unit := loop handle (init true)
