import SqlObjVerif.Model.Hub
import SqlObjVerif.Model.DrvUtil
/-! Driver for C08 (stateless).  Rows `1=10 2=20`; caller = thread 1 in hub configuration `cfg` (see `worldOf`).
    Request: `<cfg> <autoCommit 1|0|X> <steps> <raise>` with steps `c<k>=<v>`, `u<k>=<v>`, `d<k>`, `U<k>=<v>`, `D<k>` (through pre-loaded instances) joined by `,` (or `-`), raise `-` or
    `<n>:<E|K>:<id>`.
    Answer: `<outcome> | db <rows> | hub <t>:<level>:<conn>… | inuse a,b,c zombies n | collected inuse a,b,c db <rows>`. -/
open SqlObjVerif SqlObjVerif.Hub SqlObjVerif.DrvUtil

/-- caller = thread 1.  cfg: `T` thread binding only (connection 1), `P` process binding only (connection 0),
    `TP` both, different (thread → 1, process → 0), `S` both the SAME connection 0.  Thread 2 is a bystander bound to
    connection 2, thread 0 a bystander without thread binding. -/
def worldOf (cfg : String) (ac : Bool) : World :=
  let t1 : Option CRef := if cfg == "T" || cfg == "TP" then some (.base 1) else if cfg == "S" then some (.base 0) else none
  let pr : Option CRef := if cfg == "T" then none else some (.base 0)
  ⟨fun k => if k = 1 then some 10 else if k = 2 then some 20 else none,
   ⟨fun t => if t = 1 then t1 else if t = 2 then some (.base 2) else none, pr⟩,
   fun _ => 0, [], fun _ => ac, fun _ => ac⟩

def parseStep (s : String) : Option Step :=
  match s.toList with
  | 'c' :: rest => match (String.ofList rest).splitOn "=" with
    | [k, v] => do pure (.create (← k.toNat?) (← v.toInt?))
    | _ => none
  | 'u' :: rest => match (String.ofList rest).splitOn "=" with
    | [k, v] => do pure (.update (← k.toNat?) (← v.toInt?))
    | _ => none
  | 'd' :: rest => do pure (.delete (← (String.ofList rest).toNat?))
  | 'U' :: rest => match (String.ofList rest).splitOn "=" with
    | [k, v] => do pure (.updateInst (← k.toNat?) (← v.toInt?))
    | _ => none
  | 'D' :: rest => do pure (.deleteInst (← (String.ofList rest).toNat?))
  | ['s'] => some .select
  | _ => none

def parseSteps (s : String) : Option (List Step) :=
  if s == "-" then some [] else (s.splitOn ",").mapM parseStep

def parseRaise (s : String) : Option (Option (Nat × Exc)) :=
  if s == "-" then some none else
  match s.splitOn ":" with
  | [n, k, i] => do
    let n ← n.toNat?
    let i ← i.toNat?
    let k ← (if k == "E" then some Kind.exc else if k == "K" then some Kind.baseOnly else none)
    pure (some (n, ⟨k, i⟩))
  | _ => none

def showRows (v : View) : String :=
  String.join ((List.range 200).filterMap fun k => (v k).map fun x => " " ++ toString k ++ "=" ++ toString x)

def showCRef : CRef → String
  | .base c => "b" ++ toString c
  | .tx c => "t" ++ toString c

def showOpt : Option CRef → String
  | some c => showCRef c
  | none => "-"

/-- both attributes separately, then what every thread resolves to -/
def showHub (h : Hub) : String :=
  " t1=" ++ showOpt (h.thread 1) ++ " p=" ++ showOpt h.proc ++
  String.join ((List.range 3).map fun t => match h.resolve t with
    | some (.thread, c) => " " ++ toString t ++ ":T:" ++ showCRef c
    | some (.process, c) => " " ++ toString t ++ ":P:" ++ showCRef c
    | none => " " ++ toString t ++ ":-")

def usedConn (cfg : String) : Nat := if cfg == "T" || cfg == "TP" then 1 else 0

def showInUse (w : World) : String := ",".intercalate ((List.range 3).map fun c => toString (w.inUse c))

def showOutcome : Outcome → String
  | .returned v => "returned " ++ toString v
  | .raised e => "raised " ++ (match e.kind with | .exc => "E" | .baseOnly => "K") ++ ":" ++ toString e.id

/-- overlapping calls: `O e1 e2 l1 l2 …` (enter / leave of thread 1 and 2, each bound to its own connection);
    answer: what threads 1 and 2 resolve to after every event -/
def parseEv (s : String) : Option Ev :=
  match s.toList with
  | ['e', d] => (String.singleton d).toNat?.map Ev.enter
  | ['l', d] => (String.singleton d).toNat?.map Ev.leave
  | _ => none

def showRes (h : Hub) (t : Nat) : String :=
  match h.resolve t with
  | some (.thread, c) => toString t ++ ":T:" ++ showCRef c
  | some (.process, c) => toString t ++ ":P:" ++ showCRef c
  | none => toString t ++ ":-"

def overlap (evs : List Ev) : String :=
  let h0 := (worldOf "TP" true).hub
  let r := evs.foldl (fun (acc : HS × List String) ev =>
    let s := acc.1.step ev
    (s, acc.2 ++ [showRes s.hub 1 ++ " " ++ showRes s.hub 2])) (⟨h0, fun _ => none⟩, [])
  " | ".intercalate r.2

def handle (line : String) : String :=
  match words line with
  | "O" :: evs =>
    match evs.mapM parseEv with
    | some evs => overlap evs
    | none => "bad-op"
  | [cfg, ac, steps, rs] =>
    match parseSteps steps, parseRaise rs with
    | some steps, some ra =>
      let w := worldOf cfg (ac != "0")
      let r := doInTx w 1 ⟨steps, ra, 7⟩
      let w2 := collect r.1
      showOutcome r.2 ++ " | db" ++ showRows r.1.db ++ " | hub" ++ showHub r.1.hub ++ " | inuse " ++ showInUse r.1
        ++ " zombies " ++ toString r.1.zombies.length ++ " | collected inuse " ++ showInUse w2
        ++ " auto " ++ toString (w2.poolAuto (usedConn cfg)) ++ " db" ++ showRows w2.db
    | _, _ => "bad-op"
  | _ => "bad-op"

def main : IO Unit := loopPure handle
