import SqlObjVerif.Model.Hub
import SqlObjVerif.Model.DrvUtil
/-! Driver for C08 (stateless).  Fixed world: rows `1=10 2=20`; process binding = connection 0, thread 1 bound to
    connection 1, thread 2 to connection 2, thread 0 unbound (uses the process binding).
    Request: `<tid> <steps> <raise>` with steps `c<k>=<v>`, `u<k>=<v>`, `d<k>` joined by `,` (or `-`), raise `-` or
    `<n>:<E|K>:<id>`.
    Answer: `<outcome> | db <rows> | hub <t>:<level>:<conn>… | inuse a,b,c zombies n | collected inuse a,b,c db <rows>`. -/
open SqlObjVerif SqlObjVerif.Hub SqlObjVerif.DrvUtil

def world0 : World :=
  ⟨fun k => if k = 1 then some 10 else if k = 2 then some 20 else none,
   ⟨fun t => if t = 1 then some (.base 1) else if t = 2 then some (.base 2) else none, some (.base 0)⟩,
   fun _ => 0, []⟩

def parseStep (s : String) : Option Step :=
  match s.toList with
  | 'c' :: rest => match (String.ofList rest).splitOn "=" with
    | [k, v] => do pure (.create (← k.toNat?) (← v.toInt?))
    | _ => none
  | 'u' :: rest => match (String.ofList rest).splitOn "=" with
    | [k, v] => do pure (.update (← k.toNat?) (← v.toInt?))
    | _ => none
  | 'd' :: rest => do pure (.delete (← (String.ofList rest).toNat?))
  | _ => none

def parseSteps (s : String) : Option (List Step) :=
  if s == "-" then some [] else (s.splitOn ",").mapM parseStep

def parseRaise (s : String) : Option (Option (Nat × Exc)) :=
  if s == "-" then some none else
  match s.splitOn ":" with
  | [n, k, i] => do
    let n ← n.toNat?
    let i ← i.toNat?
    let k ← (if k == "E" then some Kind.exc else if k == "K" then some Kind.baseOnly else none)
    pure (some (n, ⟨k, i⟩))
  | _ => none

def showRows (v : View) : String :=
  String.join ((List.range 12).filterMap fun k => (v k).map fun x => " " ++ toString k ++ "=" ++ toString x)

def showCRef : CRef → String
  | .base c => "b" ++ toString c
  | .tx c => "t" ++ toString c

def showHub (h : Hub) : String :=
  String.join ((List.range 3).map fun t => match h.resolve t with
    | some (.thread, c) => " " ++ toString t ++ ":T:" ++ showCRef c
    | some (.process, c) => " " ++ toString t ++ ":P:" ++ showCRef c
    | none => " " ++ toString t ++ ":-")

def showInUse (w : World) : String := ",".intercalate ((List.range 3).map fun c => toString (w.inUse c))

def showOutcome : Outcome → String
  | .returned v => "returned " ++ toString v
  | .raised e => "raised " ++ (match e.kind with | .exc => "E" | .baseOnly => "K") ++ ":" ++ toString e.id

def handle (line : String) : String :=
  match words line with
  | [tid, steps, rs] =>
    match tid.toNat?, parseSteps steps, parseRaise rs with
    | some tid, some steps, some ra =>
      let r := doInTx world0 tid ⟨steps, ra, 7⟩
      let w2 := collect r.1
      showOutcome r.2 ++ " | db" ++ showRows r.1.db ++ " | hub" ++ showHub r.1.hub ++ " | inuse " ++ showInUse r.1
        ++ " zombies " ++ toString r.1.zombies.length ++ " | collected inuse " ++ showInUse w2 ++ " db" ++ showRows w2.db
    | _, _, _ => "bad-op"
  | _ => "bad-op"

def main : IO Unit := loopPure handle
