import SqlObjVerif.Model.Query
import SqlObjVerif.Model.DrvUtil
/-! Driver for C11 (stateful).  Requests (blank-separated tokens, `-` = NULL / nothing):

* `schema <table> <othTable> <defaultOrder> <py>/<db>/<foreign|->…`          → `ok`
* `rows <id>,<v>,<v>,… …`  and  `oth <g> …`                                   → `ok`
* `sel <clause> <order> <rev 0|1> <dist 0|1> <op>… <terminal>`
* `by <k>=<v>,… <op>… <terminal>`           (`-` for no keyword; v = `n` | `i<int>` | `o<id>`)
* `alt <col index> <v>`    `idx <number of index columns> <k>=<v>,…`

clause: `none` or comma-separated prefix form `tt` `cmp,<op>,<a>,<b>` `isnull,<a>` `notnull,<a>` `and,<e>,<e>`
`or,<e>,<e>` `not,<e>` `andn,<k>,<e>…` `orn,<k>,<e>…` (the n-ary helpers); operands `c<i>` `cid` `l<int>` `g`.
order: `nodefault` | `none` | `one=<arg>` | `many=<arg>;…` (list) | `tuple=<arg>;…`; arg = `s<string>` | `e<oexpr>`; oexpr = `d`* then
`f<i>` | `fid` | `k<raw>`.
op: `order=<order>` `rev` `dist` `filter=<clause>`.
terminal: `list` `count` `sum=<term>` `min=` `max=` `avg=` (term = `f<i>` | `fid` | `k<raw>`) `one` `one0`.

Answer: `<sql text> | <result>`. -/
open SqlObjVerif SqlObjVerif.Query SqlObjVerif.DrvUtil

structure St where
  sch : Schema := { table := [], othTable := [], cols := [] }
  db : Db := { rows := [] }

def pVal (s : String) : Option Val := optInt? s

def pColRef (s : String) : Option ColRef :=
  if s == "id" then some .id else (s.toNat?).map .col

def pOperand (s : String) : Option Operand :=
  if s == "g" then some .othG
  else if s == "cid" then some (.col .id)
  else if s.startsWith "c" then ((s.drop 1).toString.toNat?).map fun i => .col (.col i)
  else if s.startsWith "l" then ((s.drop 1).toString.toInt?).map .lit
  else none

def pCmp : String → Option CmpOp
  | "eq" => some .eq | "ne" => some .ne | "lt" => some .lt | "le" => some .le | "gt" => some .gt | "ge" => some .ge
  | _ => none

def pN (p : List String → Option (Expr × List String)) : Nat → List String → Option (List Expr × List String)
  | 0, r => some ([], r)
  | k + 1, r => match p r with
    | some (e, r) => (pN p k r).map fun (l, r) => (e :: l, r)
    | none => none

def pExprToks : Nat → List String → Option (Expr × List String)
  | 0, _ => none
  | fuel + 1, toks =>
    match toks with
    | "tt" :: r => some (.tt, r)
    | "cmp" :: op :: a :: b :: r =>
      match pCmp op, pOperand a, pOperand b with
      | some op, some a, some b => some (.cmp op a b, r)
      | _, _, _ => none
    | "isnull" :: a :: r => (pOperand a).map fun a => (.isNull a, r)
    | "notnull" :: a :: r => (pOperand a).map fun a => (.notNull a, r)
    | "and" :: r =>
      match pExprToks fuel r with
      | some (a, r) => match pExprToks fuel r with
        | some (b, r) => some (.and a b, r)
        | none => none
      | none => none
    | "or" :: r =>
      match pExprToks fuel r with
      | some (a, r) => match pExprToks fuel r with
        | some (b, r) => some (.or a b, r)
        | none => none
      | none => none
    | "not" :: r => (pExprToks fuel r).map fun (a, r) => (.not a, r)
    | "andn" :: k :: r =>
      match k.toNat? with
      | some k => match pN (pExprToks fuel) k r with
        | some (l, r) => (nary .and l).map fun e => (e, r)
        | none => none
      | none => none
    | "orn" :: k :: r =>
      match k.toNat? with
      | some k => match pN (pExprToks fuel) k r with
        | some (l, r) => (nary .or l).map fun e => (e, r)
        | none => none
      | none => none
    | _ => none

/-- `none` ↦ Python None -/
def pClause (s : String) : Option (Option Expr) :=
  if s == "none" then some none else
  let toks := s.splitOn ","
  match pExprToks (toks.length + 1) toks with
  | some (e, []) => some (some e)
  | _ => none

def pOExprChars : List Char → Option OExpr
  | 'd' :: r => (pOExprChars r).map .desc
  | 'f' :: r => if r = ['i', 'd'] then some (.field .id) else ((String.ofList r).toNat?).map fun i => .field (.col i)
  | 'k' :: r => some (.const r)
  | _ => none

def pArg (s : String) : Option OrderArg :=
  match s.toList with
  | 's' :: r => some (.str r)
  | 'e' :: r => (pOExprChars r).map .expr
  | _ => none

def allSome {α} : List (Option α) → Option (List α)
  | [] => some []
  | some a :: r => (allSome r).map (a :: ·)
  | none :: _ => none

/-- outer `none` = parse error; inner `none` = NoDefault -/
def pOrder (s : String) : Option (Option OrderBy) :=
  if s == "nodefault" then some none
  else if s == "none" then some (some .none)
  else if s.startsWith "one=" then (pArg (s.drop 4).toString).map fun a => some (.one a)
  else if s == "many=" then some (some (.many .list []))
  else if s == "tuple=" then some (some (.many .tuple []))
  else if s.startsWith "tuple=" then
    (allSome (((s.drop 6).toString.splitOn ";").map pArg)).map fun l => some (.many .tuple l)
  else if s.startsWith "many=" then
    (allSome (((s.drop 5).toString.splitOn ";").map pArg)).map fun l => some (.many .list l)
  else none

def pTerm (s : String) : Option Term :=
  match s.toList with
  | 'f' :: r => if r = ['i', 'd'] then some (.field .id) else ((String.ofList r).toNat?).map fun i => .field (.col i)
  | 'k' :: r => some (.const r)
  | _ => none

def pKwVal (s : String) : Option KwVal :=
  if s == "n" then some .none
  else if s.startsWith "i" then ((s.drop 1).toString.toInt?).map .int
  else if s.startsWith "o" then ((s.drop 1).toString.toInt?).map .obj
  else none

def pKw (s : String) : Option Kw :=
  if s == "-" then some [] else
  allSome ((s.splitOn ",").map fun kv =>
    match kv.splitOn "=" with
    | [k, v] => (pKwVal v).map fun v => (k.toList, v)
    | _ => none)

def pCol (s : String) : Option ColSpec :=
  match s.splitOn "/" with
  | [a, b, c] => some ⟨a.toList, b.toList, if c == "-" then none else some c.toList⟩
  | _ => none

def pRow (s : String) : Option Row :=
  match s.splitOn "," with
  | i :: vs => match i.toInt?, allSome (vs.map pVal) with
    | some i, some vs => some ⟨i, vs⟩
    | _, _ => none
  | [] => none

def showAgg : AggVal → String
  | .int none => "int null"
  | .int (some v) => "int " ++ toString v
  | .ratio none => "ratio null"
  | .ratio (some (s, n)) => "ratio " ++ toString s ++ "/" ++ toString n

def showOne : OneRes Int → String
  | .value x => "one " ++ toString x
  | .default => "default"
  | .notFound => "NotFound"
  | .integrity => "Integrity"
  | .pyNone => "None"
  | .indexError => "IndexError"
  | .typeError => "TypeError"

def showRows (l : List Row) : String :=
  "rows" ++ String.join ((iterSelect l).map fun
    | some r => " " ++ toString r.id
    | none => " None")

def showOneOpt : OneRes (Option Int) → String
  | .value (some x) => "one " ++ toString x
  | .value none => "None"
  | .default => "default"
  | .notFound => "NotFound"
  | .integrity => "Integrity"
  | .pyNone => "None"
  | .indexError => "IndexError"
  | .typeError => "TypeError"

def aggMethod? : String → Option AggMethod
  | "sum" => some .sum | "min" => some .min | "max" => some .max | "avg" => some .avg | _ => none

/-- apply the chained operations and the terminal to a select -/
def runOps (st : St) : Sel → List String → String
  | _, [] => "bad: no terminal"
  | s, [t] =>
    let sch := st.sch
    if t == "list" then
      (queryForSelect s).text sch ++ " | " ++ (match evalSelect sch st.db s with
        | some rows => showRows rows
        | none => "sql-error")
    else if t == "one" || t == "one0" then
      (queryForSelect s).text sch ++ " | " ++ (match evalSelect sch st.db s with
        | some rows => showOneOpt (getOne (t == "one0") ((iterSelect rows).map (·.map (·.id))))
        | none => "sql-error")
    else if t == "count" then
      let p := countPlan s
      p.text sch ++ " | " ++ (match evalAgg sch st.db p with
        | some v => showAgg v
        | none => "sql-error")
    else match t.splitOn "=" with
      | [m, term] => match aggMethod? m, pTerm term with
        | some m, some term =>
          let p := aggPlan s m term
          p.text sch ++ " | " ++ (match evalAgg sch st.db p with
            | some v => showAgg v
            | none => "sql-error")
        | _, _ => "bad: terminal"
      | _ => "bad: terminal"
  | s, op :: rest =>
    if op == "rev" then runOps st s.rev rest
    else if op == "dist" then runOps st s.dist rest
    else if op.startsWith "order=" then
      match pOrder (op.drop 6).toString with
      | some (some o) => runOps st (s.orderBy st.sch o) rest
      | _ => "bad: order"
    else if op.startsWith "filter=" then
      match pClause (op.drop 7).toString with
      | some c => runOps st (s.filter c) rest
      | none => "bad: filter"
    else "bad: op " ++ op

def step (st : St) (line : String) : St × String :=
  match words line with
  | "schema" :: t :: o :: d :: cols =>
    match pOrder d, allSome (cols.map pCol) with
    | some d, some cs =>
      let sch : Schema := ⟨t.toList, o.toList, cs, d.getD .none⟩
      ({ st with sch := sch }, "ok")
    | _, _ => (st, "bad: schema")
  | "rows" :: rs =>
    match allSome (rs.map pRow) with
    | some rs => ({ st with db := { st.db with rows := rs } }, "ok")
    | none => (st, "bad: rows")
  | "oth" :: gs =>
    match allSome (gs.map pVal) with
    | some gs => ({ st with db := { st.db with oth := gs } }, "ok")
    | none => (st, "bad: oth")
  | "sel" :: c :: o :: r :: d :: rest =>
    match pClause c, pOrder o with
    | some c, some o => (st, runOps st (Sel.new st.sch c o (r == "1") (d == "1")) rest)
    | _, _ => (st, "bad: sel")
  | "by" :: kw :: rest =>
    match pKw kw with
    | some kw => match selectBy st.sch kw with
      | some s => (st, runOps st s rest)
      | none => (st, "- | TypeError")
    | none => (st, "bad: by")
  | ["alt", c, v] =>
    match c.toNat?, pKwVal v with
    | some c, some v =>
      let p : Plan := { items := .columns, distinct := false, where_ := eqOrNull (.col c) v.toVal, order := none }
      (st, p.text st.sch ++ " | " ++ showOne (fetchAlternateID st.db (.col c) v.toVal))
    | _, _ => (st, "bad: alt")
  | ["idx", n, kw] =>
    match pKw kw, n.toNat? with
    | some kw, some n =>
      let txt := match selectBy st.sch kw with
        | some s => (queryForSelect s).text st.sch
        | none => "-"
      (st, txt ++ " | " ++ showOne (indexGet st.sch st.db n kw))
    | _, _ => (st, "bad: idx")
  | _ => (st, "bad: request")

def main : IO Unit := loop step ({} : St)
