import SqlObjVerif.Model.Uri
import SqlObjVerif.Model.DrvUtil
/-! Driver for C18.  Strings are `.`-joined hex code points, `-` = empty string, `N` = `None`.

    quote <safe> <s>                      -> ok <s> | err UnicodeEncodeError
    unquote <s>                           -> <s>
    guri <scheme> <user> <pw> <host> <port|N> <db>  -> ok <uri> | err AssertionError | err UnicodeEncodeError
    suri <filename>                       -> ok <uri> | err UnicodeEncodeError
    parse <uri>                           -> ok <user> <pw> <host> <port|N> <path> <k> <v> ... | err ValueError | unmodelled
                          -> file <filename> | err AssertionError | err ValueError | unmodelled
-/
open SqlObjVerif SqlObjVerif.Uri SqlObjVerif.DrvUtil

def optStr? (s : String) : Option (Option Str) :=
  if s == "N" then some none else (decodeCps? s).map some

def showOpt : Option Str → String
  | none => "N"
  | some s => encodeCps s

def showBuild : BuildOut → String
  | .ok u => "ok " ++ encodeCps u
  | .assertionError => "err AssertionError"
  | .unicodeEncodeError => "err UnicodeEncodeError"

def showParse : ParseOut → String
  | .valueError => "err ValueError"
  | .unmodelled => "unmodelled"
  | .ok p =>
    "ok " ++ showOpt p.user ++ " " ++ showOpt p.password ++ " " ++ showOpt p.host ++ " " ++
    (match p.port with | none => "N" | some n => toString n) ++ " " ++ encodeCps p.path ++
    String.join (p.args.map fun (k, v) => " " ++ encodeCps k ++ " " ++ encodeCps v)

def handle (line : String) : String :=
  match words line with
  | ["quote", safe, s] =>
    match decodeCps? safe, decodeCps? s with
    | some safe, some s =>
      (match quote safe s with
       | some q => "ok " ++ encodeCps q
       | none => "err UnicodeEncodeError")
    | _, _ => "bad-op"
  | ["unquote", s] =>
    match decodeCps? s with
    | some s => encodeCps (unquote s)
    | none => "bad-op"
  | ["guri", scheme, user, pw, host, port, db] =>
    match decodeCps? scheme, optStr? user, optStr? pw, optStr? host, optInt? (if port == "N" then "-" else port),
          decodeCps? db with
    | some scheme, some user, some pw, some host, some port, some db =>
      showBuild (genericUri ⟨scheme, user, pw, host, port, db⟩)
    | _, _, _, _, _, _ => "bad-op"
  | ["suri", f] =>
    match decodeCps? f with
    | some f => showBuild (sqliteUri f)
    | none => "bad-op"
  | ["parse", u] =>
    match decodeCps? u with
    | some u => showParse (parseURI u)
    | none => "bad-op"
  | ["sopen", u] =>
    match decodeCps? u with
    | some u =>
      (match parseURI u with
       | .valueError => "err ValueError"
       | .unmodelled => "unmodelled"
       | .ok p => match sqliteOpen p with
         | some f => "file " ++ encodeCps f
         | none => "err AssertionError")
    | none => "bad-op"
  | "curi" :: u :: kvs =>
    let rec pairs : List String → Option (List (Str × Str))
      | [] => some []
      | k :: v :: rest => do
        let k ← decodeCps? k
        let v ← decodeCps? v
        let r ← pairs rest
        pure ((k, v) :: r)
      | _ => none
    match decodeCps? u, pairs kvs with
    | some u, some ps =>
      (match withParams u ps with
       | some r => "ok " ++ encodeCps r
       | none => "err UnicodeEncodeError")
    | _, _ => "bad-op"
  | _ => "bad-op"

def main : IO Unit := loopPure handle
