import SqlObjVerif.Model.Conc
import SqlObjVerif.Model.ConcX
import SqlObjVerif.Model.DrvUtil
/-! Driver for C09.  Request (one line, space separated `key=value`):
    `dc=<0|1> c=<0|1> freq=<n> frac=<n> cc=<n> off=<n> strong=<i:o,…|-> weak=<i:o,…|-> db=<i,…|-> fresh=<n> pins=<o,…|->
     progs=<ops/ops/…> sched=<t,t,…|->`   with ops = `.`-joined `g<i>` `c<i>` `x<i>` `A` `C` (or `-`).
    The schedule is run, then drained (lowest enabled thread first).
    Answer: `outs=<per thread, / separated> lock=… strong=… weak=… unfinished=… stale=… cc=… off=… tr=<t:kind,…>`
    followed by the same run of the TRANSLATED small-step system `ConcX` (the programs of `Extracted/PyCache.lean`):
    `xouts=… xlock=… xstrong=… xweak=… xunfinished=… xcc=… xoff=… xtr=…`. -/
open SqlObjVerif SqlObjVerif.Conc SqlObjVerif.DrvUtil

def natList? (s : String) : Option (List Nat) :=
  if s == "-" then some [] else (s.splitOn ",").mapM String.toNat?

def amap? (s : String) : Option AMap :=
  if s == "-" then some [] else
  (s.splitOn ",").mapM fun e => match e.splitOn ":" with
    | [a, b] => match a.toNat?, b.toNat? with
      | some a, some b => some (a, b)
      | _, _ => none
    | _ => none

def op? (s : String) : Option Op :=
  if s == "A" then some .expireAll
  else if s == "C" then some .cull
  else match s.toList with
    | 'g' :: r => (String.ofList r).toNat?.map .get
    | 'c' :: r => (String.ofList r).toNat?.map .create
    | 'x' :: r => (String.ofList r).toNat?.map .expire
    | _ => none

def prog? (s : String) : Option (List Op) :=
  if s == "-" then some [] else (s.splitOn ".").mapM op?

def kv (ws : List String) (k : String) : Option String :=
  ws.findSome? fun w => match w.splitOn "=" with
    | [a, b] => if a == k then some b else none
    | _ => none

def kindOf (dc : Bool) : Pc → String
  | .idle => "idle"
  | .csGet _ | .csSet _ => "caches"
  | .ccTest _ | .ccRead _ => "cc.read"
  | .ccWrite _ _ | .ccReset _ => "cc.write"
  | .probeL _ | .crSetL _ _ => "strong.load"
  | .probe _ _ | .relook _ | .cuStrongGet _ _ _ => "strong.get"
  | .acq _ | .nAcq _ | .exAcq _ | .eaAcq | .cuAcq _ => "acquire"
  | .relRel _ _ | .relSet _ _ | .finRel _ _ | .finRelNF _ | .exRel | .exRelErr | .eaRel | .eaRelErr
  | .cuRel _ | .cuRelErr => "release"
  | .weakGet _ | .cuWeakChk _ _ | .nProbe _ | .nRelook _ => "weak.get"
  | .weakDel _ _ | .weakDelDead _ _ | .exDelWeak _ | .cuWeakPop _ _ _ _ => "weak.del"
  | .strongSet _ _ => "strong.set"
  | .put _ _ | .crSet _ _ _ => if dc then "strong.set" else "weak.set"
  | .eaEntry => "ea.entry"
  | .select _ | .crSelect _ _ => "db.select"
  | .insert _ => "db.insert"
  | .exInStrong _ => "strong.in"
  | .exDelStrong _ | .cuStrongDel _ _ _ _ => "strong.del"
  | .exInWeak _ => "weak.in"
  | .eaNext _ _ => "strong.next"
  | .eaSetWeak _ _ _ _ | .cuWeakSet _ _ _ _ => "weak.set"
  | .eaSwap => "strong.swap"
  | .cuEntry => "cull.entry"
  | .cuWeakKeys _ => "weak.keys"
  | .cuStrongKeys _ => "strong.keys"

def showExc : Exc → String
  | .runtimeError => "RuntimeError" | .keyError => "KeyError" | .integrity => "Integrity"

def showOut : Out → String
  | .obj i o => s!"obj:{i}:{o}"
  | .notFound i => s!"nf:{i}"
  | .unit => "unit"
  | .exc e => "exc:" ++ showExc e

def joinOr (sep : String) (l : List String) : String := if l.isEmpty then "-" else sep.intercalate l

def showMap (m : AMap) : String := joinOr "," (m.map fun (k, v) => s!"{k}:{v}")

def showWeak (s : State) : String :=
  joinOr "," (s.weak.map fun (k, v) => if alive s v then s!"{k}:{v}" else s!"{k}:dead")

/-- run with trace: effective steps only -/
def runTr (s : State) (tr : List String) : List Tid → State × List String
  | [] => (s, tr)
  | t :: ts => match step s t with
    | some s' => runTr s' (s!"{t}:{kindOf s.dc (s.th t).pc}" :: tr) ts
    | none => runTr s tr ts

def drainTr (n : Nat) : Nat → State → List String → State × List String
  | 0, s, tr => (s, tr)
  | fuel + 1, s, tr =>
    match (List.range n).find? (fun t => (step s t).isSome) with
    | some t => match step s t with
      | some s' => drainTr n fuel s' (s!"{t}:{kindOf s.dc (s.th t).pc}" :: tr)
      | none => (s, tr)
    | none => (s, tr)

/-! the translated system -/
def runTrX (x : ConcX.XState) (tr : List String) : List Tid → ConcX.XState × List String
  | [] => (x, tr)
  | t :: ts => match ConcX.step x t with
    | some x' => runTrX x' (s!"{t}:{((ConcX.accessX t x.g (x.th t)).map ConcX.kindX).getD "?"}" :: tr) ts
    | none => runTrX x tr ts

def drainTrX (n : Nat) : Nat → ConcX.XState → List String → ConcX.XState × List String
  | 0, x, tr => (x, tr)
  | fuel + 1, x, tr =>
    match (List.range n).find? (fun t => (ConcX.step x t).isSome) with
    | some t => match ConcX.step x t with
      | some x' => drainTrX n fuel x' (s!"{t}:{((ConcX.accessX t x.g (x.th t)).map ConcX.kindX).getD "?"}" :: tr)
      | none => (x, tr)
    | none => (x, tr)

def showWeakX (x : ConcX.XState) : String :=
  joinOr "," (x.g.sh.expiredCache.map fun (k, v) => if ConcX.concOps.dead x.g.sh v then s!"{k}:dead" else s!"{k}:{v}")

def handle (line : String) : String :=
  let ws := words line
  let g (k : String) : Option String := kv ws k
  match (g "dc"), (g "c"), (g "freq").bind String.toNat?, (g "frac").bind String.toNat?, (g "cc").bind String.toNat?,
        (g "off").bind String.toNat?, (g "strong").bind amap?, (g "weak").bind amap?, (g "db").bind natList?,
        (g "fresh").bind String.toNat?, (g "pins").bind natList?, (g "progs").bind (fun s => (s.splitOn "/").mapM prog?),
        (g "sched").bind natList? with
  | some dc, some c, some freq, some frac, some cc, some off, some strong, some weak, some db, some fresh, some pins, some progs,
    some sched =>
    let n := progs.length
    let s0 := mkInit (dc == "1") (c == "1") strong weak db fresh freq frac cc off pins (fun t => progs.getD t [])
    let (s1, tr1) := runTr s0 [] (sched.filter (· < n))
    let (s2, tr2) := drainTr n 100000 s1 tr1
    let outs := joinOr "/" ((List.range n).map fun t => joinOr "," ((s2.th t).outs.map showOut))
    let unfinished := joinOr "," (((List.range n).filter fun t => !finished s2 t).map toString)
    let lock := match s2.lock with | none => "-" | some t => toString t
    s!"outs={outs} lock={lock} strong={showMap s2.strong} weak={showWeak s2} unfinished={unfinished} " ++
    s!"stale={joinOr "," (s2.stale.map toString)} cc={s2.cc} off={s2.off} tr={joinOr "," tr2.reverse} " ++
    (let x0 := ConcX.mkInitX (dc == "1") (c == "1") strong weak db fresh freq frac cc off pins (fun t => progs.getD t [])
     let (x1, xt1) := runTrX x0 [] (sched.filter (· < n))
     let (x2, xt2) := drainTrX n 100000 x1 xt1
     let xouts := joinOr "/" ((List.range n).map fun t => joinOr "," ((x2.th t).outs.map showOut))
     let xunf := joinOr "," (((List.range n).filter fun t => !ConcX.finished x2 t).map toString)
     let xlock := match x2.g.sh.owner with | none => "-" | some t => toString t
     s!"xouts={xouts} xlock={xlock} xstrong={showMap x2.g.sh.cache} xweak={showWeakX x2} xunfinished={xunf} " ++
     s!"xcc={x2.g.sh.cullCount} xoff={x2.g.sh.cullOffset} xtr={joinOr "," xt2.reverse}")
  | _, _, _, _, _, _, _, _, _, _, _, _, _ => "bad-request"

def main : IO Unit := loopPure handle
