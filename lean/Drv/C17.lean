import SqlObjVerif.Model.Like
import SqlObjVerif.Model.DrvUtil
/-! Driver for C17.  Request: `<dialect> <op> <arg hex> <row hex>*` with op ∈ startswith|endswith|contains.
    Answer: `<clause hex> <decoded pattern hex|none> <decoded escape hex|none> <0|1 per row>`
    (rows matched by the reference LIKE matcher on the decoded pattern; sqlite: ASCII case folding). -/
open SqlObjVerif SqlObjVerif.Lex SqlObjVerif.Like SqlObjVerif.DrvUtil

def dialect? : String → Option Dialect
  | "sqlite" => some .sqlite | "mysql" => some .mysql | "postgres" => some .postgres
  | "firebird" => some .firebird | "sybase" => some .sybase | "maxdb" => some .maxdb
  | "mssql" => some .mssql | _ => none

def op? : String → Option LikeOp
  | "startswith" => some Extracted.startswithOp | "endswith" => some Extracted.endswithOp
  | "contains" => some Extracted.containsOp | _ => none

def showOpt : Option Str → String
  | some s => encodeCps s
  | none => "none"

def handle (line : String) : String :=
  match words line with
  | ds :: os :: ah :: rows =>
    match dialect? ds, op? os, decodeCps? ah with
    | some d, some op, some a =>
      let clause := likeClause d op [116, 46, 99] a
      let pat := decodedPattern d op a
      let esc := decodedEscape d op
      let eqv := if d == .sqlite then eqvAscii else eqvExact
      let res := rows.map fun r => match decodeCps? r, pat, esc with
        | some r, some p, some [e] => if likeMatch eqv e p r then "1" else "0"
        | _, _, _ => "x"
      " ".intercalate ([encodeCps clause, showOpt pat, showOpt esc] ++ res)
    | _, _, _ => "bad"
  | _ => "bad"

def main : IO Unit := loopPure handle
