import SqlObjVerif.Model.Version
import SqlObjVerif.Model.DrvUtil
/-! Driver for C20.  One case per line: `V <ncols> <defaults v,v,..> <uniq0 0|1> | <op> ; <op> ; …`
    ops `C kw`, `A m k v`, `S m kw`, `R vid` (values / kwargs as in the C19 driver).
    Answer per op: `<out> # <masters id:v,v ..> # <versions vid:master:v,v ..>` joined by ` ; `. -/
open SqlObjVerif SqlObjVerif.Events SqlObjVerif.Version SqlObjVerif.DrvUtil

def dropFirst (s : String) : String := String.ofList (s.toList.drop 1)
def firstChar (s : String) : Char := (s.toList.head?).getD ' '

def val? (s : String) : Option Val :=
  if s == "n" then some .null
  else if s == "b" then some .bad
  else if firstChar s == 'i' then ((dropFirst s).toInt?).map Val.int
  else none

def kw? (s : String) : Option Kw :=
  if s == "-" then some [] else
  (s.splitOn ",").foldr (fun t acc =>
    match t.splitOn "=", acc with
    | [k, v], some l => match k.toNat?, val? v with
      | some k, some v => some ((k, v) :: l)
      | _, _ => none
    | _, _ => none) (some [])

def allSome {α : Type} (l : List (Option α)) : Option (List α) :=
  l.foldr (fun x acc => match x, acc with
    | some x, some l => some (x :: l)
    | _, _ => none) (some [])

def op? (s : String) : Option VOp :=
  match words s with
  | ["C", kw] => (kw? kw).map VOp.create
  | ["A", m, k, v] => match m.toNat?, k.toNat?, val? v with
    | some m, some k, some v => some (.assign m k v)
    | _, _, _ => none
  | ["S", m, kw] => match m.toNat?, kw? kw with
    | some m, some kw => some (.set m kw)
    | _, _ => none
  | ["R", v] => (v.toNat?).map VOp.restore
  | _ => none

def showVal : Val → String
  | .int n => "i" ++ toString n
  | .null => "n"
  | .bad => "b"

def showOut : VOut → String
  | .ok => "ok" | .invalid => "Invalid" | .typeError => "TypeError" | .duplicate => "Duplicate"
  | .nohandle => "nohandle"

def showVals (l : List Val) : String := ",".intercalate (l.map showVal)

def showState (s : VState) : String :=
  (if s.masters.isEmpty then "-" else " ".intercalate (s.masters.map fun r => toString r.1 ++ ":" ++ showVals r.2))
  ++ " # " ++
  (if s.versions.isEmpty then "-" else
    " ".intercalate (s.versions.map fun v => toString v.vid ++ ":" ++ toString v.master ++ ":" ++ showVals v.vals))

def runShow (c : VCfg) : VState → List VOp → List String
  | _, [] => []
  | s, op :: ops =>
    let q := vstep c s op
    (showOut q.2 ++ " # " ++ showState q.1) :: runShow c q.1 ops

def dop? (s : String) : Option (Nat × VOp) :=
  match words s with
  | d :: rest =>
    if firstChar d == '@' then
      match (dropFirst d).toNat?, op? (" ".intercalate rest) with
      | some d, some op => some (d, op)
      | _, _ => none
    else none
  | _ => none

def runShowD (c : VCfg) : DState → List (Nat × VOp) → List String
  | _, [] => []
  | S, (d, op) :: ops =>
    let q := dstep c S d op
    (showOut q.2 ++ " # " ++ showState (q.1 0) ++ " ## " ++ showState (q.1 1)) :: runShowD c q.1 ops

def handle (line : String) : String :=
  match (line.splitOn "|").map (fun s => s.trimAscii.toString) with
  | [hd, ops] =>
    match words hd with
    | ["V", n, dfl, u] =>
      let dfl := if dfl == "-" then some [] else allSome ((dfl.splitOn ",").map val?)
      let ops := if ops.isEmpty then some [] else allSome ((ops.splitOn ";").map fun s => op? s.trimAscii.toString)
      match n.toNat?, dfl, ops with
      | some n, some dfl, some ops =>
        " ; ".intercalate (runShow ⟨n, dfl, u == "1"⟩ vinit ops)
      | _, _, _ => "bad-case"
    | ["W", n, dfl, u] =>
      -- two databases; ops `@<db> <op>`; answer per op `<out> # <db 0> ## <db 1>`
      let dfl := if dfl == "-" then some [] else allSome ((dfl.splitOn ",").map val?)
      let ops := if ops.isEmpty then some [] else allSome ((ops.splitOn ";").map fun s => dop? s.trimAscii.toString)
      match n.toNat?, dfl, ops with
      | some n, some dfl, some ops =>
        " ; ".intercalate (runShowD ⟨n, dfl, u == "1"⟩ dinit ops)
      | _, _, _ => "bad-case"
    | _ => "bad-case"
  | _ => "bad-case"

def main : IO Unit := loopPure handle
