import SqlObjVerif.Model.Lex
import SqlObjVerif.Model.Like
import SqlObjVerif.Model.DrvUtil
/-! Driver for C02.  Strings travel as `.`-joined hex code points (`-` = empty).
Requests:
* `s <dialect> <hex>`                      → `<literal> <lex>`      (lex = `<decoded>/<rest>` or `none`)
* `l <dialect> <hex>`                      → `<lex>` of an arbitrary text (reference lexer only)
* `q <dialect> <hex>`                      → `quote_str`
* `v <dialect> <val>`                      → `<text> | <tokens>`
* `ins <dialect> <table> <name,name> <val>*`   → `<sql> | <tokens>`
* `upd <dialect> <table> <idName> <idval> (<name> <val>)*`
* `whr <dialect> (<name> <val>)*`
* `like <dialect> <op> <arg hex>`            → `<clause> | <tokens>` of `(t.c LIKE (<pattern>) ESCAPE <esc>)`
* `t <dialect> <hex>`                      → `<tokens>` of an arbitrary text
Values: `S:<hex>` `I:<int>` `OI:<int>` `OS:<hex>` (SQLObject instance with int / str id) `B:0|1` `N` `D:y-m-d` `T:h-m-s-us` `DT:y-m-d-h-m-s-us` `F:<neg>:<mant>:<sign>:<exp>` `L( … )`. -/
open SqlObjVerif SqlObjVerif.Lex SqlObjVerif.DrvUtil

def dialect? : String → Option Dialect
  | "sqlite" => some .sqlite | "mysql" => some .mysql | "postgres" => some .postgres
  | "firebird" => some .firebird | "sybase" => some .sybase | "maxdb" => some .maxdb
  | "mssql" => some .mssql | _ => none

def nats? (s : String) : Option (List Nat) :=
  (s.splitOn "-").foldr (fun t acc => match t.toNat?, acc with
    | some n, some l => some (n :: l)
    | _, _ => none) (some [])

partial def parseVal : List String → Option (Val × List String)
  | [] => none
  | t :: rest =>
    if t == "N" then some (.null, rest)
    else if t == "L(" then
      let rec go (acc : List Val) (ts : List String) : Option (Val × List String) :=
        match ts with
        | [] => none
        | ")" :: ts' => some (.seq acc.reverse, ts')
        | _ => match parseVal ts with
          | some (v, ts') => go (v :: acc) ts'
          | none => none
      go [] rest
    else if t.startsWith "S:" then (decodeCps? (t.drop 2).toString).map fun s => (.str s, rest)
    else if t.startsWith "F:" then
      match t.splitOn ":" with
      | [_, neg, mant, sg, e] =>
        match decodeCps? mant, decodeCps? sg, decodeCps? e with
        | some mant, some [], _ => some (.num (neg == "1") mant none, rest)
        | some mant, some [sg], some e => some (.num (neg == "1") mant (some (sg, e)), rest)
        | _, _, _ => none
      | _ => none
    else if t.startsWith "OI:" then ((t.drop 3).toString.toInt?).map fun i => (.instInt i, rest)
    else if t.startsWith "OS:" then (decodeCps? (t.drop 3).toString).map fun s => (.instStr s, rest)
    else if t.startsWith "I:" then ((t.drop 2).toString.toInt?).map fun i => (.int i, rest)
    else if t.startsWith "B:" then some (.bool ((t.drop 2).toString == "1"), rest)
    else if t.startsWith "DT:" then
      match nats? (t.drop 3).toString with
      | some [y, m, d, h, mi, s, us] => some (.datetime y m d h mi s us, rest)
      | _ => none
    else if t.startsWith "D:" then
      match nats? (t.drop 2).toString with
      | some [y, m, d] => some (.date y m d, rest)
      | _ => none
    else if t.startsWith "T:" then
      match nats? (t.drop 2).toString with
      | some [h, mi, s, us] => some (.time h mi s us, rest)
      | _ => none
    else none

partial def parseVals (ts : List String) : Option (List Val) :=
  match ts with
  | [] => some []
  | _ => match parseVal ts with
    | some (v, ts') => (parseVals ts').map (v :: ·)
    | none => none

partial def parsePairs (ts : List String) : Option (List (Str × Val)) :=
  match ts with
  | [] => some []
  | n :: ts1 => match decodeCps? n, parseVal ts1 with
    | some n, some (v, ts2) => (parsePairs ts2).map ((n, v) :: ·)
    | _, _ => none

def showLex : Option (Str × Str) → String
  | some (s, r) => encodeCps s ++ "/" ++ encodeCps r
  | none => "none"

def showTok : Tok → String
  | .str s => "S" ++ encodeCps s
  | .word w => "W" ++ encodeCps w
  | .punct c => "P" ++ hexOfNat c

def showToks : Option (List Tok) → String
  | some ts => if ts.isEmpty then "empty" else " ".intercalate (ts.map showTok)
  | none => "none"

def known (d : Dialect) : Bool := (escAction d).isSome

def handle (line : String) : String :=
  match words line with
  | cmd :: ds :: rest =>
    match dialect? ds with
    | none => "bad-dialect"
    | some d =>
      match cmd, rest with
      | "s", [h] => match decodeCps? h with
        | some s => if known d then encodeCps (renderString d s) ++ " " ++ showLex (lexString d (renderString d s))
                    else "assert"
        | none => "bad"
      | "l", [h] => match decodeCps? h with
        | some s => showLex (lexString d s)
        | none => "bad"
      | "q", [h] => match decodeCps? h with
        | some s => encodeCps (quoteStr d s)
        | none => "bad"
      | "like", [o, h] =>
        let op? : Option LikeOp := match o with
          | "startswith" => some Extracted.startswithOp | "endswith" => some Extracted.endswithOp
          | "contains" => some Extracted.containsOp | _ => none
        match op?, decodeCps? h with
        | some op, some a => let q := Like.likeClause d op [116, 46, 99] a; encodeCps q ++ " | " ++ showToks (tokens d q)
        | _, _ => "bad"
      | "t", [h] => match decodeCps? h with
        | some s => showToks (tokens d s)
        | none => "bad"
      | "v", ts => match parseVal ts with
        | some (v, []) => let t := render d v; encodeCps t ++ " | " ++ showToks (tokens d t)
        | _ => "bad"
      | "ins", t :: ns :: vs =>
        match decodeCps? t, ((ns.splitOn ",").map decodeCps?).foldr (fun a acc => match a, acc with
            | some a, some l => some (a :: l) | _, _ => none) (some []), parseVals vs with
        | some t, some ns, some vs => let q := insertSQL d t ns vs; encodeCps q ++ " | " ++ showToks (tokens d q)
        | _, _, _ => "bad"
      | "upd", t :: idn :: ts =>
        match decodeCps? t, decodeCps? idn, parseVal ts with
        | some t, some idn, some (idv, ts') => match parsePairs ts' with
          | some ps => let q := updateSQL d t ps idn idv; encodeCps q ++ " | " ++ showToks (tokens d q)
          | none => "bad"
        | _, _, _ => "bad"
      | "whr", ts => match parsePairs ts with
        | some ps => let q := columnClause d ps; encodeCps q ++ " | " ++ showToks (tokens d q)
        | none => "bad"
      | _, _ => "bad"
  | _ => "bad"

def main : IO Unit := loopPure handle
