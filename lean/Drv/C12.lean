import SqlObjVerif.Model.GraphTrav
import SqlObjVerif.Model.DrvUtil
/-! Driver for C12.  One case per line, tokens:
    `K` new class · `F <target> <c|r|n|k>` foreign key of the last class · `J <other> <table> <0|1>` related join
    · `R <cls> <id> <v|->*` row · `L <table> <a> <b>` link row · `C <cls> <id>` cached instance
    · `D <cls> <id> <fuel>` the victim (last).
    Answer: `<ok|refused|fuel> | rows | links | reachable keys | flags` (lists in model order; the harness sorts). -/
open SqlObjVerif SqlObjVerif.Graph SqlObjVerif.DrvUtil

structure PState where
  S : List Cls := []
  rows : List Row := []
  links : List Link := []
  cache : List (Nat × Nat) := []
  bad : Bool := false

def policy? : String → Option Policy
  | "c" => some .cascade | "r" => some .restrict | "n" => some .setNull | "k" => some .keep | _ => none

def isKw (t : String) : Bool := t == "K" || t == "F" || t == "J" || t == "R" || t == "L" || t == "C" || t == "D"

def addToLast (S : List Cls) (f : Cls → Cls) : List Cls :=
  match S.reverse with
  | [] => []
  | c :: cs => (f c :: cs).reverse

def optNat? (s : String) : Option (Option Nat) := if s == "-" then some none else s.toNat?.map some

partial def parse (st : PState) : List String → PState × Option (Nat × Nat × Nat)
  | [] => (st, none)
  | "K" :: ts => parse { st with S := st.S ++ [⟨[], []⟩] } ts
  | "F" :: t :: p :: ts =>
    match t.toNat?, policy? p with
    | some t, some p => parse { st with S := addToLast st.S fun c => { c with fks := c.fks ++ [⟨t, p⟩] } } ts
    | _, _ => ({ st with bad := true }, none)
  | "J" :: o :: t :: b :: ts =>
    match o.toNat?, t.toNat? with
    | some o, some t => parse { st with S := addToLast st.S fun c => { c with joins := c.joins ++ [⟨o, t, b == "1"⟩] } } ts
    | _, _ => ({ st with bad := true }, none)
  | "R" :: c :: i :: ts =>
    let vs := ts.takeWhile (fun t => !isKw t)
    let rest := ts.dropWhile (fun t => !isKw t)
    match c.toNat?, i.toNat? with
    | some c, some i =>
      let vals := vs.map optNat?
      if vals.any Option.isNone then ({ st with bad := true }, none) else
      parse { st with rows := st.rows ++ [⟨c, i, vals.filterMap id⟩] } rest
    | _, _ => ({ st with bad := true }, none)
  | "L" :: t :: a :: b :: ts =>
    match t.toNat?, a.toNat?, b.toNat? with
    | some t, some a, some b => parse { st with links := st.links ++ [⟨t, a, b⟩] } ts
    | _, _, _ => ({ st with bad := true }, none)
  | "C" :: c :: i :: ts =>
    match c.toNat?, i.toNat? with
    | some c, some i => parse { st with cache := st.cache ++ [(c, i)] } ts
    | _, _ => ({ st with bad := true }, none)
  | "D" :: c :: i :: f :: _ =>
    match c.toNat?, i.toNat?, f.toNat? with
    | some c, some i, some f => (st, some (c, i, f))
    | _, _, _ => ({ st with bad := true }, none)
  | _ => ({ st with bad := true }, none)

def showVal : Option Nat → String
  | none => "-" | some n => toString n

def showRow (r : Row) : String :=
  toString r.cls ++ ":" ++ toString r.id ++ ":" ++ ",".intercalate (r.vals.map showVal)

def showLink (l : Link) : String := toString l.table ++ ":" ++ toString l.a ++ ":" ++ toString l.b

def showDB (db0 : DB) (db : DB) : String :=
  " ".intercalate (db.rows.map showRow) ++ " | " ++ " ".intercalate (db.links.map showLink) ++ " | " ++
  " ".intercalate ((db0.rows.filter fun r => reachable db r.cls r.id).map fun r => toString r.cls ++ ":" ++ toString r.id)

def handle (line : String) : String :=
  match parse {} (words line) with
  | (st, some (c, i, f)) =>
    if st.bad then "bad-op" else
    let db : DB := ⟨st.rows, st.links, st.cache⟩
    let flags := " | " ++ (match trav st.S db f [] c i with | .ok _ => "ok" | .refused => "refused" | .fuel => "fuel")
    match destroy st.S f db c i with
    | .ok db' => "ok | " ++ showDB db db' ++ flags
    | .refused db' => "refused | " ++ showDB db db' ++ flags
    | .fuel db' => "fuel | " ++ showDB db db' ++ flags
  | _ => "bad-op"

def main : IO Unit := loopPure handle
