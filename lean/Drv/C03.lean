import SqlObjVerif.Model.Expr
import SqlObjVerif.Model.DrvUtil
/-! Driver for C03.
    `rows <a>,<b> …`  (N = NULL) sets the table; answer `ok`.
    `e <dialect,dialect,…> <tree in prefix notation>` answers
    `<rendered tokens per dialect, joined by ' ; '> | <three-valued value of the source tree per row: T F N> | <rows selected by the
    parsed rendering, under three precedence tables: 1/0 per row> | <parse = toT under the three tables>`.
    Answer `rejected` when the constructors refuse the tree (`coerce = none`).
    Tree syntax: NumE `c<i>` (IntCol) | `r<i>` (FloatCol) | `w<n>:<k>` / `W<n>:<k>` (float literal n = ± the whole number k) | `k<int>` | `f<n>` / `F<n>` (float literal number n, positive / negative; the value fields are
    meaningless for trees with float literals or float columns: the driver evaluates in `intDom`) | `ar <op> l r` | `neg x` | `pos x` | `b2i <BoolE>`;
    BoolE `cmp <op> l r` | `and& l r` | `or| l r` | `AND n e…` | `OR n e…` | `not~ x` | `NOT x` |
    `in x n item…` | `notin x n item…` (item `N` = None) | `isnull x` | `isnotnull x` | `eqnone x` | `nenone x`. -/
open SqlObjVerif SqlObjVerif.Expr SqlObjVerif.DrvUtil

abbrev Parser (α : Type) := List String → Option (α × List String)

def arOp? : String → Option ArOp
  | "add" => some .add | "sub" => some .sub | "mul" => some .mul | "div" => some .div | "mod" => some .mod
  | _ => none

def cmpOp? : String → Option CmpOp
  | "lt" => some .lt | "le" => some .le | "gt" => some .gt | "ge" => some .ge | "eq" => some .eq | "ne" => some .ne
  | _ => none

mutual
partial def pNum : Parser NumE
  | "ar" :: o :: ts => do
    let o ← arOp? o
    let (l, ts) ← pNum ts
    let (r, ts) ← pNum ts
    pure (.ar o l r, ts)
  | "neg" :: ts => do let (x, ts) ← pNum ts; pure (.neg x, ts)
  | "pos" :: ts => do let (x, ts) ← pNum ts; pure (.pos x, ts)
  | "b2i" :: ts => do let (b, ts) ← pBool ts; pure (.b2i b, ts)
  | t :: ts =>
    if t.startsWith "c" then (t.drop 1).toNat?.map fun n => (.col n, ts)
    else if t.startsWith "r" then (t.drop 1).toNat?.map fun n => (.rcol n, ts)
    else if t.startsWith "w" || t.startsWith "W" then
      match (t.drop 1).toString.splitOn ":" with
      | [i, n] => do let i ← i.toNat?; let n ← n.toNat?; pure (.wconst (t.startsWith "W") i n, ts)
      | _ => none
    else if t.startsWith "k" then (t.drop 1).toInt?.map fun i => (.const i, ts)
    else if t.startsWith "f" then (t.drop 1).toNat?.map fun i => (.fconst false i, ts)
    else if t.startsWith "F" then (t.drop 1).toNat?.map fun i => (.fconst true i, ts)
    else none
  | [] => none

partial def pItems : Nat → Parser Items
  | 0, ts => some (.inil, ts)
  | n+1, "N" :: ts => do let (l, ts) ← pItems n ts; pure (.inull l, ts)
  | n+1, ts => do
    let (e, ts) ← pNum ts
    let (l, ts) ← pItems n ts
    pure (.icons e l, ts)

partial def pBool : Parser BoolE
  | "cmp" :: o :: ts => do
    let o ← cmpOp? o
    let (l, ts) ← pNum ts
    let (r, ts) ← pNum ts
    pure (.cmp o l r, ts)
  | "and&" :: ts => do let (l, ts) ← pBool ts; let (r, ts) ← pBool ts; pure (.andOp l r, ts)
  | "or|" :: ts => do let (l, ts) ← pBool ts; let (r, ts) ← pBool ts; pure (.orOp l r, ts)
  | "AND" :: n :: ts => do
    let n ← n.toNat?
    let (es, ts) ← pBools n ts
    match es with
    | e :: es => pure (andN e es, ts)
    | [] => none
  | "OR" :: n :: ts => do
    let n ← n.toNat?
    let (es, ts) ← pBools n ts
    match es with
    | e :: es => pure (orN e es, ts)
    | [] => none
  | "not~" :: ts => do let (x, ts) ← pBool ts; pure (.notOp x, ts)
  | "NOT" :: ts => do let (x, ts) ← pBool ts; pure (.notFn x, ts)
  | "in" :: ts => do
    let (x, ts) ← pNum ts
    match ts with
    | n :: ts => do let n ← n.toNat?; let (l, ts) ← pItems n ts; pure (.isin x l, ts)
    | [] => none
  | "notin" :: ts => do
    let (x, ts) ← pNum ts
    match ts with
    | n :: ts => do let n ← n.toNat?; let (l, ts) ← pItems n ts; pure (.notin x l, ts)
    | [] => none
  | "isnull" :: ts => do let (x, ts) ← pNum ts; pure (.isnull x, ts)
  | "isnotnull" :: ts => do let (x, ts) ← pNum ts; pure (.isnotnull x, ts)
  | "eqnone" :: ts => do let (x, ts) ← pNum ts; pure (.eqNone x, ts)
  | "nenone" :: ts => do let (x, ts) ← pNum ts; pure (.neNone x, ts)
  | _ => none
partial def pBools : Nat → Parser (List BoolE)
  | 0, ts => some ([], ts)
  | n+1, ts => do
    let (e, ts) ← pBool ts
    let (l, ts) ← pBools n ts
    pure (e :: l, ts)
end

def optVal? (s : String) : Option (Option Int) :=
  if s == "N" then some none else s.toInt?.map some

def parseRow (s : String) : Option (List (Option Int)) :=
  (s.splitOn ",").foldr (fun t acc => match optVal? t, acc with
    | some v, some l => some (v :: l)
    | _, _ => none) (some [])

def mkRow (vals : List (Option Int)) : Row intDom := fun c => (vals[c]?).join

/-- SQL's usual table (SQLite): OR < AND < NOT < comparisons/IS/IN < + - < * / % < unary -/
def precSql : Prec where
  bin := fun o => match o with
    | .or => 1 | .and => 2
    | .eq | .ne | .is | .isNot => 4
    | .lt | .le | .gt | .ge => 5
    | .add | .sub => 6
    | .mul | .div | .mod => 7
  rhs := fun o => match o with
    | .or => 2 | .and => 3
    | .eq | .ne | .is | .isNot => 5
    | .lt | .le | .gt | .ge => 6
    | .add | .sub => 7
    | .mul | .div | .mod => 8
  pre := fun p => match p with | .not => 3 | _ => 9
  inp := 4

/-- everything at one level, right-associative, prefixes loosest -/
def precFlat : Prec := ⟨fun _ => 1, fun _ => 1, fun _ => 0, 1⟩

/-- the usual table upside down -/
def precInv : Prec where
  bin := fun o => 10 - precSql.bin o
  rhs := fun o => 10 - precSql.bin o
  pre := fun p => 10 - precSql.pre p
  inp := 6

def showV : Option Bool → String
  | some true => "T" | some false => "F" | none => "N"

def handle (rows : List (Row intDom)) (line : String) : List (Row intDom) × String :=
  match words line with
  | "rows" :: rs =>
    let parsed := rs.map parseRow
    if parsed.any Option.isNone then (rows, "bad-rows") else
    ((parsed.filterMap id).map mkRow, "ok")
  | "e" :: ds :: ts =>
    match pBool ts with
    | some (e0, []) =>
      match coerce e0 with
      | none => (rows, "rejected")
      | some e =>
      let dialects := ds.splitOn ","
      let n := buildB e
      let texts := dialects.map fun d => " ".intercalate ((render d false n).map Tok.spell)
      let vals := String.join (rows.map fun r => showV (evalB intDom r e))
      let d0 := dialects.headD "sqlite"
      let sel := fun P => match parse P (render d0 false n) with
        | some t => String.join (rows.map fun r => if selects intDom t r then "1" else "0")
        | none => "unparsed"
      let pr := fun P => if dialects.all (fun d => parse P (render d false n) == some (toT d n)) then "ok" else "bad"
      (rows, " ; ".intercalate texts ++ " | " ++ vals ++ " | " ++ sel precSql ++ " " ++ sel precFlat ++ " " ++ sel precInv
        ++ " | " ++ pr precSql ++ " " ++ pr precFlat ++ " " ++ pr precInv)
    | _ => (rows, "bad-tree")
  | _ => (rows, "bad-op")

def main : IO Unit := loop handle []
