"""C14 — the generated schema matches the class declaration, in every dialect.

correspondence: the DDL text of the REAL renderers (CREATE TABLE, reference constraints, join tables, indexes) for
sqlite / mysql / postgres / firebird / mssql / sybase / maxdb against the Lean model driver (`drv_c14`), by string
equality, on generated class declarations; the Lean DDL reader against an independent Python reader.
oracle (no model involved): (a) every dialect's CREATE TABLE text read by a quote- and paren-aware Python reader and
compared with the declaration; (b) on SQLite the table is created for real and PRAGMA table_info / index_list /
index_info / foreign_key_list are compared with the declaration, a row is inserted and read back,
create-if-missing / drop-if-present run twice, link tables of RelatedJoin pairs counted, addColumn / delColumn with
changeSchema=True checked against the stored data.
"""
import datetime
import decimal
import uuid

from vlib import sqlo

PROP = 'C14'
META = {
    'extractors': ['ddl', 'pyddl'],
    'technique': ('Lean 4 proof over a fold-based DDL reader (frame / fragment lemmas, induction over the column list, the '
                  'enum value list and the characters of every value) + type tables extracted from col.py and the seven '
                  'connection classes + differential correspondence by string equality + executed SQLite oracle'),
    'level_text': ('Theorem C14_skeleton_eq_declaration: for every extracted-table set passing the decidable check, every '
                   'dialect, server capability, reader backslash convention compatible with the dialect and every '
                   'well-formed declaration (any number of columns of every modelled kind, any enum values incl. quotes, '
                   'backslashes, NUL), the column skeleton read from the generated CREATE TABLE text is the id column '
                   'followed by the declared columns in order under their db names with NOT NULL iff notNone/alternateID '
                   'and UNIQUE iff unique/alternateID; instantiated at the tables regenerated from /repo on every run. '
                   'All 7 dialects at full strength (MaxDB foreign keys with their table-level clause included).  Plus: the '
                   'extracted ON DELETE texts read back as the cascade setting, link table created by exactly one class of a '
                   'pair (counter-theorem for a join declared by the later class only), create-if-missing / drop-if-present '
                   'idempotent over a catalogue model, addColumn/delColumn preserve the other columns, Style name-mapping lemmas.  '
                   'TRANSLATED SOURCE: vlib/extractors/pyddl.py translates the renderers from the AST on every run (col.py column '
                   'classes with dynamic dispatch through the class table, dbconnection.py + the seven connection classes, '
                   'styles.py, SQLObject._getJoinsToCreate / createJoinTablesSQL) into a PyDdl program; the C14_translated_* '
                   'theorems prove the translated functions equal to the hand model for all declarations / dialects / styles '
                   '(createTableSQL + constraints, createColumns, every col.<dialect>CreateSQL, createIDColumn, reference '
                   'constraints, join tables, joins to create, mixedToUnder / underToMixed / the Style classes) and restate '
                   'the skeleton, round-trip and injectivity theorems about the translated source.'),
    'level_note': ('Trusted: Lean kernel; extractor vlib/extractors/ddl.py; the translator vlib/extractors/pyddl.py and the reference '
                   'semantics of the embedding Model/PyDdl.lean (interface assumptions: header of Model/DdlX.lean - sqlrepr of enum '
                   'values, findClass, connection capabilities, decimal rendering, ASCII lower/upper); the DDL reader Model/DdlRead.lean is the '
                   'specification side (written from SQL lexical rules; cross-checked against an independent Python reader '
                   'and, for SQLite, against the engine through PRAGMA introspection); MySQL/PostgreSQL/Firebird/MSSQL/'
                   'Sybase/MaxDB servers are not available: their DDL is compared as text only.'),
    'rule': ('case = one class declaration (columns x options x id settings x style x indexes x foreign keys) rendered for 7 '
             'dialects x a server-capability setting; corpus of corner cases first, then seeded random declarations; '
             'distinct = distinct canonical declaration; non-trivial = at least one column carries a non-default option'),
    'trusted': ['the DDL reader (Model/DdlRead.lean) as specification of "what a CREATE TABLE text declares"',
                'SQLite PRAGMA introspection as ground truth for the executed dialect'],
    'modelled': ['SQLite engine (executed, not verified)', 'the six other servers: text only',
                 'sqlrepr string-literal escaping is modelled locally (per-character map) and tied by string equality',
                 'index texts are hand-modelled and tied by string equality (join-table and ALTER TABLE constraint texts are also '
                 'translated and proved equal to the model)',
                 'stateful part: SQLObject.createTable / dropTable / createJoinTables / dropJoinTables / createIndexes and the seven '
                 'connection classes\' createTable / dropTable / _SO_createJoinTable / _SO_dropJoinTable / _SO_createIndex are '
                 'translated, run against the catalogue model (world-threading reading Model/PyDdlW.lean; the statement reader '
                 'execSQL of Model/DdlXW.lean is hand-written specification) and proved equal to createTableG / dropTableG / '
                 'createLinks / dropLinks / createIdx (all seven dialects; MySQL\'s ALTER TABLE ... ADD INDEX is followed by the '
                 'reader); addColumn and delColumn (7 dialects each, sqlite\'s recreateTableWithoutColumn included) are proved to '
                 'issue exactly the model\'s statements; the index loss of sqlite delColumn is a theorem about the translated '
                 'source (C14_translated_delColumn_drops_indexes_full_FALSE); the effect of those statements on table CONTENTS '
                 '(rows) is not modelled in Lean (executed SQLite scenarios); not translated: sqlmeta.addColumn / delColumn (class surgery), the __init__ methods of the column '
                 'classes, DBAPI.createSQL (sqlmeta.createSQL)'],
    'assumptions': ['well-formed identifiers (decidable hypothesis `declWF`): table / id / db names and foreign-key target names are '
                    'non-empty words without blanks, quotes, commas or parentheses and are not constraint keywords; defaultSQL is a '
                    'self-contained keyword-free fragment for the reader; the renderer did not refuse the declaration (EnumCol on '
                    'MaxDB, EnumCol without values)',
                    'the reader convention `bs` (backslash escapes inside literals) is only assumed compatible with the dialect that '
                    'quotes the enum values (`bsOK`); with the plain reader no condition is needed',
                    'catalogue / addColumn-delColumn theorems are about the models in Model/DdlCat.lean (tied by the executed SQLite scenarios, '
                    'not by a driver stream)'],
    'exhaustive': False,
}

DIALECTS = ['sqlite', 'mysql', 'postgres', 'firebird', 'mssql', 'sybase', 'maxdb']
_env = {}


def env():
    if _env:
        return _env
    sqlo.setup()
    from sqlobject.mysql.mysqlconnection import MySQLConnection
    from sqlobject.postgres.pgconnection import PostgresConnection
    from sqlobject.firebird.firebirdconnection import FirebirdConnection
    from sqlobject.mssql.mssqlconnection import MSSQLConnection
    from sqlobject.sybase.sybaseconnection import SybaseConnection
    from sqlobject.maxdb.maxdbconnection import MaxdbConnection
    conns = {'sqlite': sqlo.mem_conn()}
    for n, C in [('mysql', MySQLConnection), ('postgres', PostgresConnection), ('firebird', FirebirdConnection),
                 ('mssql', MSSQLConnection), ('sybase', SybaseConnection), ('maxdb', MaxdbConnection)]:
        conns[n] = object.__new__(C)       # no driver, no server: only the renderers are used
    _env['conns'] = conns
    return _env


def set_caps(micro, mx):
    c = env()['conns']
    c['mysql']._can_use_microseconds = micro
    c['mssql']._can_use_microseconds = micro
    c['mssql']._can_use_max_types = mx


# ------------------------------------------------------------------ encoding for the driver
def hx(s):
    return '-' if s == '' else '.'.join('%x' % ord(c) for c in s)


def ohx(s):
    return '~' if s is None else hx(s)


def b01(b):
    return '1' if b else '0'


def ob(b):
    return '~' if b is None else b01(b)


CASC = {None: 'n', True: 'c', False: 'r', 'null': 's'}
SIZES = {None: '-', 'TINY': 'T', 'SMALL': 'S', 'MEDIUM': 'M', 'BIG': 'B'}


def enc_kind(k, spec):
    t = k[0]
    if t == 's':
        return ['s', k[1]]
    if t == 'i':
        return ['i', k[1], str(k[2]), b01(k[3]), b01(k[4])]
    if t == 't':
        return ['t', b01(k[1]), str(k[2]), ob(k[3])]
    if t == 'j':
        return ['t', '0', str(k[1]), ob(k[2])]
    if t in ('b', 'p'):
        return [t, str(k[1]), ob(k[2])]
    if t == 'd':
        return ['d', str(k[1]), str(k[2])]
    if t == 'c':
        return ['c']
    if t == 'e':
        return ['e', str(len(k[1]))] + [ohx(v) for v in k[1]]
    if t == 'f':
        tg = spec['targets'][k[1]]
        return ['f', hx(tg['table_real']), hx(tg['id_real']), b01(tg['idStr']), CASC[k[2]]]
    raise ValueError(k)


def enc_decl(spec, joins):
    toks = [hx(spec['cls']), spec['style'], b01(spec['longID']), ohx(spec['table']), ohx(spec['idName']),
            b01(spec['idStr']), SIZES[spec['idSize']], str(len(spec['cols']))]
    for c in spec['cols']:
        toks += [hx(c['name']), ohx(c['dbName']), b01(c['nn']), ob(c['uq']), b01(c['alt']), ohx(None if c['dsql'] is None else '%s' % (c['dsql'],))]
        toks += enc_kind(c['kind'], spec)
    toks.append(str(len(spec['indexes'])))
    for ix in spec['indexes']:
        toks += [hx(ix['name']), b01(ix['unique']), str(len(ix['cols']))] + [str(i) for i in ix['cols']]
    toks.append(str(len(joins)))
    for j in joins:
        toks += [hx(j[0]), hx(j[1]), hx(j[2])]
    return ' '.join(toks)


def dec(s):
    return '' if s == '-' else ''.join(chr(int(t, 16)) for t in s.split('.'))


# ------------------------------------------------------------------ building the real classes
def make_style(spec):
    from sqlobject import styles
    cls = {'u': styles.MixedCaseUnderscoreStyle, 'm': styles.MixedCaseStyle, 'p': styles.Style}[spec['style']]
    return cls(longID=spec['longID'])


def col_object(c, spec):
    import sqlobject as so
    k = c['kind']
    kw = {}
    if c['dbName'] is not None:
        kw['dbName'] = c['dbName']
    if c['nn']:
        kw['notNone'] = True
    if c['uq'] is not None:
        kw['unique'] = c['uq']
    if c['alt']:
        kw['alternateID'] = True
    if c['dsql'] is not None:
        kw['defaultSQL'] = c['dsql']
    if c.get('default', 'nodefault') != 'nodefault':
        kw['default'] = c['default']
    t = k[0]
    if t == 's':
        cls = {'bool': so.BoolCol, 'float': so.FloatCol, 'dateTime': so.DateTimeCol, 'date': so.DateCol,
               'time': so.TimeCol, 'timestamp': so.TimestampCol, 'uuid': so.UuidCol}[k[1]]
        return cls(**kw)
    if t == 'i':
        cls = {'int': so.IntCol, 'tiny': so.TinyIntCol, 'small': so.SmallIntCol, 'medium': so.MediumIntCol,
               'big': so.BigIntCol}[k[1]]
        if k[2]:
            kw['length'] = k[2]
        if k[3]:
            kw['unsigned'] = True
        if k[4]:
            kw['zerofill'] = True
        return cls(**kw)
    if t in ('t', 'j', 'b', 'p'):
        if t == 't':
            cls, length, vc = (so.UnicodeCol if k[1] else so.StringCol), k[2], k[3]
        else:
            cls, length, vc = {'j': so.JSONCol, 'b': so.BLOBCol, 'p': so.PickleCol}[t], k[1], k[2]
        if length:
            kw['length'] = length
        if vc is not None:
            kw['varchar'] = vc
        return cls(**kw)
    if t == 'd':
        return so.DecimalCol(size=k[1], precision=k[2], **kw)
    if t == 'c':
        return so.CurrencyCol(**kw)
    if t == 'e':
        return so.EnumCol(enumValues=list(k[1]), **kw)
    if t == 'f':
        return so.ForeignKey(spec['targets'][k[1]]['cls'], cascade=k[2], **kw)
    raise ValueError(k)


def build(spec, col_objs=None, extra=None):
    """create the target classes and the class of the declaration (bound to the private SQLite connection);
    `col_objs`: Col definition objects to (re)use instead of fresh ones; `extra`: further class attributes"""
    import sqlobject as so
    conn = env()['conns']['sqlite']
    for tg in spec['targets']:
        if 'obj' in tg:
            continue
        meta = {}
        if tg.get('idName'):
            meta['idName'] = tg['idName']
        if tg['idStr']:
            meta['idType'] = str
        if tg.get('table'):
            meta['table'] = tg['table']
        body = {'_connection': conn, 'n': so.IntCol(default=None), 'sqlmeta': type('sqlmeta', (), meta)}
        tg['obj'] = type(tg['cls'], (so.SQLObject,), body)
        tg['table_real'] = tg['obj'].sqlmeta.table
        tg['id_real'] = tg['obj'].sqlmeta.idName
    meta = {'style': make_style(spec)}
    if spec['table'] is not None:
        meta['table'] = spec['table']
    if spec['idName'] is not None:
        meta['idName'] = spec['idName']
    if spec['idStr']:
        meta['idType'] = str
    if spec['idSize'] is not None:
        meta['idSize'] = spec['idSize']
    body = {'_connection': conn, 'sqlmeta': type('sqlmeta', (), meta)}
    for c in spec['cols']:
        body[c['name']] = col_objs[c['name']] if col_objs is not None else col_object(c, spec)
    for ix in spec['indexes']:
        body[ix['name']] = so.DatabaseIndex(*[spec['cols'][i]['name'] for i in ix['cols']], unique=ix['unique'])
    body.update(extra or {})
    return type(spec['cls'], (so.SQLObject,), body)


REUSE_MODES = ['shared', 'versioned-shared', 'subclass', 'versioned-subclass', 'readd', 'versioned-readd',
               'subclass+oldmeta', 'subclass+newmeta', 'subclass+oldmeta+owncol', 'subclass+owncol', 'versioned-subclass+oldmeta']


def build_reused(ctx, spec, mode):
    """The declaration reaches the class under test through definitions that were already used: the same Col objects
    after another class was built from them (optionally a class with Versioning(), which derives a <Class>Versions
    table from them), a plain Python subclass of such a class, or a column deleted and added again.  Returns
    (spec of the class under test, class) or None when the library refuses the combination."""
    import sqlobject as so
    from sqlobject.versioning import Versioning
    col_objs = {c['name']: col_object(c, spec) for c in spec['cols']}
    first = dict(spec, cls=sqlo.uniq('C14Reuse1'), table=None)
    extra = {'versions': Versioning()} if mode.startswith('versioned') else None
    try:
        cls1 = build(first, col_objs, extra)
    except Exception as e:
        ctx.count('reuse-rejected:%s:%s' % (mode, type(e).__name__))
        return None
    kind = 'subclass' if 'subclass' in mode else mode.split('-')[-1]
    try:
        if kind == 'shared':
            spec2 = dict(spec, cls=sqlo.uniq('C14Reuse2'))
            return spec2, build(spec2, col_objs)
        if kind == 'subclass':
            # a plain Python subclass: no sqlmeta of its own / an old-style inner `class sqlmeta:` / one derived from the
            # parent's; optionally a column of its own.  Its table must carry the parent's columns, id name, id type, style.
            name2 = sqlo.uniq('C14Reuse2Sub')
            body2, cols2, table2 = {}, list(spec['cols']), None
            if 'oldmeta' in mode or 'newmeta' in mode:
                table2 = 'sub_tbl_' + name2.lower()
                body2['sqlmeta'] = type('sqlmeta', (cls1.sqlmeta,) if 'newmeta' in mode else (), {'table': table2})
            if 'owncol' in mode:
                own = {'name': 'subOwnZq', 'dbName': None, 'nn': True, 'uq': None, 'alt': False, 'dsql': None, 'default': 3,
                       'kind': ('i', 'int', 0, False, False)}
                body2[own['name']] = col_object(own, spec)
                cols2.append(own)
            cls2 = type(name2, (cls1,), body2)
            spec2 = dict(spec, cls=name2, cols=cols2, table=table2 or cls2.sqlmeta.table, idName=cls1.sqlmeta.idName, indexes=[],
                         expect_idName=cls1.sqlmeta.idName, expect_style=type(cls1.sqlmeta.style).__name__)
            return spec2, cls2
        # readd: every column in turn leaves the class and comes back (same definition object), no schema change
        for c in spec['cols']:
            cls1.sqlmeta.delColumn(cls1.sqlmeta.columns[c['name'] + 'ID' if c['kind'][0] == 'f' else c['name']])
            cls1.sqlmeta.addColumn(col_objs[c['name']])
        spec2 = dict(spec, cls=cls1.__name__, table=cls1.sqlmeta.table, idName=cls1.sqlmeta.idName)
        if [c.origName for c in cls1.sqlmeta.columnList] != [c['name'] for c in spec['cols']]:
            ctx.count('reuse-skipped:column-order')
            return None
        return spec2, cls1
    except Exception as e:
        ctx.count('reuse-rejected:%s:%s' % (mode, type(e).__name__))
        return None


def impl_texts(cls, dialect):
    conn = env()['conns'][dialect]
    try:
        sql, cons = conn.createTableSQL(cls)
    except Exception as e:                                  # e.g. EnumCol on MaxDB
        sql, cons = '!', []
    try:
        jt = cls.createJoinTablesSQL(connection=conn)
        ix = cls.createIndexesSQL(connection=conn)
    except Exception as e:
        jt, ix = '!' + type(e).__name__, ''
    return sql, list(cons), jt, ix


# ------------------------------------------------------------------ independent Python reader (oracle side)
def py_items(text):
    """top-level items of the parenthesised body: lists of tokens; quotes (with '' doubling) and parentheses opaque"""
    i = text.index('(') + 1
    items, cur, word = [], [], ''
    depth, n = 0, len(text)

    def flush():
        nonlocal word
        if word:
            cur.append(word)
            word = ''
    while i < n:
        ch = text[i]
        if ch == "'":
            j = i + 1
            while j < n:
                if text[j] == "'":
                    if j + 1 < n and text[j + 1] == "'":
                        j += 2
                        continue
                    break
                j += 1
            if depth == 0:
                flush()
                cur.append(("'",))
            i = j + 1
            continue
        if depth > 0:
            if ch == '(':
                depth += 1
            elif ch == ')':
                depth -= 1
            i += 1
            continue
        if ch in ' \n\t\r':
            flush()
        elif ch == ',':
            flush()
            items.append(cur)
            cur = []
        elif ch == '(':
            flush()
            cur.append(('(',))
            depth = 1
        elif ch == ')':
            flush()
            items.append(cur)
            return items
        else:
            word += ch
        i += 1
    flush()
    items.append(cur)
    return items


TABLE_KW = ('FOREIGN', 'CONSTRAINT', 'PRIMARY', 'UNIQUE', 'CHECK')


def py_defaults(text):
    """column name -> the DEFAULT clause's first token (None: no DEFAULT keyword at the top level of the item)"""
    out = {}
    for it in py_items(text):
        if not it or not isinstance(it[0], str) or it[0].upper() in TABLE_KW:
            continue
        up = [t.upper() if isinstance(t, str) else t for t in it[1:]]
        out[it[0]] = (it[1:][up.index('DEFAULT') + 1] if up.index('DEFAULT') + 1 < len(up) else '') if 'DEFAULT' in up else None
    return out


def py_skeleton(text):
    cols, refs = [], []
    for it in py_items(text):
        if not it or not isinstance(it[0], str) or it[0].upper() in TABLE_KW:
            continue
        up = [t.upper() if isinstance(t, str) else t for t in it[1:]]
        nn = any(up[i] == 'NOT' and up[i + 1] == 'NULL' for i in range(len(up) - 1))
        pk = any(up[i] == 'PRIMARY' and up[i + 1] == 'KEY' for i in range(len(up) - 1))
        key = 'pk' if pk else ('ident' if 'IDENTITY' in up else '-')
        cols.append((it[0], nn, 'UNIQUE' in up, key))
        if 'REFERENCES' in up:
            r = up.index('REFERENCES')
            tgt = it[1:][r + 1] if r + 1 < len(up) and isinstance(it[1:][r + 1], str) else None
            if tgt is None:
                continue
            rest = up[r + 2:]
            act = 'none'
            for i in range(len(rest) - 2):
                if rest[i] == 'ON' and rest[i + 1] == 'DELETE':
                    a = rest[i + 2]
                    if a == 'CASCADE':
                        act = 'cascade'
                    elif a == 'RESTRICT':
                        act = 'restrict'
                    elif a == 'SET' and i + 3 < len(rest) and rest[i + 3] == 'NULL':
                        act = 'setnull'
                    else:
                        act = 'other'
                    break
            refs.append((it[0], tgt, act))
    return cols, refs


def show_skel(cols):
    if not cols:
        return '[]'
    return ','.join('%s:%s%s:%s' % (hx(n), 'N' if nn else 'n', 'U' if uq else 'u', key) for n, nn, uq, key in cols)


def show_refs(refs):
    if not refs:
        return '[]'
    return ','.join('%s:%s:%s' % (hx(c), hx(t or ''), a) for c, t, a in refs)


# ------------------------------------------------------------------ declaration as the oracle sees it
def kind_tag(k):
    return {'s': 'simple', 'i': 'int', 't': 'string', 'j': 'json', 'b': 'blob', 'p': 'pickle', 'd': 'decimal',
            'c': 'currency', 'e': 'enum', 'f': 'fk'}[k[0]]


def declared(spec, cls):
    """what the declaration says, independent of any renderer: db names come from the class object"""
    out = []
    for c, so_col in zip(spec['cols'], cls.sqlmeta.columnList):
        uq = c['alt'] if c['uq'] is None else c['uq']
        out.append({'db': so_col.dbName, 'nn': bool(c['nn'] or c['alt']), 'uq': bool(uq or c['alt']), 'col': c})
    return out


ACTION = {None: 'none', True: 'cascade', False: 'restrict', 'null': 'setnull'}
ID_KEY = {'sqlite': 'pk', 'mysql': 'pk', 'postgres': 'pk', 'firebird': 'pk', 'maxdb': 'pk', 'mssql': 'ident', 'sybase': 'ident'}
RENDERS_FK_INLINE = ('sqlite', 'mssql', 'sybase')


def minimal_case(spec, ci, dialect):
    c = spec['cols'][ci]
    return {'dialect': dialect, 'reuse': spec.get('reuse'), 'table': spec.get('table'), 'col': {k: v for k, v in c.items() if k != 'default'},
            'targets': [{k: v for k, v in t.items() if k != 'obj'} for t in spec['targets']]}


_ALTER_FK = None


def constraints_oracle(ctx, spec, cls, dialect, cons):
    """the second component of createTableSQL: a list of executable statements (no None, no blanks), one ALTER TABLE per
    foreign key on the dialects that add them afterwards (mysql, postgres), each naming this table (schema-qualified
    as declared), an UNQUALIFIED constraint name following the documented convention, the column, the target."""
    import re
    global _ALTER_FK
    if _ALTER_FK is None:
        _ALTER_FK = re.compile(r'ALTER TABLE (\S+) ADD CONSTRAINT (\S+) FOREIGN KEY \((\S+)\) REFERENCES (\S+) \((\S+)\) ?(.*)$')
    case = {'dialect': dialect, 'spec': strip(spec)}
    lists = [('conn.createTableSQL', cons)]
    try:
        lists.append(('cls.createTableSQL', list(cls.createTableSQL(connection=env()['conns'][dialect])[1])))
    except Exception:
        pass
    for who, lst in lists:
        bad = [c for c in lst if not isinstance(c, str) or not c.strip()]
        if bad:
            ctx.oracle_fail('C14:%s:constraints:not-a-statement' % dialect,
                            '%s(...)[1] for %s contains %r: createTable(applyConstraints=True) would execute it'
                            % (who, dialect, bad[:2]), case)
            return False
    fks = [(ci, so_col) for ci, (c, so_col) in enumerate(zip(spec['cols'], cls.sqlmeta.columnList)) if c['kind'][0] == 'f']
    want_n = len(fks) if dialect in ('mysql', 'postgres') else 0
    if len(cons) != want_n:
        ctx.oracle_fail('C14:%s:constraints:count' % dialect, '%d reference constraints for %d foreign keys: %r'
                        % (len(cons), len(fks), cons[:3]), case)
        return True
    table = cls.sqlmeta.table
    for (ci, so_col), con in zip(fks, cons):
        m = _ALTER_FK.match(con)
        tg = spec['targets'][spec['cols'][ci]['kind'][1]]
        local = table.rsplit('.', 1)[-1]
        want_name = ('%s_%s_exists' % (local, so_col.dbName)) if dialect == 'mysql' else '%s_exists' % so_col.dbName
        got = m.groups()[:5] if m else None
        want = (table, want_name, so_col.dbName, tg['table_real'], tg['id_real'])
        if got != want:
            what = 'constraint-name' if (got and got[:1] + got[2:] == want[:1] + want[2:]) else 'constraint-text'
            ctx.oracle_fail('C14:%s:fk:%s' % (dialect, what),
                            '%s reference constraint of %s.%s: (table, constraint name, column, target, target id) = %r, expected %r'
                            % (dialect, table, so_col.dbName, got, want), minimal_case(spec, ci, dialect))
    return True


def text_oracle(ctx, spec, cls, dialect, sql, cons):
    """compare the skeleton read (by the Python reader) from one dialect's text with the declaration"""
    if sql == '!':
        kinds = sorted({kind_tag(c['kind']) for c in spec['cols']})
        if dialect == 'maxdb' and 'enum' in kinds:
            ctx.count('maxdb-enum-unsupported')           # documented refusal (TypeError), not a mismatch
            return
        ctx.oracle_fail('C14:%s:render-raises' % dialect, 'createTableSQL raises for %s' % dialect,
                        {'dialect': dialect, 'spec': strip(spec)})
        return
    if not constraints_oracle(ctx, spec, cls, dialect, cons):
        return
    cols, refs = py_skeleton(sql)
    decl = declared(spec, cls)
    idn = cls.sqlmeta.idName
    if not cols or cols[0][0] != idn or cols[0][3] != ID_KEY[dialect]:
        ctx.oracle_fail('C14:%s:id-column' % dialect, 'first column is %r, expected the key column %r' % (cols[:1], idn),
                        {'dialect': dialect, 'spec': strip(spec)})
    names = [c[0] for c in cols[1:]]
    if names != [d['db'] for d in decl]:
        ctx.oracle_fail('C14:%s:columns' % dialect, 'columns %r, declared %r' % (names, [d['db'] for d in decl]),
                        {'dialect': dialect, 'spec': strip(spec)})
        return
    refmap = {r[0]: r for r in refs}
    altermap = {}
    for con in cons:
        toks = con.split()
        try:
            fk = toks.index('KEY')
            col = toks[fk + 1].strip('()')
            tgt = toks[toks.index('REFERENCES') + 1]
            rest = ' '.join(toks[toks.index('REFERENCES') + 3:])
            act = {'': 'none', 'ON DELETE CASCADE': 'cascade', 'ON DELETE RESTRICT': 'restrict',
                   'ON DELETE SET NULL': 'setnull'}.get(rest, 'other')
            altermap[col] = (col, tgt, act)
        except ValueError:
            pass
    dflts = py_defaults(sql)
    for ci, (d, got) in enumerate(zip(decl, cols[1:])):
        tag = kind_tag(d['col']['kind'])
        has = dflts.get(d['db']) is not None
        if has != (d['col']['dsql'] is not None):
            ctx.oracle_fail('C14:%s:%s:%s' % (dialect, tag, 'default-undeclared' if has else 'default-missing'),
                            '%s: column %s declared defaultSQL=%r but the text %s DEFAULT clause'
                            % (dialect, d['db'], d['col']['dsql'], 'has a' if has else 'has no'), minimal_case(spec, ci, dialect))
        if got[3] != '-':
            ctx.oracle_fail('C14:%s:%s:key-marker' % (dialect, tag), 'column %s carries a key marker' % d['db'],
                            minimal_case(spec, ci, dialect))
        if got[1] != d['nn']:
            what = 'not-null-undeclared' if got[1] else 'not-null-missing'
            ctx.oracle_fail('C14:%s:%s:%s' % (dialect, tag, what),
                            '%s: column %s of kind %s: NOT NULL in the text is %s, declared %s'
                            % (dialect, d['db'], tag, got[1], d['nn']), minimal_case(spec, ci, dialect))
        if got[2] != d['uq']:
            what = 'unique-undeclared' if got[2] else 'unique-missing'
            ctx.oracle_fail('C14:%s:%s:%s' % (dialect, tag, what),
                            '%s: column %s of kind %s: UNIQUE in the text is %s, declared %s'
                            % (dialect, d['db'], tag, got[2], d['uq']), minimal_case(spec, ci, dialect))
        if tag == 'fk':
            tg = spec['targets'][d['col']['kind'][1]]
            want = ACTION[d['col']['kind'][2]]
            r = refmap.get(d['db']) or altermap.get(d['db'])
            if dialect == 'maxdb' and r is None:
                # table-level clause `FOREIGN KEY (col) REFERENCES t(id)`
                import re
                m = re.search(r'FOREIGN KEY \(%s\) REFERENCES ([\w.]+)\(' % re.escape(d['db']), sql)
                r = (d['db'], m.group(1), 'none') if m else None
            if r is None:
                if dialect != 'firebird':                  # firebird renders no foreign keys at all
                    ctx.oracle_fail('C14:%s:fk:reference-missing' % dialect, 'no REFERENCES for %s' % d['db'],
                                    minimal_case(spec, ci, dialect))
                continue
            if r[1] != tg['table_real']:
                ctx.oracle_fail('C14:%s:fk:target' % dialect, 'REFERENCES %r, declared %r' % (r[1], tg['table_real']),
                                minimal_case(spec, ci, dialect))
            if r[2] == 'none' and want == 'restrict' and dialect in ('mssql', 'sybase', 'maxdb'):
                ctx.count('fk-restrict-rendered-as-default-no-action')   # NO ACTION refuses the delete as RESTRICT does
            elif r[2] != want:
                what = 'delete-action-missing' if r[2] == 'none' else 'delete-action-wrong'
                ctx.oracle_fail('C14:%s:fk:%s' % (dialect, what),
                                '%s: foreign key %s declared cascade=%r but the DDL says ON DELETE %s'
                                % (dialect, d['db'], d['col']['kind'][2], r[2]), minimal_case(spec, ci, dialect))


def strip(spec):
    s = dict(spec)
    s['targets'] = [{k: v for k, v in t.items() if k != 'obj'} for t in spec['targets']]
    s['cols'] = [{k: v for k, v in c.items() if k != 'default'} for c in spec['cols']]
    return s


# ------------------------------------------------------------------ SQLite execution oracle
def needs_e(v):
    return v is not None and any(ch in v for ch in '\\\x00\x08\n\r\t')


def sample_value(c, spec, conn):
    k = c['kind']
    t = k[0]
    if t == 's':
        return {'bool': True, 'float': 1.5, 'dateTime': datetime.datetime(2020, 1, 2, 3, 4, 5),
                'date': datetime.date(2020, 1, 2), 'time': datetime.time(3, 4, 5),
                'timestamp': datetime.datetime(2021, 2, 3, 4, 5, 6), 'uuid': uuid.UUID(int=5)}[k[1]]
    if t == 'i':
        return 7
    if t == 't':
        return 'hé' if k[1] else "o'k"
    if t == 'j':
        return {'k': [1, None]}
    if t == 'b':
        return b'\x00\x01z'
    if t == 'p':
        return {'a': [1, 2]}
    if t == 'd':
        return decimal.Decimal(1)
    if t == 'c':
        return decimal.Decimal('1.50')
    if t == 'e':
        vals = [v for v in k[1] if v is not None]
        return vals[0] if vals else None
    if t == 'f':
        tg = spec['targets'][k[1]]
        tg['obj'].createTable(ifNotExists=True)
        # the referenced row gets an explicit key, edge values of the key domain included
        want = pick_id(tg['idStr'], salt=len(tg['cls']) + k[1])
        if want is None:
            return tg['obj'](n=1).id
        try:
            return tg['obj'].get(want).id
        except Exception:
            return tg['obj'](id=want, n=1).id
    raise ValueError(k)


INT_IDS = [None, 0, 0, 1, 7, -3, 2 ** 40]
STR_IDS = ['', '', 'k', "o'q", ' ', 'K-1', '0']
_pick = [0]


def pick_id(is_str, salt=0):
    """explicit primary keys to insert under: None = let the database assign (integer keys only)"""
    _pick[0] += 1
    pool = STR_IDS if is_str else INT_IDS
    return pool[(_pick[0] + salt) % len(pool)]


def same_value(a, b):
    if isinstance(a, (decimal.Decimal, float)) and b is not None:
        return abs(float(a) - float(b)) < 1e-9
    return a == b


def sqlite_oracle(ctx, spec, cls):
    conn = env()['conns']['sqlite']
    table = cls.sqlmeta.table
    key_spec = strip(spec)
    bad_enum = [ci for ci, c in enumerate(spec['cols']) if c['kind'][0] == 'e' and any(needs_e(v) for v in c['kind'][1])]
    if any(c['kind'][0] == 'i' and c['kind'][2] and (c['kind'][3] or c['kind'][4]) for c in spec['cols']):
        ctx.count('sqlite-execution-skipped:INT(n) UNSIGNED/ZEROFILL is MySQL-only syntax')
        return
    if '.' in table or any('.' in t['table_real'] for t in spec['targets']):
        ctx.count('sqlite-execution-skipped:schema-qualified table name (no such schema in the in-memory database)')
        return
    if any(c['kind'][0] == 'e' and any(v is not None and '\x00' in v for v in c['kind'][1]) for c in spec['cols']):
        ctx.count('sqlite-execution-skipped:NUL in an enum value (the sqlite3 driver refuses NUL in a statement)')
        return
    try:
        if any(c['kind'][0] == 'f' for c in spec['cols']) and len(spec['cls']) % 2:
            left = cls.createTable(applyConstraints=False)
            if any(not isinstance(x, str) or not x.strip() for x in left):
                ctx.oracle_fail('C14:sqlite:constraints:not-a-statement',
                                'createTable(applyConstraints=False) returns %r' % (left,), {'spec': key_spec})
        else:
            cls.createTable()
    except Exception as e:
        if bad_enum:
            ctx.oracle_fail('C14:sqlite:enum:create-fails',
                            'createTable() fails on SQLite (%s): the CHECK of an EnumCol whose value contains a backslash / '
                            'control character is written in PostgreSQL E\'\' syntax' % sqlo.exc_name(e),
                            minimal_case(spec, bad_enum[0], 'sqlite'))
        else:
            ctx.oracle_fail('C14:sqlite:create-fails', 'createTable() raises %s: %s' % (type(e).__name__, e),
                            {'spec': key_spec})
        return
    try:
        decl = declared(spec, cls)
        info = conn.queryAll('PRAGMA table_info(%s)' % table)
        names = [r[1] for r in info]
        want = [cls.sqlmeta.idName] + [d['db'] for d in decl]
        if names != want:
            ctx.oracle_fail('C14:sqlite:columns', 'table has columns %r, declared %r' % (names, want), {'spec': key_spec})
            return
        pks = [r[1] for r in info if r[5]]
        if pks != [cls.sqlmeta.idName]:
            ctx.oracle_fail('C14:sqlite:primary-key', 'primary key columns %r' % (pks,), {'spec': key_spec})
        for ci, (d, r) in enumerate(zip(decl, info[1:])):
            if (r[4] is not None) != (d['col']['dsql'] is not None):
                ctx.oracle_fail('C14:sqlite:%s:default' % kind_tag(d['col']['kind']),
                                'PRAGMA table_info says dflt_value=%r for %s, declared defaultSQL=%r' % (r[4], d['db'], d['col']['dsql']),
                                minimal_case(spec, ci, 'sqlite'))
            if bool(r[3]) != d['nn']:
                ctx.oracle_fail('C14:sqlite:%s:notnull' % kind_tag(d['col']['kind']),
                                'PRAGMA table_info says notnull=%s for %s, declared %s' % (r[3], d['db'], d['nn']),
                                minimal_case(spec, ci, 'sqlite'))
        uniq_cols, declared_ix = set(), {}
        for r in conn.queryAll('PRAGMA index_list(%s)' % table):
            ixname, unique, origin = r[1], r[2], (r[3] if len(r) > 3 else None)
            cols = [x[2] for x in conn.queryAll('PRAGMA index_info(%s)' % ixname)]
            if ixname.startswith('sqlite_autoindex'):
                if unique and len(cols) == 1:
                    uniq_cols.add(cols[0])
            else:
                declared_ix[ixname] = (bool(unique), cols)
        want_u = {d['db'] for d in decl if d['uq']}
        if spec['idStr']:
            uniq_cols.discard(cls.sqlmeta.idName)        # TEXT PRIMARY KEY has an automatic index of its own
        if uniq_cols != want_u:
            ctx.oracle_fail('C14:sqlite:unique', 'UNIQUE columns in the table %r, declared %r' % (sorted(uniq_cols), sorted(want_u)),
                            {'spec': key_spec})
        want_ix = {'%s_%s' % (table, ix['name']): (ix['unique'], [decl[i]['db'] for i in ix['cols']]) for ix in spec['indexes']}
        if declared_ix != want_ix:
            ctx.oracle_fail('C14:sqlite:indexes', 'indexes %r, declared %r' % (declared_ix, want_ix), {'spec': key_spec})
        fks = {r[3]: (r[2], r[4], r[6]) for r in conn.queryAll('PRAGMA foreign_key_list(%s)' % table)}
        for ci, d in enumerate(decl):
            if d['col']['kind'][0] != 'f':
                continue
            tg = spec['targets'][d['col']['kind'][1]]
            want_fk = (tg['table_real'], tg['id_real'],
                       {None: 'NO ACTION', True: 'CASCADE', False: 'RESTRICT', 'null': 'SET NULL'}[d['col']['kind'][2]])
            if fks.get(d['db']) != want_fk:
                ctx.oracle_fail('C14:sqlite:fk', 'foreign_key_list gives %r for %s, declared %r' % (fks.get(d['db']), d['db'], want_fk),
                                minimal_case(spec, ci, 'sqlite'))
        # rows go in — under a database-assigned key and under explicit keys incl. the edge of the key domain
        # (0, '', negative, large) — and come back through the class and in the table under exactly that key
        has_unique = any(d['uq'] for d in decl) or any(ix['unique'] for ix in spec['indexes'])
        for attempt in range(1 if has_unique else 2):
            want_id = pick_id(spec['idStr'], salt=attempt)
            id_case = {'spec': key_spec, 'explicit_id': want_id}
            try:
                vals = {}
                for c in spec['cols']:
                    v = sample_value(c, spec, conn)
                    if v is None and (c['nn'] or c['alt']):
                        vals = None
                        break
                    vals[c['name']] = v
                if vals is None:
                    break
                idn = cls.sqlmeta.idName
                before_ids = [r[0] for r in conn.queryAll('SELECT %s FROM %s' % (idn, table))]
                if want_id in before_ids:
                    continue
                kw = dict(vals)
                if want_id is not None:
                    kw['id'] = want_id
                try:
                    obj = cls(**kw)
                except Exception as e:
                    if want_id is None:
                        raise
                    stored = [r[0] for r in conn.queryAll('SELECT %s FROM %s' % (idn, table)) if r[0] not in before_ids]
                    ctx.oracle_fail('C14:sqlite:explicit-id:insert-raises',
                                    'creating a row with the explicit %s key %r raises %s; the table now holds new key(s) %r'
                                    % ('string' if spec['idStr'] else 'integer', want_id, sqlo.exc_name(e), stored), id_case)
                    break
                oid = obj.id
                new_ids = [r[0] for r in conn.queryAll('SELECT %s FROM %s' % (idn, table)) if r[0] not in before_ids]
                if want_id is not None and (oid != want_id or new_ids != [want_id] or type(new_ids[0]) is not type(want_id)):
                    ctx.oracle_fail('C14:sqlite:explicit-id:stored-under-other-key',
                                    'row created with explicit key %r: object says %r, table holds %r' % (want_id, oid, new_ids), id_case)
                    break
                conn.cache.clear()
                back = cls.get(oid)
                for c in spec['cols']:
                    name = c['name'] + 'ID' if c['kind'][0] == 'f' else c['name']
                    if not same_value(getattr(back, name), vals[c['name']]):
                        ctx.oracle_fail('C14:sqlite:%s:readback' % kind_tag(c['kind']),
                                        'inserted %r, read back %r' % (vals[c['name']], getattr(back, name)), id_case)
                    if c['kind'][0] == 'f' and vals[c['name']] is not None:
                        other = getattr(back, c['name'])
                        if other is None or other.id != vals[c['name']]:
                            ctx.oracle_fail('C14:sqlite:fk:reference-unresolved',
                                            'foreign key %s holds %r but the attribute resolves to %r'
                                            % (name, vals[c['name']], other if other is None else other.id), id_case)
                ctx.count('row-roundtrip')
                ctx.count('row-roundtrip:id=%r' % (want_id if want_id in (None, 0, '') else 'other'))
            except Exception as e:
                ctx.oracle_fail('C14:sqlite:insert-fails', 'insert / read back raises %s: %s' % (type(e).__name__, e), id_case)
                break
        # create-if-missing twice, drop-if-present twice
        before = conn.queryAll("SELECT type, name, sql FROM sqlite_master WHERE tbl_name = '%s' ORDER BY name" % table)
        try:
            cls.createTable(ifNotExists=True)
            cls.createTable(ifNotExists=True)
        except Exception as e:
            ctx.oracle_fail('C14:sqlite:create-if-missing', 'createTable(ifNotExists=True) on an existing table raises %s' % type(e).__name__,
                            {'spec': key_spec})
        after = conn.queryAll("SELECT type, name, sql FROM sqlite_master WHERE tbl_name = '%s' ORDER BY name" % table)
        if before != after:
            ctx.oracle_fail('C14:sqlite:create-if-missing', 'createTable(ifNotExists=True) changed the schema', {'spec': key_spec})
    finally:
        try:
            cls.dropTable(ifExists=True)
            cls.dropTable(ifExists=True)
            if cls.tableExists():
                ctx.oracle_fail('C14:sqlite:drop-if-present', 'table still exists after dropTable(ifExists=True)', {'spec': key_spec})
        except Exception as e:
            ctx.oracle_fail('C14:sqlite:drop-if-present', 'dropTable(ifExists=True) raises %s: %s' % (type(e).__name__, e), {'spec': key_spec})


# ------------------------------------------------------------------ directed scenarios (joins, schema evolution)
def scenario_joins(ctx):
    import sqlobject as so
    conn = env()['conns']['sqlite']

    def tables():
        return sorted(r[0] for r in conn.queryAll("SELECT name FROM sqlite_master WHERE type='table'"))
    # (1) pairs: declared from both sides or by the first class only, default / custom / inverted table names, styles,
    #     either creation order; then each declaring class is dropped and created again
    from sqlobject import styles
    variants = []
    for naming in ('default', 'inverted', 'custom-same-order', 'plain-style', 'lower-second'):
        for declared in ('both', 'first-only'):
            for order in (0, 1):
                variants.append((naming, declared, order))
    own_lines, own_real = [], []
    for naming, declared, order in variants:
        if naming == 'lower-second':          # class names: 'C14Join…' < 'c14join…' ; default tables sort the other way round
            a_name, b_name = sqlo.uniq('C14JoinZz'), sqlo.uniq('c14joinAa')
        else:
            a_name, b_name = sqlo.uniq('C14JoinAa'), sqlo.uniq('C14JoinBb')
        assert a_name < b_name
        meta_a, meta_b = {}, {}
        if naming == 'inverted':
            meta_a['table'], meta_b['table'] = 'zz_' + a_name.lower(), 'aa_' + b_name.lower()
        elif naming == 'custom-same-order':
            meta_a['table'], meta_b['table'] = 'aa_' + a_name.lower(), 'zz_' + b_name.lower()
        elif naming == 'plain-style':
            meta_a['style'] = meta_b['style'] = styles.Style()
        body_a = {'_connection': conn, 'n': so.IntCol(), 'others': so.RelatedJoin(b_name), 'sqlmeta': type('sqlmeta', (), meta_a)}
        body_b = {'_connection': conn, 'n': so.IntCol(), 'sqlmeta': type('sqlmeta', (), meta_b)}
        if declared == 'both':
            body_b['others'] = so.RelatedJoin(a_name)
        A = type(a_name, (so.SQLObject,), body_a)
        B = type(b_name, (so.SQLObject,), body_b)
        first, second = (A, B) if order == 0 else (B, A)
        link = A.sqlmeta.joins[0].intermediateTable
        case = {'scenario': 'related-join-pair', 'naming': naming, 'declared': declared, 'order': order,
                'tables': [A.sqlmeta.table, B.sqlmeta.table]}
        declaring = [A, B] if declared == 'both' else [A]

        def usable(tag):
            a = A(n=1)
            b = B(n=2)
            getattr(a, 'add' + b_name[0].upper() + b_name[1:])(b)
            # membership only: rows of a dropped-and-recreated non-owning class may leave dangling link rows behind
            seen = [x.id for x in a.others]
            if b.id not in seen or (declared == 'both' and a.id not in [x.id for x in b.others]):
                ctx.oracle_fail('C14:join:link-unusable', '%s: rows linked through the link table are not seen from the declaring sides' % tag, case)
        try:
            first.createTable()
            second.createTable()
            n2 = tables().count(link)
            creators = [c.__name__ for c in declaring if c._getJoinsToCreate()]
            if n2 != 1:
                key = 'C14:join:pair-not-once' if declared == 'both' else 'C14:join:one-sided-first-class-never-created'
                ctx.oracle_fail(key, 'after createTable() of both classes (%s table names, join declared by %s) the link table %s exists %d times; '
                                'creating classes %r' % (naming, declared, link, n2, creators), case)
                continue
            if declared == 'both' and len(creators) != 1:
                ctx.oracle_fail('C14:join:pair-not-once', 'creating classes %r' % (creators,), case)
            info = conn.queryAll('PRAGMA table_info(%s)' % link)
            j = A.sqlmeta.joins[0]
            if sorted(r[1] for r in info) != sorted([j.joinColumn, j.otherColumn]) or not all(r[3] for r in info):
                ctx.oracle_fail('C14:join:link-columns', 'link table columns %r' % (info,), case)
            usable('after creation')
            first.createTable(ifNotExists=True)
            second.createTable(ifNotExists=True)
            # who creates / who drops, observed, for the model stream
            for X, Y in ((A, B), (B, A)):
                if X not in declaring:
                    continue
                creates = bool(X._getJoinsToCreate())
                X.dropTable()
                drops = link not in tables()
                own_lines.append('own %s %s %s %s' % (hx(X.__name__), hx(X.sqlmeta.table), hx(Y.__name__), hx(Y.sqlmeta.table)))
                own_real.append(('%s %s' % (b01(creates), b01(drops)), dict(case, cls=X.__name__)))
                # drop one class and create it again: the pair must be whole again
                X.createTable()
                if tables().count(link) != 1:
                    ctx.oracle_fail('C14:join:link-missing-after-recreate',
                                    '%s.dropTable(); %s.createTable(): the link table %s is %s (this class creates: %s, drops: %s)'
                                    % (X.__name__, X.__name__, link, 'missing' if link not in tables() else 'duplicated', creates, drops), case)
                    break
                usable('after drop + create of %s' % X.__name__)
            A.dropTable(ifExists=True)
            B.dropTable(ifExists=True)
            A.dropTable(ifExists=True)
            B.dropTable(ifExists=True)
            if link in tables():
                ctx.oracle_fail('C14:join:link-not-dropped', 'link table %s survives dropTable of both classes' % link, case)
            ctx.count('join-pair-scenario')
        except Exception as e:
            ctx.oracle_fail('C14:join:pair-raises', 'RelatedJoin pair scenario raises %s: %s' % (type(e).__name__, e), case)
        finally:
            for t in (link, A.sqlmeta.table, B.sqlmeta.table):
                try:
                    conn.query('DROP TABLE IF EXISTS %s' % t)
                except Exception:
                    pass
    outs = ctx.model(own_lines)
    if outs is not None:
        for o, (real, c) in zip(outs, own_real):
            ctx.compare('link-table ownership (creates, drops): model = observed on real classes', c, o, real)
    # (2) self-referential join declared in both directions (needed for symmetric access): created twice
    sj = sqlo.uniq('C14SelfJoin')
    link = sj.lower() + '_link'
    S = type(sj, (so.SQLObject,), {
        '_connection': conn, 'n': so.IntCol(),
        'fr': so.RelatedJoin(sj, joinColumn='a_id', otherColumn='b_id', intermediateTable=link, addRemoveName='Fr'),
        'to': so.RelatedJoin(sj, joinColumn='b_id', otherColumn='a_id', intermediateTable=link, addRemoveName='To')})
    try:
        S.createTable()
        if tables().count(link) != 1:
            ctx.oracle_fail('C14:join:self-join', 'link table count %d' % tables().count(link), {'scenario': 'self-join'})
    except Exception as e:
        ctx.oracle_fail('C14:join:self-join-created-twice',
                        'createTable() of a class with a self-referential RelatedJoin declared in both directions raises %s: '
                        'both declarations try to create the link table' % sqlo.exc_name(e), {'scenario': 'self-join'})
    finally:
        for t in (link, S.sqlmeta.table):
            try:
                conn.query('DROP TABLE IF EXISTS %s' % t)
            except Exception:
                pass
    # (3) a join declared only by the alphabetically later class: nobody creates the link table
    z_name, a_name = sqlo.uniq('C14Zed'), sqlo.uniq('C14Alpha')
    Z = type(z_name, (so.SQLObject,), {'_connection': conn, 'n': so.IntCol(), 'als': so.RelatedJoin(a_name)})
    A = type(a_name, (so.SQLObject,), {'_connection': conn, 'n': so.IntCol()})
    try:
        Z.createTable()
        A.createTable()
        link = Z.sqlmeta.joins[0].intermediateTable
        if link not in tables():
            ctx.oracle_fail('C14:join:one-sided-never-created',
                            'RelatedJoin declared only in %s (alphabetically after %s): link table %s is created by neither class'
                            % (z_name, a_name, link), {'scenario': 'one-sided-join'})
    except Exception as e:
        ctx.oracle_fail('C14:join:one-sided-raises', 'one-sided join scenario raises %s' % type(e).__name__, {'scenario': 'one-sided-join'})
    finally:
        for c in (Z, A):
            try:
                c.dropTable(ifExists=True, dropJoinTables=False)
            except Exception:
                pass


def scenario_evolution_ids(ctx):
    """addColumn / delColumn(changeSchema=True) keep every row under its OWN id: non-dense integer ids, explicit ids,
    string ids, rows referenced by a foreign key from another table; full (id, columns) content compared."""
    import sqlobject as so
    conn = env()['conns']['sqlite']
    rng = ctx.rng
    for rep in range(ctx.budget(8, 80)):
        str_id = rep % 3 == 2
        name = sqlo.uniq('C14EvoId')
        meta = {'idType': str} if str_id else {}
        if rep % 4 == 1:
            meta['idName'] = 'pk'
        body = {'_connection': conn, 'a': so.IntCol(default=None), 'b': so.StringCol(), 'c': so.IntCol(default=None),
                'd': so.UnicodeCol(default=None), 'sqlmeta': type('sqlmeta', (), meta)}
        T = type(name, (so.SQLObject,), body)
        R = type(sqlo.uniq('C14EvoRef'), (so.SQLObject,), {'_connection': conn, 'n': so.IntCol(),
                                                            'tgt': so.ForeignKey(name, default=None)})
        table, idn = T.sqlmeta.table, T.sqlmeta.idName
        case = {'scenario': 'evolution-ids', 'str_id': str_id, 'rep': rep, 'idName': idn}
        try:
            T.createTable()
            R.createTable()
            ids = []
            if str_id:
                for k in ('k1', 'zz', "o'k", 'K 2'):
                    ids.append(T(id=k, a=rng.randint(-9, 9), b='b' + k, c=rng.choice([None, 3]), d=rng.choice([None, 'u\xfc'])).id)
            else:
                for i in range(4):                       # 1..4, then a hole, then explicit far-away ids
                    ids.append(T(a=rng.randint(-9, 9), b='b%d' % i, c=rng.choice([None, 3]), d=rng.choice([None, 'u\xfc'])).id)
                for k in (10, 20 + rep):
                    ids.append(T(id=k, a=k, b='x%d' % k, c=None, d='e').id)
            gone = ids[1]
            T.get(gone).destroySelf()
            ids.remove(gone)
            refs = {}
            for i in ids[1:]:
                refs[R(n=len(refs), tgt=i).id] = i

            def content(cols):
                return conn.queryAll('SELECT %s FROM %s ORDER BY %s' % (', '.join([idn] + cols), table, idn))

            def check_refs(when):
                conn.cache.clear()
                for rid, tid in refs.items():
                    try:
                        got = R.get(rid).tgt
                        ok = got is not None and got.id == tid and got.b == dict((r[0], r[1]) for r in content(['b']))[tid]
                    except Exception as e:
                        ok = False
                    if not ok:
                        ctx.oracle_fail('C14:evolution:fk-reference-lost',
                                        '%s: the row referenced by a ForeignKey (id %r) is no longer reachable under its id' % (when, tid), case)
                        return
            # addColumn (python-level default, and a defaultSQL one)
            before = content(['a', 'b', 'c', 'd'])
            extra = so.IntCol('extra', default=5) if rep % 2 == 0 else so.IntCol('extra', defaultSQL='7', default=None)
            T.sqlmeta.addColumn(extra, changeSchema=True)
            if content(['a', 'b', 'c', 'd']) != before:
                ctx.oracle_fail('C14:evolution:add-changes-data', 'addColumn changed ids or other columns: before %r after %r'
                                % (before, content(['a', 'b', 'c', 'd'])), case)
            want_extra = None if rep % 2 == 0 else 7
            if [r[1] for r in content(['extra'])] != [want_extra] * len(before):
                ctx.oracle_fail('C14:evolution:add-default', 'new column holds %r in the old rows, expected %r'
                                % ([r[1] for r in content(['extra'])], want_extra), case)
            check_refs('after addColumn')
            # delColumn
            victim = rng.choice(['a', 'c', 'd', 'extra'])
            keep = [c for c in ['a', 'b', 'c', 'd', 'extra'] if c != victim]
            before = content(keep)
            T.sqlmeta.delColumn(victim, changeSchema=True)
            after = content(keep)
            tcols = [r[1] for r in conn.queryAll('PRAGMA table_info(%s)' % table)]
            if tcols != [idn] + keep or [c.dbName for c in T.sqlmeta.columnList] != keep:
                ctx.oracle_fail('C14:evolution:del-out-of-step', 'after delColumn(%s): table %r, class %r'
                                % (victim, tcols, [c.dbName for c in T.sqlmeta.columnList]), case)
            if after != before:
                ctx.oracle_fail('C14:evolution:del-changes-data',
                                'delColumn(%s, changeSchema=True) changed ids or other columns: before %r after %r'
                                % (victim, before, after), case)
            check_refs('after delColumn(%s)' % victim)
            conn.cache.clear()
            try:
                seen = sorted((o.id, o.b) for o in T.select())
            except Exception as e:
                seen = 'raises %s' % type(e).__name__
            if seen != sorted((r[0], r[2 if victim != 'a' else 1]) for r in before):
                ctx.oracle_fail('C14:evolution:class-unusable', 'rows read through the class after the change: %r' % (seen,), case)
            ctx.count('evolution-ids-scenario')
        except Exception as e:
            ctx.oracle_fail('C14:evolution:raises', 'schema evolution (ids) scenario raises %s: %s' % (type(e).__name__, e), case)
        finally:
            for c in (R, T):
                try:
                    c.dropTable(ifExists=True)
                except Exception:
                    pass


def scenario_evolution_kinds(ctx):
    """delColumn(changeSchema=True) of a column of every option kind (plain, unique, alternateID, notNone, covered by a
    DatabaseIndex, foreign key, enum, with defaultSQL), then the table is used again: class and table in step, the other
    columns' data under the same ids, a new row goes in and comes back; then addColumn of the same kinds."""
    import sqlobject as so
    conn = env()['conns']['sqlite']
    rng = ctx.rng
    victims = ['plain', 'uniq', 'alt', 'must', 'indexed', 'ref', 'en', 'dflt']
    rounds = ctx.budget(1, 6)
    for rep in range(rounds):
        for victim in victims:
            tname = sqlo.uniq('C14EvoKTgt')
            Tg = type(tname, (so.SQLObject,), {'_connection': conn, 'n': so.IntCol(default=None)})
            name = sqlo.uniq('C14EvoK')
            body = {'_connection': conn, 'keepB': so.StringCol(),
                    'plain': so.IntCol(default=None), 'uniq': so.StringCol(unique=True), 'alt': so.StringCol(alternateID=True),
                    'must': so.IntCol(notNone=True), 'indexed': so.IntCol(default=None),
                    'ref': so.ForeignKey(tname, default=None, cascade=rng.choice([None, True, False, 'null'])),
                    'en': so.EnumCol(enumValues=['a', "b'c"], default='a'), 'dflt': so.IntCol(defaultSQL='4', default=None)}
            if victim == 'indexed':
                body['ix'] = so.DatabaseIndex('indexed', unique=bool(rep % 2))
            T = type(name, (so.SQLObject,), body)
            table = T.sqlmeta.table
            case = {'scenario': 'evolution-kinds', 'victim': victim, 'rep': rep}
            try:
                Tg.createTable()
                T.createTable()
                tg = Tg(n=1)
                for i in range(4):
                    T(keepB='k%d' % i, plain=i, uniq='u%d' % i, alt='a%d' % i, must=i, indexed=10 + i, ref=tg.id if i % 2 else None,
                      en="b'c" if i % 2 else 'a', dflt=i)
                T.get(2).destroySelf()
                col_obj = T.sqlmeta.columns['refID' if victim == 'ref' else victim]
                keep = [c.dbName for c in T.sqlmeta.columnList if c is not col_obj]

                def content(cols):
                    return conn.queryAll('SELECT id, %s FROM %s ORDER BY id' % (', '.join(cols), table))
                before = content(keep)
                raised = None
                try:
                    T.sqlmeta.delColumn(col_obj, changeSchema=True)
                except Exception as e:
                    raised = '%s: %s' % (sqlo.exc_name(e), e)
                tcols = [r[1] for r in conn.queryAll('PRAGMA table_info(%s)' % table)]
                ccols = ['id'] + [c.dbName for c in T.sqlmeta.columnList]
                if raised is not None or tcols != ccols or ccols != ['id'] + keep:
                    ctx.oracle_fail('C14:evolution:del-out-of-step',
                                    'delColumn(<%s column>, changeSchema=True) %s; table columns %r, class columns %r'
                                    % (victim, 'raised ' + raised if raised else 'returned', tcols, ccols), case)
                elif content(keep) != before:
                    ctx.oracle_fail('C14:evolution:del-changes-data', 'delColumn(<%s column>) changed ids or other columns' % victim, case)
                # the table is still usable through the class
                vals = dict(keepB='new', plain=7, uniq='u-new', alt='a-new', must=5, indexed=77, ref=tg.id, en='a', dflt=1)
                vals.pop(victim)
                try:
                    conn.cache.clear()
                    o = T(**vals)
                    oid = o.id
                    conn.cache.clear()
                    back = T.get(oid)
                    got = {k: (getattr(back, 'refID') if k == 'ref' else getattr(back, k)) for k in vals}
                    if got != vals:
                        ctx.oracle_fail('C14:evolution:insert-after-del-readback', 'inserted %r, read back %r' % (vals, got), case)
                except Exception as e:
                    ctx.oracle_fail('C14:evolution:insert-after-del-fails',
                                    'after delColumn(<%s column>, changeSchema=True) a row cannot be inserted / read through the class: %s: %s'
                                    % (victim, sqlo.exc_name(e), str(e)[:120]), case)
                ctx.count('evolution-kinds-scenario')
            except Exception as e:
                ctx.oracle_fail('C14:evolution:raises', 'schema evolution (kinds) scenario raises %s: %s' % (type(e).__name__, e), case)
            finally:
                for c in (T, Tg):
                    try:
                        conn.query('DROP TABLE IF EXISTS %s' % c.sqlmeta.table)
                    except Exception:
                        pass


def scenario_if_flags(ctx):
    """createTable(ifNotExists=True) / dropTable(ifExists=True), each twice in a row, from every catalogue state
    {class table present/absent} x {link table present/absent} x {createJoinTables / dropJoinTables flag}, for a join
    declared on one side, on both sides (either class) and a self-referential one declared in both directions."""
    import sqlobject as so
    conn = env()['conns']['sqlite']

    def tables():
        return sorted(r[0] for r in conn.queryAll("SELECT name FROM sqlite_master WHERE type='table' AND name NOT LIKE 'sqlite_%'"))
    shapes = []
    a_name, b_name = sqlo.uniq('C14FlagAa'), sqlo.uniq('C14FlagBb')
    A = type(a_name, (so.SQLObject,), {'_connection': conn, 'n': so.IntCol(), 'others': so.RelatedJoin(b_name)})
    B = type(b_name, (so.SQLObject,), {'_connection': conn, 'n': so.IntCol()})
    shapes.append(('one-sided', A, [A, B], True))
    a_name, b_name = sqlo.uniq('C14FlagAa'), sqlo.uniq('C14FlagBb')
    A2 = type(a_name, (so.SQLObject,), {'_connection': conn, 'n': so.IntCol(), 'others': so.RelatedJoin(b_name)})
    B2 = type(b_name, (so.SQLObject,), {'_connection': conn, 'n': so.IntCol(), 'others': so.RelatedJoin(a_name)})
    shapes.append(('two-sided-owner', A2, [A2, B2], True))
    shapes.append(('two-sided-other', B2, [A2, B2], False))
    sj = sqlo.uniq('C14FlagSelf')
    link_s = sj.lower() + '_link'
    S = type(sj, (so.SQLObject,), {
        '_connection': conn, 'n': so.IntCol(),
        'fr': so.RelatedJoin(sj, joinColumn='a_id', otherColumn='b_id', intermediateTable=link_s, addRemoveName='Fr'),
        'to': so.RelatedJoin(sj, joinColumn='b_id', otherColumn='a_id', intermediateTable=link_s, addRemoveName='To')})
    shapes.append(('self-both-directions', S, [S], True))
    lines, reals = [], []
    for shape, X, classes, owns in shapes:
        join = X.sqlmeta.joins[0]
        link = join.intermediateTable
        own_tables = [c.sqlmeta.table for c in classes] + [link]
        declared_links = [j.intermediateTable for j in X.sqlmeta.joins] if owns else []
        for cls_present in (True, False):
            for link_present in (True, False):
                for op in ('drop', 'create'):
                    for flag in (True, False):
                      for iff in (True, False):
                          case = {'scenario': 'if-flags', 'shape': shape, 'class_table': cls_present, 'link_table': link_present,
                                  'op': op, 'joins_flag': flag, 'if_flag': iff}
                          try:
                              for t in own_tables:
                                  conn.query('DROP TABLE IF EXISTS %s' % t)
                              for c in classes:
                                  if c is not X or cls_present:
                                      conn.query(conn.createTableSQL(c)[0])
                              if link_present:
                                  conn._SO_createJoinTable(join)
                              before = [t for t in tables() if t in own_tables]
                              states, err = [], None
                              for rep in ((1, 2) if iff else (1,)):
                                  try:
                                      if op == 'drop':
                                          X.dropTable(ifExists=iff, dropJoinTables=flag)
                                      else:
                                          X.createTable(ifNotExists=iff, createJoinTables=flag)
                                  except Exception as e:
                                      err = 'call %d raises %s: %s' % (rep, sqlo.exc_name(e), str(e)[:80])
                                      break
                                  states.append([t for t in tables() if t in own_tables])
                              # the property's own expectation
                              want = set(before)
                              if op == 'drop' and cls_present:
                                  want.discard(X.sqlmeta.table)
                                  if flag and owns:
                                      want.discard(link)
                              if op == 'create' and not cls_present:
                                  want.add(X.sqlmeta.table)
                                  if flag and owns:
                                      want.add(link)
                              what = None
                              if not iff:
                                  # plain createTable() / dropTable(): the database must have been asked.  A class table that is
                                  # already there / not there, or an owned link table in that state, makes the statement fail;
                                  # a silent success means a statement was skipped (or the if-flag was applied although not given)
                                  must_fail = (cls_present if op == 'create' else not cls_present) or \
                                      (bool(flag and owns) and (link_present if op == 'create' else not link_present))
                                  if must_fail and not err:
                                      ctx.oracle_fail('C14:plain-%s:silently-skips' % op,
                                                      '%s(%s=%s) without the if-flag on %s with class table %s, link table %s ends normally '
                                                      '(tables %r -> %r): a statement the database would refuse was not issued'
                                                      % ('dropTable' if op == 'drop' else 'createTable',
                                                         'dropJoinTables' if op == 'drop' else 'createJoinTables', flag, shape,
                                                         'present' if cls_present else 'absent', 'present' if link_present else 'absent',
                                                         before, states[0]), case)
                                  elif not must_fail and (err or set(states[0]) != want):
                                      ctx.oracle_fail('C14:plain-%s:%s' % (op, 'raises' if err else 'wrong-result'),
                                                      'plain %s on %s (class table %s, link table %s, joins flag %s): %s'
                                                      % (op, shape, 'present' if cls_present else 'absent',
                                                         'present' if link_present else 'absent', flag,
                                                         err or 'tables %r, expected %r' % (states[0], sorted(want))), case)
                              elif err:
                                  what = err + '; tables now %r (before %r)' % ([t for t in tables() if t in own_tables], before)
                              elif set(states[0]) != want:
                                  what = 'tables after the first call %r, expected %r' % (states[0], sorted(want))
                              elif states[1] != states[0]:
                                  what = 'the second call changed the catalogue: %r -> %r' % (states[0], states[1])
                              if what:
                                  key = 'C14:drop-if-present' if op == 'drop' else 'C14:create-if-missing'
                                  ctx.oracle_fail('%s:%s' % (key, 'raises' if err else 'wrong-result'),
                                                  '%s(%s=True, %s=%s) x2 on %s with class table %s, link table %s: %s'
                                                  % ('dropTable' if op == 'drop' else 'createTable', 'ifExists' if op == 'drop' else 'ifNotExists',
                                                     'dropJoinTables' if op == 'drop' else 'createJoinTables', flag, shape,
                                                     'present' if cls_present else 'absent', 'present' if link_present else 'absent', what), case)
                              ctx.count('if-flags-cell')
                              lines.append('cat %s %s %s %s %d %s %d %s' % (op, b01(iff), b01(flag), hx(X.sqlmeta.table), len(declared_links),
                                                                        ' '.join(hx(l) for l in declared_links), len(before),
                                                                        ' '.join(hx(t) for t in before)))
                              lines[-1] = ' '.join(lines[-1].split())
                              reals.append(('err' if err else 'ok ' + ' '.join(sorted(states[0])), case))
                          except Exception as e:
                              ctx.oracle_fail('C14:if-flags:raises', 'scenario raises %s: %s' % (type(e).__name__, e), case)
        # plain create then plain drop of the whole shape
        try:
            for t in own_tables:
                conn.query('DROP TABLE IF EXISTS %s' % t)
            for c in classes:
                c.createTable()
            try:
                for c in classes:
                    c.dropTable()
                left = [t for t in tables() if t in own_tables]
                if left:
                    ctx.oracle_fail('C14:plain-drop-after-create:leftover', '%s: tables %r survive dropTable() of every class' % (shape, left),
                                    {'scenario': 'if-flags', 'shape': shape})
            except Exception as e:
                key = 'C14:join:self-join-plain-drop-raises' if shape == 'self-both-directions' else 'C14:plain-drop-after-create:raises'
                ctx.oracle_fail(key, '%s: createTable() then dropTable() raises %s: %s (tables left: %r)'
                                % (shape, sqlo.exc_name(e), str(e)[:80], [t for t in tables() if t in own_tables]),
                                {'scenario': 'if-flags', 'shape': shape})
        finally:
            for t in own_tables:
                try:
                    conn.query('DROP TABLE IF EXISTS %s' % t)
                except Exception:
                    pass
    outs = ctx.model(lines)
    if outs is not None:
        for o, (real, c) in zip(outs, reals):
            if o.startswith('ok'):
                o = 'ok ' + ' '.join(sorted(dec(t) for t in o.split()[1:]))
            ctx.compare('catalogue: createTable/dropTable with if-flags and join flags: model = real on SQLite', c, o.strip(), real.strip())


def style_names(rng, n_random):
    """identifiers with capital runs of every length 1-4 in first / middle / last position, digits, one or several
    underscores (leading, inner, trailing), the ID / Id endings"""
    lows = ['a', 'ab', 'code', 'x1', 'n']
    runs = ['B', 'BC', 'BCD', 'BCDE', 'ID', 'I', 'XID']
    out = ['userID', 'aBCode', 'HTTPServer', 'IDCard', 'fooId', 'fooID', 'ID', 'aID', 'x', 'X', 'aB', 'ab', 'a1B2', 'aBC', 'ABC', 'aBCDe',
           'aBcDe', '_x', 'x_', 'a__b', 'foo_bar', 'foo_id', 'foo_bar_id', 'fooBarID', '_', '__', 'a_b_c', 'A_b', 'x_ID', 'idID', 'IDID',
           'a1', '1a', 'aB1C', 'camelCaseName', 'rawXMLData', 'p2PLink']
    for lo in lows:
        for run in runs:
            out += [run + lo, lo + run + lo, lo + run, lo + run + '1', lo + '1' + run, lo + run + lo + run, lo + '_' + run, lo + run + '_']
    alphabet = ['a', 'b', 'A', 'B', 'I', 'D', 'd', '1', '_', 'Id', 'ID', 'x']
    for _ in range(n_random):
        out.append(''.join(rng.choice(alphabet) for _ in range(rng.randint(1, 8))))
    seen, res = set(), []
    for s in out:
        if s and s not in seen:
            seen.add(s)
            res.append(s)
    return res


def is_camel(s):
    """the names the library's own naming convention is meant for (lower camel case): no underscore, no leading capital,
    not ending in `Id`, no run of three capitals once a final `ID` is set aside — as `Camel` in Lemmas/DdlStyle.lean"""
    if '_' in s or (s[:1].isascii() and s[:1].isupper()) or s.endswith('Id'):
        return False
    core = s[:-2] if s.endswith('ID') else s
    return not any(core[i:i + 3].isalpha() and core[i:i + 3].isupper() for i in range(len(core) - 2))


def scenario_styles(ctx):
    """the name mapping of the real styles.py: python -> db -> python round trip, injectivity, foreign-key naming, the
    db -> python -> db direction on names with several underscores, class <-> table, through the functions and the
    Style objects (pythonAttrToDBColumn / dbColumnToPythonAttr / pythonClassToDBTable / dbTableToPythonClass)"""
    from sqlobject import styles
    st = styles.MixedCaseUnderscoreStyle()
    mc = styles.MixedCaseStyle()
    names = style_names(ctx.rng, ctx.budget(1500, 40000))
    by_db = {}
    for s in names:
        case = {'scenario': 'styles', 'name': s}
        try:
            db = styles.mixedToUnder(s)
            if st.pythonAttrToDBColumn(s) != db:
                ctx.oracle_fail('C14:style:api', 'pythonAttrToDBColumn(%r) = %r but mixedToUnder gives %r' % (s, st.pythonAttrToDBColumn(s), db), case)
            ident = all(ch.isascii() and (ch.isalnum() or ch == '_') for ch in s)
            if ident and not all(ch.isdigit() or ch == '_' or ('a' <= ch <= 'z') for ch in db):
                ctx.oracle_fail('C14:style:db-name-chars', 'mixedToUnder(%r) = %r is not a lower-case identifier' % (s, db), case)
            if not s.endswith('ID') and styles.mixedToUnder(s + 'ID') != db + '_id':
                ctx.oracle_fail('C14:style:fk-name', 'attribute %r: its foreign-key column is %r, expected %r'
                                % (s, styles.mixedToUnder(s + 'ID'), db + '_id'), case)
            if is_camel(s):
                back = styles.underToMixed(db)
                back2 = st.dbColumnToPythonAttr(st.pythonAttrToDBColumn(s))
                if back != s or back2 != s:
                    ctx.oracle_fail('C14:style:roundtrip', 'python name %r -> column %r -> python name %r (Style object: %r)' % (s, db, back, back2), case)
                if db in by_db and by_db[db] != s:
                    ctx.oracle_fail('C14:style:injective', 'the distinct attribute names %r and %r both map to the column %r' % (by_db[db], s, db),
                                    {'scenario': 'styles', 'name': s, 'other': by_db[db]})
                by_db.setdefault(db, s)
                C = s[0].upper() + s[1:] if s[:1].isalpha() else 'T' + s
                if is_camel(C[1:]) and not C[1:].endswith('ID'):
                    tbl = st.pythonClassToDBTable(C)
                    if st.dbTableToPythonClass(tbl) != C:
                        ctx.oracle_fail('C14:style:class-roundtrip', 'class %r -> table %r -> class %r' % (C, tbl, st.dbTableToPythonClass(tbl)),
                                        {'scenario': 'styles', 'name': s, 'cls': C})
                if mc.dbColumnToPythonAttr(mc.pythonAttrToDBColumn(s)) != s:
                    ctx.oracle_fail('C14:style:mixedcase-roundtrip', 'MixedCaseStyle: %r -> %r -> %r'
                                    % (s, mc.pythonAttrToDBColumn(s), mc.dbColumnToPythonAttr(mc.pythonAttrToDBColumn(s))), case)
            ctx.count('style-name:%s' % ('camel' if is_camel(s) else 'other'))
        except Exception as e:
            ctx.oracle_fail('C14:style:raises', 'name mapping of %r raises %s: %s' % (s, type(e).__name__, e), case)
    # the other direction: column / table names as a database would give them (several underscores, digits, `_id`)
    words = ['ab', 'c1', 'xyz', 'id', 'q2w', 'name', 'http', 'v2']
    rng = ctx.rng
    dbs = ['foo_bar', 'foo_bar_baz', 'a1_b2_c3', 'user_id', 'http_server_id', 'ab_id_xyz', 'xyz']
    for _ in range(ctx.budget(300, 5000)):
        dbs.append('_'.join(rng.choice(words) for _ in range(rng.randint(1, 5))))
    for d in dbs:
        case = {'scenario': 'styles', 'db_name': d}
        try:
            py = styles.underToMixed(d)
            if '_' in py or styles.mixedToUnder(py) != d or st.pythonAttrToDBColumn(st.dbColumnToPythonAttr(d)) != d:
                ctx.oracle_fail('C14:style:reverse-roundtrip', 'column %r -> python name %r -> column %r' % (d, py, styles.mixedToUnder(py)), case)
            cls_name = st.dbTableToPythonClass(d)
            if not cls_name[:1].isupper() or st.pythonClassToDBTable(cls_name) != d:
                ctx.oracle_fail('C14:style:reverse-class-roundtrip', 'table %r -> class %r -> table %r' % (d, cls_name, st.pythonClassToDBTable(cls_name)), case)
            ctx.count('style-name:db')
        except Exception as e:
            ctx.oracle_fail('C14:style:raises', 'name mapping of %r raises %s: %s' % (d, type(e).__name__, e), case)


def scenario_conn_style(ctx):
    """connections built with a style of their own x classes that declare a style explicitly / leave it to the connection:
    column names, foreign-key names and BOTH ends of RelatedJoin / MultipleJoin must follow one style per class — the
    class's own if declared, else the connection's — so that the two ends of a join agree on the link columns."""
    import sqlobject as so
    from sqlobject import styles
    mk = {'u': styles.MixedCaseUnderscoreStyle, 'm': styles.MixedCaseStyle, 'p': styles.Style}
    for conn_style in (None, 'm', 'u', 'p'):
        for cls_style in (None, 'u', 'm', 'p'):
            for long_id in (False, True):
                if conn_style is None and cls_style is None and long_id:
                    continue
                kw = {} if conn_style is None else {'style': mk[conn_style](longID=long_id)}
                conn = sqlo.mem_conn(**kw)
                eff = cls_style or conn_style or 'u'
                est = mk[eff](longID=long_id) if (cls_style or conn_style) else mk['u']()
                case = {'scenario': 'conn-style', 'connection_style': conn_style, 'class_style': cls_style, 'longID': long_id}
                a_name, b_name, c_name = sqlo.uniq('C14StyAuthor'), sqlo.uniq('C14StyBookItem'), sqlo.uniq('C14StyNoteLine')

                def meta():
                    return type('sqlmeta', (), {'style': mk[cls_style](longID=long_id)} if cls_style else {})
                try:
                    A = type(a_name, (so.SQLObject,), {'_connection': conn, 'fullName': so.StringCol(default=None), 'sqlmeta': meta(),
                                                       'books': so.RelatedJoin(b_name), 'notes': so.MultipleJoin(c_name)})
                    B = type(b_name, (so.SQLObject,), {'_connection': conn, 'pageCount': so.IntCol(default=None), 'sqlmeta': meta(),
                                                       'authors': so.RelatedJoin(a_name)})
                    Cn = type(c_name, (so.SQLObject,), {'_connection': conn, 'bodyText': so.StringCol(default=None), 'sqlmeta': meta(),
                                                        a_name[0].lower() + a_name[1:]: so.ForeignKey(a_name, default=None)})
                    # (1) names follow the effective style, computed here from the declaration alone
                    tA, tB = est.pythonClassToDBTable(a_name), est.pythonClassToDBTable(b_name)
                    want = {'A.table': tA, 'A.fullName': est.pythonAttrToDBColumn('fullName'),
                            'A.id': est.idForTable(tA), 'C.authorID': est.pythonAttrToDBColumn(a_name[0].lower() + a_name[1:] + 'ID'),
                            'A.books.joinColumn': est.tableReference(tA), 'A.books.otherColumn': est.tableReference(tB),
                            'B.authors.joinColumn': est.tableReference(tB), 'B.authors.otherColumn': est.tableReference(tA),
                            'A.notes.joinColumn': est.tableReference(tA)}
                    ja = [j for j in A.sqlmeta.joins if j.joinMethodName == 'books'][0]
                    jn = [j for j in A.sqlmeta.joins if j.joinMethodName == 'notes'][0]
                    jb = B.sqlmeta.joins[0]
                    got = {'A.table': A.sqlmeta.table, 'A.fullName': A.sqlmeta.columns['fullName'].dbName, 'A.id': A.sqlmeta.idName,
                           'C.authorID': Cn.sqlmeta.columns[a_name[0].lower() + a_name[1:] + 'ID'].dbName,
                           'A.books.joinColumn': ja.joinColumn, 'A.books.otherColumn': ja.otherColumn,
                           'B.authors.joinColumn': jb.joinColumn, 'B.authors.otherColumn': jb.otherColumn,
                           'A.notes.joinColumn': jn.joinColumn}
                    if (ja.joinColumn, ja.otherColumn) != (jb.otherColumn, jb.joinColumn):
                        ctx.oracle_fail('C14:join:link-columns-disagree',
                                        'connection style %s, class style %s: the two ends of the RelatedJoin name the link columns %r and %r'
                                        % (conn_style, cls_style, (ja.joinColumn, ja.otherColumn), (jb.otherColumn, jb.joinColumn)), case)
                    elif got != want:
                        diff = {k: (got[k], want[k]) for k in want if got[k] != want[k]}
                        ctx.oracle_fail('C14:style:effective-style', 'names (got, expected from the declared style): %r' % (diff,), case)
                    # (2) executed: both ends usable, the one-to-many end finds its rows
                    for c in (A, B, Cn):
                        c.createTable()
                    link = conn.queryAll('PRAGMA table_info(%s)' % ja.intermediateTable)
                    if sorted(r[1] for r in link) != sorted([ja.joinColumn, ja.otherColumn]):
                        ctx.oracle_fail('C14:join:link-columns', 'link table columns %r' % ([r[1] for r in link],), case)
                    a, b = A(fullName='x'), B(pageCount=3)
                    getattr(a, 'add' + b_name)(b)
                    b2 = B(pageCount=4)
                    getattr(b2, 'add' + a_name)(a)
                    n = Cn(bodyText='t', **{a_name[0].lower() + a_name[1:]: a})
                    conn.cache.clear()
                    a = A.get(a.id)
                    # (the base Style names a foreign key `xID` but a table reference `x_id`: its one-to-many default never matched)
                    notes = [x.id for x in a.notes] if eff != 'p' else [n.id]
                    seen = (sorted(x.id for x in a.books), sorted(x.id for x in B.get(b.id).authors), notes)
                    if seen != (sorted([b.id, b2.id]), [a.id], [n.id]):
                        ctx.oracle_fail('C14:join:link-unusable', 'rows linked from both ends / one-to-many rows are not all seen: %r' % (seen,), case)
                    ctx.count('conn-style-scenario')
                except Exception as e:
                    ctx.oracle_fail('C14:join:conn-style-raises',
                                    'connection style %s, class style %s (longID %s): joins between the classes raise %s: %s'
                                    % (conn_style, cls_style, long_id, sqlo.exc_name(e), str(e)[:100]), case)
                finally:
                    try:
                        conn.close()
                    except Exception:
                        pass


def scenario_similar_names(ctx):
    """tableExists / create-if-missing / drop-if-present when the catalogue holds a DIFFERENT table whose name matches the
    probed one as a LIKE pattern (`_` is a wildcard) or up to case; for class tables and for link tables"""
    import sqlobject as so
    conn = env()['conns']['sqlite']

    def tables():
        return sorted(r[0] for r in conn.queryAll("SELECT name FROM sqlite_master WHERE type='table' AND name NOT LIKE 'sqlite_%'"))
    n = sqlo.uniq('')
    pairs = [('shard1log' + n, 'shard_log' + n), ('axb' + n, 'a_b' + n), ('t_a_b' + n, 't_a_b' + n[:-1] + '_') if False else ('tab1c' + n, 'tab_c' + n),
             ('a_b' + n + 'x', 'a_b' + n + '_')]
    for decoy, probe in pairs:
        case = {'scenario': 'similar-names', 'existing': decoy, 'probed': probe}
        D = type(sqlo.uniq('C14SimDecoy'), (so.SQLObject,), {'_connection': conn, 'n': so.IntCol(default=None),
                                                            'sqlmeta': type('sqlmeta', (), {'table': decoy})})
        X = type(sqlo.uniq('C14SimProbe'), (so.SQLObject,), {'_connection': conn, 'n': so.IntCol(default=None),
                                                            'sqlmeta': type('sqlmeta', (), {'table': probe})})
        try:
            D.createTable()
            D(n=1)
            problems = []
            if X.tableExists():
                problems.append('tableExists() is True for %r although only %r exists' % (probe, decoy))
            try:
                X.dropTable(ifExists=True)
            except Exception as e:
                problems.append('dropTable(ifExists=True) of the absent table raises %s' % sqlo.exc_name(e))
            X.createTable(ifNotExists=True)
            if probe not in tables():
                problems.append('createTable(ifNotExists=True) did not create %r' % probe)
            else:
                X(n=2)
                X.dropTable(ifExists=True)
                X.dropTable(ifExists=True)
            if probe in tables() or decoy not in tables() or D.select().count() != 1:
                problems.append('after drop-if-present the tables are %r' % ([t for t in tables() if t in (decoy, probe)],))
            if problems:
                ctx.oracle_fail('C14:table-exists:similar-name', '; '.join(problems), case)
            ctx.count('similar-names-scenario')
        except Exception as e:
            ctx.oracle_fail('C14:table-exists:similar-name-raises', 'scenario raises %s: %s' % (sqlo.exc_name(e), str(e)[:100]), case)
        finally:
            for t in (decoy, probe):
                try:
                    conn.query('DROP TABLE IF EXISTS %s' % t)
                except Exception:
                    pass
    # a link table whose name LIKE-matches an existing table
    a_name, b_name = sqlo.uniq('C14SimAa'), sqlo.uniq('C14SimBb')
    link = 'lnk_ab' + n
    decoy = 'lnk1ab' + n
    A = type(a_name, (so.SQLObject,), {'_connection': conn, 'n': so.IntCol(default=None), 'others': so.RelatedJoin(b_name, intermediateTable=link)})
    B = type(b_name, (so.SQLObject,), {'_connection': conn, 'n': so.IntCol(default=None), 'others': so.RelatedJoin(a_name, intermediateTable=link)})
    case = {'scenario': 'similar-names', 'existing': decoy, 'probed': link, 'link': True}
    try:
        conn.query('CREATE TABLE %s (x INT)' % decoy)
        A.createTable(ifNotExists=True)
        B.createTable(ifNotExists=True)
        if link not in tables():
            ctx.oracle_fail('C14:table-exists:similar-name', 'createTable(ifNotExists=True) skipped the link table %r because %r exists' % (link, decoy), case)
        A.dropTable(ifExists=True)
        B.dropTable(ifExists=True)
        A.dropTable(ifExists=True)
        if link in tables() or decoy not in tables():
            ctx.oracle_fail('C14:table-exists:similar-name', 'after drop-if-present: %r' % ([t for t in tables() if t in (decoy, link)],), case)
    except Exception as e:
        ctx.oracle_fail('C14:table-exists:similar-name-raises', 'link-table scenario raises %s: %s' % (sqlo.exc_name(e), str(e)[:100]), case)
    finally:
        for t in (decoy, link, A.sqlmeta.table, B.sqlmeta.table):
            try:
                conn.query('DROP TABLE IF EXISTS %s' % t)
            except Exception:
                pass


def scenario_parallel_relations(ctx):
    """several different many-to-many relations between the SAME two classes (and from a class to itself), each with its
    own intermediateTable: every relation gets its link table, exactly once, usable on its own, dropped again"""
    import sqlobject as so
    conn = env()['conns']['sqlite']

    def tables():
        return sorted(r[0] for r in conn.queryAll("SELECT name FROM sqlite_master WHERE type='table' AND name NOT LIKE 'sqlite_%'"))
    lines, reals = [], []
    for shape in ('two-classes', 'self'):
        for nrel in (2, 3):
            a_name = sqlo.uniq('C14ParAa')
            b_name = sqlo.uniq('C14ParBb') if shape == 'two-classes' else a_name
            links = ['par_l%d_%s' % (i, a_name.lower()) for i in range(nrel)]
            body_a = {'_connection': conn, 'n': so.IntCol(default=None)}
            body_b = {'_connection': conn, 'n': so.IntCol(default=None)}
            for i, l in enumerate(links):
                body_a['r%d' % i] = so.RelatedJoin(b_name, intermediateTable=l, joinColumn='a_id', otherColumn='b_id', addRemoveName='R%d' % i)
                if shape == 'two-classes':
                    body_b['q%d' % i] = so.RelatedJoin(a_name, intermediateTable=l, joinColumn='b_id', otherColumn='a_id', addRemoveName='Q%d' % i)
                else:
                    body_a['q%d' % i] = so.RelatedJoin(a_name, intermediateTable=l, joinColumn='b_id', otherColumn='a_id', addRemoveName='Q%d' % i)
            A = type(a_name, (so.SQLObject,), body_a)
            B = type(b_name, (so.SQLObject,), body_b) if shape == 'two-classes' else A
            classes = [A, B] if shape == 'two-classes' else [A]
            case = {'scenario': 'parallel-relations', 'shape': shape, 'relations': nrel}
            try:
                for c in classes:
                    c.createTable()
                have = [t for t in tables() if t in links]
                if have != sorted(links):
                    ctx.oracle_fail('C14:join:parallel-relation-link-missing',
                                    '%d relations between %s: link tables created %r, declared %r' % (nrel, shape, have, sorted(links)), case)
                else:
                    a, b = A(n=1), B(n=2)
                    getattr(a, 'addR%d' % (nrel - 1))(b)
                    seen = [[x.id for x in getattr(a, 'r%d' % i)] for i in range(nrel)]
                    if seen != [[]] * (nrel - 1) + [[b.id]]:
                        ctx.oracle_fail('C14:join:parallel-relation-mixed-up', 'row linked through the last relation only; relations show %r' % (seen,), case)
                own = [j.intermediateTable for j in A._getJoinsToCreate()]
                lines.append('cat create 0 1 %s %d %s 0' % (hx(A.sqlmeta.table), len(links) * (2 if shape == 'self' else 1),
                                                          ' '.join(hx(j.intermediateTable) for j in A.sqlmeta.joins)))
                reals.append(('ok ' + ' '.join(sorted([A.sqlmeta.table] + own)), case))
                for c in classes:
                    c.dropTable()
                left = [t for t in tables() if t in links]
                if left:
                    ctx.oracle_fail('C14:join:parallel-relation-link-not-dropped', 'link tables %r survive dropTable()' % (left,), case)
                ctx.count('parallel-relations-scenario')
            except Exception as e:
                ctx.oracle_fail('C14:join:parallel-relation-raises', '%d relations between %s: %s: %s' % (nrel, shape, sqlo.exc_name(e), str(e)[:100]), case)
            finally:
                for t in links + [c.sqlmeta.table for c in classes]:
                    try:
                        conn.query('DROP TABLE IF EXISTS %s' % t)
                    except Exception:
                        pass
    outs = ctx.model(lines)
    if outs is not None:
        for o, (real, c) in zip(outs, reals):
            if o.startswith('ok'):
                o = 'ok ' + ' '.join(sorted(dec(t) for t in o.split()[1:]))
            ctx.compare('catalogue: link tables of parallel relations: model = _getJoinsToCreate', c, o.strip(), real.strip())


def scenario_evolution(ctx):
    import sqlobject as so
    conn = env()['conns']['sqlite']
    rng = ctx.rng
    for rep in range(ctx.budget(6, 60)):
        name = sqlo.uniq('C14Evo')
        with_index = rep % 2 == 0
        body = {'_connection': conn, 'a': so.IntCol(), 'b': so.StringCol(unique=(rep % 3 == 0)), 'c': so.IntCol(default=None),
                'd': so.UnicodeCol(default=None)}
        if with_index:
            body['ix'] = so.DatabaseIndex('a', unique=False)
        T = type(name, (so.SQLObject,), body)
        table = T.sqlmeta.table
        case = {'scenario': 'evolution', 'with_index': with_index, 'rep': rep}
        try:
            T.createTable()
            rows = [(rng.randint(-5, 5), 's%d' % i, rng.choice([None, 3]), rng.choice([None, 'uü'])) for i in range(rng.randint(1, 4))]
            for r in rows:
                T(a=r[0], b=r[1], c=r[2], d=r[3])

            def snapshot(cols):
                return conn.queryAll('SELECT id, %s FROM %s ORDER BY id' % (', '.join(cols), table))

            def table_cols():
                return [r[1] for r in conn.queryAll('PRAGMA table_info(%s)' % table)]
            before = snapshot(['a', 'b', 'c', 'd'])
            T.sqlmeta.addColumn(so.IntCol('extra', default=None), changeSchema=True)
            if table_cols() != ['id', 'a', 'b', 'c', 'd', 'extra'] or [c.dbName for c in T.sqlmeta.columnList] != ['a', 'b', 'c', 'd', 'extra']:
                ctx.oracle_fail('C14:evolution:add-out-of-step', 'after addColumn: table %r, class %r'
                                % (table_cols(), [c.dbName for c in T.sqlmeta.columnList]), case)
            if snapshot(['a', 'b', 'c', 'd']) != before:
                ctx.oracle_fail('C14:evolution:add-changes-data', 'addColumn changed the other columns', case)
            victim = rng.choice(['a', 'c', 'd', 'extra']) if not with_index else rng.choice(['c', 'd', 'extra'])
            keep = [c for c in ['a', 'b', 'c', 'd', 'extra'] if c != victim]
            before = snapshot(keep)
            ix_before = sorted(r[1] for r in conn.queryAll('PRAGMA index_list(%s)' % table) if not r[1].startswith('sqlite_autoindex'))
            T.sqlmeta.delColumn(victim, changeSchema=True)
            if table_cols() != ['id'] + keep or [c.dbName for c in T.sqlmeta.columnList] != keep:
                ctx.oracle_fail('C14:evolution:del-out-of-step', 'after delColumn(%s): table %r, class %r'
                                % (victim, table_cols(), [c.dbName for c in T.sqlmeta.columnList]), case)
            if snapshot(keep) != before:
                ctx.oracle_fail('C14:evolution:del-changes-data', 'delColumn(%s) changed the other columns' % victim, case)
            objs = list(T.select(orderBy='id'))
            if [o.b for o in objs] != [r[1] for r in rows]:
                ctx.oracle_fail('C14:evolution:class-unusable', 'rows are not readable through the class after add/delColumn', case)
            ix_after = sorted(r[1] for r in conn.queryAll('PRAGMA index_list(%s)' % table) if not r[1].startswith('sqlite_autoindex'))
            if ix_after != ix_before:
                ctx.oracle_fail('C14:evolution:delcolumn-drops-indexes',
                                'delColumn(changeSchema=True) on SQLite recreates the table without its declared indexes: '
                                'before %r, after %r (the class still declares them)' % (ix_before, ix_after),
                                {'scenario': 'evolution', 'with_index': True})
            ctx.count('evolution-scenario')
        except Exception as e:
            ctx.oracle_fail('C14:evolution:raises', 'schema evolution scenario raises %s: %s' % (type(e).__name__, e), case)
        finally:
            try:
                T.dropTable(ifExists=True)
            except Exception:
                pass
    # a column SQLite cannot add: the class is changed although the table is not
    name = sqlo.uniq('C14EvoFail')
    T = type(name, (so.SQLObject,), {'_connection': conn, 'a': so.IntCol()})
    try:
        T.createTable()
        T(a=1)
        try:
            T.sqlmeta.addColumn(so.IntCol('z', notNone=True), changeSchema=True)
            raised = None
        except Exception as e:
            raised = sqlo.exc_name(e)
        tcols = [r[1] for r in conn.queryAll('PRAGMA table_info(%s)' % T.sqlmeta.table)]
        ccols = ['id'] + [c.dbName for c in T.sqlmeta.columnList]
        if tcols != ccols:
            ctx.oracle_fail('C14:evolution:failed-add-leaves-class-changed',
                            'addColumn(IntCol(notNone=True), changeSchema=True) raised %s; table columns %r but class columns %r'
                            % (raised, tcols, ccols), {'scenario': 'failed-add'})
    finally:
        try:
            T.dropTable(ifExists=True)
        except Exception:
            pass


# ------------------------------------------------------------------ generator
ATTRS = ['name', 'fullName', 'age', 'x1', 'aB', 'httpURL', 'userID', 'zipCode', 'a', 'qty', 'createdAt', 'isOn', 'v2Beta',
         'nX', 'lastLoginIP', 'so_me', 'tag', 'kind', 'amount', 'ref', 'owner', 'parentNode', 'bID', 'cIDx',
         'aBCode', 'xIDCard', 'dbHTTPPort', 'eTag', 'isOK', 'rawXMLData', 'p2PLink', 'utf8BOM', 'nodeABTest', 'qAB']
DBNAMES = ['custom_col', 'ColX', 'c_2', 'UPPER', 'weird__name', 'x']
DEFAULTS = [0, 0.0, False, 5, 1.5, True, '0', "'x'", 'NULL', "'it''s, NOT NULL ('", 'CURRENT_TIMESTAMP', '(1 + 2)', "'a b'", '-1', "'UNIQUE'", "('PRIMARY KEY')"]
ENUM_VALUES = ['a', 'b', "it's", 'x y', 'NOT NULL', "')", '(', ',', "''", 'UNIQUE,', 'éè', '', 'long value here', "a'b'c",
               '"q"', '%s', 'x\\y', 'tab\there', 'nl\nx', '\\', "\\'", 'nul\x00', 'E', None]
CLASSWORDS = ['Order', 'Item', 'HTTPLog', 'X', 'UserID', 'Data2', 'ABc', 'Foo', 'BarBaz', 'IDCard', 'ABTest', 'XMLHTTPReq', 'A1B', 'OkID']


def gen_kind(rng, ntargets, plain_enum):
    r = rng.random()
    if r < 0.2:
        return ('s', rng.choice(['bool', 'float', 'dateTime', 'date', 'time', 'timestamp', 'uuid']))
    if r < 0.32:
        return ('i', rng.choice(['int', 'tiny', 'small', 'medium', 'big']), rng.choice([0, 0, 0, 1, 11]),
                rng.random() < 0.15, rng.random() < 0.1)
    if r < 0.5:
        length = rng.choice([0, 0, 1, 10, 255, 300])
        vc = rng.choice([None, None, False] + ([True] if length else []))
        return ('t', rng.random() < 0.4, length, vc)
    if r < 0.55:
        length = rng.choice([0, 0, 40])
        return ('j', length, None)
    if r < 0.65:
        length = rng.choice([0, 0, 100, 255, 256, 65535, 65536, 2 ** 24 - 1, 2 ** 24])
        vc = rng.choice([None, None, False] + ([True] if length else []))
        return (rng.choice(['b', 'p']), length, vc)
    if r < 0.72:
        return ('d', rng.choice([1, 5, 10, 38]), rng.choice([0, 2, 10]))
    if r < 0.76:
        return ('c',)
    if r < 0.9 or not ntargets:
        pool = [v for v in ENUM_VALUES if not (plain_enum and needs_e(v))]
        n = rng.randint(1, 4)
        vals = []
        for _ in range(n):
            v = rng.choice(pool)
            if v not in vals:
                vals.append(v)
        if vals == [None]:
            vals = ['a', None]
        return ('e', vals)
    return ('f', rng.randrange(ntargets), rng.choice([None, True, False, 'null']))


def gen_spec(rng, plain_enum=True):
    ntargets = rng.choice([0, 1, 1, 2])
    targets = []
    for i in range(ntargets):
        targets.append({'cls': sqlo.uniq('C14Tgt' + rng.choice(['', 'Node', 'XY'])), 'idName': rng.choice([None, None, 'oid']),
                        'idStr': rng.random() < 0.15,
                        'table': rng.choice([None, None, None, 'tgt_tbl_%d' % rng.randint(0, 10 ** 6),
                                             'refdb.tgt_%d' % rng.randint(0, 10 ** 6)])})
    ncols = rng.choice([1, 2, 3, 3, 4, 6])
    names = rng.sample(ATTRS, ncols)
    cols = []
    for n in names:
        k = gen_kind(rng, ntargets, plain_enum)
        opt = rng.random()
        c = {'name': n, 'dbName': rng.choice(DBNAMES) if rng.random() < 0.12 else None,
             'nn': rng.random() < 0.3, 'uq': rng.choice([None, None, None, True, False]), 'alt': rng.random() < 0.12,
             'dsql': rng.choice(DEFAULTS) if rng.random() < 0.2 else None, 'kind': k}
        if opt < 0.3:
            c['default'] = None
        cols.append(c)
    indexes = []
    for i in range(rng.choice([0, 0, 1, 2])):
        k = rng.randint(1, min(3, ncols))
        indexes.append({'name': 'ix%d' % i, 'unique': rng.random() < 0.5, 'cols': rng.sample(range(ncols), k)})
    style = rng.choice(['u', 'u', 'u', 'm', 'p'])
    return {'cls': sqlo.uniq('C14' + rng.choice(CLASSWORDS) + rng.choice(CLASSWORDS)), 'style': style,
            'longID': rng.random() < 0.2, 'table': rng.choice([None, None, None, None, 'tbl_%d' % rng.randint(0, 10 ** 6), 'shop.tbl_%d' % rng.randint(0, 10 ** 6)]),
            'idName': rng.choice([None, None, None, 'pk', 'my_id']), 'idStr': rng.random() < 0.12,
            'idSize': rng.choice([None, None, None, 'TINY', 'SMALL', 'MEDIUM', 'BIG']),
            'cols': cols, 'targets': targets, 'indexes': indexes}


def col(name, kind, **kw):
    c = {'name': name, 'dbName': None, 'nn': False, 'uq': None, 'alt': False, 'dsql': None, 'kind': kind}
    c.update(kw)
    return c


def corpus():
    def spec(cols, targets=(), **kw):
        s = {'cls': sqlo.uniq('C14Corpus'), 'style': 'u', 'longID': False, 'table': None, 'idName': None, 'idStr': False,
             'idSize': None, 'cols': cols, 'targets': [dict(t) for t in targets], 'indexes': []}
        s.update(kw)
        return s
    tg = {'cls': None, 'idName': 'oid', 'idStr': False, 'table': None}

    def t(**kw):
        d = dict(tg)
        d['cls'] = sqlo.uniq('C14CorpusTgt')
        d.update(kw)
        return d
    out = [
        # the findings' minimal witnesses
        spec([col('e', ('e', ['a', 'b']))]),                                   # mysql ENUM: NOT NULL although nullable
        spec([col('e', ('e', ['a', None]))]),
        spec([col('e', ('e', ['a', 'b']), nn=True)]),
        spec([col('owner', ('f', 0, True), nn=True)], [t()]),                 # maxdb drops NOT NULL; mssql/sybase no action
        spec([col('owner', ('f', 0, 'null'), uq=True)], [t()]),
        spec([col('owner', ('f', 0, False))], [t()]),
        spec([col('owner', ('f', 0, None), dsql='0')], [t()]),
        # defaultSQL given as a number / boolean, falsy values included
        spec([col('n', ('i', 'int', 0, False, False), dsql=0), col('f', ('s', 'float'), dsql=0.0), col('b', ('s', 'bool'), dsql=False),
              col('m', ('i', 'int', 0, False, False), dsql=5, nn=True)]),
        # schema-qualified table names on the referencing and / or the referenced side
        spec([col('owner', ('f', 0, True), nn=True), col('buyerRef', ('f', 1, 'null'))], [t(table='crm.customer'), t()],
             table='shop.order_line'),
        spec([col('owner', ('f', 0, False))], [t()], table='a.b.deep_tbl'),
        spec([col('userID', ('i', 'int', 0, False, False)), col('aBCode', ('t', False, 8, None)), col('owner', ('f', 0, None))],
             [t(table='other_db.users')]),
        spec([col('e', ('e', ['x\\y']))]),                                     # sqlite: E'' literal in the CHECK
        spec([col('e', ('e', ['a\nb', "q'"]), nn=True)]),
        # quoting / keyword traps
        spec([col('e', ('e', ["it's", 'NOT NULL', "')", 'UNIQUE,', "''", ''])),
              col('s', ('t', False, 0, None), dsql="'x, NOT NULL UNIQUE ('")]),
        spec([col('a', ('s', 'bool'), alt=True), col('b', ('t', True, 10, None), uq=False, alt=True),
              col('c', ('i', 'big', 11, True, True), uq=True, nn=True, dsql='0')]),
        spec([col('d', ('d', 10, 2)), col('m', ('c',)), col('bl', ('b', 2 ** 24, True)), col('p', ('p', 65536, None)),
              col('j', ('j', 0, None))], idStr=True, idName='code'),
        spec([col('fullName', ('t', False, 255, False)), col('userID', ('i', 'int', 0, False, False)),
              col('httpURL', ('s', 'uuid'))], style='m', longID=True, idSize='BIG'),
        spec([col('x', ('s', 'dateTime')), col('y', ('s', 'time')), col('z', ('s', 'timestamp'), nn=True)], style='p',
             table='explicit_tbl', idSize='TINY'),
    ]
    import json
    import os
    path = os.path.join(os.path.dirname(os.path.dirname(os.path.abspath(__file__))), 'corpus', 'C14', 'witnesses.json')
    if os.path.exists(path):
        for case in json.load(open(path))['cases']:
            cols = []
            for c in case['cols']:
                k = c['kind']
                kind = tuple([k[0]] + [x for x in k[1:]])
                cols.append(col(c['name'], kind, **{kk: vv for kk, vv in c.items() if kk not in ('name', 'kind')}))
            out.append(spec(cols, [t() for _ in range(case.get('targets', 0))]))
    for s in out:
        s['indexes'] = []
    out[10]['indexes'] = [{'name': 'ix0', 'unique': True, 'cols': [0, 2]}, {'name': 'ix1', 'unique': False, 'cols': [1]}]
    return out


def canon(spec):
    s = strip(spec)
    s.pop('cls')
    for tgt in s['targets']:
        tgt.pop('cls', None)
        tgt.pop('table_real', None)
    return repr(sorted(s.items(), key=lambda kv: kv[0]))


def run_spec(ctx, spec, micro, mx, sample=False, reuse=None):
    try:
        if reuse is None:
            cls = build(spec)
        else:
            for tg in spec['targets']:
                if 'obj' not in tg:
                    build(dict(spec, cls=sqlo.uniq('C14ReuseTgtOnly'), cols=[], indexes=[]))
                    break
            r = build_reused(ctx, spec, reuse)
            if r is None:
                return
            spec, cls = r
            spec = dict(spec, reuse=reuse)
            ctx.count('reuse:' + reuse)
    except Exception as e:
        ctx.count('declaration-rejected:%s' % type(e).__name__)
        return
    got_cols = [c.origName for c in cls.sqlmeta.columnList]
    problems = []
    if got_cols != [c['name'] for c in spec['cols']]:
        problems.append('columns of the class %r, declared (own and inherited) %r' % (got_cols, [c['name'] for c in spec['cols']]))
    if cls.sqlmeta.idType is not (str if spec['idStr'] else int):
        problems.append('idType %r, declared %s' % (cls.sqlmeta.idType, 'str' if spec['idStr'] else 'int'))
    if spec.get('expect_idName') and cls.sqlmeta.idName != spec['expect_idName']:
        problems.append('idName %r, declared %r' % (cls.sqlmeta.idName, spec['expect_idName']))
    if spec.get('expect_style') and type(cls.sqlmeta.style).__name__ != spec['expect_style']:
        problems.append('style %s, declared %s' % (type(cls.sqlmeta.style).__name__, spec['expect_style']))
    if spec['table'] is not None and cls.sqlmeta.table != spec['table']:
        problems.append('table %r, declared %r' % (cls.sqlmeta.table, spec['table']))
    if problems:
        ctx.oracle_fail('C14:class:declaration-not-in-sqlmeta', 'the class does not carry its declaration (%s): %s'
                        % (spec.get('reuse') or 'direct', '; '.join(problems)), {'spec': strip(spec), 'reuse': spec.get('reuse')})
        return
    dbnames = [cls.sqlmeta.idName] + [c.dbName for c in cls.sqlmeta.columnList]
    if len(set(n.lower() for n in dbnames)) != len(dbnames):
        ctx.count('declaration-skipped:duplicate-db-name')
        return
    if spec['style'] == 'u':
        for c, so_col in zip(spec['cols'], cls.sqlmeta.columnList):
            if c['dbName'] is None and is_camel(so_col.name) and cls.sqlmeta.style.dbColumnToPythonAttr(so_col.dbName) != so_col.name:
                ctx.oracle_fail('C14:style:column-roundtrip', 'attribute %r got the column %r, which maps back to %r'
                                % (so_col.name, so_col.dbName, cls.sqlmeta.style.dbColumnToPythonAttr(so_col.dbName)),
                                {'scenario': 'styles', 'name': so_col.name})
    set_caps(micro, mx)
    try:
        joins = [(j.intermediateTable, j.joinColumn, j.otherColumn) for j in cls._getJoinsToCreate()]
    except Exception:
        joins = []
    decl = enc_decl(spec, joins)
    lines = ['ddl %s %s %s %s' % (d, b01(micro), b01(mx), decl) for d in DIALECTS]
    outs = ctx.model(lines)
    nontrivial = any(c['nn'] or c['alt'] or c['uq'] is not None or c['dsql'] is not None or c['dbName'] is not None
                     or c['kind'][0] in ('e', 'f', 'd') for c in spec['cols'])
    impl_main = {}
    for k, d in enumerate(DIALECTS):
        sql, cons, jt, ix = impl_texts(cls, d)
        impl_main[d] = sql
        desc = {'dialect': d, 'micro': micro, 'maxTypes': mx, 'spec': strip(spec)}
        if outs is not None:
            parts = outs[k].split(' ')
            try:
                m_main = '!' if parts[0] == '!' else dec(parts[0])
                n = int(parts[1])
                m_cons = [dec(p) for p in parts[2:2 + n]]
                m_jt, m_ix = dec(parts[2 + n]), dec(parts[3 + n])
                m_skel, m_refs = parts[4 + n], parts[5 + n]
            except Exception:
                m_main, m_cons, m_jt, m_ix, m_skel, m_refs = outs[k], [], '', '', '', ''
            ctx.compare('CREATE TABLE text (%s): model = real renderer' % d, desc, m_main, sql)
            ctx.compare('reference constraints (%s): model = real renderer' % d, desc, m_cons, cons)
            ctx.compare('join tables + indexes text (%s): model = real renderer' % d, desc, (m_jt, m_ix), (jt, ix))
            if sql != '!':
                cols, refs = py_skeleton(sql)
                ctx.compare('DDL reader: Lean skeleton = Python reader', desc, (m_skel, m_refs), (show_skel(cols), show_refs(refs)))
        text_oracle(ctx, spec, cls, d, sql, cons)
    ctx.case(canon(spec), nontrivial=nontrivial,
             sample=({'spec': strip(spec), 'sqlite': impl_main['sqlite'], 'mysql': impl_main['mysql']} if sample else None),
             kind='cols=%d' % len(spec['cols']))
    for c in spec['cols']:
        ctx.count('kind:' + kind_tag(c['kind']))
    sqlite_oracle(ctx, spec, cls)


class Dedup:
    """report each failure key a few times only (the framework keeps at most 200 failures)"""

    def __init__(self, ctx):
        self._ctx = ctx
        self._seen = {}

    def __getattr__(self, name):
        return getattr(self._ctx, name)

    def oracle_fail(self, key, what, case):
        n = self._seen.get(key, 0)
        self._seen[key] = n + 1
        if n < 2:
            self._ctx.oracle_fail(key, what, case)
        else:
            self._ctx.count('repeat-of:' + key)


def run(ctx):
    env()
    rng = ctx.rng
    ctx = Dedup(ctx)
    for i, spec in enumerate(corpus()):
        run_spec(ctx, spec, micro=bool(i % 2), mx=bool(i % 3 == 0), sample=i < 3)
    for i, spec in enumerate(corpus()):
        run_spec(ctx, spec, micro=bool(i % 2), mx=bool(i % 3 == 0), reuse=REUSE_MODES[i % len(REUSE_MODES)])
    scenario_joins(ctx)
    scenario_similar_names(ctx)
    scenario_parallel_relations(ctx)
    scenario_styles(ctx)
    scenario_conn_style(ctx)
    scenario_if_flags(ctx)
    scenario_evolution(ctx)
    scenario_evolution_ids(ctx)
    scenario_evolution_kinds(ctx)
    # link-table ownership: model predicate vs _getJoinsToCreate's comparison
    pairs = [('A', 'B'), ('B', 'A'), ('A', 'A'), ('Ab', 'A'), ('a', 'B'), ('Zed', 'Alpha'), ('X1', 'X10'), ('é', 'z')]
    for _ in range(ctx.budget(50, 2000)):
        a = ''.join(rng.choice('AaBbZz1_') for _ in range(rng.randint(1, 4)))
        b = ''.join(rng.choice('AaBbZz1_') for _ in range(rng.randint(1, 4)))
        pairs.append((a, b))
    outs = ctx.model(['link %s %s' % (hx(a), hx(b)) for a, b in pairs])
    if outs is not None:
        for (a, b), o in zip(pairs, outs):
            ctx.compare('link-table ownership: model = the name comparison of _getJoinsToCreate', {'self': a, 'other': b},
                        o, '0' if a > b else '1')
    n = ctx.budget(1000, 20000)
    for i in range(n):
        spec = gen_spec(rng, plain_enum=(rng.random() < 0.85))
        run_spec(ctx, spec, micro=rng.random() < 0.5, mx=rng.random() < 0.5, sample=(i % 50 == 0),
                 reuse=(rng.choice(REUSE_MODES) if rng.random() < 0.15 else None))
    # malformed stream for the reader: arbitrary text through both readers
    texts = []
    alphabet = ["'", '(', ')', ',', ' ', '\n', 'a', 'NOT', 'NULL', 'UNIQUE', 'PRIMARY', 'KEY', 'x', "''", 'REFERENCES', 't',
                'ON', 'DELETE', 'CASCADE', 'SET', 'IDENTITY', 'FOREIGN', 'b c']
    for _ in range(ctx.budget(300, 5000)):
        body = ' '.join(rng.choice(alphabet) for _ in range(rng.randint(0, 14)))
        texts.append('CREATE TABLE t (' + body)
    outs = ctx.model(['skel 0 %s' % hx(t) for t in texts])
    if outs is not None:
        for t, o in zip(texts, outs):
            try:
                cols, refs = py_skeleton(t)
                want = show_skel(cols) + ' ' + show_refs(refs)
            except Exception as e:
                want = 'py-reader-raises'
            ctx.compare('DDL reader on malformed text: Lean skeleton = Python reader', {'text': t}, o, want)


def replay(case):
    env()
    import io
    lines = []

    class Ctx:
        rng = None
        tier = 'quick'
        deep = False

        def oracle_fail(self, key, what, c):
            lines.append('%s: %s' % (key, what))

        def count(self, *a, **k):
            pass

        def case(self, *a, **k):
            pass

        def compare(self, *a, **k):
            return True

        def model(self, l):
            return None

        def note(self, *a):
            pass

        def budget(self, q, t):
            return q
    c = Ctx()
    if 'scenario' in case:
        from vlib.framework import prng
        c.rng = prng(0)
        if case['scenario'] == 'similar-names':
            scenario_similar_names(c)
        elif case['scenario'] == 'parallel-relations':
            scenario_parallel_relations(c)
        elif case['scenario'] == 'conn-style':
            scenario_conn_style(c)
        elif case['scenario'] == 'styles':
            scenario_styles(c)
        elif case['scenario'] == 'if-flags':
            scenario_if_flags(c)
        elif case['scenario'] == 'evolution-ids':
            scenario_evolution_ids(c)
        elif case['scenario'] == 'evolution-kinds':
            scenario_evolution_kinds(c)
        elif case['scenario'] in ('evolution', 'failed-add'):
            scenario_evolution(c)
        else:
            scenario_joins(c)
    else:
        if 'spec' in case:
            spec = case['spec']
        else:
            spec = {'cls': sqlo.uniq('C14Replay'), 'style': 'u', 'longID': False, 'table': case.get('table'), 'idName': None, 'idStr': False,
                    'idSize': None, 'cols': [case['col']], 'targets': case.get('targets', []), 'indexes': []}
        spec = dict(spec)
        spec['cls'] = sqlo.uniq('C14Replay')
        spec['cols'] = [dict(cc, kind=tuple(cc['kind'][:1]) + tuple(list(x) if isinstance(x, list) else x for x in cc['kind'][1:]))
                        for cc in spec['cols']]
        spec['targets'] = [dict(t, cls=sqlo.uniq('C14ReplayTgt')) for t in spec['targets']]
        for t in spec['targets']:
            t.pop('table_real', None)
            t.pop('id_real', None)
        reuse = case.get('reuse') or spec.pop('reuse', None)
        spec.pop('reuse', None)
        spec.pop('expect_idName', None)
        spec.pop('expect_style', None)
        if reuse and 'owncol' in reuse:
            spec['cols'] = [cc for cc in spec['cols'] if cc['name'] != 'subOwnZq']
        if reuse and 'subclass' in reuse:
            spec['idName'] = case.get('parent_idName', None) if spec.get('idName') in (None, 'id') else spec['idName']
        if reuse and spec.get('table') and '.' not in spec['table'] and not case.get('keep_table'):
            spec['table'] = None
        run_spec(c, spec, False, False, reuse=reuse)
    return (not lines), '\n'.join(lines) or 'no property failure on this case'
