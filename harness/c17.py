"""C17 — startswith / endswith / contains match their argument literally.

correspondence: Lean `likeClause` = the text `sqlrepr(STARTSWITH/ENDSWITH/CONTAINSSTRING(col, arg), d)` produces
(7 dialects); Lean decoded pattern = python transcription of the reference lexers; Lean reference LIKE matcher
(ASCII case folding) on the decoded pattern = the rows the real SQLite selects for the real rendered clause.
oracle (no model): sqlite — rows actually selected through `Class.select(Class.q.col.startswith(arg))` vs Python
`str.startswith/endswith/in` modulo ASCII case; other dialects — rendered clause decoded with the dialect's lexical
rules, pattern run through a reference LIKE matcher (python transcription) vs the Python predicates.
"""
import itertools
import sqlite3

from vlib import sqlo
from harness import c02

PROP = 'C17'
META = {
    'extractors': ['lex', 'pylex'],
    'technique': 'Lean 4 proof (two-level escaping per character, induction over argument and row) over the extracted _quote_like_special chain + reference lexers + reference LIKE matcher + differential correspondence + TRANSLATOR tie (pylex.py: _quote_like_special, _LikeQuoted, LIKE, STARTSWITH/ENDSWITH/CONTAINSSTRING translated into the PyLex deep embedding on every run and proved equal to the hand model, C17_translated_*)',
    'level_text': ('Theorems C17_*: for every dialect, every argument a and every stored string s, the pattern literal rendered by '
                   'startswith/endswith/contains (extracted replace chain, escape choice, wrappers), decoded by the dialect\'s reference '
                   'lexer and run through the reference LIKE matcher with the decoded ESCAPE character, matches s iff s starts with / ends '
                   'with / contains a literally — for ANY character equivalence of the engine (SQLite: ASCII case folding). Proved for '
                   'sqlite, firebird, sybase, maxdb, mssql (NUL-free arguments) and for mysql/postgres arguments without NUL BS LF CR TAB; '
                   'counter-theorem with witness for those five characters on mysql/postgres.'),
    'level_note': ('Trusted: Lean kernel; extractor; reference lexers (see C02); the reference LIKE matcher (standard SQL: % _ ESCAPE), '
                   'cross-checked against the real SQLite on every case; T-SQL bracket classes ([...]) of mssql/sybase are NOT modelled.'),
    'rule': ('cases = (dialect, op, argument, stored strings); exhaustive arguments of length <= 2 (thorough: 3) over the alphabet '
             '% _ \\ \' " a b B, each against every stored string of length <= 2 (thorough: 3) on the real SQLite, plus seeded random '
             'arguments over a wider alphabet incl. control characters and unicode; distinct = distinct (dialect, op, argument); '
             'non-trivial = the argument contains a LIKE/SQL metacharacter'),
    'trusted': ['reference LIKE matcher likeMatch (Model/Like.lean): % _ ESCAPE, parametric in the character equivalence',
                'reference string lexers (Model/Lex.lean), python transcriptions in harness/c02.py'],
    'modelled': ['SQLite LIKE / ESCAPE / ASCII case folding (executed, not verified)',
                 'mysql / postgres / firebird / sybase / maxdb / mssql LIKE: standard semantics assumed, no server here'],
    'assumptions': ['TRANSLATED source (Extracted/PyLex.lean, Model/PyLex.lean, Model/LexX.lean): _quote_like_special, _LikeQuoted.__init__/__add__/__radd__/__sqlrepr__, '
                    'LIKE.__init__/__sqlrepr__, STARTSWITH/ENDSWITH/CONTAINSSTRING, the generic SQLExpression.startswith/endswith/contains and the column SQLObjectField.startswith/endswith/contains helpers (self._from_python is an interface call), unquote_str, quote_str, StringLikeConverter and sqlrepr are translated from the AST on '
                    'every run and proved equal to the hand model (C17_translated_*); assumed interface: str.upper is a per-character mapping with the facts UpperOK '
                    '(stream upper-table checks them on all code points), the exact-class converter registry (extracted registerConverter table), which classes have '
                    '__sqlrepr__, isinstance through the extracted bases/aliases; the CPython semantics of str.replace / % / slicing / join are built into the embedding '
                    'and cross-checked only through the text-equality streams (real code vs hand model)',
                    'mssql / sybase: the argument contains no "[" (T-SQL LIKE treats [..] as a character class; _quote_like_special does not escape it — suspected defect outside the reference matcher)',
                    'the LIKE comparison uses one character equivalence for pattern and data; collation-specific expansions are not modelled'],
    'exhaustive': False,
}

DIALECTS = c02.DIALECTS
OPS = ['startswith', 'endswith', 'contains']
ALPHA = ['%', '_', '\\', "'", '"', 'a', 'b', 'B']
KEY_CTRL = 'C17:mysql+postgres:argument-control-char-sql-escape-doubled-by-like-pass'
CTRL = '\x00\x08\n\r\t'
enc, dec = c02.enc, c02.dec


def fold(s):
    return ''.join(chr(ord(c) + 32) if 'A' <= c <= 'Z' else c for c in s)


def py_pred(op, a, s, ci):
    if ci:
        a, s = fold(a), fold(s)
    return s.startswith(a) if op == 'startswith' else s.endswith(a) if op == 'endswith' else a in s


def ref_like(pat, esc, s, ci):
    """reference LIKE matcher (python transcription of Model/Like.lean likeMatch)"""
    if ci:
        eq = lambda x, y: fold(x) == fold(y)
    else:
        eq = lambda x, y: x == y
    memo = {}

    def go(i, j):
        k = (i, j)
        if k in memo:
            return memo[k]
        if i == len(pat):
            r = j == len(s)
        else:
            p = pat[i]
            if p == esc:
                r = i + 1 < len(pat) and j < len(s) and eq(pat[i + 1], s[j]) and go(i + 2, j + 1)
            elif p == '%':
                r = any(go(i + 1, k2) for k2 in range(j, len(s) + 1))
            elif p == '_':
                r = j < len(s) and go(i + 1, j + 1)
            else:
                r = j < len(s) and eq(p, s[j]) and go(i + 1, j + 1)
        memo[k] = r
        return r
    return go(0, 0)


_env = {}


def env():
    if _env:
        return _env
    sqlo.setup()
    from sqlobject import SQLObject, StringCol
    from sqlobject import sqlbuilder
    conn = sqlo.mem_conn()
    cls = type(sqlo.uniq('C17T'), (SQLObject,), {'_connection': conn, 'c': StringCol()})
    cls.createTable()
    rows = ['']
    deep = 3
    for n in range(1, deep + 1):
        rows += [''.join(t) for t in itertools.product(ALPHA, repeat=n)]
    rows += ['{', '}', '{{', '}}', '{name}', '{{name}}', 'x{', 'x{{', '{0}', '{escape}', 'a{b}c', '\\', '{}', '{"a": 1}']
    rows += ['n', 'N', 'an', 'a\nb', '\n', 'a\tb', 't', 'r', '0', 'é', 'É', 'aé%', 'x[a]', '[', 'ab%_\\', '\U0001f600a', 'A_%']
    ids = {}
    for r in rows:
        ids[cls(c=r).id] = r
    _env.update(conn=conn, cls=cls, rows=rows, ids=ids, sb=sqlbuilder)
    return _env


def build(op, col, a):
    return getattr(col, op)(a)


def impl_clause(op, a, d):
    sb = env()['sb']
    f = {'startswith': sb.STARTSWITH, 'endswith': sb.ENDSWITH, 'contains': sb.CONTAINSSTRING}[op]
    try:
        return sb.sqlrepr(f(sb.SQLConstant('t.c'), a), d)
    except Exception as e:
        return 'error:%s' % type(e).__name__


def shared_clauses(op, a, n):
    """ONE expression object rendered for every dialect, in an order that depends on n, twice"""
    sb = env()['sb']
    f = {'startswith': sb.STARTSWITH, 'endswith': sb.ENDSWITH, 'contains': sb.CONTAINSSTRING}[op]
    obj = f(sb.SQLConstant('t.c'), a)
    order = DIALECTS[n % 7:] + DIALECTS[:n % 7]
    if (n // 7) % 2:
        order.reverse()
    out, unstable = {}, None
    for d in order + order:
        try:
            t = sb.sqlrepr(obj, d)
        except Exception as e:
            t = 'error:%s' % type(e).__name__
        if d in out and out[d] != t and unstable is None:
            unstable = (d, out[d], t)
        out.setdefault(d, t)
    return out, order, unstable


def decode_clause(d, clause):
    """(pattern, escape) decoded from `(t.c LIKE (<lit>) ESCAPE <lit>)` with the dialect's rules, or None"""
    ts = c02.ref_tokens(d, clause)
    if ts is None or len(ts) != 9:
        return None
    shape = [t if t[0] != 'S' else ('S',) for t in ts]
    if shape != [('P', '('), ('W', 't.c'), ('W', 'LIKE'), ('P', '('), ('S',), ('P', ')'), ('W', 'ESCAPE'), ('S',), ('P', ')')]:
        return None
    return ts[4][1], ts[7][1]


def sqlite_rows(op, a, first=None):
    """rows the real SQLite returns for the real select; the SAME expression object is rendered for the
    dialect `first` before (logging, a second backend): rendering must not leave state behind"""
    e = env()
    cls = e['cls']
    try:
        expr = build(op, cls.q.c, a)
        if first:
            e['sb'].sqlrepr(expr, first)
        return set(o.c for o in cls.select(expr)), None
    except (sqlite3.Error, ValueError) as ex:
        return None, type(ex).__name__
    except Exception as ex:
        return None, sqlo.exc_name(ex)


def minimise_case(d, op, a, row):
    """greedy joint deletion of characters of the argument and of the row keeping the disagreement"""
    def failing(x, r):
        dc = decode_clause(d, impl_clause(op, x, d))
        if dc is None or len(dc[1]) != 1:
            return False
        return ref_like(dc[0], dc[1], r, False) != py_pred(op, x, r, False)
    changed = True
    while changed:
        changed = False
        cands = [(a[:i] + a[i + 1:], row) for i in range(len(a))] + [(a, row[:j] + row[j + 1:]) for j in range(len(row))] \
            + [(a[:i] + a[i + 1:], row[:j] + row[j + 1:]) for i in range(len(a)) for j in range(len(row))]
        for x, r in cands:
            if failing(x, r):
                a, row = x, r
                changed = True
                break
    return a, row


def report(ctx, d, op, a, row, got, want, how):
    m, mrow = minimise_case(d, op, a, row) if d != 'sqlite' else (a, row)
    if d in ('mysql', 'postgres') and len(m) == 1 and m in CTRL:
        key = KEY_CTRL
        what = ("%s: %s(%r): the SQL escape of the control character is doubled by _quote_like_special, the server decodes "
                "backslash + letter and LIKE ... ESCAPE '\\' then matches the letter: row %r %s but should %s"
                % (d, op, m, row, 'matches' if got else 'does not match', 'match' if want else 'not match'))
    else:
        key = 'C17:%s:%s:arg=%s:row=%s' % (d, op, enc(m), enc(mrow))
        what = '%s: %s(%r) %s row %r, literally it should %s (%s)' % (
            d, op, a, 'selects' if got else 'does not select', row, 'be selected' if want else 'not be selected', how)
    ctx.oracle_fail(key, what, {'dialect': d, 'op': op, 'arg': enc(a), 'minimal': enc(m), 'row': enc(row), 'minimal_row': enc(mrow)})


def gen_args(ctx):
    rng = ctx.rng
    args = ['{', '}', '{{', '}}', '{}', '{0}', '{escape}', '{{name}}', '{"a": 1', 'x{{', '{{x', 'a{b}c', '%(x)s', '%s', '$1', '?',
            '', '%', '_', '\\', "'", '"', '\\%', '%%', "a'b", 'a\\', '\\\\', 'A', 'b', '\n', 'a\n', '\t', '\r', '\x08', '\x00',
            'é', '[a]', "E'", 'ab%_\\', '\U0001f600']
    try:
        import os
        cdir = os.path.join(os.path.dirname(os.path.dirname(os.path.abspath(__file__))), 'corpus', 'C17')
        for f in sorted(os.listdir(cdir)):
            for line in open(os.path.join(cdir, f), encoding='utf-8'):
                line = line.split('#')[0].strip()
                if line:
                    args.append(dec(line))
    except OSError:
        pass
    maxlen = 3 if (ctx.tier == 'thorough' or ctx.deep) else 2
    for n in range(1, maxlen + 1):
        args += [''.join(t) for t in itertools.product(ALPHA, repeat=n)]
    wide = ALPHA + ['\n', '\t', '\r', '\x08', '\x00', 'n', 't', '0', 'é', '[', ']', 'E', ' ', '\U0001f600', '-', ';', '{', '}', '{', '}']
    for _ in range(ctx.budget(1200, 36000)):
        n = rng.choice([1, 2, 3, 3, 4, 6])
        args.append(''.join(rng.choice(ALPHA if rng.random() < 0.5 else wide) for _ in range(n)))
    return args


def upper_table(ctx):
    """the facts about `str.upper` the translated `unquote_str` proof assumes (LexX.UpperOK), on ALL code points, and
    that upper() maps character by character (corpus of context-sensitive candidates + seeded random pairs)"""
    bad = []
    if 'E'.upper() != 'E' or 'e'.upper() != 'E' or "'".upper() != "'":
        bad.append('E/e/quote')
    for c in range(0x110000):
        u = chr(c).upper()
        if not u:
            bad.append('empty:%x' % c)
        elif u[0] == 'E' and c not in (69, 101):
            bad.append('E:%x' % c)
        elif u[0] == "'" and c != 39:
            bad.append('quote:%x' % c)
    specials = ['\u03c3', '\u03c2', '\u00df', '\ufb01', 'i', '\u0307', '\u01f0', '\u0149', "'", 'e', 'E', '\u0345', '\u1e9e']
    pairs = [(a, b) for a in specials for b in specials]
    for _ in range(400):
        pairs.append((chr(ctx.rng.randrange(0x110000)), chr(ctx.rng.randrange(0x110000))))
    for a, b in pairs:
        if (a + b).upper() != a.upper() + b.upper():
            bad.append('context:%x+%x' % (ord(a), ord(b)))
    ctx.compare('upper-table', {'check': 'UpperOK + per-character'}, 'ok', 'ok' if not bad else ','.join(bad[:8]))


def run(ctx):
    e = env()
    rows = e['rows']
    rowset = set(rows)
    args = gen_args(ctx)
    upper_table(ctx)
    # rows sent to the model matcher: all of them for sqlite (compared with the engine), a rotating sample elsewhere
    lines = []
    plan = []
    for i, a in enumerate(args):
        for op in OPS:
            for d in DIALECTS:
                if d == 'sqlite':
                    rs = rows
                else:
                    rs = [rows[(i * 7 + k * 13) % len(rows)] for k in range(6)] + ['n', 'an', '0', 't', a, a + 'x', 'x' + a]
                plan.append((d, op, a, rs))
                lines.append('%s %s %s %s' % (d, op, enc(a), ' '.join(enc(r) for r in rs)))
    outs = ctx.model(lines)
    shared = {}
    for k, (d, op, a, rs) in enumerate(plan):
        desc = {'dialect': d, 'op': op, 'arg': enc(a)}
        meta = any(c in a for c in "%_\\'\"\n\t\r\x08\x00[")
        if (op, a) not in shared:
            shared.clear()
            shared[(op, a)] = shared_clauses(op, a, k // 7)
            sh, order, unstable = shared[(op, a)]
            if unstable:
                ctx.oracle_fail('C17:%s:rendering-not-repeatable' % op,
                                'the same %s(%r) expression renders %r and then %r for %s (order %s)'
                                % (op, a, unstable[1], unstable[2], unstable[0], order), desc)
        sh, order, unstable = shared[(op, a)]
        fresh = impl_clause(op, a, d)
        clause = sh[d]
        ctx.case((d, op, a), nontrivial=meta, sample={'case': desc, 'clause': clause},
                 kind='%s:%s' % (op, 'meta' if meta else 'plain'))
        if clause != fresh:
            ctx.oracle_fail('C17:%s:clause-depends-on-earlier-rendering' % op,
                            '%s(%r) rendered for %s after %s gives %r, a fresh expression gives %r'
                            % (op, a, d, order[:order.index(d)], clause, fresh), dict(desc, order=order))
        dc = decode_clause(d, clause)
        nul = '\x00' in a
        mres = None
        if outs is not None:
            parts = outs[k].split(' ')
            ctx.compare('clause text (%s): model = sqlrepr' % d, desc, parts[0], enc(clause))
            ctx.compare('decoded pattern / escape: model lexer = python transcription', desc,
                        'none' if 'none' in parts[1:3] else parts[1] + ' ' + parts[2],
                        'none' if dc is None else enc(dc[0]) + ' ' + enc(dc[1]))
            mres = parts[3:]
        # ------------------------------------------------------------ oracle
        if d == 'sqlite':
            got, err = sqlite_rows(op, a, first=['mysql', 'postgres', 'mssql', None][k % 4])
            if got is None:
                if not nul:
                    ctx.oracle_fail('C17:sqlite:%s:error:%s' % (op, enc(a)), 'select with %s(%r) raises %s' % (op, a, err), desc)
                continue
            for r in rs:
                want = py_pred(op, a, r, True)
                if (r in got) != want:
                    report(ctx, d, op, a, r, r in got, want, 'executed on SQLite')
                    break
            if mres is not None and len(mres) == len(rs):
                ctx.compare('rows: reference LIKE matcher on the decoded pattern = real SQLite', desc,
                            ''.join(mres), ''.join('1' if r in got else '0' for r in rs))
        else:
            if dc is None or len(dc[1]) != 1:
                if not (nul and d != 'mysql'):
                    ctx.oracle_fail('C17:%s:%s:undecodable:%s' % (d, op, enc(a)),
                                    'the clause %r is not `(t.c LIKE (<literal>) ESCAPE <one-character literal>)` for %s' % (clause, d), desc)
                continue
            for r in rs:
                got = ref_like(dc[0], dc[1], r, False)
                want = py_pred(op, a, r, False)
                if got != want:
                    report(ctx, d, op, a, r, got, want, 'decoded pattern %r through the reference matcher' % dc[0])
                    break
            if mres is not None and len(mres) == len(rs):
                ctx.compare('reference LIKE matcher: model = python transcription', desc, ''.join(mres),
                            ''.join('1' if ref_like(dc[0], dc[1], r, False) else '0' for r in rs))
    run_columns(ctx)
    run_entry_points(ctx)
    # the recorded finding's witness, replayed on the implementation every run
    for d in ('mysql', 'postgres'):
        dc = decode_clause(d, impl_clause('startswith', '\n', d))
        if dc is not None and len(dc[1]) == 1 and ref_like(dc[0], dc[1], 'n', False):
            report(ctx, d, 'startswith', '\n', 'n', True, False, 'decoded pattern %r' % dc[0])



# ------------------------------------------------------------------ every string column declaration, executed on SQLite
COL_ALPHA = [' ', 'a', 'B', '%', '_', "'", '\\']
_cols = {}


def cols_env():
    """one class per way of declaring a text column; the argument passes through the column's from_python before it
    reaches the LIKE helpers, so the property must hold for each declaration (TEXT, VARCHAR(n), CHAR(n), unicode, notNone,
    a column added after class creation, a column inherited from a parent class)"""
    if _cols:
        return _cols
    sqlo.setup()
    from sqlobject import SQLObject, StringCol, UnicodeCol
    conn = sqlo.mem_conn()
    rows = [''] + [''.join(t) for n in (1, 2) for t in itertools.product(COL_ALPHA, repeat=n)] + \
        ['a  ', '  a', ' a ', 'a b', '%  ', 'ab ', ' ab', 'a% ', "' '", '   ', 'a_ ', '\\ ']
    decls = [('TEXT', lambda: StringCol(default=None)),
             ('VARCHAR(8)', lambda: StringCol(length=8, default=None)),
             ('CHAR(8)', lambda: StringCol(length=8, varchar=False, default=None)),
             ('CHAR(8) notNone', lambda: StringCol(length=8, varchar=False, notNone=True, default='')),
             ('unicode TEXT', lambda: UnicodeCol(default=None)),
             ('unicode CHAR(8)', lambda: UnicodeCol(length=8, varchar=False, default=None))]
    classes = []
    for name, mk in decls:
        cls = type(sqlo.uniq('C17C'), (SQLObject,), {'_connection': conn, 'c': mk()})
        classes.append((name, cls))
    # declared after class creation
    late = type(sqlo.uniq('C17C'), (SQLObject,), {'_connection': conn})
    late.sqlmeta.addColumn(StringCol(name='c', length=8, varchar=False, default=None))
    classes.append(('CHAR(8) added by addColumn', late))
    # inherited from a parent class (plain python inheritance of the column declaration)
    base = type(sqlo.uniq('C17C'), (SQLObject,), {'_connection': conn, 'c': StringCol(length=8, varchar=False, default=None)})
    child = type(sqlo.uniq('C17C'), (base,), {'_connection': conn})
    classes.append(('CHAR(8) declared on the parent class', child))
    ids = {}
    for name, cls in classes:
        cls.createTable()
        m = {}
        for r in rows:
            # raw INSERT with bound parameters: what is stored does not depend on the library's converters
            c = conn.getConnection()
            try:
                cur = c.cursor()
                cur.execute('INSERT INTO %s (c) VALUES (?)' % cls.sqlmeta.table, (r,))
                m[cur.lastrowid] = r
                c.commit()
            finally:
                conn.releaseConnection(c)
        ids[name] = m
    _cols.update(conn=conn, classes=classes, ids=ids, rows=rows)
    return _cols


def run_columns(ctx):
    e = cols_env()
    rng = ctx.rng
    args = [''] + [''.join(t) for n in (1, 2) for t in itertools.product(COL_ALPHA, repeat=n)] + \
        ['a  ', '  ', '   ', ' a ', 'a% ', '% ', '_ ', "' ", '\\ ', 'ab ', ' ab', 'a b', 'B ', 'a\t', 'a\n ']
    for _ in range(ctx.budget(60, 4000)):
        args.append(''.join(rng.choice(COL_ALPHA + [' ', ' ']) for _ in range(rng.randint(1, 4))))
    for i, a in enumerate(args):
        for op in OPS:
            for name, cls in e['classes']:
                m = e['ids'][name]
                desc = {'dialect': 'sqlite', 'column': name, 'op': op, 'arg': enc(a)}
                ctx.case(('col', name, op, a), nontrivial=(' ' in a or '%' in a or '_' in a), kind='column:' + name)

                def selected(x):
                    try:
                        return set(m[r[0]] for r in cls._connection.queryAll(
                            cls._connection.sqlrepr(cls.select(build(op, cls.q.c, x)).queryForSelect().newItems([cls.q.id]))))
                    except Exception as ex:
                        return 'error:%s' % sqlo.exc_name(ex)
                got = selected(a)
                want = set(r for r in m.values() if py_pred(op, a, r, True))
                if got != want:
                    def bad(x):
                        g = selected(x)
                        return g != set(r for r in m.values() if py_pred(op, x, r, True))
                    ma = c02.minimise(a, bad)
                    g = selected(ma)
                    w = set(r for r in m.values() if py_pred(op, ma, r, True))
                    row = '' if isinstance(g, str) else sorted(g ^ w, key=lambda r: (len(r), r))[0]
                    ctx.oracle_fail('C17:sqlite:column %s:%s:arg=%s:row=%s' % (name, op, enc(ma), enc(row)),
                                    'on a column declared %s, %s(%r) %s' % (
                                        name, op, ma, ('raises ' + g) if isinstance(g, str) else
                                        ('%s row %r, literally it should %s' % ('selects' if row in g else 'does not select', row,
                                                                                'not be selected' if row in g else 'be selected'))), desc)



# ------------------------------------------------------------------ every public entry point that reaches the LIKE helpers
def entry_points(cls, col='c'):
    """(name, expression carrying startswith/endswith/contains, source class or None for alias, items builder)"""
    sb = env()['sb']
    t = cls.sqlmeta.table
    al = sb.Alias(cls, 'al')
    return [('T.q.col', lambda: getattr(cls.q, col), None),
            ('func.LOWER(T.q.col)', lambda: sb.func.LOWER(getattr(cls.q, col)), None),
            ('func.COALESCE(T.q.col, <str>)', lambda: sb.func.COALESCE(getattr(cls.q, col), ''), None),
            ('table.<t>.col', lambda: getattr(getattr(sb.table, t), col), None),
            ('SQLConstant', lambda: sb.SQLConstant('%s.%s' % (t, col)), None),
            ('Alias(T).q.col', lambda: getattr(al.q, col), al),
            ('CONCAT(T.q.col, <str>)', lambda: sb.CONCAT(getattr(cls.q, col), ''), None)]


def run_entry_points(ctx):
    e = cols_env()
    sb = env()['sb']
    rng = ctx.rng
    name0, cls = e['classes'][0]            # the TEXT declaration
    m = e['ids'][name0]
    conn = cls._connection
    args = ['', '%', '_', '\\', "'", 'a', 'B', '%a', 'a%', '_a', '\\%', '\\\\', "a'", ' ', 'a ', '%%', '\\_', 'a_', '__']
    for _ in range(ctx.budget(25, 2000)):
        args.append(''.join(rng.choice(COL_ALPHA) for _ in range(rng.randint(1, 3))))
    for a in args:
        for op in OPS:
            for ename, mk, al in entry_points(cls):
                desc = {'dialect': 'sqlite', 'entry': ename, 'op': op, 'arg': enc(a)}
                ctx.case(('entry', ename, op, a), nontrivial=any(c in a for c in '%_\\'), kind='entry:' + ename)

                def selected(x):
                    try:
                        cond = build(op, mk(), x)
                        if al is not None:
                            q = sb.Select([al.q.id], where=cond)
                        else:
                            q = sb.Select([cls.q.id], where=cond, staticTables=[cls.sqlmeta.table])
                        return set(m[r[0]] for r in conn.queryAll(conn.sqlrepr(q)))
                    except Exception as ex:
                        return 'error:%s' % sqlo.exc_name(ex)
                got = selected(a)
                want = set(r for r in m.values() if py_pred(op, a, r, True))
                if got != want:
                    ma = c02.minimise(a, lambda x: selected(x) != set(r for r in m.values() if py_pred(op, x, r, True)))
                    g = selected(ma)
                    w = set(r for r in m.values() if py_pred(op, ma, r, True))
                    row = '' if isinstance(g, str) else sorted(g ^ w, key=lambda r: (len(r), r))[0]
                    ctx.oracle_fail('C17:sqlite:entry %s:%s:arg=%s:row=%s' % (ename, op, enc(ma), enc(row)),
                                    'through %s, %s(%r) %s' % (ename, op, ma, ('raises ' + g) if isinstance(g, str) else
                                                               ('%s row %r, literally it should %s' % (
                                                                   'selects' if row in g else 'does not select', row,
                                                                   'not be selected' if row in g else 'be selected'))), desc)
                # ---- the other dialects: same clause shape as through the column helper (pattern literal + ESCAPE literal)
                if al is not None:
                    continue
                for d in DIALECTS:
                    if d == 'sqlite':
                        continue
                    try:
                        text = sb.sqlrepr(build(op, mk(), a), d)
                        ref = impl_clause(op, a, d)
                    except Exception as ex:
                        text, ref = 'error:%s' % type(ex).__name__, None
                    tt, tr = c02.ref_tokens(d, text), (None if ref is None else c02.ref_tokens(d, ref))
                    if tr is None:
                        continue
                    # from the LIKE keyword on, the two clauses must be token-identical
                    def tail(ts):
                        if ts is None or ('W', 'LIKE') not in ts:
                            return None
                        return ts[ts.index(('W', 'LIKE')):]
                    if tail(tt) != tail(tr):
                        ctx.oracle_fail('C17:%s:entry %s:%s:clause-differs-from-column-helper' % (d, ename, op),
                                        'through %s, %s(%r) renders %r for %s; the column helper renders %r' % (ename, op, a, text, d, ref),
                                        dict(desc, dialect=d))
                        break


def replay(case):
    env()
    d, op = case['dialect'], case['op']
    if 'column' in case:
        e = cols_env()
        a = dec(case['arg'])
        cls = dict(e['classes'])[case['column']]
        m = e['ids'][case['column']]
        try:
            got = set(m[r[0]] for r in cls._connection.queryAll(
                cls._connection.sqlrepr(cls.select(build(op, cls.q.c, a)).queryForSelect().newItems([cls.q.id]))))
        except Exception as ex:
            got = 'error:%s' % sqlo.exc_name(ex)
        want = set(r for r in m.values() if py_pred(op, a, r, True))
        return got == want, 'column declared %s: %s(%r) selects %r\nliterally: %r' % (
            case['column'], op, a, got if isinstance(got, str) else sorted(got), sorted(want))
    a, row = dec(case.get('minimal', case['arg'])), dec(case.get('minimal_row', case['row']))
    clause = impl_clause(op, a, d)
    if d == 'sqlite':
        got, err = sqlite_rows(op, a)
        sel = None if got is None else (row in got)
        how = 'SQLite selects the row: %r (%s)' % (sel, err)
    else:
        dc = decode_clause(d, clause)
        sel = None if dc is None else ref_like(dc[0], dc[1], row, False)
        how = 'decoded pattern %r escape %r; reference LIKE matches the row: %r' % (dc and dc[0], dc and dc[1], sel)
    want = py_pred(op, a, row, d == 'sqlite')
    return sel == want, '%s(%r) on %s renders %r\n%s\nliteral %s: %r' % (op, a, d, clause, how, op, want)
