"""C06 — a write that raises changes nothing (row, in-memory values, cache registrations).

real side  : SQLObject classes on a private in-memory SQLite connection whose `_executeRetry`
             counts the statements and makes the k-th one fail (sqlite3.OperationalError through
             the real error mapping, or KeyboardInterrupt); the state is rebuilt from its
             generating history for every trial.
model side : lean/SqlObjVerif/Model/Fail.lean through `drv_c06` (same history, same op, same k).
correspondence streams: outcome, statement sequence, full state after the call.
oracle (independent of the model): if the call raised, tables / link tables / every attribute of every
             reachable instance / registered ids are what they were, and attributes equal the raw row.
"""
import gc
import glob
import json
import os
import re
import sqlite3

from vlib import sqlo

PROP = 'C06'

K_DESTROY_REFUSED = 'C06:destroySelf-refused-after-partial-cascade'
K_DESTROY_DBERR = 'C06:destroySelf-db-error-mid-cascade'
K_DESTROY_OBSOLETE = 'C06:destroySelf-delete-fails-instance-left-obsolete'
K_INH_DESTROY = 'C06:inheritable-destroySelf-fails-after-parent-row-deleted'
K_CREATE_AFTER_INSERT = 'C06:create-db-error-after-insert'
K_INH_CREATE_AFTER_INSERT = 'C06:inheritable-create-db-error-after-insert'
K_INH_CREATE_BASEEXC = 'C06:inheritable-create-baseexception-skips-parent-cleanup'
K_INH_CREATE_CLEANUP = 'C06:inheritable-create-cleanup-fails'
K_LAZY_EXTRA = 'C06:lazy-set-extra-raises-after-columns-cached'
K_SET_FK_OBJ = 'C06:set-fk-by-object-written-before-failing-update'
K_SET_PARENT_COL = 'C06:inheritable-set-parent-column-written-before-failing-update'
K_TX_DESTROYED_STALE = 'C06:rolled-back-destroySelf-cascaded-instance-keeps-changed-value'

META = {
    'extractors': ['pymain', 'pycreate', 'pyinherit', 'pyinhset', 'pydestroy'],
    'technique': ('Lean 4 proof over a micro-step program model of every write operation (generic interpreter with '
                  'statement counting, fault injection, statement-level rejection, clean-up handlers) + differential '
                  'correspondence with fault injection at every statement index + state-dump oracle; TRANSLATOR tie: the Python '
                  'AST of _SO_setValue / set / syncUpdate (pymain), __init__ / _create / _SO_finishCreate (pycreate), InheritableSQLObject._create / destroySelf '
                  '(pyinherit), InheritableSQLObject.set and the inherited-column setter (pyinhset) and destroySelf (pydestroy) is translated on every run into deep embeddings whose EXCEPTION-INJECTING '
                  'reference semantics (Model/PyFail.lean, PyCreate.lean, FailInhX.lean, PyDestroyF.lean: every connection call and every '
                  'validator call takes its outcome from a schedule indexed by the call position, like the cursor stub of this harness) is '
                  'proved, by symbolic execution for all states / argument lists / schedules, to end exactly as the hand-compiled '
                  'micro-step tree does (C06_translated_*_eq_model); C06_frame / _partial / _success_or_unchanged are restated about the '
                  'translated programs (C06_translated_frame by induction over the syntax of the embedding)'),
    'level_text': ('C06_failed_op_is_noop_syntactic: for every schema, state (no bound on rows / columns / instances / depth), '
                   'operation (attribute assignment, set() with any columns and extra keywords, syncUpdate, create, inheritable create of '
                   'any depth, destroySelf) and injected error index k satisfying the DECIDABLE, purely syntactic condition AtomicSyn '
                   '(read off the schema, the tables and k), an operation that raises leaves tables, link tables, every instance and the '
                   'cache registrations unchanged.  AtomicSyn covers: every failure of assignment / syncUpdate / set() (but a ForeignKey given '
                   'by object); create unless the error hits the read-back SELECT; inheritable create of any depth for every invalid value, '
                   'constraint violation and injected error at ANY level\'s INSERT (clean-up proved to restore the state by induction over '
                   'the chain, classes of the chain may have dependents); destroySelf when the failure point lies before the first '
                   'effective statement computed from the dependents list.  C06_nonatomic_cases_exactly spells out the complement '
                   '(= the open known findings), C06_destroy_refused_noop_iff gives both directions for a refused destroySelf, '
                   'C06_frame / C06_failed_op_is_noop_partial (semantic) and the *_full_FALSE witnesses are kept.  '
                   'TRANSLATED SOURCE: C06_translated_{setattr_eager,setattr_lazy,set_eager,set_lazy,set_extras_eager,set_extras_lazy,set_translated_setters,'
                   'inheritable_set,syncUpdate,create,create_fkobj,destroy,plain_destroy,inheritable_create_level,inheritable_create,'
                   'inheritable_create_one_world}_eq_model: the Python functions themselves (translated from '
                   'the AST on every run), run under an injection schedule, end in the same error, statement log and tables / instances / '
                   'registrations as the hand-compiled trees, for every schema, state, argument list and schedule; C06_translated_step_eq_model '
                   '(stepX = step on EVERY operation kind of the model: setattr, set, syncUpdate, create, createChild / createChain, destroySelf), C06_translated_frame (exactness of the interpreter ghost counter, by induction over '
                   'the syntax), C06_translated_failed_op_is_noop_partial (AtomicX), _syntactic (AtomicSyn), _success_or_unchanged, and the '
                   'witnesses replayed through the translated programs (C06_translated_*_full_FALSE).'),
    'level_note': ('Trusted: Lean kernel; the AST translators vlib/extractors/{pymain,pycreate,pyinherit,pydestroy}.py and the reference semantics '
                   'of the four embeddings with their stated interfaces (what a connection call / validator / cache call / property setter / '
                   'select result is: headers of Model/PyFail.lean, PyCreate.lean, FailInhX.lean, FailDestroyX.lean, FailDestroyInhX.lean); the '
                   'hand-written micro-step program model is now PROVED equal to the translated source for every operation (setattr, set incl. the inheritable '
                   'override and translated setters, syncUpdate, create, destroySelf, the inheritable create in one world with translated callees) and is additionally tied on every run by three '
                   'correspondence streams: outcome, SQL statement sequence and full post-state, for the uninjected call and for an error '
                   'at every statement index; statement-level atomicity of SQLite; no signal listeners; cacheValues=True. '
                   'Open known findings (non-atomic failures of the current code) are reported with stable keys; the keys of the three repaired ones (a587e1a, 0470de1, bf075e4) are still emitted if the damage shows up again.'),
    'rule': ('case = (registry order variant, history of operations building the state, operation under test); every case is '
             'run uninjected to measure its statement count n and then re-run from a rebuilt identical state with an error '
             'injected at k=1..n (OperationalError; KeyboardInterrupt too for inheritable creates); distinct = distinct '
             '(variant, history, op, k); non-trivial = the call raised'),
    'trusted': ['SQLite rejects or applies one statement atomically (modelled by exec)',
                'the harness-side connection subclass (statement counter, injected driver error)'],
    'modelled': ['SQLite constraint evaluation order NOT NULL, CHECK, UNIQUE (executed, compared)',
                 'instances unreachable after a failed constructor are dropped from the model state',
                 'signal listeners, cacheValues=False, transactions (autoCommit off) are outside the model',
                 'an exception raised by the application\'s own property setter inside set() is outside the property (counted, not reported)',
                 'after every failed call the oracle also checks that each held live instance is still the very object the cache hands out (tryGet is inst, both directions) and re-fetches it with get()',
                 'configurations beyond the model, oracle only: connections built from URI option strings (autoCommit=0/1/false, cache=1: all equivalent to the default on SQLite); the same calls inside a transaction on a FILE database (own raw connection, transaction cache culled once), rolled back when the call raises: tables and link rows are what they were and every attribute the application reads from a held instance equals the row'],
    'assumptions': ['translated source: values are identified across from_python / to_python (the hand model has one value per column); every column has both validators; '
                    '_SO_createValues is a dict up to order; in the inheritable create the constructor parentClass(kw=..., connection=...) is _create of a fresh instance at the parent '
                    'level (__init__ is not re-run per level) and non-root levels must get their required keywords (Required); create with ForeignKey-by-object keywords is tied '
                    'against createProg with the by-object columns appended (the hand tree ignores .fk extras in create; this harness generates no such create); no connection= keyword; '
                    'the eval-generated setter lambdas of main.py (column setter, ForeignKey-by-object setter) are interface;  _init / _SO_selectInit are an interface call (SELECT + reload; translated and proved for C05); '
                    'RecursionError of a cascade cycle = fuel exhaustion',
                    'sqlite_sequence (AUTOINCREMENT counters) is not application data: ids consumed by a failed create are not compared',
                    'the injected error is single-shot: statements after the k-th are executed normally',
                    'AtomicSyn is sufficient, not necessary: a failed call outside it may still be a no-op (destroySelf failing inside a nested cascade before its first effect; inheritable victims after statement 1); the harness counts these (input_distribution: in the gap, no-op)',
                    'C06_destroy_refused_noop_iff (both directions) is proved for registries whose classes before the first refusing one hold only cascade=False keys to the victim; with null / cascade keys before it only the direction AtomicSyn => no-op is proved',
                    'inheritable create: classes of the chain must be distinct and hold no policy key to one another; the new id must not be referenced anywhere (ChainSyn)'],
    'exhaustive': False,
}

# ----------------------------------------------------------------------------- schema
CLS = {
    'A': dict(cols=[('n', dict(alt=True)), ('s', dict(notnull=True)), ('u', dict(unique=True)), ('m', dict(check=100)),
                    ('x', dict(asym=True))],
              joins=[('F', 0, 0)], props=True),
    'F': dict(cols=[('v', {})], joins=[('A', 0, 1)]),
    'B': dict(cols=[('a', dict(fk=('A', 'c'))), ('w', dict(unique=True))], props=True),
    'C': dict(cols=[('a', dict(fk=('A', 'n'))), ('w', {})]),
    'D': dict(cols=[('a', dict(fk=('A', 'r')))]),
    'E': dict(cols=[('b', dict(fk=('B', 'c')))]),
    'N': dict(cols=[('a', dict(fk=('A', 'x')))]),
    'H': dict(cols=[('a1', dict(fk=('A', 'n'))), ('a2', dict(fk=('A', 'c')))]),
    'G': dict(cols=[('a1', dict(fk=('A', 'r'))), ('a2', dict(fk=('A', 'c')))]),
    'K': dict(cols=[('a1', dict(fk=('A', 'n'))), ('a2', dict(fk=('A', 'r')))]),
    'LC': dict(lazy=True, cols=[('a', dict(fk=('A', 'n'))), ('m', {})]),
    'Lz': dict(lazy=True, cols=[('n', dict(alt=True)), ('m', {}), ('x', dict(asym=True))], props=True),
    'Par': dict(inh=True, cols=[('a', dict(alt=True))]),
    'Chi': dict(parent='Par', cols=[('b', dict(alt=True)), ('c', dict(check=100))]),
    'Gra': dict(parent='Chi', cols=[('g', dict(alt=True)), ('x', dict(asym=True))]),
    'DC': dict(cols=[('ref', dict(fk=('Chi', 'r')))]),
    'DP': dict(cols=[('ref', dict(fk=('Par', 'c')))]),
}
ORDERS = [
    ['A', 'F', 'B', 'C', 'D', 'E', 'N', 'H', 'G', 'K', 'LC', 'Lz', 'Par', 'Chi', 'Gra', 'DC', 'DP'],
    ['D', 'A', 'C', 'G', 'B', 'E', 'F', 'H', 'K', 'LC', 'N', 'Lz', 'Par', 'Chi', 'DP', 'Gra', 'DC'],
    ['H', 'B', 'E', 'C', 'F', 'A', 'D', 'N', 'G', 'Par', 'Chi', 'Gra', 'Lz', 'K', 'LC', 'DC', 'DP'],
]
LINKS = [('lk0', 'a_id', 'f_id')]
CHILDNAME = {'Chi': 1, 'Gra': 2, None: None}
_MISSING = object()


class Variant(object):
    """classes of one registry order, created once; rebound to a fresh connection per rebuild"""

    def __init__(self, vi):
        sqlo.setup()
        from sqlobject import SQLObject, IntCol, ForeignKey, RelatedJoin
        from sqlobject.inheritance import InheritableSQLObject
        self.vi = vi
        self.order = ORDERS[vi]
        self.idx = {n: i for i, n in enumerate(self.order)}
        reg = sqlo.uniq('c06reg')
        self.classes = []
        by_name = {}
        pol = {'c': True, 'n': 'null', 'r': False, 'x': None}
        for name in self.order:
            spec = CLS[name]
            attrs = {'sqlmeta': type('sqlmeta', (), {'registry': reg, 'lazyUpdate': bool(spec.get('lazy')),
                                                     'table': 't_' + name.lower()})}
            for cname, o in spec['cols']:
                if 'fk' in o:
                    attrs[cname] = ForeignKey(o['fk'][0], cascade=pol[o['fk'][1]], default=None)
                elif o.get('alt'):
                    attrs[cname] = IntCol(alternateID=True)
                elif o.get('notnull'):
                    attrs[cname] = IntCol(notNone=True, default=1)
                elif o.get('unique'):
                    attrs[cname] = IntCol(unique=True, default=None)
                elif o.get('asym'):
                    # from_python accepts everything IntCol accepts, to_python rejects ASYM_BAD: step 2 of the validation
                    attrs[cname] = IntCol(default=None, validator=asym_validator())
                elif o.get('check'):
                    # the only way to get a CHECK clause into an IntCol's generated DDL
                    attrs[cname] = IntCol(default=None, defaultSQL='NULL CHECK (%s < %d)' % (cname, o['check']))
                else:
                    attrs[cname] = IntCol(default=None)
            for other, t, side in spec.get('joins', []):
                lk = LINKS[t]
                attrs['rel_' + other.lower()] = RelatedJoin(other, intermediateTable=lk[0], joinColumn=lk[1 + side],
                                                            otherColumn=lk[2 - side])
            if spec.get('props'):
                def _bad(self, v):
                    raise AttributeError('refused')
                attrs['okp'] = property(lambda self: 0, lambda self, v: None)
                attrs['badp'] = property(lambda self: 0, _bad)
            base = InheritableSQLObject if spec.get('inh') else (by_name[spec['parent']] if spec.get('parent') else SQLObject)
            cls = type(name, (base,), attrs)
            by_name[name] = cls
            self.classes.append(cls)
        self.colnames = [[c.name for c in cls.sqlmeta.columnList] for cls in self.classes]
        self.dbnames = [[c.dbName for c in cls.sqlmeta.columnList] for cls in self.classes]
        self.tables = [cls.sqlmeta.table for cls in self.classes]
        self.table_idx = {t: i for i, t in enumerate(self.tables)}

    def ncols(self, c):
        return len(self.colnames[c])

    def schema_line(self):
        toks = []
        for name in self.order:
            spec = CLS[name]
            cols = []
            for cname, o in spec['cols']:
                f = []
                if o.get('alt'):
                    f += ['u', 'n']
                if o.get('notnull'):
                    f.append('n')
                if o.get('unique'):
                    f.append('u')
                if o.get('check'):
                    f.append('k%d' % o['check'])
                if 'fk' in o:
                    f.append('f%d%s' % (self.idx[o['fk'][0]], o['fk'][1]))
                cols.append('.'.join(f) or '-')
            if spec.get('inh') or spec.get('parent'):
                cols.append('-')          # childName
            joins = ','.join('%d:%d:%d' % (t, self.idx[o], side) for o, t, side in spec.get('joins', [])) or '-'
            par = str(self.idx[spec['parent']]) if spec.get('parent') else '-'
            toks.append('%s/%s/%s/%s' % (','.join(cols), 'L' if spec.get('lazy') else 'E', par, joins))
        return 'schema %d %s' % (len(LINKS), ' '.join(toks))

    def defaults(self, c):
        """default db value per column index, None entry = required"""
        out = []
        name = self.order[c]
        for cname, o in CLS[name]['cols']:
            out.append(_MISSING if o.get('alt') else (1 if o.get('notnull') else None))
        if self.ncols(c) > len(out):
            out.append(None)
        return out


ASYM_BAD = 77
_asym = []


def asym_validator():
    if not _asym:
        from formencode import validators

        class RejectOnTheWayBack(validators.Validator):
            def to_python(self, value, state):
                if value == ASYM_BAD:
                    raise validators.Invalid('value %r cannot be converted back' % (value,), value, state)
                return value

            def from_python(self, value, state):
                return value
        _asym.append(RejectOnTheWayBack)
    return _asym[0]()


_variants = {}


def variant(vi):
    if vi not in _variants:
        v = Variant(vi)
        for c, name in enumerate(v.order):
            exp = len(CLS[name]['cols']) + (1 if CLS[name].get('inh') or CLS[name].get('parent') else 0)
            assert v.ncols(c) == exp, (name, v.colnames[c])
        _variants[vi] = v
    return _variants[vi]


_InjConn = []


def inj_class():
    if _InjConn:
        return _InjConn[0]
    sqlo.setup()
    from sqlobject.sqlite.sqliteconnection import SQLiteConnection

    class FailingCursor(object):
        def __init__(self, exc):
            self.exc = exc

        def execute(self, query):
            raise self.exc

    class InjConn(SQLiteConnection):
        """counts the statements of the running operation and makes the k-th fail"""
        def __init__(self, *a, **k):
            self.c06_log = []
            self.c06_n = 0
            self.c06_at = None
            self.c06_kind = 'o'
            SQLiteConnection.__init__(self, *a, **k)

        def arm(self, k=None, kind='o'):
            self.c06_log = []
            self.c06_n = 0
            self.c06_at = k
            self.c06_kind = kind

        def _executeRetry(self, conn, cursor, query):
            self.c06_n += 1
            self.c06_log.append(query)
            if self.c06_at is not None and self.c06_n == self.c06_at:
                self.c06_at = None
                if self.c06_kind == 'i':
                    raise KeyboardInterrupt()
                # through the real driver-error translation of sqliteconnection._executeRetry
                cursor = FailingCursor(sqlite3.OperationalError('C06 injected fault'))
            return SQLiteConnection._executeRetry(self, conn, cursor, query)
    _InjConn.append(InjConn)
    return InjConn


class Env(object):
    """one rebuilt state: fresh connection, tables, held instances"""

    def __init__(self, vi, copts=None, path=None):
        self.v = variant(vi)
        self.copts = dict(copts or {})
        # built the way connectionForURI builds it: option values are the STRINGS of the URI's query part
        self.conn = inj_class()._connectionFromParams(None, None, None, None, path or '/:memory:', dict(self.copts))
        for cls in self.v.classes:
            cls._connection = self.conn
        for cls in self.v.classes:
            cls.createTable(ifNotExists=True)
        self.raw = sqlite3.connect(path) if path else self.conn._memoryConn
        self.held = {}      # (c, id) -> instance, the application's references
        self.ckw = {}       # extra constructor keywords (connection=<transaction> in transaction mode)
        self.trans = None

    # ------------------------------------------------------------- transaction mode
    def begin(self, cull=True):
        """open a transaction, fetch every held instance through it (these become the application's references)
        and let the transaction's cache cull once: every second instance is then only weakly cached"""
        v = self.v
        self.main_held = dict(self.held)
        self.trans = self.conn.transaction()
        parents = {CLS[n].get('parent') for n in v.order}
        held = {}
        for (c, i), o in sorted(self.held.items()):
            if o.sqlmeta._obsolete or v.order[c] in parents:
                continue
            t = v.classes[c].get(i, connection=self.trans)
            held[(c, i)] = t
            p = getattr(t, '_parent', None)
            while p is not None:
                held[(v.classes.index(type(p)), p.id)] = p
                p = getattr(p, '_parent', None)
        self.held = held
        self.ckw = {'connection': self.trans}
        if cull:
            for sub in self.trans.cache.allSubCaches():
                sub.cull()

    def close(self):
        if self.trans is not None:
            try:
                self.trans.rollback()
            except Exception:
                pass
        try:
            self.raw.close()
        except Exception:
            pass

    def end(self, out):
        """what the application does: roll back when the call raised, commit otherwise; then go on with a new transaction"""
        if out == 'ok':
            self.trans.commit()
        else:
            self.trans.rollback()
            self.trans.begin()

    # ------------------------------------------------------------- running operations
    def pyval(self, v):
        return 'zz' if v == 'bad' else (ASYM_BAD if v == 'bad2' else v)

    def kwargs(self, c, kw, extras=''):
        d = {}
        for j, v in kw:
            d[self.v.colnames[c][j]] = self.pyval(v)
        for e in extras:
            if isinstance(e, (list, tuple)) and e[0] == 'p':   # ['p', class, col, value]: a column inherited from class
                d[self.v.colnames[e[1]][e[2]]] = self.pyval(e[3])
            elif isinstance(e, (list, tuple)):      # ['f', col, id]: the ForeignKey given by object
                _, col, tid = e
                cname = self.v.colnames[c][col]
                target = CLS[self.v.order[c]]['cols'][col][1]['fk'][0]
                d[cname[:-2]] = None if tid is None else self.held[(self.v.idx[target], tid)]
            else:
                d[{'u': 'nosuch', 'o': 'okp', 'b': 'badp'}[e]] = 5
        return d

    def run(self, op, k=None, kind='o'):
        """returns (outcome, [sql])"""
        v = self.v
        self.conn.arm(k, kind)
        out = 'ok'
        try:
            name = op[0]
            if name == 'setattr':
                _, c, i, col, val = op
                setattr(self.held[(c, i)], v.colnames[c][col], self.pyval(val))
            elif name == 'set':
                _, c, i, kw, ex = op
                self.held[(c, i)].set(**self.kwargs(c, kw, ex))
            elif name == 'sync':
                _, c, i = op
                self.held[(c, i)].syncUpdate()
            elif name == 'create':
                _, c, missing, kw, ex = op
                obj = v.classes[c](**dict(self.kwargs(c, kw, ex), **self.ckw))
                self.held[(c, obj.id)] = obj
            elif name == 'createChild':
                _, c, pkw, ckw = op
                p = v.idx[CLS[v.order[c]]['parent']]
                d = self.kwargs(p, [x for x in pkw if v.colnames[p][x[0]] != 'childName'])
                d.update(self.kwargs(c, ckw))
                obj = v.classes[c](**dict(d, **self.ckw))
                self.held[(c, obj.id)] = obj
            elif name == 'createChain':
                _, levels, given = op
                d = {}
                for c, j, x in given:
                    d[v.colnames[c][j]] = self.pyval(x)
                c = levels[0][0]
                obj = v.classes[c](**dict(d, **self.ckw))
                self.held[(c, obj.id)] = obj
            elif name == 'destroy':
                _, c, i = op
                self.held[(c, i)].destroySelf()
            elif name == 'link':
                _, t, a, b = op
                self.raw.execute('INSERT INTO %s (%s, %s) VALUES (%d, %d)' % (LINKS[t] + (a, b)))
                self.raw.commit()
            elif name == 'forget':
                _, c, i = op
                self.held.pop((c, i), None)
                self.conn.cache.expire(i, v.classes[c])
            else:
                raise ValueError(op)
        except BaseException as e:   # every exception of the real code is an observable outcome
            out = err_name(e)
        log = list(self.conn.c06_log)
        self.conn.arm(None)
        return out, log

    # ------------------------------------------------------------- observation
    def instances(self):
        seen = {}
        todo = list(self.held.values())
        for cls in self.v.classes:
            todo.extend(self.conn.cache.getAll(cls))
        while todo:
            o = todo.pop()
            if id(o) in seen:
                continue
            seen[id(o)] = o
            p = getattr(o, '_parent', None)
            if p is not None:
                todo.append(p)
        return list(seen.values())

    def inst_state(self, o):
        c = self.v.classes.index(type(o))
        vals = []
        for name in self.v.colnames[c]:
            x = getattr(o, '_SO_val_' + name, _MISSING)
            vals.append('X' if x is _MISSING else canon_val(x))
        pend = getattr(o, '_SO_createValues', None) or {}
        pend = tuple(sorted((self.v.colnames[c].index(n), canon_val(x)) for n, x in pend.items()))
        return (c, o.id, tuple(vals), pend, int(bool(o.sqlmeta.dirty)), int(bool(o.sqlmeta._obsolete)))

    def dump(self):
        v = self.v
        tabs = []
        for c, t in enumerate(v.tables):
            q = 'SELECT id%s FROM %s ORDER BY id' % (''.join(', ' + d for d in v.dbnames[c]), t)
            for row in self.raw.execute(q).fetchall():
                tabs.append((c, row[0], tuple(canon_val(x) for x in row[1:])))
        links = []
        for t, lk in enumerate(LINKS):
            for a, b in self.raw.execute('SELECT %s, %s FROM %s' % (lk[1], lk[2], lk[0])).fetchall():
                links.append((t, a, b))
        if self.trans is not None:      # transaction mode: only what is stored matters here
            return {'T': sorted(tabs), 'L': sorted(links), 'I': [], 'R': []}
        insts = sorted(self.inst_state(o) for o in self.instances())
        reg = sorted((c, o.id) for c, cls in enumerate(v.classes) for o in self.conn.cache.getAll(cls))
        return canon_dump({'T': sorted(tabs), 'L': sorted(links), 'I': insts, 'R': reg})

    def snapshot(self):
        """per-object view for the oracle (by identity); with: is this very object the one the cache hands out?"""
        return {id(o): (o, self.inst_state(o), self.conn.cache.tryGet(o.id, type(o)) is o) for o in self.instances()}


def canon_val(x):
    if isinstance(x, str):
        return CHILDNAME.get(x, 'str:' + x)
    return x


def err_name(e):
    from sqlobject import dberrors
    from sqlobject.main import SQLObjectIntegrityError
    from formencode import Invalid
    if isinstance(e, KeyboardInterrupt):
        return 'Interrupt'
    if isinstance(e, SQLObjectIntegrityError):
        return 'Integrity'
    if isinstance(e, dberrors.DuplicateEntryError):
        return 'Duplicate'
    if isinstance(e, dberrors.IntegrityError):
        return 'DbIntegrity'
    if isinstance(e, dberrors.OperationalError):
        return 'Operational'
    if isinstance(e, Invalid):
        return 'Invalid'
    if isinstance(e, RecursionError):
        return 'Recursion'
    if isinstance(e, TypeError):
        return 'TypeError'
    if isinstance(e, AttributeError):
        return 'AttributeError'
    return 'Other(%s)' % type(e).__name__


# ----------------------------------------------------------------------------- statement log canonicaliser
_re_ins = re.compile(r'INSERT INTO (\w+)')
_re_upd = re.compile(r'UPDATE (\w+) SET (.*) WHERE id = \((\d+)\)$', re.S)
_re_del = re.compile(r'DELETE FROM (\w+) WHERE (\w+) ?= ?\(?(\d+)\)?$')
_re_sel = re.compile(r'SELECT .* FROM (\w+)', re.S)


def stmt_token(v, q):
    m = _re_ins.match(q)
    if m and m.group(1) in v.table_idx:
        return 'I%d' % v.table_idx[m.group(1)]
    m = _re_upd.match(q)
    if m and m.group(1) in v.table_idx:
        c = v.table_idx[m.group(1)]
        cols = [a.split(' = ')[0].strip() for a in m.group(2).split(', ')]
        return 'U%d.%s.%s' % (c, m.group(3), '+'.join(str(v.dbnames[c].index(x)) for x in cols))
    m = _re_del.match(q)
    if m:
        if m.group(1) in v.table_idx:
            return 'D%d.%s' % (v.table_idx[m.group(1)], m.group(3))
        for t, lk in enumerate(LINKS):
            if lk[0] == m.group(1):
                return 'X%d.%d.%s' % (t, lk.index(m.group(2)) - 1, m.group(3))
    m = _re_sel.match(q)
    if m and m.group(1) in v.table_idx:
        return 'S%d' % v.table_idx[m.group(1)]
    return 'other:' + q[:40]


# ----------------------------------------------------------------------------- model protocol
def fmt_v(x):
    return 'bad' if x == 'bad' else ('bad2~%d' % ASYM_BAD if x == 'bad2' else ('N' if x is None else str(x)))


def fmt_ex(ex):
    def one(e):
        if isinstance(e, (list, tuple)):
            return 'p%d.%d=%s' % (e[1], e[2], fmt_v(e[3])) if e[0] == 'p' else 'f%d=%s' % (e[1], fmt_v(e[2]))
        return e
    return ','.join(one(e) for e in ex) or '-'


def fmt_kw(kw):
    return ','.join('%d=%s' % (j, fmt_v(x)) for j, x in kw) or '-'


def op_line(op, k=None, kind='o'):
    name = op[0]
    if name == 'link':
        return 'link %d %d %d' % tuple(op[1:])
    if name == 'forget':
        return 'forget %d %d' % tuple(op[1:])
    inj = '-' if k is None else '%d%s' % (k, kind)
    if name == 'setattr':
        body = 'setattr %d %d %d %s' % (op[1], op[2], op[3], fmt_v(op[4]))
    elif name == 'set':
        body = 'set %d %d %s %s' % (op[1], op[2], fmt_kw(op[3]), fmt_ex(op[4]))
    elif name == 'sync':
        body = 'sync %d %d' % (op[1], op[2])
    elif name == 'create':
        body = 'create %d %d %s %s' % (op[1], 1 if op[2] else 0, fmt_kw(op[3]), fmt_ex(op[4]))
    elif name == 'createChild':
        body = 'createChild %d %s %s' % (op[1], fmt_kw(op[2]), fmt_kw(op[3]))
    elif name == 'createChain':
        body = 'createChain ' + ' '.join('%d:%s' % (c, fmt_kw(kw)) for c, kw in op[1])
    elif name == 'destroy':
        body = 'destroy %d %d' % (op[1], op[2])
    else:
        raise ValueError(op)
    return 'op %s %s' % (inj, body)


def parse_model_dump(text):
    def pv(x):
        return None if x == 'N' else ('X' if x == 'X' else int(x))
    m = re.match(r'T (.*) L (.*) I (.*) R (.*)$', text)
    T, L, I, R = [g.strip() for g in m.groups()]
    tabs = []
    for item in filter(None, T.split(';')):
        k, vals = item.split('=')
        c, i = k.split(':')
        tabs.append((int(c), int(i), tuple(pv(x) for x in vals.split(',')) if vals else ()))
    links = []
    for item in filter(None, L.split(';')):
        t, ab = item.split(':')
        a, b = ab.split('-')
        links.append((int(t), int(a), int(b)))
    insts = []
    for item in filter(None, I.split(';')):
        k, rest = item.split('=', 1)
        c, i = k.split(':')
        vals, pend, dirty, obs = rest.split('/')
        pend = tuple(sorted((int(a.split('=')[0]), pv(a.split('=')[1])) for a in filter(None, pend.split(','))))
        insts.append((int(c), int(i), tuple(pv(x) for x in vals.split(',')) if vals else (), pend, int(dirty), int(obs)))
    reg = []
    for item in filter(None, R.split(';')):
        c, i = item.split(':')
        reg.append((int(c), int(i)))
    return canon_dump({'T': sorted(tabs), 'L': sorted(links), 'I': sorted(insts), 'R': sorted(reg)})


def canon_dump(d):
    """instances that were destroyed (obsolete and no longer registered) are only reachable if the application
    kept a reference, which the model does not know: not compared (the oracle looks at them by identity)"""
    reg = set(d['R'])
    d['I'] = [i for i in d['I'] if not (i[5] and (i[0], i[1]) not in reg)]
    return d


# ----------------------------------------------------------------------------- oracle
def oracle(env, before_dump, before_snap, out):
    """property C06 on the implementation; returns a list of problems (empty = holds)"""
    if out == 'ok':
        return []
    after = env.dump()
    probs = []
    if after['T'] != before_dump['T']:
        probs.append('tables changed: %s' % diff(before_dump['T'], after['T']))
    if after['L'] != before_dump['L']:
        probs.append('link rows changed: %s' % diff(before_dump['L'], after['L']))
    if after['R'] != before_dump['R']:
        probs.append('registered instances changed: %s' % diff(before_dump['R'], after['R']))
    for oid, (o, st, was_reg) in before_snap.items():
        now = env.inst_state(o)
        if now != st:
            probs.append('instance %s#%d changed in memory: %s -> %s' % (env.v.order[st[0]], st[1], st[2:], now[2:]))
        is_reg = env.conn.cache.tryGet(o.id, type(o)) is o
        if is_reg != was_reg:
            probs.append('instance %s#%d %s' % (env.v.order[st[0]], st[1],
                         'is no longer the object registered for its row' if was_reg else 'got registered'))
    probs.extend(refetch_probe(env))
    rows = {(c, i): vals for c, i, vals in after['T']}
    for o in env.instances():
        c, i, vals, pend, dirty, obs = env.inst_state(o)
        if obs:
            continue
        row = rows.get((c, i))
        pcols = dict(pend)
        for j, x in enumerate(vals):
            if x == 'X' or j in pcols:
                continue
            if row is None or row[j] != x:
                probs.append('instance %s#%d shows %s=%r, the row has %r'
                             % (env.v.order[c], i, env.v.colnames[c][j], x, None if row is None else row[j]))
    return probs


def refetch_probe(env):
    """after a failed call: fetching the row of a live instance the application holds must hand out that very
    instance; otherwise a write through the fetched object leaves the held one stale.  (Run last: it may register.)"""
    probs = []
    v = env.v
    parents = {CLS[n].get('parent') for n in v.order}
    rows = {(c, i) for c, i, _ in env.dump()['T']}
    for (c, i), o in list(env.held.items()):
        name = v.order[c]
        if name in parents or o.sqlmeta._obsolete or (c, i) not in rows:
            continue
        try:
            again = v.classes[c].get(i, connection=env.conn)
        except Exception as e:
            probs.append('get(%s, %d) after the failed call raised %s' % (name, i, type(e).__name__))
            continue
        if again is not o:
            probs.append('%s.get(%d) after the failed call returns a second instance of the row the application holds '
                         '(a write through it leaves the held instance stale)' % (name, i))
    return probs


def diff(a, b):
    return '-%s +%s' % ([x for x in a if x not in b][:4], [x for x in b if x not in a][:4])


def classify(v, op, t, probs, after):
    """stable key of the failure mechanism (from the case, not from the damage)"""
    out, k, kind, clean_out, before = t['out'], t['k'], t['kind'], t['clean_out'], t['before']
    name = op[0]
    where = 'clean' if k is None else 'k=%d%s' % (k, kind)
    if name == 'createChain':
        cidx = op[1][0][0]
    else:
        cidx = op[1]
    cname = v.order[cidx]
    inh = bool(CLS[cname].get('parent'))
    # none of the known defects takes the registered instance away from a row that is still there
    live = {(c, i) for c, i, _ in after['T']}
    lost = [r for r in before['R'] if r not in after['R'] and tuple(r) in live]
    if lost:
        return 'C06:unexpected:%s-raised-%s-and-a-surviving-row-lost-its-registered-instance' % (name, out)
    if name == 'destroy':
        if not any(c == op[1] and i == op[2] for c, i, _ in after['T']):
            return 'C06:unexpected:destroy-raised-%s-but-victim-row-deleted' % out
        if inh:
            return K_INH_DESTROY
        if k is None:
            if out != 'Integrity':
                return 'C06:unexpected:destroy:%s' % out
            # the known defect: what EARLIER entries of the dependents loop did stays.  The class that
            # refuses (first in registry order with a row referencing the victim through a cascade=False
            # key) must not have been touched itself.
            for c, kname in enumerate(v.order):
                rcols = [j for j, (_, o) in enumerate(CLS[kname]['cols']) if o.get('fk') == (cname, 'r')]
                if any(cc == c and any(vals[j] == op[2] for j in rcols) for cc, _, vals in before['T']):
                    if [r for r in before['T'] if r[0] == c] != [r for r in after['T'] if r[0] == c]:
                        return 'C06:unexpected:destroy-refused-by-%s-whose-own-rows-changed' % kname
                    break
            return K_DESTROY_REFUSED
        if all('changed in memory' in p and p.endswith(', 1)') for p in probs) and len(probs) == 1:
            return K_DESTROY_OBSOLETE        # (fixed by a587e1a: a regression if it shows up again)
        return K_DESTROY_DBERR
    if name == 'create' and k is not None and k >= 2:
        return K_CREATE_AFTER_INSERT
    if name in ('createChild', 'createChain') and k is not None:
        chain = set()
        c = cname
        while c:
            chain.add(v.idx[c])
            c = CLS[c].get('parent')
        tok = stmt_token(v, t['log'][k - 1]) if k <= len(t['log']) else '?'
        if tok[0] == 'S' and int(tok[1:]) in chain:
            return K_INH_CREATE_AFTER_INSERT       # the read-back SELECT of one level failed
        if tok[0] == 'I':
            # an INSERT of the chain failed: the clean-up has to restore everything
            return K_INH_CREATE_BASEEXC if kind == 'i' else 'C06:unexpected:%s:insert-failure-not-cleaned:%s' % (name, where)
        return K_INH_CREATE_CLEANUP                # a statement of the clean-up itself failed
    if name == 'set' and any(isinstance(e, (list, tuple)) and e[0] == 'p' for e in op[4]):
        # a column inherited from an ancestor is assigned on the ancestor's instance (own UPDATE) after the
        # child's own values were validated and before the child's own UPDATE
        if any(x in ('bad', 'bad2') for _, x in op[3]):
            return 'C06:unexpected:set:inherited-column-written-although-an-own-value-is-invalid'
        return K_SET_PARENT_COL
    if name == 'set' and any(isinstance(e, (list, tuple)) for e in op[4]):
        # a ForeignKey given by object is written by its own UPDATE; the values are validated first
        return K_SET_FK_OBJ if out != 'Invalid' else 'C06:unexpected:set:fk-by-object-written-before-validation'
    if name == 'set' and CLS[cname].get('lazy') and out == 'TypeError':
        return K_LAZY_EXTRA                        # (fixed by bf075e4: a regression if it shows up again)
    return 'C06:unexpected:%s:%s:%s' % (name, out, where)


# ----------------------------------------------------------------------------- cases
def build(vi, history, copts=None, path=None):
    env = Env(vi, copts, path)
    for h in history:
        env.run(h)
    return env


# ----------------------------------------------------------------------------- transaction mode (file database)
_tmp = []


def tmp_path():
    """a fresh database file outside /repo and /verif (removed at exit)"""
    import atexit
    import shutil
    import tempfile
    if not _tmp:
        base = '/dev/shm' if os.path.isdir('/dev/shm') and os.access('/dev/shm', os.W_OK) else None
        d = tempfile.mkdtemp(prefix='c06_', dir=base)
        atexit.register(shutil.rmtree, d, True)
        _tmp.extend([d, 0])
    _tmp[1] += 1
    return os.path.join(_tmp[0], 'db%d.sqlite' % _tmp[1])


TX_OPTS = {'timeout': '0.05'}


def tx_trials(vi, history, op):
    """the same call inside a transaction on a FILE database (the transaction has a raw connection of its own);
    when it raises the application rolls back.  Clean, then an error at every statement."""
    res = []
    n = None
    for k in [None] + list(range(1, 40)):
        if k is not None and k > n:
            break
        path = tmp_path()
        env = build(vi, history, TX_OPTS, path)
        before = env.dump()
        env.begin()
        out, log = env.run(op, k)
        env.end(out)
        if k is None:
            n = len(log)
        res.append(dict(k=k, kind='o', out=out, log=log, env=env, before=before, n=n, path=path))
    return res


def oracle_tx(env, before, out):
    """C06 for a call in a transaction that is rolled back because the call raised: the database is what it was,
    and whatever the application reads from an instance it holds is what the row holds"""
    if out == 'ok':
        return []
    probs = []
    after = env.dump()
    if after['T'] != before['T']:
        probs.append('after the roll back the tables differ: %s' % diff(before['T'], after['T']))
    if after['L'] != before['L']:
        probs.append('after the roll back the link rows differ: %s' % diff(before['L'], after['L']))
    rows = {(c, i): vals for c, i, vals in after['T']}
    seen = set()
    for side, held in (('transaction', env.held), ('connection', env.main_held)):
        for (c, i), o in sorted(held.items()):
            if id(o) in seen or (c, i) not in rows:
                continue
            seen.add(id(o))
            pend = getattr(o, '_SO_createValues', None) or {}
            for j, name in enumerate(env.v.colnames[c]):
                if name in pend:
                    continue
                try:
                    x = canon_val(getattr(o, name))
                except Exception as e:
                    probs.append('reading %s#%d.%s (%s side) raises %s' % (env.v.order[c], i, name, side, type(e).__name__))
                    break
                if x != rows[(c, i)][j]:
                    probs.append('%s#%d (%s side%s) shows %s=%r, the row has %r'
                                 % (env.v.order[c], i, side, ', destroyed inside the transaction' if o.sqlmeta._obsolete else '',
                                    name, x, rows[(c, i)][j]))
    return probs


def trials_for(vi, history, op, copts=None):
    """run the case on the implementation: clean, then every k.  yields dicts"""
    v = variant(vi)
    env = build(vi, history, copts)
    bd, bs = env.dump(), env.snapshot()
    out, log = env.run(op)
    n = len(log)
    res = [dict(k=None, kind='o', out=out, log=log, env=env, before=bd, snap=bs, n=n, clean_out=out)]
    kinds = ['o']
    if op[0] in ('createChild', 'createChain'):
        kinds.append('i')
    for kind in kinds:
        for k in range(1, n + 1):
            e2 = build(vi, history, copts)
            bd2, bs2 = e2.dump(), e2.snapshot()
            o2, l2 = e2.run(op, k, kind)
            res.append(dict(k=k, kind=kind, out=o2, log=l2, env=e2, before=bd2, snap=bs2, n=n, clean_out=out))
    return res


def full_kw(v, c, given, rng=None):
    """validation order of a create: given keywords, then the defaulted columns in column order"""
    d = v.defaults(c)
    kw = list(given)
    have = {j for j, _ in given}
    missing = False
    for j, dv in enumerate(d):
        if j in have:
            continue
        if dv is _MISSING:
            missing = True
            continue
        kw.append((j, dv))
    return missing, kw


def mk_create(v, cname, /, **vals):
    c = v.idx[cname]
    names = [n for n, _ in CLS[cname]['cols']]
    given = [(names.index(k), x) for k, x in vals.items()]
    missing, kw = full_kw(v, c, given)
    return ['create', c, missing, kw, '']


def mk_child(v, a, b, cval=_MISSING):
    c, p = v.idx['Chi'], v.idx['Par']
    pkw = [(0, a), (1, 1)]
    given = [(0, b)] + ([(1, cval)] if cval is not _MISSING else [])
    _, ckw = full_kw(v, c, given)
    return ['createChild', c, pkw, ckw]


def mk_chain(v, a, b, g, x=_MISSING):
    """Gra(a=…, b=…, g=…): three levels; each non-leaf level validates its given keywords, then the
    childName it is handed, then its defaulted columns"""
    P, C, G = v.idx['Par'], v.idx['Chi'], v.idx['Gra']
    _, gkw = full_kw(v, G, [(0, g)] + ([(1, x)] if x is not _MISSING else []))
    return ['createChain', [[G, gkw], [C, [(0, b), (2, 2), (1, None)]], [P, [(0, a), (1, 1)]]],
            [[P, 0, a], [C, 0, b], [G, 0, g]] + ([[G, 1, x]] if x is not _MISSING else [])]


def directed(vi):
    """(name, history, op) — the known non-atomic failures first, then corner cases that must hold"""
    v = variant(vi)
    ix = v.idx
    A, F, B, C, D, E, H, Lz, Par, Chi, DC, DP = (ix[x] for x in ['A', 'F', 'B', 'C', 'D', 'E', 'H', 'Lz', 'Par', 'Chi', 'DC', 'DP'])
    K, Gra = ix['K'], ix['Gra']
    hA = [mk_create(v, 'A', n=1, u=1), mk_create(v, 'A', n=2, u=2)]
    out = []
    graph = hA + [mk_create(v, 'F', v=1), ['link', 0, 1, 1], mk_create(v, 'B', a=1), mk_create(v, 'E', b=1),
                  mk_create(v, 'C', a=1), mk_create(v, 'D', a=1), mk_create(v, 'H', a1=1, a2=None)]
    out.append(('destroy-refused', graph, ['destroy', A, 1]))
    out.append(('destroy-cascade-ok', hA + [mk_create(v, 'F', v=1), ['link', 0, 1, 1], mk_create(v, 'B', a=1),
                                            mk_create(v, 'E', b=1), mk_create(v, 'C', a=1), mk_create(v, 'H', a1=1, a2=1)],
                ['destroy', A, 1]))
    out.append(('destroy-mixed-restrict-cascade-not-refused', hA + [mk_create(v, 'G', a1=None, a2=1), mk_create(v, 'G', a1=2, a2=1)],
                ['destroy', A, 1]))
    out.append(('destroy-mixed-restrict-cascade-refused', hA + [mk_create(v, 'C', a=1), mk_create(v, 'G', a1=1, a2=None)],
                ['destroy', A, 1]))
    out.append(('destroy-restrict-only', hA + [mk_create(v, 'D', a=2)], ['destroy', A, 2]))
    out.append(('destroy-no-dependents', hA, ['destroy', A, 2]))
    out.append(('destroy-unfetched-dependents', hA + [mk_create(v, 'C', a=1), ['forget', C, 1], mk_create(v, 'B', a=1),
                                                     ['forget', B, 1], mk_create(v, 'D', a=1)], ['destroy', A, 1]))
    out.append(('create-ok', hA, mk_create(v, 'A', n=3, u=3)))
    out.append(('create-dup', hA, mk_create(v, 'A', n=2, u=3)))
    out.append(('create-bad', hA, mk_create(v, 'A', n=3, u='bad')))
    out.append(('create-null', hA, mk_create(v, 'A', n=3, s=None)))
    out.append(('create-check', hA, mk_create(v, 'A', n=3, m=100)))
    out.append(('create-missing', hA, mk_create(v, 'A', u=7)))
    op = mk_create(v, 'A', n=3)
    op[4] = 'u'
    out.append(('create-extra', hA, op))
    out.append(('set-ok', hA, ['set', A, 1, [(3, 5), (0, 7)], '']))
    out.append(('set-second-bad', hA, ['set', A, 1, [(3, 5), (0, 'bad')], '']))
    out.append(('set-dup', hA, ['set', A, 1, [(3, 5), (2, 2)], '']))
    out.append(('set-null', hA, ['set', A, 1, [(3, 5), (1, None)], '']))
    out.append(('set-check', hA, ['set', A, 1, [(0, 9), (3, 100)], '']))
    out.append(('set-extra-unknown', hA, ['set', A, 1, [(3, 5)], 'u']))
    out.append(('set-extra-badprop', hA, ['set', A, 1, [(3, 5)], 'ob']))
    out.append(('set-extra-ok', hA, ['set', A, 1, [(3, 5)], 'o']))
    out.append(('set-empty', hA, ['set', A, 1, [], '']))
    out.append(('setattr-dup', hA, ['setattr', A, 1, 0, 2]))
    out.append(('setattr-bad', hA, ['setattr', A, 1, 3, 'bad']))
    out.append(('setattr-ok', hA, ['setattr', A, 1, 3, 4]))
    # a value that from_python accepts and to_python rejects (validation step 2): before any statement
    out.append(('setattr-bad2', hA, ['setattr', A, 1, 4, 'bad2']))
    out.append(('set-bad2-last', hA, ['set', A, 1, [(3, 5), (0, 7), (4, 'bad2')], '']))
    out.append(('set-bad2-first', hA, ['set', A, 1, [(4, 'bad2'), (3, 5)], '']))
    out.append(('create-bad2', hA, mk_create(v, 'A', n=3, x='bad2')))
    out.append(('setattr-asym-ok', hA, ['setattr', A, 1, 4, 5]))
    hL = [mk_create(v, 'Lz', n=1, m=1), mk_create(v, 'Lz', n=2, m=2)]
    out.append(('lazy-setattr-bad2', hL, ['setattr', Lz, 1, 2, 'bad2']))
    out.append(('lazy-set-bad2', hL, ['set', Lz, 1, [(1, 5), (2, 'bad2')], '']))
    out.append(('lazy-create-bad2', hL, mk_create(v, 'Lz', n=3, x='bad2')))
    out.append(('lazy-set-extra', hL, ['set', Lz, 1, [(1, 5)], 'u']))
    out.append(('lazy-set-bad', hL, ['set', Lz, 1, [(1, 5), (0, 'bad')], '']))
    out.append(('lazy-sync-dup', hL + [['set', Lz, 1, [(0, 2), (1, 9)], '']], ['sync', Lz, 1]))
    out.append(('lazy-sync-ok', hL + [['setattr', Lz, 1, 1, 9]], ['sync', Lz, 1]))
    out.append(('lazy-sync-nothing', hL, ['sync', Lz, 1]))
    hB = hA + [mk_create(v, 'B', a=1, w=1), mk_create(v, 'B', a=1, w=2)]
    out.append(('set-fkobj-ok', hB, ['set', B, 1, [(1, 5)], [['f', 0, 2]]]))
    out.append(('set-fkobj-dup', hB, ['set', B, 1, [(1, 2)], [['f', 0, 2]]]))
    out.append(('set-fkobj-bad', hB, ['set', B, 1, [(1, 'bad')], [['f', 0, 2]]]))
    out.append(('set-fkobj-only', hB, ['set', B, 1, [], [['f', 0, 2]]]))
    out.append(('destroy-null-and-restrict-in-one-class', hA + [mk_create(v, 'K', a1=1, a2=1), mk_create(v, 'K', a1=1, a2=None)],
                ['destroy', A, 1]))
    out.append(('destroy-null-and-restrict-in-one-class-not-refused', hA + [mk_create(v, 'K', a1=1, a2=2), mk_create(v, 'K', a1=1, a2=None)],
                ['destroy', A, 1]))
    LC = ix['LC']
    out.append(('destroy-lazy-referrer', hA + [mk_create(v, 'LC', a=1, m=1), mk_create(v, 'LC', a=1, m=2), ['forget', LC, 2]],
                ['destroy', A, 1]))
    out.append(('destroy-lazy-referrer-with-pending', hA + [mk_create(v, 'LC', a=1, m=1), ['set', LC, 1, [(1, 7)], ''],
                                                            mk_create(v, 'LC', a=2, m=2), ['set', LC, 2, [(0, 1)], '']],
                ['destroy', A, 1]))
    hG = [mk_chain(v, 1, 1, 1)]
    out.append(('chain3-ok', hG, mk_chain(v, 2, 2, 2)))
    out.append(('chain3-dup-leaf', hG, mk_chain(v, 2, 2, 1)))
    out.append(('chain3-dup-mid', hG, mk_chain(v, 2, 1, 2)))
    out.append(('chain3-bad-leaf', hG, mk_chain(v, 2, 2, 'bad')))
    out.append(('chain3-bad2-leaf', hG, mk_chain(v, 2, 2, 2, 'bad2')))
    out.append(('chain3-destroy', hG + [mk_create(v, 'DP', ref=1)], ['destroy', Gra, 1]))
    out.append(('chain3-destroy-refused', hG + [mk_create(v, 'DC', ref=1)], ['destroy', Gra, 1]))
    hI2 = [mk_child(v, 1, 1), mk_child(v, 2, 2)]
    out.append(('child-set-both-levels-ok', hI2, ['set', Chi, 1, [(1, 5)], [['p', Par, 0, 7]]]))
    out.append(('child-set-own-invalid', hI2, ['set', Chi, 1, [(1, 'bad')], [['p', Par, 0, 7]]]))
    out.append(('child-set-own-invalid-step2-order', hI2, ['set', Chi, 1, [(0, 5), (1, 'bad')], [['p', Par, 0, 7]]]))
    out.append(('child-set-own-dup', hI2, ['set', Chi, 1, [(0, 2)], [['p', Par, 0, 7]]]))
    out.append(('child-set-parent-invalid', hI2, ['set', Chi, 1, [(1, 5)], [['p', Par, 0, 'bad']]]))
    out.append(('child-set-parent-dup', hI2, ['set', Chi, 1, [(1, 5)], [['p', Par, 0, 2]]]))
    out.append(('grandchild-set-three-levels', [mk_chain(v, 1, 1, 1), mk_chain(v, 2, 2, 2)],
                ['set', Gra, 1, [(1, 'bad2')], [['p', Par, 0, 7], ['p', Chi, 1, 5]]]))
    hI = [mk_child(v, 1, 1)]
    out.append(('child-ok', hI, mk_child(v, 2, 2)))
    out.append(('child-dup-child', hI, mk_child(v, 2, 1)))
    out.append(('child-dup-parent', hI, mk_child(v, 1, 2)))
    out.append(('child-bad', hI, mk_child(v, 2, 'bad')))
    out.append(('child-check', hI, mk_child(v, 2, 2, 100)))
    out.append(('child-ok-with-parent-dependents', hI + [mk_create(v, 'DP', ref=1)], mk_child(v, 2, 2)))
    out.append(('child-destroy-refused', hI + [mk_create(v, 'DC', ref=1)], ['destroy', Chi, 1]))
    out.append(('child-destroy-ok', hI + [mk_create(v, 'DP', ref=1)], ['destroy', Chi, 1]))
    return out


def random_case(ctx, vi):
    rng = ctx.rng
    v = variant(vi)
    ix = v.idx
    hist = []
    nA = rng.randint(1, 3)
    for i in range(1, nA + 1):
        hist.append(mk_create(v, 'A', n=i, u=rng.choice([None, i]), m=rng.choice([None, i])))
    ids = {'A': list(range(1, nA + 1))}
    forgot = set()
    nF = rng.randint(0, 2)
    for i in range(1, nF + 1):
        hist.append(mk_create(v, 'F', v=i))
        for a in ids['A']:
            if rng.random() < 0.5:
                hist.append(['link', 0, a, i])
    ids['F'] = list(range(1, nF + 1))
    for dep in ['B', 'C', 'D', 'N', 'H', 'G', 'K', 'LC']:
        ids[dep] = []
        p = 0.25 if dep == 'D' else 0.6
        for _ in range(rng.randint(0, 2)):
            if rng.random() > p:
                continue
            a = rng.choice(ids['A'] + [None])
            i = len(ids[dep]) + 1
            if dep == 'H':
                hist.append(mk_create(v, 'H', a1=a, a2=rng.choice(ids['A'] + [None])))
            elif dep == 'G':
                hist.append(mk_create(v, 'G', a1=rng.choice([None, None, a]), a2=rng.choice(ids['A'] + [None])))
            elif dep == 'K':
                hist.append(mk_create(v, 'K', a1=a, a2=rng.choice([None, None, a] + ids['A'])))
            elif dep == 'B':
                hist.append(mk_create(v, 'B', a=a, w=rng.choice([None, i])))
            else:
                hist.append(mk_create(v, dep, a=a))
            ids[dep].append(i)
            if dep == 'LC' and rng.random() < 0.5:
                # something else pending on the lazy referrer (written together with the NULL by syncUpdate)
                hist.append(['set', ix['LC'], i, [(1, rng.randint(3, 9))] + ([(0, rng.choice(ids['A']))] if rng.random() < 0.3 else []), ''])
                continue
            if rng.random() < 0.3:
                hist.append(['forget', ix[dep], i])
                forgot.add((dep, i))
    ids['E'] = []
    for b in ids['B']:
        if rng.random() < 0.5:
            hist.append(mk_create(v, 'E', b=b))
            ids['E'].append(len(ids['E']) + 1)
    nL = rng.randint(0, 2)
    for i in range(1, nL + 1):
        hist.append(mk_create(v, 'Lz', n=i, m=i))
        if rng.random() < 0.4:
            hist.append(['set', ix['Lz'], i, [(1, rng.randint(3, 9))], ''])
    ids['Lz'] = list(range(1, nL + 1))
    nC = rng.randint(0, 2)
    ids['Gra'] = []
    ids['Chi'] = []
    for i in range(1, nC + 1):
        if rng.random() < 0.35:
            hist.append(mk_chain(v, i, i, i))
            ids['Gra'].append(i)
        else:
            hist.append(mk_child(v, i, i, rng.choice([None, i])))
            ids['Chi'].append(i)
        if rng.random() < 0.3:
            hist.append(mk_create(v, 'DC', ref=i))
        if rng.random() < 0.3:
            hist.append(mk_create(v, 'DP', ref=i))

    def val(col_kind, own=None):
        r = rng.random()
        if r < 0.15:
            return 'bad'
        if col_kind == 'alt':
            return rng.choice([1, 2, 3, 7, 8, None])
        if col_kind == 'notnull':
            return rng.choice([None, 2, 3])
        if col_kind == 'unique':
            return rng.choice([None, 1, 2, 3, 9])
        if col_kind == 'asym':
            return rng.choice([None, 5, 6, 'bad2', 'bad2'])
        return rng.choice([None, 5, 99, 100, 150])
    kinds_A = ['alt', 'notnull', 'unique', 'check', 'asym']
    r = rng.random()
    if r < 0.22:
        cols = rng.sample(range(5), rng.randint(1, 4))
        ex = rng.choice(['', '', '', 'u', 'o', 'b', 'ob', 'bu'])
        op = ['set', ix['A'], rng.choice(ids['A']), [(j, val(kinds_A[j])) for j in cols], ex]
    elif r < 0.30:
        j = rng.randint(0, 4)
        op = ['setattr', ix['A'], rng.choice(ids['A']), j, val(kinds_A[j])]
    elif r < 0.42 and ids['Lz']:
        i = rng.choice(ids['Lz'])
        q = rng.random()
        if q < 0.4:
            op = ['sync', ix['Lz'], i]
        elif q < 0.8:
            op = ['set', ix['Lz'], i, [(j, val(['alt', 'check', 'asym'][j])) for j in rng.sample(range(3), rng.randint(1, 3))],
                  rng.choice(['', '', 'u', 'b', 'o', 'bu', 'ou'])]
        else:
            j = rng.choice([1, 2])
            op = ['setattr', ix['Lz'], i, j, val(['alt', 'check', 'asym'][j])]
    elif r < 0.54:
        given = {}
        for j, nm in enumerate(['n', 's', 'u', 'm', 'x']):
            if nm == 'n' and rng.random() < 0.9 or nm != 'n' and rng.random() < 0.5:
                given[nm] = val(kinds_A[j])
        items = list(given.items())
        rng.shuffle(items)
        op = mk_create(v, 'A', **dict(items))
        op[4] = rng.choice(['', '', '', 'u', 'o', 'bu'])
    elif r < 0.58 and [b for b in ids['B'] if ('B', b) not in forgot]:
        b = rng.choice([b for b in ids['B'] if ('B', b) not in forgot])
        ex = [['f', 0, rng.choice(ids['A'] + [None])]]
        q = rng.random()
        if q < 0.2:
            ex = ['o'] + ex
        elif q < 0.35:
            ex = ex + ['b']
        elif q < 0.45:
            ex = ex + ['u']
        kw = [] if rng.random() < 0.2 else [(1, rng.choice([None, 1, 2, 7, 'bad', 'bad']))]
        op = ['set', ix['B'], b, kw, ex]
    elif r < 0.61 and ids['Chi']:
        own = rng.choice([[(1, rng.choice([None, 5, 100, 'bad']))], [(0, rng.choice([1, 2, 7, 'bad']))], []])
        op = ['set', ix['Chi'], rng.choice(ids['Chi']), own, [['p', ix['Par'], 0, rng.choice([1, 2, 8, 9, 'bad'])]]]
    elif r < 0.63:
        op = mk_chain(v, val('alt'), val('alt'), val('alt'), rng.choice([_MISSING, _MISSING, 5, 'bad2']))
    elif r < 0.70:
        op = mk_child(v, val('alt'), val('alt'), rng.choice([_MISSING, None, 5, 100, 'bad']))
    elif r < 0.92:
        op = ['destroy', ix['A'], rng.choice(ids['A'])]
    elif ids['Gra'] and rng.random() < 0.5:
        op = ['destroy', ix['Gra'], rng.choice(ids['Gra'])]
    elif ids['Chi']:
        op = ['destroy', ix['Chi'], rng.choice(ids['Chi'])]
    elif [b for b in ids['B'] if ('B', b) not in forgot]:
        op = ['destroy', ix['B'], rng.choice([b for b in ids['B'] if ('B', b) not in forgot])]
    else:
        op = ['destroy', ix['A'], rng.choice(ids['A'])]
    return hist, op


def jsonable(x):
    if isinstance(x, (list, tuple)):
        return [jsonable(y) for y in x]
    return x


def op_rename(op, f):
    """apply f to every class reference of an operation (corpus files name classes, the harness indexes them)"""
    op = list(op)
    name = op[0]
    if name == 'link':
        return op
    if name == 'createChain':
        op[1] = [[f(c), kw] for c, kw in op[1]]
        op[2] = [[f(c), j, x] for c, j, x in op[2]]
        return op
    op[1] = f(op[1])
    if name == 'set':
        op[4] = [[e[0], f(e[1])] + list(e[2:]) if isinstance(e, (list, tuple)) and e[0] == 'p' else e for e in op[4]]
    return op


def load_corpus():
    out = []
    d = os.path.join(os.path.dirname(os.path.dirname(os.path.abspath(__file__))), 'corpus', 'C06')
    for path in sorted(glob.glob(os.path.join(d, '*.json'))):
        for case in json.load(open(path)):
            ix = variant(case['variant']).idx
            out.append((os.path.basename(path) + ':' + case.get('name', '?'), case['variant'],
                        [op_rename(h, ix.__getitem__) for h in case['history']], op_rename(case['op'], ix.__getitem__)))
    return out


def un_json(x):
    """lists from JSON back to the shapes the generator makes ((col, value) pairs stay lists: fine)"""
    return x


MISSING_ARG_CASES = [
    # (name, leaf class, keywords given): one REQUIRED keyword of one level is missing
    ('child-level', 'Chi', {'a': 5}),
    ('root-level', 'Chi', {'b': 5}),
    ('leaf-level of three', 'Gra', {'a': 5, 'b': 5}),
    ('mid-level of three', 'Gra', {'a': 5, 'g': 5}),
    ('root-level of three', 'Gra', {'b': 5, 'g': 5}),
]


def missing_argument_case(vi, level, leaf, kw, mode):
    """an inheritable create with a missing required keyword raises TypeError; afterwards nothing is left behind:
    no row at any level, no registered instance.  mode 'plain': default connection (in-memory);
    'transaction': FILE database, `connection=<Transaction>`, and the application COMMITS afterwards (it caught the
    TypeError and goes on).  Returns (outcome, problems)."""
    v = variant(vi)
    hist = [mk_chain(v, 1, 1, 1), mk_child(v, 2, 2)]
    env = build(vi, hist, TX_OPTS if mode == 'transaction' else None, tmp_path() if mode == 'transaction' else None)
    chain = [v.idx[n] for n in ('Par', 'Chi', 'Gra')]
    cache_owner = env.conn
    ckw = {}
    if mode == 'transaction':
        env.trans = env.conn.transaction()
        cache_owner = env.trans
        ckw = {'connection': env.trans}

    def state():
        d = env.dump() if mode == 'transaction' else dict(env.dump(), I=[])
        reg = sorted((c, o.id) for c in chain for o in cache_owner.cache.getAll(v.classes[c]))
        return d['T'], d['L'], reg
    before = state()
    env.conn.arm(None)
    try:
        v.classes[v.idx[leaf]](**dict(kw, **ckw))
        out = 'ok'
    except BaseException as e:
        out = err_name(e)
    if mode == 'transaction':
        env.trans.commit()
    after = state()
    probs = []
    if out != 'TypeError':
        probs.append('expected TypeError for the missing keyword, got %s' % out)
    if after[0] != before[0]:
        probs.append('rows left behind%s: %s' % (' (committed with the transaction)' if mode == 'transaction' else '', diff(before[0], after[0])))
    if after[2] != before[2]:
        probs.append('registered instances changed: %s' % diff(before[2], after[2]))
    env.close() if mode == 'transaction' else None
    return out, probs


def run_missing_argument_cases(ctx):
    for vi in range(len(ORDERS)):
        for level, leaf, kw in MISSING_ARG_CASES:
            for mode in ('plain', 'transaction'):
                try:
                    out, probs = missing_argument_case(vi, level, leaf, kw, mode)
                except Exception as e:
                    ctx.note('missing-argument case %s/%s could not be run: %r' % (level, mode, e))
                    continue
                ctx.case(('missing-arg', vi, level, mode), nontrivial=True, kind='inheritable-create-missing-argument/%s/%s' % (mode, out))
                if probs:
                    # judged apart from the listed database-error findings of inheritable create: a missing-argument
                    # TypeError is raised before any INSERT on the unchanged tree
                    ctx.oracle_fail('C06:unexpected:inheritable-create-missing-argument:%s:%s' % (level.replace(' ', '-'), mode),
                                    '%s(%s) with a required keyword missing (%s, %s) raised %s but: %s'
                                    % (leaf, ', '.join('%s=%r' % x for x in sorted(kw.items())), level, mode, out, '; '.join(probs)),
                                    {'missing_arg': True, 'variant': vi, 'level': level, 'leaf': leaf, 'kw': kw, 'mode': mode})


def run(ctx):
    sqlo.setup()
    run_missing_argument_cases(ctx)
    cases = []
    for name, vi, hist, op in load_corpus():
        cases.append(('corpus:' + name, vi, hist, op))
    for vi in range(len(ORDERS)):
        for name, hist, op in directed(vi):
            cases.append(('directed:' + name, vi, hist, op))
    nrand = ctx.budget(600, 9000)
    for i in range(nrand):
        vi = i % len(ORDERS)
        hist, op = random_case(ctx, vi)
        cases.append(('random', vi, hist, op))

    lines = []
    expect = []     # (line index, trial, case descriptor)
    seen_keys = set()
    # the connection as connectionForURI builds it from these query strings: all equivalent to the default
    COPTS = [{}, {'autoCommit': '0'}, {'autoCommit': '1'}, {'cache': '1', 'autoCommit': 'false'}]
    fixed = sum(1 for c in cases if c[0] != 'random')
    for cidx, (cname, vi, hist, op) in enumerate(cases):
        v = variant(vi)
        copts = COPTS[cidx % len(COPTS)] if cname == 'random' else COPTS[(cidx // 2) % 2]
        if (cname != 'random' and vi == 0) or (cname == 'random' and cidx % 12 == 0):
            run_tx_case(ctx, cname, vi, hist, op, seen_keys)
            side_tx_case(ctx, cname, vi, hist, op, seen_keys)
        try:
            trials = trials_for(vi, hist, op, copts)
        except Exception as e:   # the harness itself could not build the state
            ctx.note('case %s could not be built: %r' % (cname, e))
            continue
        lines.append(v.schema_line())
        for h in hist:
            lines.append(op_line(h))
        lines.append('save')
        for t in trials:
            lines.append('load')
            lines.append(op_line(op, t['k'], t['kind']))
            desc = {'name': cname, 'variant': vi, 'history': jsonable(hist), 'op': jsonable(op), 'k': t['k'], 'kind': t['kind'],
                    'copts': copts}
            expect.append((len(lines) - 1, t, desc, v))
            env = t['env']
            probs = oracle(env, t['before'], t['snap'], t['out'])
            ctx.case((vi, repr(hist), repr(op), t['k'], t['kind']), nontrivial=(t['out'] != 'ok'),
                     sample={'case': desc, 'outcome': t['out'], 'statements': len(t['log'])},
                     kind='%s/%s%s' % (op[0], t['out'], '' if t['k'] is None else '/inj'))
            if probs and t['out'] == 'AttributeError':
                # raised by the application's own property setter inside set(): not a failure of the ORM's write
                ctx.count('out-of-scope: application setter raised inside set()')
                probs = []
            if probs:
                key = classify(v, op, t, probs, env.dump())
                if key not in seen_keys or key.startswith('C06:unexpected'):
                    seen_keys.add(key)
                    ctx.oracle_fail(key, '%s raised %s%s but: %s'
                                    % (op[0], t['out'], '' if t['k'] is None else ' (error injected at statement %d of %d)' % (t['k'], t['n']),
                                       '; '.join(probs[:4])), desc)
                ctx.count('non-atomic:' + key)
    gc.collect()     # interrupted iterations die while their connections are still open (no noise at exit)
    outs = ctx.model(lines)
    if outs is None:
        return
    for li, t, desc, v in expect:
        ans = outs[li]
        parts = ans.split(' # ')
        if len(parts) != 4:
            ctx.compare('model answer well-formed', desc, ans, 'outcome # log # changes # dump')
            continue
        m_out, m_log, m_changes, m_dump = parts
        m_changes, _, m_syn = m_changes.strip().partition(' ')
        ctx.compare('outcome: model = implementation', desc, m_out, t['out'])
        ctx.compare('statement sequence: model = implementation', desc, m_log.strip(),
                    ' '.join(stmt_token(v, q) for q in t['log']))
        after = t['env'].dump()
        ctx.compare('state after the call: model = implementation', desc,
                    repr(parse_model_dump(m_dump)), repr(after))
        # the model's own claim (theorem C06_frame) observed: no change counted <-> nothing changed
        if t['out'] != 'ok':
            same = (after == t['before'])
            quiet = (m_changes.strip() == '0')
            # theorem C06_failed_op_is_noop_syntactic observed on the implementation: the syntactic condition,
            # decided by the model on the state before the call, implies that the failed real call changed nothing
            if m_syn == 'syn':
                ctx.compare('AtomicSyn (decided before the call) => the failed call was a no-op on the implementation', desc,
                            'noop', 'noop' if same else 'changed')
            ctx.count('failed %s: %s, %s' % (desc['op'][0], 'AtomicSyn' if m_syn == 'syn' else 'in the gap', 'no-op' if same else 'CHANGED'))
            if os.environ.get('C06_DEBUG') and m_syn != 'syn' and same:
                cidx = desc['op'][1] if desc['op'][0] != 'createChain' else desc['op'][1][0][0]
                ctx.count('DBG gap/no-op %s %s %s %s' % (desc['op'][0], v.order[cidx], t['out'], 'clean' if t['k'] is None else ('k=1' if t['k'] == 1 else 'k>1')))
            if desc['op'][0] in ('createChild', 'createChain') and not quiet:
                continue     # insert-then-clean-up is a do/undo sequence: changes counted, state restored
            ctx.compare('no completed micro-step changed anything (C06_frame) iff the failed call was a no-op', desc,
                        'noop' if quiet else 'changed', 'noop' if same else 'changed')


def side_tx_case(ctx, cname, vi, hist, op, seen_keys):
    """IN-MEMORY database (one shared raw connection): a Transaction is open with uncommitted work (an insert and an
    update made through it) while a write through the PLAIN connection fails (invalid value, constraint, injected error
    at its only statement).  The failed write must change nothing: not the rows the transaction wrote, not what the
    instances held on the transaction's side show."""
    if op[0] not in ('setattr', 'set', 'create', 'sync') or (op[0] == 'set' and any(isinstance(e, (list, tuple)) for e in op[4])):
        return
    for k in (None, 1):
        try:
            env = build(vi, hist)
            v = env.v
            A = v.idx['A']
            trans = env.conn.transaction()
            env.trans = trans          # (dump(): stored rows only; close(): rolls it back)
            txheld = {}
            o = v.classes[A](n=900 + len(hist), connection=trans)
            txheld[(A, o.id)] = o
            for (c, i), m in sorted(env.held.items()):
                if c == A and not m.sqlmeta._obsolete:
                    t = v.classes[A].get(i, connection=trans)
                    t.m = 42
                    txheld[(c, i)] = t
                    break
        except Exception as e:
            ctx.note('open-transaction case %s could not be built: %r' % (cname, e))
            return
        before = env.dump()
        out, log = env.run(op, k)
        ctx.case(('sidetx', vi, repr(hist), repr(op), k), nontrivial=(out != 'ok'),
                 kind='open-tx:%s/%s%s' % (op[0], out, '' if k is None else '/inj'))
        if out not in ('ok', 'AttributeError'):
            probs = []
            after = env.dump()
            if after['T'] != before['T']:
                probs.append('rows changed (the open transaction had written some of them): %s' % diff(before['T'], after['T']))
            if after['L'] != before['L']:
                probs.append('link rows changed: %s' % diff(before['L'], after['L']))
            rows = {(c, i): vals for c, i, vals in after['T']}
            for (c, i), o in sorted(txheld.items()):
                if (c, i) not in rows:
                    probs.append('%s#%d, held on the transaction\'s side, has no row any more' % (v.order[c], i))
                    continue
                for j, name in enumerate(v.colnames[c]):
                    try:
                        x = canon_val(getattr(o, name))
                    except Exception as e:
                        probs.append('reading %s#%d.%s on the transaction\'s side raises %s' % (v.order[c], i, name, type(e).__name__))
                        break
                    if x != rows[(c, i)][j]:
                        probs.append('%s#%d on the transaction\'s side shows %s=%r, the row has %r' % (v.order[c], i, name, x, rows[(c, i)][j]))
            if probs:
                key = 'C06:unexpected:open-transaction-on-the-shared-connection:%s:%s' % (op[0], out)
                desc = {'name': cname, 'variant': vi, 'history': jsonable(hist), 'op': jsonable(op), 'k': k, 'kind': 'o', 'sidetx': True}
                if key not in seen_keys or len(seen_keys) < 40:
                    seen_keys.add(key)
                    ctx.oracle_fail(key, '%s through the plain connection raised %s%s while a transaction with uncommitted work was open '
                                    '(in-memory database), but: %s' % (op[0], out, '' if k is None else ' (error injected at statement 1)',
                                                                         '; '.join(probs[:4])), desc)
        env.close()


def run_tx_case(ctx, cname, vi, hist, op, seen_keys):
    try:
        trials = tx_trials(vi, hist, op)
    except Exception as e:
        ctx.note('transaction case %s could not be built: %r' % (cname, e))
        return
    for t in trials:
        desc = {'name': cname, 'variant': vi, 'history': jsonable(hist), 'op': jsonable(op), 'k': t['k'], 'kind': 'o', 'tx': True}
        probs = oracle_tx(t['env'], t['before'], t['out'])
        ctx.case(('tx', vi, repr(hist), repr(op), t['k']), nontrivial=(t['out'] != 'ok'),
                 kind='tx:%s/%s%s' % (op[0], t['out'], '' if t['k'] is None else '/inj'))
        if probs and t['out'] != 'AttributeError':
            key = 'C06:unexpected:in-transaction-rolled-back:%s:%s' % (op[0], t['out'])
            if op[0] == 'destroy' and all('destroyed inside the transaction' in p for p in probs):
                # the roll back does not reach instances that destroySelf already dropped from the transaction's cache
                key = K_TX_DESTROYED_STALE
            if key not in seen_keys or len(seen_keys) < 40:
                seen_keys.add(key)
                ctx.oracle_fail(key, '%s in a transaction raised %s%s, the application rolled back, but: %s'
                                % (op[0], t['out'], '' if t['k'] is None else ' (error injected at statement %d of %d)' % (t['k'], t['n']),
                                   '; '.join(probs[:4])), desc)
        t['env'].close()
        t['env'] = None
        try:
            os.unlink(t['path'])
        except OSError:
            pass


def replay(case):
    sqlo.setup()
    if case.get('missing_arg'):
        out, probs = missing_argument_case(case['variant'], case['level'], case['leaf'], case['kw'], case['mode'])
        text = ['%s(**%r) on the %s: one required keyword (%s) is missing' % (case['leaf'], case['kw'],
                'default connection' if case['mode'] == 'plain' else 'FILE database through a Transaction that is committed afterwards', case['level']),
                'outcome: %s' % out]
        text += ['PROPERTY FAILS: ' + p for p in probs] or ['property holds for this case']
        return (not probs), '\n'.join(text)
    vi, hist, op = case['variant'], case['history'], case['op']
    if case.get('sidetx'):
        class _C(object):
            def __init__(self):
                self.fails = []
                self.notes = []

            def case(self, *a, **k):
                pass

            def note(self, t):
                self.notes.append(t)

            def oracle_fail(self, key, what, case):
                self.fails.append(what)
        c = _C()
        only = case.get('k')
        side_tx_case(c, case.get('name', 'replay'), vi, hist, op, set())
        text = ['IN-MEMORY database, a transaction with uncommitted work is open, the call goes through the plain connection',
                'history: %s' % (hist,), 'operation: %s (uninjected and with an error at statement 1)' % (op,)]
        text += ['PROPERTY FAILS: ' + w for w in c.fails] or ['property holds for this case'] + c.notes
        return (not c.fails), '\n'.join(text)
    if case.get('tx'):
        env = build(vi, hist, TX_OPTS, tmp_path())
        before = env.dump()
        env.begin()
        out, log = env.run(op, case.get('k'))
        env.end(out)
        probs = oracle_tx(env, before, out)
        text = ['FILE database, call inside a transaction, rolled back when it raises', 'history: %s' % (hist,),
                'operation: %s  inject=%s' % (op, case.get('k')), 'outcome: %s' % out, 'statements: %s' % (log,)]
        text += ['PROPERTY FAILS: ' + p for p in probs] or ['property holds for this case']
        return (not probs), '\n'.join(text)
    env = build(vi, hist, case.get('copts'))
    bd, bs = env.dump(), env.snapshot()
    out, log = env.run(op, case.get('k'), case.get('kind', 'o'))
    probs = oracle(env, bd, bs, out)
    text = ['variant %d (registry order %s)' % (vi, ' '.join(ORDERS[vi])), 'history: %s' % (hist,), 'operation: %s  inject=%s%s'
            % (op, case.get('k'), case.get('kind', 'o')), 'outcome: %s' % out, 'statements: %s' % (log,)]
    text += ['PROPERTY FAILS: ' + p for p in probs] or ['property holds for this case']
    return (not probs), '\n'.join(text)
