"""C13 — join accessors always mirror the stored relation.

correspondence: histories of create / fk-assign / add / remove (from either side) / destroySelf over 2-3 dynamically
created classes (incl. a self-referential many-to-many declared from both sides and link tables with the default
name computed by both sides); after every step every accessor of every live object — MultipleJoin,
SQLMultipleJoin, SingleJoin, RelatedJoin, SQLRelatedJoin, each with an orderBy drawn from None / 'x' / '-x' /
multi-key lists — is compared with the Lean model driver (`drv_c13`).
oracle: raw SELECTs on the foreign-key columns and link tables (multiset of ids), sortedness under the declared
orderBy (None least, '-' descending, first key most significant), symmetry of the two sides, agreement of the
list and query flavours, SingleJoin None iff no referencing row.
"""
import glob
import json
import os
from collections import Counter

from vlib import sqlo

PROP = 'C13'
META = {
    'extractors': ['graph', 'pyjoins'],
    'technique': ('Lean 4 proof (stable insertion sort: permutation + lexicographic sortedness + stability for every key list; '
                  'multiset symmetry of the two sides of a link table; add/remove/accessor algebra) + TRANSLATION of joins.py '
                  '(doSort, getID, _applyOrderBy, the performJoin / add / remove / __get__ / wrapper methods) into a deep embedding, proved '
                  'equal to the hand model by symbolic execution + differential correspondence on histories'),
    'level_text': ('Theorems C13_*: for every stored relation (hence after every history) the one-to-many accessors return exactly '
                   'the rows whose key is the owner, in the declared ordering (doSort proved a stable lexicographic sort for any key '
                   'list); many-to-many accessors are symmetric with multiplicity; add/remove move exactly the addressed pair on both '
                   'sides; SingleJoin is None iff nothing references the owner; both sides compute the same default link table name. '
                   'The accessor model is compared with the real joins after every step of generated histories.'),
    'level_note': ('Trusted: Lean kernel; the harness; SQLite executing the accessor queries (ORDER BY with NULLs first, rowid order '
                   'without ORDER BY); CPython list.sort stability (cross-checked on every list-flavoured result).'),
    'rule': ('case = one history step (schema, op prefix); every accessor of every live object is checked after it; distinct = distinct '
             '(schema, history prefix); non-trivial = some accessor returned a non-empty result'),
    'trusted': ['the link-table statements (_SO_intermediateInsert/Delete/Join templates and the way SORelatedJoin.add/remove/performJoin call them) '
                'are read from the AST into Extracted/Graph.lean; related/addLink/removeLink interpret the extracted (column, value) lists',
                'Model/Joins.lean mirrors doSort, SingleJoin and MultipleJoin by hand; vlib/extractors/pyjoins.py translates the Python '
                'functions on every run and C13_translated_*_eq_model prove them equal to that model (interface assumptions: header of '
                'Model/JoinsX.lean); SOSQLRelatedJoin.performJoin, _OneToManySelectWrapper.create, _dbNameToPythonName and the '
                'constructors stay hand-modelled / assumed (tied by the correspondence run)',
                'SQL ORDER BY is specified as "some sorted permutation" (ties unspecified); SQLite is observed, not verified'],
    'modelled': ['SQLite (row order without ORDER BY = rowid order; NULLS FIRST ascending)', 'CPython list.sort (stable, reverse keeps ties in order)'],
    'assumptions': ['a one-sided RelatedJoin / SQLRelatedJoin may be added to an existing class at run time (sqlmeta.addJoin) in the middle of a '
                    'history, after the classes were used; the inheritance scenario also runs through a transaction on a file-backed database '
                    '(objects fetched with connection=tx, raw SELECTs inside the transaction)',
                    'joins on InheritableSQLObject hierarchies (2-3 levels, every level may declare one-to-many / single / many-to-many joins with a '
                    'plain class; objects are used through their most derived class, so ancestor joins go through the forwarding accessors and '
                    'add/remove methods) are checked by the raw-SELECT oracle only; the Lean model has no inheritance',
                    'orderBy items are attribute names with optional "-" (no SQL expressions)', 'ids are integers; objects are not per-connection instances'],
    'exhaustive': False,
}

NAMES = ['A', 'B', 'C']
POL = {'c': True, 'r': False, 'n': 'null', 'k': None}
ORDERS = [None, ['a0'], ['d0'], ['a0', 'a1'], ['d1', 'a0'], ['a1', 'd0'], ['a1'], ['d0', 'a1'], ['d0', 'd1'], ['d1', 'a0', 'a1'], ['a0', 'd1', 'a0']]
K_DOSORT = 'C13:doSort-multikey-priority-reversed'

_built = {}


def py_order(keys):
    if keys is None:
        return None
    names = [('-' if k[0] == 'd' else '') + 'xy'[int(k[1:])] for k in keys]
    return names[0] if len(names) == 1 else names


def build(schema):
    key = json.dumps(schema)
    has_late = any(a.get('late') for a in schema['accessors'])
    if key in _built and not has_late:     # a run-time addJoin changes the classes: build them afresh every time
        return _built[key]
    sqlo.setup()
    from sqlobject import SQLObject, ForeignKey, IntCol, RelatedJoin, SQLRelatedJoin, MultipleJoin, SQLMultipleJoin, SingleJoin
    from sqlobject.joins import ManyToMany, OneToMany
    reg = sqlo.uniq('c13reg')
    conn = sqlo.mem_conn()
    classes = schema['classes']
    dicts = [{'sqlmeta': type('sqlmeta', (), {'registry': reg, 'lazyUpdate': bool(cd.get('lazy'))}), '_connection': conn,
              'x': IntCol(default=None), 'y': IntCol(default=None)} for cd in classes]
    for k, cd in enumerate(classes):
        for f, (t, p) in enumerate(cd['fks']):
            dicts[k]['f%d' % f] = ForeignKey(NAMES[t], cascade=POL[p], default=None)
    for acc in schema['accessors']:
        d = dicts[acc['cls']]
        ob = py_order(acc['order'])
        if acc.get('late'):
            continue            # added with sqlmeta.addJoin() in the middle of the history ('latejoin' op)
        if acc['kind'] == 'fk':
            col = 'f%d_id' % acc['f']
            d[acc['name'] + 'l'] = MultipleJoin(NAMES[acc['k']], joinColumn=col, orderBy=ob)
            d[acc['name'] + 'q'] = SQLMultipleJoin(NAMES[acc['k']], joinColumn=col, orderBy=ob)
            d[acc['name'] + 's'] = SingleJoin(NAMES[acc['k']], joinColumn=col)
            if acc['k'] >= acc['cls']:
                # new-style one-to-many; SOOneToMany needs the other class to be declared later than (or be) the
                # declaring one: it builds `soClass.q` as soon as the other class is known
                d[acc['name'] + 'n'] = OneToMany(NAMES[acc['k']], joinColumn=col)
        else:
            kw = {}
            if not acc['default_names']:
                kw = dict(intermediateTable='lt%d' % acc['t'], joinColumn='ca' if acc['own'] else 'cb',
                          otherColumn='cb' if acc['own'] else 'ca')
            d[acc['name'] + 'l'] = RelatedJoin(NAMES[acc['other']], orderBy=ob, addRemoveName=acc['name'].upper(),
                                               createRelatedTable=False, **kw)
            d[acc['name'] + 'q'] = SQLRelatedJoin(NAMES[acc['other']], orderBy=ob, addRemoveName=acc['name'].upper() + 'Q',
                                                  createRelatedTable=False, **kw)
            d[acc['name'] + 'n'] = ManyToMany(NAMES[acc['other']], createJoinTable=False, **kw)   # new-style many-to-many
    out = [type(NAMES[k], (SQLObject,), dicts[k]) for k in range(len(classes))]
    for cls in out:
        cls.createTable()
    info = {}
    for acc in schema['accessors']:
        if acc['kind'] == 'rel' and acc.get('late'):
            info[acc['name']] = ('lt%d' % acc['t'], 'ca' if acc['own'] else 'cb', 'cb' if acc['own'] else 'ca')
        elif acc['kind'] == 'rel':
            j = [j for j in out[acc['cls']].sqlmeta.joins if j.joinMethodName == acc['name'] + 'l'][0]
            info[acc['name']] = (j.intermediateTable, j.joinColumn, j.otherColumn)
    made = set()
    for name, (tbl, jc, oc) in sorted(info.items()):
        if tbl not in made:
            made.add(tbl)
            conn.query('CREATE TABLE %s (%s INT, %s INT)' % (tbl, jc, oc))
    if len(_built) > 300:
        _built.clear()
    _built[key] = (conn, out, info, sorted(made))
    return _built[key]


def schema_line(schema):
    toks = ['schema']
    for k, cd in enumerate(schema['classes']):
        toks.append('K')
        for t, p in cd['fks']:
            toks += ['F', str(t), p]
        for acc in schema['accessors']:
            if acc['kind'] == 'rel' and acc['cls'] == k:
                toks += ['J', str(acc['other']), str(acc['t']), '1' if acc['own'] else '0']
    return ' '.join(toks)


def gen_schema(rng):
    n = rng.choice([2, 2, 3])
    classes = [{'fks': []} for _ in range(n)]
    for cd in classes:
        if rng.random() < 0.35:
            cd['lazy'] = True       # sqlmeta.lazyUpdate: assignments are pending until syncUpdate()
    accessors = []
    for k in range(n):
        for f in range(rng.choice([0, 1, 1, 2])):
            t = rng.randrange(n)
            classes[k]['fks'].append([t, rng.choice(['k', 'k', 'n', 'c', 'c', 'r'])])
            accessors.append({'kind': 'fk', 'cls': t, 'k': k, 'f': f, 'name': 'm%d%d' % (k, f), 'order': rng.choice(ORDERS)})
    pairs = set()
    for t in range(rng.choice([1, 1, 2])):
        k1 = rng.randrange(n)
        k2 = rng.randrange(n) if rng.random() < 0.65 else k1
        default_names = (k1 != k2) and (frozenset((k1, k2)) not in pairs) and rng.random() < 0.5
        pairs.add(frozenset((k1, k2)))
        sides = rng.choice(['both', 'both', 'first']) if k1 == k2 else rng.choice(['both', 'both', 'first', 'first'])
        if default_names:
            sides = 'both'
            # default column order: the creating side's (joinColumn, otherColumn); col 0 belongs to k1
        accessors.append({'kind': 'rel', 'cls': k1, 'other': k2, 't': t, 'own': 1, 'name': 'r%da' % t,
                          'order': rng.choice(ORDERS), 'default_names': default_names})
        if sides == 'both':
            accessors.append({'kind': 'rel', 'cls': k2, 'other': k1, 't': t, 'own': 0, 'name': 'r%db' % t,
                              'order': rng.choice(ORDERS), 'default_names': default_names})
    if rng.random() < 0.3:
        # a one-sided related join that is added to its (existing) class at run time
        sided = {}
        for a in accessors:
            if a['kind'] == 'rel':
                sided.setdefault(a['t'], []).append(a)
        cands = [v[0] for v in sided.values() if len(v) == 1 and not v[0]['default_names']]
        if cands:
            rng.choice(cands)['late'] = True
    return {'classes': classes, 'accessors': accessors}


def gen_history(rng, schema, length):
    n = len(schema['classes'])
    live = {k: [] for k in range(n)}
    first = 0 if rng.random() < 0.4 else 1          # explicit id 0 is a legal id
    nextid = {k: first for k in range(n)}
    rels = [a for a in schema['accessors'] if a['kind'] == 'rel']
    ops = []
    for _ in range(length):
        r = rng.random()
        total = sum(len(v) for v in live.values())
        if total < 3 or r < 0.18:
            k = rng.randrange(n)
            i = nextid[k]
            nextid[k] += 1
            live[k].append(i)
            xv = rng.choice([None, 1, 1, 2, 2, 3])
            yv = rng.choice([None, 1, 2, 2, 3])
            ops.append(['new', k, i, xv, yv])
        elif r < 0.26:
            k = rng.choice([k for k in range(n) if live[k]])
            ops.append(['attr', k, rng.choice(live[k]), rng.randrange(2), rng.choice([None, 1, 2, 2, 3])])
        elif r < 0.31:
            k = rng.choice([k for k in range(n) if live[k]])
            ops.append(['sync', k, rng.choice(live[k])])
        elif r < 0.50:
            cands = [(k, f) for k in range(n) for f in range(len(schema['classes'][k]['fks'])) if live[k]]
            if not cands:
                continue
            k, f = rng.choice(cands)
            t = schema['classes'][k]['fks'][f][0]
            v = None if (rng.random() < 0.2 or not live[t]) else rng.choice(live[t])
            ops.append(['set', k, rng.choice(live[k]), f, v])
        elif r < 0.88:
            if not rels:
                continue
            a = rng.choice(rels)
            if not live[a['cls']] or not live[a['other']]:
                continue
            op = 'add' if rng.random() < 0.62 else 'rem'
            ops.append([op, a['name'], rng.choice(live[a['cls']]), rng.choice(live[a['other']]), rng.choice(['l', 'l', 'q', 'n', 'n'])])
        else:
            k = rng.choice([k for k in range(n) if live[k]])
            i = rng.choice(live[k])
            ops.append(['del', k, i])
            # which ids survive is only known after running; the runner filters stale ids
    for a in rels:
        if a.get('late'):
            # the classes are in use (an object of the join's other class is created and destroyed) before the join is added
            k = a['other']
            pos = rng.randrange(len(ops) // 3, max(len(ops) // 3 + 1, 2 * len(ops) // 3))
            i = nextid[k]
            nextid[k] += 1
            j = nextid[k]
            nextid[k] += 1
            own = nextid[a['cls']]
            nextid[a['cls']] += 1
            # ... and afterwards it is used: a fresh pair is linked (from the declaring side), the partner destroyed
            ops[pos:pos] = [['new', k, i, None, None], ['del', k, i], ['latejoin', a['name']],
                            ['new', a['cls'], own, 1, 1], ['new', k, j, 2, 2], ['add', a['name'], own, j, rng.choice(['l', 'q'])]]
            ops.insert(rng.randrange(pos + 6, len(ops) + 1), ['del', k, j])
    return ops


def mline_plain(mline):
    """the model request of an accessor without its ordering keys (new-style joins have no orderBy)"""
    return ' '.join(t for t in mline.split() if not (t[0] in 'ad' and t[1:].isdigit()))


def key_line(keys):
    return '' if not keys else ' ' + ' '.join(keys)


class Runner:
    def __init__(self, schema):
        self.schema = schema
        self.conn, self.classes, self.info, self.tables = build(schema)
        for cls in self.classes:
            self.conn.query('DELETE FROM %s' % cls.sqlmeta.table)
        for t in self.tables:
            self.conn.query('DELETE FROM %s' % t)
        self.conn.cache.clear()
        self.accs = {a['name']: a for a in schema['accessors']}
        self.added = set()    # late joins already added with sqlmeta.addJoin()
        self.held = {}        # instances stay referenced: a pending assignment lives in the instance
        self.pending = {}     # (cls, id) -> model lines of assignments not yet written (lazyUpdate classes)
        self.shown = {}       # (cls, id) -> {attr index: value the instance must show while it is pending}

    def lazy(self, k):
        return bool(self.schema['classes'][k].get('lazy'))

    def flush(self, key):
        """syncUpdate(): the pending assignments reach the table (and the model)"""
        self.held[key].syncUpdate()
        self.shown.pop(key, None)
        return self.pending.pop(key, [])

    def live(self):
        out = []
        for k, cls in enumerate(self.classes):
            for (i,) in self.conn.queryAll('SELECT id FROM %s ORDER BY id' % cls.sqlmeta.table):
                out.append((k, i))
        return out

    def apply(self, op):
        """-> (model line or None when the op is skipped, impl outcome)"""
        import sqlobject
        live = set(self.live())
        try:
            if op[0] == 'new':
                _, k, i, xv, yv = op
                self.held[(k, i)] = self.classes[k](id=i, x=xv, y=yv)
                nf = len(self.schema['classes'][k]['fks'])
                return 'new %d %d %d %s %s' % (k, i, nf, '-' if xv is None else xv, '-' if yv is None else yv), 'ok'
            if op[0] == 'set':
                _, k, i, f, v = op
                t = self.schema['classes'][k]['fks'][f][0]
                if (k, i) not in live or (v is not None and (t, v) not in live):
                    return None, None
                setattr(self.held[(k, i)], 'f%dID' % f, v)
                line = 'set %d %d %d %s' % (k, i, f, '-' if v is None else v)
                if self.lazy(k):
                    self.pending.setdefault((k, i), []).append(line)
                    self.shown.setdefault((k, i), {})['f%d' % f] = v
                    return [], 'ok'
                return line, 'ok'
            if op[0] == 'attr':
                _, k, i, a, v = op
                if (k, i) not in live:
                    return None, None
                setattr(self.held[(k, i)], 'xy'[a], v)
                if self.lazy(k):
                    self.pending.setdefault((k, i), [])
                    self.shown.setdefault((k, i), {})[a] = v
                # the model's attribute is what the instance shows (list-flavoured joins sort in Python)
                return 'attr %d %d %d %s' % (k, i, a, '-' if v is None else v), 'ok'
            if op[0] == 'sync':
                _, k, i = op
                if (k, i) not in live or not self.lazy(k):
                    return None, None
                return self.flush((k, i)), 'ok'
            if op[0] == 'latejoin':
                from sqlobject import RelatedJoin, SQLRelatedJoin
                acc = self.accs[op[1]]
                if not acc.get('late') or acc['name'] in self.added:
                    return None, None
                tbl, jc, oc = self.info[acc['name']]
                kw = dict(intermediateTable=tbl, joinColumn=jc, otherColumn=oc, orderBy=py_order(acc['order']), createRelatedTable=False)
                cls = self.classes[acc['cls']]
                cls.sqlmeta.addJoin(RelatedJoin(NAMES[acc['other']], joinMethodName=acc['name'] + 'l', addRemoveName=acc['name'].upper(), **kw))
                cls.sqlmeta.addJoin(SQLRelatedJoin(NAMES[acc['other']], joinMethodName=acc['name'] + 'q',
                                                   addRemoveName=acc['name'].upper() + 'Q', **kw))
                self.added.add(acc['name'])
                return [], 'ok'
            if op[0] in ('add', 'rem'):
                _, name, a, b, via_q = op
                acc = self.accs[name]
                if acc.get('late') and name not in self.added:
                    return None, None
                if acc.get('late') and via_q == 'n':
                    via_q = 'l'
                if (acc['cls'], a) not in live or (acc['other'], b) not in live:
                    return None, None
                obj = self.classes[acc['cls']].get(a)
                other = self.classes[acc['other']].get(b)
                flavour = via_q if isinstance(via_q, str) else ('q' if via_q else 'l')
                if flavour == 'n':      # the new-style ManyToMany wrapper
                    getattr(getattr(obj, name + 'n'), 'add' if op[0] == 'add' else 'remove')(other)
                else:
                    meth = ('add' if op[0] == 'add' else 'remove') + name.upper() + ('Q' if flavour == 'q' else '')
                    getattr(obj, meth)(other)
                return '%s%s %d %d %d %d' % (op[0], 'n' if flavour == 'n' else '', acc['t'], acc['own'], a, b), 'ok'
            if op[0] == 'del':
                _, k, i = op
                if (k, i) not in live:
                    return None, None
                pre = []
                for key in sorted(self.pending):      # destroySelf may write pending values of other rows: settle them first
                    pre += self.flush(key)
                try:
                    self.classes[k].get(i).destroySelf()
                    out = 'ok'
                except sqlobject.main.SQLObjectIntegrityError:
                    out = 'refused'
                except RecursionError:
                    out = 'fuel'
                return pre + ['del %d %d' % (k, i)], out
        except Exception as e:  # an exception of the real code is an observable outcome
            return 'bad', 'error:' + sqlo.exc_name(e)
        return None, None

    # -- accessors: (model query line, impl answer, oracle data)
    def attr(self, k, i):
        return self.conn.queryOne('SELECT x, y FROM %s WHERE id = %d' % (self.classes[k].sqlmeta.table, i))

    def visible(self, k, i):
        """what the instance has to show: the row, overlaid with its pending assignments"""
        vals = list(self.attr(k, i))
        for a, v in self.shown.get((k, i), {}).items():
            if isinstance(a, int):
                vals[a] = v
        return vals

    def observe(self, ctx, case):
        """all accessors of all live objects: returns [(model line, kind, impl ids)], runs the oracle"""
        out = []
        got = {}
        got_new = {}
        live = self.live()
        for acc in self.schema['accessors']:
            if acc.get('late') and acc['name'] not in self.added:
                continue
            for (k, i) in live:
                if k != acc['cls']:
                    continue
                obj = self.classes[k].get(i)
                try:
                    lst = [o.id for o in getattr(obj, acc['name'] + 'l')]
                    qry = [o.id for o in getattr(obj, acc['name'] + 'q')]
                    new = [o.id for o in getattr(obj, acc['name'] + 'n')] if hasattr(type(obj), acc['name'] + 'n') else None
                except Exception as e:
                    ctx.oracle_fail('C13:accessor-raises:%s' % sqlo.exc_name(e), 'accessor %s of %s %d raised %r' % (acc['name'], NAMES[k], i, e), case)
                    continue
                if acc['kind'] == 'fk':
                    other = acc['k']
                    raw = [r[0] for r in self.conn.queryAll('SELECT id FROM %s WHERE f%d_id = %d ORDER BY id'
                                                            % (self.classes[other].sqlmeta.table, acc['f'], i))]
                    one = getattr(obj, acc['name'] + 's')
                    one = None if one is None else one.id
                    out.append(('s %d %d %d' % (other, acc['f'], i), 'single', 'none' if one is None else 'one %d' % one))
                    if (one is None) != (not raw) or (one is not None and one not in raw):
                        ctx.oracle_fail('C13:single-join', 'SingleJoin of %s %d gives %r, referencing rows %r' % (NAMES[k], i, one, raw), case)
                    mline = 'm %d %d %d%s' % (other, acc['f'], i, key_line(acc['order']))
                    for j in lst:
                        want = self.shown.get((other, j), {}).get('f%d' % acc['f'], i)
                        try:
                            shows = getattr(self.classes[other].get(j), 'f%dID' % acc['f'])
                        except Exception as e:
                            shows = 'error:' + sqlo.exc_name(e)
                        if shows != want:
                            ctx.oracle_fail('C13:accessor-member-shows-other-owner', '%s %d is returned by %s of %s %d (its row references it) but the '
                                            'instance shows owner %r (it has to show %r)' % (NAMES[other], j, acc['name'], NAMES[k], i, shows, want), case)
                else:
                    other = acc['other']
                    tbl, jc, oc = self.info[acc['name']]
                    raw = [r[0] for r in self.conn.queryAll('SELECT %s FROM %s WHERE %s = %d' % (oc, tbl, jc, i))]
                    mline = 'r %d %d %d %d%s' % (acc['t'], acc['own'], i, other, key_line(acc['order']))
                got[(acc['name'], k, i)] = lst
                self.judge(ctx, case, acc, (k, i), other, lst, qry, raw)
                if new is not None and Counter(new) != Counter(raw):
                    ctx.oracle_fail('C13:new-style-accessor-vs-relation', '%s (%s) of %s %d returns %r, the stored relation holds %r'
                                    % (acc['name'] + 'n', 'OneToMany' if acc['kind'] == 'fk' else 'ManyToMany', NAMES[k], i, new, raw), case)
                out.append((mline, 'list', 'ids' + ''.join(' %d' % x for x in lst)))
                out.append((mline, 'query', 'ids' + ''.join(' %d' % x for x in sorted(qry))))
                if new is not None:
                    got_new[(acc['name'], k, i)] = new
                    nline = mline_plain(mline) if acc['kind'] == 'fk' else 'n %d %d %d' % (acc['t'], acc['own'], i)
                    out.append((nline, 'new', 'ids' + ''.join(' %d' % x for x in sorted(new))))
        # symmetry of the two declared sides of a link table
        rel = [a for a in self.schema['accessors'] if a['kind'] == 'rel']
        for a in rel:
            for b in rel:
                if a['t'] == b['t'] and a['own'] == 1 and b['own'] == 0:
                    for (k, i) in live:
                        if k != a['cls']:
                            continue
                        for (k2, j) in live:
                            if k2 != b['cls']:
                                continue
                            n1 = got.get((a['name'], k, i), []).count(j)
                            n2 = got.get((b['name'], k2, j), []).count(i)
                            m1 = got_new.get((a['name'], k, i), []).count(j)
                            m2 = got_new.get((b['name'], k2, j), []).count(i)
                            if m1 != m2:
                                ctx.oracle_fail('C13:asymmetric-new-style', '%s %d has %s %d %d times among its ManyToMany partners, the reverse side %d times'
                                                % (NAMES[k], i, NAMES[k2], j, m1, m2), case)
                            if n1 != n2:
                                ctx.oracle_fail('C13:asymmetric', '%s %d has %s %d %d times among its partners, the reverse side %d times'
                                                % (NAMES[k], i, NAMES[k2], j, n1, n2), case)
        return out

    def sort_key(self, other, keys, visible=False):
        def kf(i):
            vals = self.visible(other, i) if visible else self.attr(other, i)
            out = []
            for key in keys:
                v = vals[int(key[1:])]
                # None least; descending: negate the order
                t = (0, 0) if v is None else (1, v)
                out.append(t if key[0] == 'a' else (-t[0], -t[1]))
            return tuple(out)
        return kf

    def judge(self, ctx, case, acc, owner, other, lst, qry, raw):
        what = '%s of %s %d' % (acc['name'], NAMES[owner[0]], owner[1])
        if Counter(lst) != Counter(raw):
            ctx.oracle_fail('C13:list-accessor-vs-relation', '%s returns %r, the stored relation holds %r' % (what, lst, raw), case)
        if Counter(qry) != Counter(raw):
            ctx.oracle_fail('C13:query-accessor-vs-relation', '%s (query flavour) returns %r, the stored relation holds %r' % (what, qry, raw), case)
        if acc['order']:
            kf = self.sort_key(other, acc['order'])
            kfl = self.sort_key(other, acc['order'], visible=True)   # the list flavour sorts by what the instances show
            kl = [kfl(i) for i in lst]
            kq = [kf(i) for i in qry]
            pend = any((other, i) in self.shown for i in lst)
            if kl != sorted(kl):
                key = 'C13:list-accessor-order-vs-shown-values' if pend else (K_DOSORT if len(acc['order']) > 1 else 'C13:list-accessor-unsorted')
                ctx.oracle_fail(key, '%s with orderBy %r returns keys %r: not in the declared order' % (what, py_order(acc['order']), kl), case)
            if kq != sorted(kq):
                ctx.oracle_fail('C13:query-accessor-unsorted', '%s (query flavour) with orderBy %r returns keys %r' % (what, py_order(acc['order']), kq), case)
            elif kl == sorted(kl) and kl != kq and not pend:
                ctx.oracle_fail('C13:list-query-disagree', '%s: list flavour %r, query flavour %r' % (what, lst, qry), case)
        elif acc['kind'] == 'fk' and lst != qry:
            ctx.oracle_fail('C13:list-query-disagree', '%s: list flavour %r, query flavour %r' % (what, lst, qry), case)


def corpus_cases():
    d = os.path.join(os.path.dirname(os.path.dirname(os.path.abspath(__file__))), 'corpus', 'C13')
    out = []
    for path in sorted(glob.glob(os.path.join(d, '*.json'))):
        data = json.load(open(path))
        out += data if isinstance(data, list) else [data]
    return out


def run_history(ctx, schema, ops):
    r = Runner(schema)
    lines = [schema_line(schema)]
    expect = [('schema', 'ok')]
    done = []
    for op in ops:
        mline, outcome = r.apply(op)
        if mline is None:
            continue
        done.append(op)
        case = {'schema': schema, 'ops': list(done)}
        if mline == 'bad':
            ctx.oracle_fail('C13:op-raises:%s' % outcome, 'operation %r raised %s' % (op, outcome), case)
            break
        mlines = mline if isinstance(mline, list) else [mline]
        for n, ml in enumerate(mlines):
            lines.append(ml)
            expect.append(('op outcome: model = real', outcome if n == len(mlines) - 1 else 'ok', case))
        obs = r.observe(ctx, case)
        nonempty = any(impl not in ('ids', 'none') for _, _, impl in obs)
        ctx.case((json.dumps(schema), json.dumps(done)), nontrivial=nonempty,
                 sample={'ops': list(done)[-4:], 'accessors': [(m, i) for m, _, i in obs[:6]]} if len(done) % 7 == 0 else None,
                 kind=op[0])
        for mline2, kind, impl in obs:
            lines.append(mline2)
            expect.append((kind, impl, case))
    return lines, expect



# ------------------------------------------------------------------ joins on inheritable classes (oracle only)
# P <- Q (<- G) is an InheritableSQLObject hierarchy, X a plain class.  Every level may declare joins of its own
# (one-to-many from X through a key of X to that level, single join, many-to-many with X); an object is always used
# through its most derived class, so the joins of its ancestors are reached through the forwarding accessors.
HL = ['P', 'Q', 'G']
_hb = {}


_tmp = []


def scratch_dir():
    if not _tmp:
        import atexit
        import shutil
        import tempfile
        _tmp.append(tempfile.mkdtemp(prefix='verif_c13_'))
        atexit.register(shutil.rmtree, _tmp[0], True)
    return _tmp[0]


def hi_build(schema, on_file=False):
    key = json.dumps(schema, sort_keys=True) + ('file' if on_file else '')
    if key in _hb:
        return _hb[key]
    sqlo.setup()
    from sqlobject import SQLObject, ForeignKey, IntCol, RelatedJoin, SQLRelatedJoin, MultipleJoin, SQLMultipleJoin, SingleJoin
    from sqlobject.inheritance import InheritableSQLObject
    reg = sqlo.uniq('c13hreg')
    conn = sqlo.file_conn(os.path.join(scratch_dir(), sqlo.uniq('db') + '.sqlite')) if on_file else sqlo.mem_conn()
    levels = HL[:schema['depth']]
    classes = {}
    parent = None
    for lv in levels:
        d = {}
        if lv in schema['joins']:
            ob = py_order(schema['joins'][lv])
            d['xs%sl' % lv] = MultipleJoin('X', joinColumn='f%s_id' % lv.lower(), orderBy=ob)
            d['xs%sq' % lv] = SQLMultipleJoin('X', joinColumn='f%s_id' % lv.lower(), orderBy=ob)
            d['one%s' % lv] = SingleJoin('X', joinColumn='f%s_id' % lv.lower())
            d['rel%sl' % lv] = RelatedJoin('X', intermediateTable='lt%s' % lv.lower(), joinColumn='ca', otherColumn='cb',
                                           orderBy=ob, addRemoveName='R%s' % lv, createRelatedTable=False)
            d['rel%sq' % lv] = SQLRelatedJoin('X', intermediateTable='lt%s' % lv.lower(), joinColumn='ca', otherColumn='cb',
                                              orderBy=ob, addRemoveName='R%sQ' % lv, createRelatedTable=False)
        if parent is None:
            d.update({'sqlmeta': type('sqlmeta', (), {'registry': reg}), '_connection': conn})
            classes[lv] = type(lv, (InheritableSQLObject,), d)
        else:
            classes[lv] = type(lv, (parent,), d)
        parent = classes[lv]
    d = {'sqlmeta': type('sqlmeta', (), {'registry': reg}), '_connection': conn, 'x': IntCol(default=None), 'y': IntCol(default=None)}
    for lv in levels:
        d['f%s' % lv.lower()] = ForeignKey(lv, cascade=POL[schema['policy'][lv]], default=None)
        if lv in schema['joins']:
            d['rx%s' % lv] = RelatedJoin(lv, intermediateTable='lt%s' % lv.lower(), joinColumn='cb', otherColumn='ca',
                                         addRemoveName='RX%s' % lv, createRelatedTable=False)
    classes['X'] = type('X', (SQLObject,), d)
    for cls in classes.values():
        cls.createTable()
    for lv in levels:
        conn.query('CREATE TABLE lt%s (ca INT, cb INT)' % lv.lower())
    if len(_hb) > 100:
        _hb.clear()
    _hb[key] = (conn, classes)
    return _hb[key]


def hi_gen(rng):
    depth = rng.choice([2, 2, 3])
    levels = HL[:depth]
    joins = {lv: rng.choice(ORDERS) for lv in levels if rng.random() < 0.8}
    schema = {'depth': depth, 'joins': joins, 'policy': {lv: rng.choice(['k', 'k', 'n', 'c']) for lv in levels}}
    ops = []
    hs = []      # (id, leaf index)
    xs = []
    for _ in range(rng.choice([10, 16, 22])):
        r = rng.random()
        if len(hs) < 2 or r < 0.14:
            hs.append((len(hs) + 1, rng.randrange(depth)))
            ops.append(['newh', hs[-1][1]])
        elif len(xs) < 2 or r < 0.30:
            xs.append(len(xs) + 1)
            ops.append(['newx', rng.choice([None, 1, 2, 2, 3]), rng.choice([None, 1, 2, 3])])
        elif r < 0.55:
            lv = rng.randrange(depth)
            cands = [h for h, leaf in hs if leaf >= lv]
            ops.append(['setfk', rng.choice(xs), lv, rng.choice(cands) if cands and rng.random() < 0.85 else None])
        elif r < 0.90:
            lv = rng.randrange(depth)
            cands = [h for h, leaf in hs if leaf >= lv]
            if cands:
                ops.append([rng.choice(['add', 'add', 'rem']), lv, rng.choice(cands), rng.choice(xs), rng.choice(['h', 'hq', 'x'])])
        elif r < 0.95:
            ops.append(['delh', rng.choice(hs)[0]])
        else:
            ops.append(['delx', rng.choice(xs)])
    return schema, ops


def hi_run(ctx, schema, ops, via_tx=False):
    """via_tx: file-backed database; every object is created / fetched / destroyed through one `conn.transaction()` (another
    DB-API connection than the default one) and the raw SELECTs of the oracle run inside it: the accessors of an object
    fetched through the transaction must show the transaction's state"""
    try:
        return _hi_run(ctx, schema, ops, via_tx)
    finally:
        for tx in _open_tx:
            try:
                tx.rollback()
            except Exception:
                pass
        del _open_tx[:]


_open_tx = []


def _hi_run(ctx, schema, ops, via_tx):
    import sqlobject
    conn0, classes = hi_build(schema, on_file=via_tx)
    conn = conn0
    levels = HL[:schema['depth']]
    for cls in classes.values():
        conn.query('DELETE FROM %s' % cls.sqlmeta.table)
    for lv in levels:
        conn.query('DELETE FROM lt%s' % lv.lower())
    conn.query('DELETE FROM sqlite_sequence')
    conn.cache.clear()
    done = []
    leaf_of = {}
    ckw = {}
    if via_tx:
        conn = conn0.transaction()
        _open_tx.append(conn)
        ckw = {'connection': conn}
    mode = 'inherit-tx' if via_tx else 'inherit'

    def live_h():
        return [r[0] for r in conn.queryAll('SELECT id FROM %s ORDER BY id' % classes['P'].sqlmeta.table)]

    def live_x():
        return [r[0] for r in conn.queryAll('SELECT id FROM %s ORDER BY id' % classes['X'].sqlmeta.table)]
    for op in ops:
        try:
            if op[0] == 'newh':
                o = classes[levels[op[1]]](**ckw)
                leaf_of[o.id] = op[1]
                if via_tx:
                    del o
                    conn.cache.clear()      # later uses FETCH the object through the transaction
            elif op[0] == 'newx':
                classes['X'](x=op[1], y=op[2], **ckw)
            elif op[0] == 'setfk':
                _, x, lv, h = op
                if x not in live_x() or (h is not None and h not in live_h()):
                    continue
                setattr(classes['X'].get(x, **ckw), 'f%sID' % levels[lv].lower(), h)
            elif op[0] in ('add', 'rem'):
                _, lv, h, x, side = op
                if levels[lv] not in schema['joins'] or h not in live_h() or x not in live_x():
                    continue
                verb = 'add' if op[0] == 'add' else 'remove'
                if side == 'x':
                    getattr(classes['X'].get(x, **ckw), '%sRX%s' % (verb, levels[lv]))(classes['P'].get(h, **ckw))
                else:
                    # through the object's most derived class: forwarded to the declaring level when that is an ancestor
                    getattr(classes['P'].get(h, **ckw), '%sR%s%s' % (verb, levels[lv], 'Q' if side == 'hq' else ''))(classes['X'].get(x, **ckw))
            elif op[0] == 'delh':
                if op[1] not in live_h():
                    continue
                try:
                    classes['P'].get(op[1], **ckw).destroySelf()
                except sqlobject.main.SQLObjectIntegrityError:
                    pass
            elif op[0] == 'delx':
                if op[1] not in live_x():
                    continue
                classes['X'].get(op[1], **ckw).destroySelf()
        except Exception as e:
            done.append(op)
            ctx.oracle_fail('C13:inherit:op-raises:%s' % sqlo.exc_name(e), 'operation %r on an inheritable hierarchy raised %r' % (op, e),
                            {'mode': mode, 'schema': schema, 'ops': list(done)})
            return
        done.append(op)
        case = {'mode': mode, 'schema': schema, 'ops': list(done)}
        nonempty = False
        attrs = {r[0]: (r[1], r[2]) for r in conn.queryAll('SELECT id, x, y FROM %s' % classes['X'].sqlmeta.table)}

        def keyf(order):
            def kf(i):
                out = []
                for key in order:
                    v = attrs[i][int(key[1:])]
                    t = (0, 0) if v is None else (1, v)
                    out.append(t if key[0] == 'a' else (-t[0], -t[1]))
                return tuple(out)
            return kf
        for h in live_h():
            try:
                obj = classes['P'].get(h, **ckw)
            except Exception as e:
                ctx.oracle_fail('C13:inherit:load-raises:%s' % sqlo.exc_name(e), 'P.get(%d) through the %s raised %r although the row is there'
                                % (h, 'transaction' if via_tx else 'connection', e), case)
                return
            if type(obj).__name__ != levels[leaf_of[h]]:
                ctx.oracle_fail('C13:inherit:wrong-class', 'P.get(%d) loads as %s, created as %s' % (h, type(obj).__name__, levels[leaf_of[h]]), case)
                return
            for lv in levels[:leaf_of[h] + 1]:
                if lv not in schema['joins']:
                    continue
                order = schema['joins'][lv]
                raw_fk = [r[0] for r in conn.queryAll('SELECT id FROM x WHERE f%s_id = %d ORDER BY id' % (lv.lower(), h))]
                raw_rel = [r[0] for r in conn.queryAll('SELECT cb FROM lt%s WHERE ca = %d' % (lv.lower(), h))]
                for name, raw in (('xs%sl' % lv, raw_fk), ('xs%sq' % lv, raw_fk), ('rel%sl' % lv, raw_rel), ('rel%sq' % lv, raw_rel)):
                    what = '%s of %s %d (join declared on %s)' % (name, type(obj).__name__, h, lv)
                    try:
                        got = [o.id for o in getattr(obj, name)]
                    except Exception as e:
                        ctx.oracle_fail('C13:inherit:accessor-raises:%s' % sqlo.exc_name(e), '%s raised %r' % (what, e), case)
                        return
                    nonempty = nonempty or bool(got)
                    if Counter(got) != Counter(raw):
                        ctx.oracle_fail('C13:inherit:accessor-vs-relation', '%s returns %r, the stored relation holds %r' % (what, got, raw), case)
                        return
                    if order:
                        ks = [keyf(order)(i) for i in got]
                        if ks != sorted(ks):
                            ctx.oracle_fail('C13:inherit:unsorted', '%s with orderBy %r returns keys %r' % (what, py_order(order), ks), case)
                            return
                try:
                    one = getattr(obj, 'one%s' % lv)
                    one = None if one is None else one.id
                except Exception as e:
                    ctx.oracle_fail('C13:inherit:accessor-raises:%s' % sqlo.exc_name(e), 'one%s of %s %d raised %r' % (lv, type(obj).__name__, h, e), case)
                    return
                if (one is None) != (not raw_fk) or (one is not None and one not in raw_fk):
                    ctx.oracle_fail('C13:inherit:single-join', 'one%s of %s %d gives %r, referencing rows %r' % (lv, type(obj).__name__, h, one, raw_fk), case)
                    return
        for x in live_x():
            try:
                xo = classes['X'].get(x, **ckw)
            except Exception as e:
                ctx.oracle_fail('C13:inherit:load-raises:%s' % sqlo.exc_name(e), 'X.get(%d) raised %r' % (x, e), case)
                return
            for lv in levels:
                if lv not in schema['joins']:
                    continue
                raw = [r[0] for r in conn.queryAll('SELECT ca FROM lt%s WHERE cb = %d' % (lv.lower(), x))]
                try:
                    got = [o.id for o in getattr(xo, 'rx%s' % lv)]
                except Exception as e:
                    ctx.oracle_fail('C13:inherit:accessor-raises:%s' % sqlo.exc_name(e), 'rx%s of X %d raised %r' % (lv, x, e), case)
                    return
                if Counter(got) != Counter(raw):
                    ctx.oracle_fail('C13:inherit:asymmetric', 'rx%s of X %d returns %r, the link table holds %r' % (lv, x, got, raw), case)
                    return
        ctx.case((mode, json.dumps(schema, sort_keys=True), json.dumps(done)), nontrivial=nonempty, kind=mode + '/' + op[0])


def run_inherit(ctx):
    d = os.path.join(os.path.dirname(os.path.dirname(os.path.abspath(__file__))), 'corpus', 'C13', 'inherit')
    for path in sorted(glob.glob(os.path.join(d, '*.json'))):
        data = json.load(open(path))
        for c in (data if isinstance(data, list) else [data]):
            hi_run(ctx, c['schema'], c['ops'])
            hi_run(ctx, c['schema'], c['ops'], via_tx=True)
    for n in range(ctx.budget(100, 2500)):
        schema, ops = hi_gen(ctx.rng)
        hi_run(ctx, schema, ops, via_tx=(n % 3 == 2))


def run(ctx):
    sqlo.setup()
    rng = ctx.rng
    jobs = []
    for c in corpus_cases():
        jobs.append((c['schema'], c['ops']))
    nh = ctx.budget(360, 9000)
    for _ in range(nh):
        schema = gen_schema(rng)
        jobs.append((schema, gen_history(rng, schema, rng.choice([8, 14, 20, 25]))))
    all_lines = []
    all_expect = []
    for schema, ops in jobs:
        lines, expect = run_history(ctx, schema, ops)
        all_lines += lines
        all_expect += expect
    run_inherit(ctx)
    outs = ctx.model(all_lines)
    if outs is None:
        return
    for line, e, o in zip(all_lines, all_expect, outs):
        if e[0] == 'schema':
            continue
        kind, impl, case = e
        if kind == 'query':
            toks = o.split()
            o = 'ids' + ''.join(' %d' % x for x in sorted(int(t) for t in toks[1:])) if toks and toks[0] == 'ids' else o
            ctx.compare('query-flavoured accessor (as a multiset): model = real', {'line': line, 'case': case}, o, impl)
        elif kind == 'new':
            toks = o.split()
            o = 'ids' + ''.join(' %d' % x for x in sorted(int(t) for t in toks[1:])) if toks and toks[0] == 'ids' else o
            ctx.compare('new-style ManyToMany / OneToMany accessor (as a multiset): model = real', {'line': line, 'case': case}, o, impl)
        elif kind == 'list':
            ctx.compare('list-flavoured accessor (exact order): model = real', {'line': line, 'case': case}, o, impl)
        elif kind == 'single':
            ctx.compare('SingleJoin: model = real', {'line': line, 'case': case}, o, impl)
        else:
            ctx.compare(kind, {'line': line, 'case': case}, o, impl)


def replay(case):
    sqlo.setup()

    class C:
        fails = []
        rng = None

        def oracle_fail(self, key, what, case):
            self.fails.append((key, what))

        def case(self, *a, **k):
            pass

        def count(self, *a):
            pass
    c = C()
    if case.get('mode') in ('inherit', 'inherit-tx'):
        hi_run(c, case['schema'], case['ops'], via_tx=(case['mode'] == 'inherit-tx'))
    else:
        run_history(c, case['schema'], case['ops'])
    text = ''.join('FAIL [%s] %s\n' % f for f in c.fails[:10]) or 'every accessor mirrors the stored relation after every step\n'
    return not c.fails, text
