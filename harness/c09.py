"""C09 — the instance cache is thread-safe under every interleaving.

Real threads execute the real `cache.py` / `main.py` code; `CacheFactory.lock`, `.cache`, `.expiredCache`,
`.cullCount` and `CacheSet.caches` are replaced (harness side, no /repo edit) by instrumented objects
that hand control to a deterministic scheduler before every shared access.  One thread runs at a time,
chosen by the schedule (a list of thread ids); a thread parked on a held cache lock is not runnable.
The same schedule is run on the Lean model (`drv_c09`): per-thread outcomes, final lock / strong / weak
state and the step-by-step access trace are compared.  The oracle (independent of the model) evaluates
the five clauses of the property on the real outcome.
"""
import itertools
import json
import os
import threading
import weakref

from vlib import sqlo

PROP = 'C09'
KEY_RT = 'C09:created-vs-expireAll:RuntimeError'
KEY_LOST = 'C09:created-vs-expireAll:lost-entry'
KEY_TWO = 'C09:create-vs-get:two-instances'

META = {
    'extractors': [],
    'technique': ('Lean 4 proof: small-step interleaving semantics of the cache protocol, invariants proved preserved by '
                  'every atomic action, hence for every schedule of any number of threads and any programs; '
                  'schedule-controlled replay of the real cache.py/main.py under an instrumented lock/dicts'),
    'level_text': '',   # filled below
    'level_note': '',
    'rule': ('case = (initial cache state, one program per thread, schedule); exhaustive: every schedule with <= 2 '
             'preemptions of 2 threads over all ordered op pairs in 3 initial states; seeded random schedules of 3 threads '
             'with 1-3 ops each; distinct = distinct (state, programs, effective access trace); non-trivial = at least '
             'one context switch between unfinished threads'),
    'trusted': ['the harness scheduler and instrumentation (dict proxy, lock wrapper, cullCount property, DB hooks): a '
                'shared access that is not instrumented would be executed atomically with its neighbour',
                'CPython: one builtin-dict operation with int/str keys is atomic under the GIL'],
    'modelled': ['preemption inside one C-level dict operation (not expressible: actions are whole dict operations)',
                 'garbage collection of weakly referenced instances, in particular triggered from another thread: every '
                 'object that enters the cache stays referenced by its thread or by the environment for the whole run, so '
                 'the dead-weakref branches of get()/cull() are neither modelled nor exercised',
                 'OS-level starvation / fairness (progress is: some thread is always enabled)',
                 'doCache=False factories; CacheFactory.clear(); tryGet(); per-instance _SO_writeLock (never taken '
                 'while the cache lock is held, so it cannot take part in a lock cycle with it)',
                 'threading.Lock, sqlite3 (executed, not verified)'],
    'assumptions': ['cullFraction >= 1 (the configuration constant is 2; 0 makes range() raise ValueError)',
                    'the attribute load `self.cache` and the dict operation on it form one action (true for CPython 3.12: '
                    'no eval-breaker check between LOAD_ATTR and the subscript)'],
    'exhaustive': False,
}

WATCHDOG_S = 60.0


# --------------------------------------------------------------------------------------------- scheduler
class Deadlock(Exception):
    pass


class Sched:
    """One managed thread runs at a time.  `grant(t)` lets thread t perform the access it is parked at
    and run on to its next shared access (or to its end)."""

    def __init__(self, n):
        self.n = n
        self.go = [threading.Semaphore(0) for _ in range(n)]
        self.back = threading.Semaphore(0)
        self.parked = [None] * n          # (kind, lockobj-or-None) the thread is parked at
        self.done = [False] * n
        self.tids = {}                    # thread ident -> tid
        self.trace = []
        self.hang = False
        self.active = True

    def me(self):
        return self.tids.get(threading.get_ident())

    # ---- thread side
    def point(self, kind, lock=None):
        t = self.me()
        if t is None or not self.active:
            return
        self.parked[t] = (kind, lock)
        self.back.release()
        self.go[t].acquire()
        self.parked[t] = None

    def thread_main(self, t, fn):
        self.tids[threading.get_ident()] = t
        self.go[t].acquire()              # wait for the scheduler to start us
        try:
            fn()
        finally:
            self.done[t] = True
            self.back.release()

    # ---- scheduler side
    def enabled(self, t):
        if self.done[t] or self.parked[t] is None:
            return False
        kind, lock = self.parked[t]
        if kind == 'acquire' and lock.holder is not None:
            return False
        return True

    def wait_back(self):
        if not self.back.acquire(timeout=WATCHDOG_S):
            self.hang = True
            raise Deadlock('watchdog: a managed thread neither parked nor finished within %ss' % WATCHDOG_S)

    def start(self, fns):
        self.threads = []
        for t, fn in enumerate(fns):
            th = threading.Thread(target=self.thread_main, args=(t, fn), daemon=True)
            self.threads.append(th)
            th.start()
        for t in range(self.n):           # run every thread up to its first shared access, one at a time
            self.go[t].release()
            self.wait_back()

    def grant(self, t):
        if not self.enabled(t):
            return False
        self.trace.append('%d:%s' % (t, self.parked[t][0]))
        self.go[t].release()
        self.wait_back()
        return True

    def run(self, schedule):
        for t in schedule:
            if 0 <= t < self.n:
                self.grant(t)
        while True:                        # drain: lowest enabled thread first
            for t in range(self.n):
                if self.enabled(t):
                    self.grant(t)
                    break
            else:
                break
        return [t for t in range(self.n) if not self.done[t]]

    def abandon(self):
        """release threads that are still parked (deadlocked run): they finish uninstrumented"""
        self.active = False
        for t in range(self.n):
            if not self.done[t]:
                self.go[t].release()


class ILock:
    """stands for threading.Lock; blocking is decided by the scheduler (a parked acquirer is not runnable
    while the lock is held), so no real lock is needed"""

    def __init__(self, sched):
        self.s = sched
        self.holder = None

    def acquire(self, blocking=True, timeout=-1):
        self.s.point('acquire', self)
        if self.holder is not None:
            if self.s.active:
                raise AssertionError('scheduler granted an acquire of a held lock')
            return True                    # abandoned (deadlocked) run: let the thread end
        t = self.s.me()
        self.holder = -1 if t is None else t
        return True

    def release(self):
        self.s.point('release')
        if self.holder is None:
            raise RuntimeError('release unlocked lock')
        self.holder = None

    def locked(self):
        return self.holder is not None


class _Iter:
    def __init__(self, sched, name, it):
        self.s, self.name, self.it = sched, name, it

    def __iter__(self):
        return self

    def __next__(self):
        self.s.point(self.name + '.next')
        return next(self.it)


class _View:
    def __init__(self, sched, name, make):
        self.s, self.name, self.make = sched, name, make

    def __iter__(self):
        return _Iter(self.s, self.name, self.make())


class IDict:
    """Stable proxy for a CacheFactory dict attribute: every operation parks first, then acts on the dict
    the attribute is bound to *at that moment* (so attribute load + dict operation is one action); an
    iterator stays bound to the dict it was created on, like a real dict iterator."""

    def __init__(self, sched, name):
        self.s, self.name, self.d = sched, name, {}

    def __getitem__(self, k):
        self.s.point(self.name + '.get')
        return self.d[k]

    def __setitem__(self, k, v):
        self.s.point(self.name + '.set')
        self.d[k] = v

    def __delitem__(self, k):
        self.s.point(self.name + '.del')
        del self.d[k]

    def __contains__(self, k):
        self.s.point(self.name + '.in')
        return k in self.d

    def get(self, k, default=None):
        self.s.point(self.name + '.get')
        return self.d.get(k, default)

    def pop(self, k, *a):
        self.s.point(self.name + '.del')
        return self.d.pop(k, *a)

    def keys(self):
        self.s.point(self.name + '.keys')
        return list(self.d.keys())

    def values(self):
        self.s.point(self.name + '.keys')
        return list(self.d.values())

    def items(self):
        d = self.d
        return _View(self.s, self.name, lambda: iter(d.items()))

    def __iter__(self):
        d = self.d
        return _Iter(self.s, self.name, iter(d))

    def __len__(self):
        return len(self.d)

    def clear(self):
        self.s.point(self.name + '.clear')
        self.d.clear()

    def rebind(self, new):
        self.s.point(self.name + '.swap')
        self.d = dict(new)


class ICaches(dict):
    """`CacheSet.caches`: an access parks only while the class has no entry yet (once installed the entry
    never changes, so later reads commute with everything)."""

    def __init__(self, sched):
        dict.__init__(self)
        self.s = sched

    def __getitem__(self, k):
        if not dict.__contains__(self, k):
            self.s.point('caches')
        return dict.__getitem__(self, k)

    def __contains__(self, k):
        if not dict.__contains__(self, k):
            self.s.point('caches')
        return dict.__contains__(self, k)

    def setdefault(self, k, v=None):
        if not dict.__contains__(self, k):
            self.s.point('caches')
        return dict.setdefault(self, k, v)


_env = {}


def env():
    if _env:
        return _env
    sqlo.setup()
    from sqlobject import SQLObject, IntCol
    from sqlobject import cache as cache_mod
    from sqlobject.sqlite.sqliteconnection import SQLiteConnection

    class Conn(SQLiteConnection):
        sched = None

        def queryInsertID(self, *a, **kw):
            if self.sched is not None:
                self.sched.point('db.insert')
            return SQLiteConnection.queryInsertID(self, *a, **kw)

        def _SO_selectOne(self, *a, **kw):
            if self.sched is not None:
                self.sched.point('db.select')
            return SQLiteConnection._SO_selectOne(self, *a, **kw)

    base = cache_mod.CacheFactory

    class IFactory(base):
        """the real CacheFactory with its shared attributes routed through the scheduler"""
        sched = None

        def __init__(self, *a, **kw):
            object.__setattr__(self, '_building', True)
            s = IFactory.sched
            object.__setattr__(self, '_strong', IDict(s, 'strong'))
            object.__setattr__(self, '_weak', IDict(s, 'weak'))
            object.__setattr__(self, '_cc', 0)
            base.__init__(self, *a, **kw)
            object.__setattr__(self, 'lock', ILock(s))
            object.__setattr__(self, '_building', False)

        def __setattr__(self, name, value):
            if name == 'cache':
                if self._building:
                    self._strong.d = dict(value)
                else:
                    self._strong.rebind(value)
            elif name == 'expiredCache':
                if self._building:
                    self._weak.d = dict(value)
                else:
                    self._weak.rebind(value)
            elif name == 'cullCount':
                if not self._building:
                    IFactory.sched.point('cc.write')
                object.__setattr__(self, '_cc', value)
            else:
                object.__setattr__(self, name, value)

        @property
        def cache(self):
            return self._strong

        @property
        def expiredCache(self):
            return self._weak

        @property
        def cullCount(self):
            if not self._building:
                IFactory.sched.point('cc.read')
            return self._cc

    conn = Conn(':memory:', check_same_thread=False)
    _env.update(conn=conn, cache_mod=cache_mod, base=base, IFactory=IFactory, SQLObject=SQLObject, IntCol=IntCol,
                n=0)
    return _env


def the_class():
    """one table for all runs; every run starts from an emptied table and a fresh CacheSet"""
    e = env()
    if 'cls' not in e:
        name = sqlo.uniq('C09T')
        cls = type(name, (e['SQLObject'],), {'_connection': e['conn'], 'v': e['IntCol'](default=0)})
        cls.createTable()
        e['cls'] = cls
    return e['cls']


# --------------------------------------------------------------------------------------------- one run
def op_str(op):
    return op[0] + (str(op[1]) if len(op) > 1 else '')


def progs_str(progs):
    return '/'.join('.'.join(op_str(o) for o in p) if p else '-' for p in progs)


def fmt_map(m):
    return ','.join('%d:%d' % kv for kv in m) if m else '-'


def model_line(init, progs, sched):
    return ('c=%d freq=%d frac=%d cc=%d off=%d strong=%s weak=%s db=%s fresh=%d progs=%s sched=%s'
            % (1 if init['caches'] else 0, init['freq'], init['frac'], init['cc'], init['off'],
               fmt_map([(i, k) for k, i in enumerate(init['strong'])]),
               fmt_map([(i, len(init['strong']) + k) for k, i in enumerate(init['weak'])]),
               ','.join(map(str, init['db'])) or '-', len(init['strong']) + len(init['weak']),
               progs_str(progs), ','.join(map(str, sched)) or '-'))


def run_real(init, progs, sched):
    """init: dict(caches, strong=[ids], weak=[ids], db=[ids], freq, frac, cc, off).
    Returns a dict with the raw outcome (objects are real instances)."""
    e = env()
    cache_mod, conn, IFactory = e['cache_mod'], e['conn'], e['IFactory']
    cls = the_class()
    s = Sched(len(progs))
    IFactory.sched = s
    cache_mod.CacheFactory = IFactory
    old_cache = conn.cache
    try:
        cs = cache_mod.CacheSet(cache=True, cullFrequency=init['freq'], cullFraction=init['frac'])
        cs.caches = ICaches(s)
        conn.cache = cs
        # rows (uninstrumented: the main thread is not a managed thread)
        conn.query('DELETE FROM %s' % cls.sqlmeta.table)
        for i in init['db']:
            conn.query('INSERT INTO %s (id, v) VALUES (%d, %d)' % (cls.sqlmeta.table, i, i))
        pinned = []
        if init['caches']:
            for i in list(init['strong']) + list(init['weak']):
                pinned.append(cls.get(i))
            cf = dict.__getitem__(cs.caches, cls.__name__)
            nst = len(init['strong'])
            # the setup gets may themselves have culled (small cullFrequency): lay the maps out explicitly
            cf._strong.d = dict((i, pinned[k]) for k, i in enumerate(init['strong']))
            cf._weak.d = dict((i, weakref.ref(pinned[nst + k])) for k, i in enumerate(init['weak']))
            cf._cc = init['cc']
            cf.cullOffset = init['off']
        outs = [[] for _ in progs]

        def do(op):
            k = op[0]
            if k == 'g':
                return ('obj', op[1], cls.get(op[1]))
            if k == 'c':
                return ('obj', op[1], cls(id=op[1], v=op[1]))
            if k == 'x':
                conn.cache.expire(op[1], cls)
                return ('unit',)
            if k == 'A':
                conn.cache.weakrefAll(cls)
                return ('unit',)
            if k == 'C':
                s.point('cull.entry')
                if dict.__contains__(cs.caches, cls.__name__):
                    dict.__getitem__(cs.caches, cls.__name__).cull()
                return ('unit',)
            raise ValueError(op)

        def body(t):
            def fn():
                for op in progs[t]:
                    try:
                        outs[t].append(do(op))
                    except BaseException as ex:   # an exception of the real code is an outcome
                        n = sqlo.exc_name(ex)
                        if n == 'NotFound':
                            outs[t].append(('nf', op[1]))
                        else:
                            if n.startswith('Other('):
                                n = n[6:-1]
                            if n in ('Duplicate', 'DbIntegrity'):
                                n = 'Integrity'
                            outs[t].append(('exc', n))
            return fn

        conn.sched = s
        deadlock = False
        hang = None
        try:
            s.start([body(t) for t in range(len(progs))])
            unfinished = s.run(sched)
        except Deadlock as ex:
            hang = str(ex)
            unfinished = [t for t in range(s.n) if not s.done[t]]
        finally:
            conn.sched = None
        cf = dict.get(cs.caches, cls.__name__)
        res = {
            'outs': [list(o) for o in outs], 'unfinished': unfinished, 'hang': hang, 'trace': list(s.trace), 'pinned': pinned,
            'lock': None if cf is None else cf.lock.holder,
            'strong': [] if cf is None else list(cf._strong.d.items()),
            'weak': [] if cf is None else [(k, r()) for k, r in cf._weak.d.items()],
            'cc': 0 if cf is None else cf._cc, 'off': 0 if cf is None else cf.cullOffset,
        }
        if unfinished:
            s.abandon()
            for th in s.threads:
                th.join(timeout=5.0)
        return res
    finally:
        cache_mod.CacheFactory = e['base']
        conn.cache = old_cache
        IFactory.sched = None


class Numbering:
    """object identities -> 0,1,2… in order of first appearance of a fixed traversal"""

    def __init__(self):
        self.ids = {}

    def __call__(self, o):
        if o is None:
            return 'dead'
        return self.ids.setdefault(id(o) if not isinstance(o, int) else ('m', o), len(self.ids))


def canon_real(r):
    num = Numbering()
    for o in r['pinned']:
        num(o)
    outs = []
    for t_outs in r['outs']:
        row = []
        for o in t_outs:
            if o[0] == 'obj':
                row.append('obj:%d:%s' % (o[1], num(o[2])))
            elif o[0] == 'nf':
                row.append('nf:%d' % o[1])
            elif o[0] == 'exc':
                row.append('exc:%s' % o[1])
            else:
                row.append('unit')
        outs.append(','.join(row) or '-')
    strong = ','.join('%d:%s' % (k, num(v)) for k, v in r['strong']) or '-'
    weak = ','.join('%d:%s' % (k, num(v)) for k, v in r['weak']) or '-'
    return {'outs': '/'.join(outs), 'lock': '-' if r['lock'] is None else str(r['lock']), 'strong': strong,
            'weak': weak, 'unfinished': ','.join(map(str, r['unfinished'])) or '-', 'cc': str(r['cc']),
            'off': str(r['off']), 'tr': ','.join(r['trace']) or '-'}


def canon_model(ans, npinned):
    f = dict(w.split('=', 1) for w in ans.split(' '))
    num = Numbering()
    for o in range(npinned):
        num(o)

    def ren_out(x):
        p = x.split(':')
        if p[0] == 'obj':
            return 'obj:%s:%s' % (p[1], num(int(p[2])))
        return x

    def ren_map(m):
        if m == '-':
            return m
        return ','.join('%s:%s' % (e.split(':')[0], num(int(e.split(':')[1]))) for e in m.split(','))
    outs = '/'.join(('-' if t == '-' else ','.join(ren_out(x) for x in t.split(','))) for t in f['outs'].split('/'))
    return {'outs': outs, 'lock': f['lock'], 'strong': ren_map(f['strong']), 'weak': ren_map(f['weak']),
            'unfinished': f['unfinished'], 'cc': f['cc'], 'off': f['off'], 'tr': f['tr'], 'stale': f['stale']}
