"""C09 — the instance cache is thread-safe under every interleaving.

Real threads execute the real `cache.py` / `main.py` code; `CacheFactory.lock`, `.cache`, `.expiredCache`,
`.cullCount` and `CacheSet.caches` are replaced (harness side, no /repo edit) by instrumented objects
that hand control to a deterministic scheduler before every shared access.  One thread runs at a time,
chosen by the schedule (a list of thread ids); a thread parked on a held cache lock is not runnable.
The same schedule is run on the Lean model (`drv_c09`): per-thread outcomes, final lock / strong / weak
state and the step-by-step access trace are compared.  The oracle (independent of the model) evaluates
the five clauses of the property on the real outcome.
"""
import itertools
import json
import os
import threading
import time
import weakref

from vlib import sqlo

PROP = 'C09'
KEY_RT = 'C09:created-vs-expireAll:RuntimeError'
KEY_LOST = 'C09:created-vs-expireAll:lost-entry'
KEY_TWO = 'C09:create-vs-get:two-instances'
# CacheFactory.clear() is lock-free (replayed only once these keys are listed open in known_findings.json)
KEY_CLEAR_HANG = 'C09:clear-vs-get:hang'
KEY_CLEAR_EA = 'C09:clear-vs-expireAll:RuntimeError'
KEY_CLEAR_CULL = 'C09:clear-vs-cull:KeyError'

META = {
    'extractors': ['pycache', 'pycachesteps'],
    'technique': ('Lean 4 proof: small-step interleaving semantics of the cache protocol, invariants proved preserved by '
                  'every atomic action, hence for every schedule of any number of threads and any programs; '
                  'schedule-controlled replay of the real cache.py/main.py under an instrumented lock/dicts; the per-thread '
                  'programs of the model are DERIVED from the source: the CacheFactory methods are translated from the AST on '
                  'every run (vlib/extractors/pycache.py), given a small-step semantics (Model/PyCacheSS.lean, proved equal to '
                  'the big-step reference semantics of C04 for a thread running alone) and interleaved (Model/ConcX.lean); a '
                  'lock-step simulation with the hand model is proved for all 45 program-counter kinds'),
    'level_text': '',   # filled below
    'level_note': '',
    'rule': ('case = (initial cache state, how the connection was configured, the class each thread works on, one program per '
             'thread, schedule); creates with explicit and with database-chosen ids; every statement sent to the shared raw '
             'connection is a scheduling point; exhaustive: every schedule with <= 2 '
             'preemptions of 2 threads over all ordered op pairs in 3 initial states; seeded random schedules of 3 threads '
             'with 1-3 ops each; distinct = distinct (state, programs, effective access trace); non-trivial = at least '
             'one context switch between unfinished threads'),
    'trusted': ['the harness scheduler and instrumentation (dict proxy, lock wrapper, cullCount property, DB hooks): a '
                'shared access that is not instrumented would be executed atomically with its neighbour',
                'CPython: one builtin-dict operation with int/str keys is atomic under the GIL'],
    'modelled': ['preemption inside one C-level dict operation (not expressible: actions are whole dict operations)',
                 'weak references follow CPython reference counting (an instance dies with its last strong reference; '
                 'SQLObject instances are in no reference cycle): threads keep every instance they obtained, the environment '
                 'pins a chosen subset of the initially cached ones, so the dead-weakref branches of get()/cull() ARE modelled '
                 'and exercised; an interpreter with delayed / cyclic collection, where an unreferenced instance may die '
                 'later and at any point of another thread, is not modelled',
                 'OS-level starvation / fairness (progress is: some thread is always enabled)',
                 'tryGet() (the lock-free lookup of Transaction.commit / unpickling) and CacheSet.clear() / clear(cls) are not in '
                 'the Lean model: they are EXECUTED as extra operations against the modelled ones and judged by the oracle only '
                 '(no exception, nobody blocked, lock free; identity where clear() is not involved); half of the harness classes '
                 'have falsy live instances (__len__ == 0); per-instance _SO_writeLock (never taken '
                 'while the cache lock is held, so it cannot take part in a lock cycle with it)',
                 'threading.Lock, sqlite3 (executed, not verified)',
                 'the connection set-up and the DB layer are not in the Lean model: they are EXECUTED - the shared in-memory '
                 'connection is built through the option-string / URI path in the documented boolean spellings (rotating), and '
                 'every statement it is sent is a scheduling point; the theorems assume what these layers must provide: rows '
                 'exist or not atomically, and created ids are distinct (FreshCreates) - an id-retrieval that needs a second '
                 'statement breaks exactly that and is caught by the replay',
                 'several classes on one connection: the model is the product of independent copies (C09_classes_independent); '
                 'the harness projects every multi-class run onto its classes and compares each with the model, and the '
                 'oracle checks that a thread gets an instance of the class it asked for and that no two classes share a '
                 'CacheFactory'],
    'assumptions': ['SafeProgs excludes create and expireAll in the same configuration even when they are in one thread sequentially (safe, but outside the theorem; covered by the replay only)',
                    'with doCache=False the map clauses are proved for programs without create only (created() then writes expiredCache lock-free); creates in that mode are covered by the replay',
                    'cullFraction >= 1 (the configuration constant is 2; 0 makes range() raise ValueError)',
                    'the attribute load of self.cache is a scheduling point of its own unless the loading thread holds the cache '
                    'lock (the rebinding `self.cache = {}` needs that lock, so such a load commutes with everything); '
                    'self.expiredCache is never rebound by the code in scope (the harness fails loudly if it is), so its '
                    'loads are not scheduling points'],
    'exhaustive': False,
}

WATCHDOG_S = 60.0


# --------------------------------------------------------------------------------------------- scheduler
class Deadlock(Exception):
    pass


def _taken_lock():
    l = threading.Lock()
    l.acquire()
    return l


class _Worker(threading.Thread):
    """a reusable real thread: runs one managed-thread body per run (creating OS threads for every one of the ~15 000
    runs of a check costs more than the runs themselves)"""

    def __init__(self):
        threading.Thread.__init__(self, daemon=True)
        self.wake = _taken_lock()
        self.job = None
        self.running = False
        self.start()

    def run(self):
        while True:
            self.wake.acquire()
            job, self.job = self.job, None
            try:
                job()
            finally:
                self.running = False

    def submit(self, job):
        self.running = True
        self.job = job
        self.wake.release()


_POOL = []


def _workers(n):
    # a worker still busy with an abandoned (deadlocked) run is replaced
    for k in range(len(_POOL)):
        if _POOL[k].running:
            _POOL[k] = _Worker()
    while len(_POOL) < n:
        _POOL.append(_Worker())
    return _POOL[:n]


class Sched:
    """One managed thread runs at a time.  The thread that reaches a scheduling point decides itself, from the
    schedule, who performs the next action: if it is its own turn it just goes on, otherwise it wakes that thread
    and parks (one hand-over per context switch of the schedule, none while a thread keeps running).
    A schedule entry for a thread that is finished or blocked on a held cache lock is skipped; after the schedule
    the lowest enabled thread runs, until none is enabled."""

    def __init__(self, n):
        self.n = n
        # binary semaphores as raw locks (locked = 0, released = 1): strictly alternating release/acquire
        self.go = [_taken_lock() for _ in range(n)]
        self.back = _taken_lock()         # to the main thread: set-up step done / run over
        self.parked = [None] * n          # (kind, lockobj-or-None) the thread is parked at
        self.done = [False] * n
        self.tids = {}                    # thread ident -> tid
        self.trace = []
        self.hang = False
        self.active = True
        self.phase = 'setup'
        self.schedule = []
        self.pos = 0

    def me(self):
        return self.tids.get(threading.get_ident())

    def enabled(self, t):
        if self.done[t] or self.parked[t] is None:
            return False
        kind, lock = self.parked[t]
        if kind == 'acquire' and lock.holder is not None:
            return False
        return True

    def choose(self):
        """the thread to perform the next action (None: nobody can), consuming the schedule"""
        sch = self.schedule
        while self.pos < len(sch):
            u = sch[self.pos]
            self.pos += 1
            if 0 <= u < self.n and self.enabled(u):
                return u
        for u in range(self.n):           # drain: lowest enabled thread first
            if self.enabled(u):
                return u
        return None

    def hand_over(self, t):
        """called by the thread in control (t, or None for the main thread) when it cannot go on by itself;
        returns True when t itself is chosen"""
        u = self.choose()
        if u is None:
            self.back.release()           # run over (or deadlock): tell the main thread
            return False
        self.trace.append('%d:%s' % (u, self.parked[u][0]))
        self.parked[u] = None
        if u == t:
            return True
        self.go[u].release()
        return False

    # ---- thread side
    def point(self, kind, lock=None):
        t = self.me()
        if t is None or not self.active:
            return
        self.parked[t] = (kind, lock)
        if self.phase == 'setup':
            self.back.release()
            self.go[t].acquire()
            return
        if not self.hand_over(t):
            self.go[t].acquire()

    def thread_main(self, t, fn):
        self.tids[threading.get_ident()] = t
        self.go[t].acquire()              # wait for the set-up turn
        try:
            fn()
        finally:
            self.done[t] = True
            self.parked[t] = None
            if not self.active:
                pass
            elif self.phase == 'setup':
                self.back.release()
            else:
                self.hand_over(t)

    # ---- main thread
    def wait_back(self):
        if not self.back.acquire(timeout=WATCHDOG_S):
            self.hang = True
            raise Deadlock('watchdog: a managed thread neither parked nor finished within %ss' % WATCHDOG_S)

    def start(self, fns):
        self.threads = _workers(len(fns))
        for t, fn in enumerate(fns):
            self.threads[t].submit(lambda t=t, fn=fn: self.thread_main(t, fn))
        for t in range(self.n):           # run every thread up to its first shared access, one at a time
            self.go[t].release()
            self.wait_back()

    def run(self, schedule):
        self.schedule = list(schedule)
        self.pos = 0
        self.phase = 'run'
        self.hand_over(None)              # wakes the first thread, or releases `back` at once
        self.wait_back()
        return [t for t in range(self.n) if not self.done[t]]

    def abandon(self):
        """release threads that are still parked (deadlocked run): they finish uninstrumented"""
        self.active = False
        for t in range(self.n):
            if not self.done[t]:
                try:
                    self.go[t].release()
                except RuntimeError:
                    pass


class ILock:
    """stands for threading.Lock; blocking is decided by the scheduler (a parked acquirer is not runnable
    while the lock is held), so no real lock is needed"""

    def __init__(self, sched):
        self.s = sched
        self.holder = None

    def acquire(self, blocking=True, timeout=-1):
        self.s.point('acquire', self)
        if self.holder is not None:
            if self.s.active:
                raise AssertionError('scheduler granted an acquire of a held lock')
            return True                    # abandoned (deadlocked) run: let the thread end
        t = self.s.me()
        self.holder = -1 if t is None else t
        return True

    def release(self):
        self.s.point('release')
        if self.holder is None:
            raise RuntimeError('release unlocked lock')
        self.holder = None

    def locked(self):
        return self.holder is not None


class _Iter:
    def __init__(self, sched, name, it):
        self.s, self.name, self.it = sched, name, it

    def __iter__(self):
        return self

    def __next__(self):
        self.s.point(self.name + '.next')
        return next(self.it)


class _View:
    def __init__(self, sched, name, make):
        self.s, self.name, self.make = sched, name, make

    def __iter__(self):
        return _Iter(self.s, self.name, self.make())


class IDict:
    """Stable proxy for a CacheFactory dict attribute: every operation parks first, then acts on the dict
    the attribute is bound to *at that moment* (so attribute load + dict operation is one action); an
    iterator stays bound to the dict it was created on, like a real dict iterator."""

    def __init__(self, sched, name):
        self.s, self.name, self.d = sched, name, {}

    def __getitem__(self, k):
        self.s.point(self.name + '.get')
        return self.d[k]

    def __setitem__(self, k, v):
        self.s.point(self.name + '.set')
        self.d[k] = v

    def __delitem__(self, k):
        self.s.point(self.name + '.del')
        del self.d[k]

    def __contains__(self, k):
        self.s.point(self.name + '.in')
        return k in self.d

    def get(self, k, default=None):
        self.s.point(self.name + '.get')
        return self.d.get(k, default)

    def pop(self, k, *a):
        self.s.point(self.name + '.del')
        return self.d.pop(k, *a)

    def keys(self):
        self.s.point(self.name + '.keys')
        return list(self.d.keys())

    def values(self):
        self.s.point(self.name + '.keys')
        return list(self.d.values())

    def items(self):
        d = self.d
        return _View(self.s, self.name, lambda: iter(d.items()))

    def __iter__(self):
        d = self.d
        return _Iter(self.s, self.name, iter(d))

    def __len__(self):
        return len(self.d)

    def clear(self):
        self.s.point(self.name + '.clear')
        self.d.clear()

    def rebind(self, new):
        self.s.point(self.name + '.swap')
        self.d = dict(new)


class BoundDict:
    """What `self.cache` evaluates to: the dict object the attribute is bound to AT THE TIME OF THE ATTRIBUTE LOAD.
    Every operation parks first and then acts on that dict object - also after `self.cache = {}` has rebound the
    attribute (a stale alias).  Holding a BoundDict keeps the old dict, hence its values, alive, as in CPython."""

    def __init__(self, sched, name, d):
        self.s, self.name, self.d = sched, name, d

    def __getitem__(self, k):
        self.s.point(self.name + '.get')
        return self.d[k]

    def __setitem__(self, k, v):
        self.s.point(self.name + '.set')
        self.d[k] = v

    def __delitem__(self, k):
        self.s.point(self.name + '.del')
        del self.d[k]

    def __contains__(self, k):
        self.s.point(self.name + '.in')
        return k in self.d

    def get(self, k, default=None):
        self.s.point(self.name + '.get')
        return self.d.get(k, default)

    def pop(self, k, *a):
        self.s.point(self.name + '.del')
        return self.d.pop(k, *a)

    def keys(self):
        self.s.point(self.name + '.keys')
        return list(self.d.keys())

    def values(self):
        self.s.point(self.name + '.keys')
        return list(self.d.values())

    def items(self):
        d = self.d
        return _View(self.s, self.name, lambda: iter(d.items()))

    def __iter__(self):
        return _Iter(self.s, self.name, iter(self.d))

    def __len__(self):
        return len(self.d)

    def clear(self):
        self.s.point(self.name + '.clear')
        self.d.clear()


class ICaches(dict):
    """`CacheSet.caches`: an access parks only while the class has no entry yet (once installed the entry
    never changes, so later reads commute with everything)."""

    def __init__(self, sched):
        dict.__init__(self)
        self.s = sched

    def __getitem__(self, k):
        if not dict.__contains__(self, k):
            self.s.point('caches')
        return dict.__getitem__(self, k)

    def __contains__(self, k):
        if not dict.__contains__(self, k):
            self.s.point('caches')
        return dict.__contains__(self, k)

    def setdefault(self, k, v=None):
        if not dict.__contains__(self, k):
            self.s.point('caches')
        return dict.setdefault(self, k, v)

    def clear(self):
        self.s.point('caches')
        dict.clear(self)

    def pop(self, k, *a):
        self.s.point('caches')
        return dict.pop(self, k, *a)

    def __setitem__(self, k, v):
        # not used by the current code (setdefault fix); a plain store is a write, hence always a shared
        # access: this is what lets a reverted fix (two racing `self.caches[name] = CacheFactory()`) show up
        self.s.point('caches')
        dict.__setitem__(self, k, v)


_env = {}


def env():
    if _env:
        return _env
    sqlo.setup()
    from sqlobject import SQLObject, IntCol
    from sqlobject import cache as cache_mod
    from sqlobject.sqlite.sqliteconnection import SQLiteConnection

    class Conn(SQLiteConnection):
        """every STATEMENT sent to the shared raw connection is a scheduling point (not every high-level call: an
        insert that needs a second statement to learn the new id can be interleaved with another thread's insert)"""
        sched = None

        def _executeRetry(self, conn, cursor, query):
            if self.sched is not None:
                q = query.lstrip()[:6].upper()
                self.sched.point('db.insert' if q == 'INSERT' else 'db.select' if q == 'SELECT' else 'db.other')
            return SQLiteConnection._executeRetry(self, conn, cursor, query)

    base = cache_mod.CacheFactory

    class IFactory(base):
        """the real CacheFactory with its shared attributes routed through the scheduler"""
        sched = None

        def __init__(self, *a, **kw):
            object.__setattr__(self, '_building', True)
            s = IFactory.sched
            object.__setattr__(self, '_strong', IDict(s, 'strong'))
            object.__setattr__(self, '_weak', IDict(s, 'weak'))
            object.__setattr__(self, '_cc', 0)
            base.__init__(self, *a, **kw)
            object.__setattr__(self, 'lock', ILock(s))
            object.__setattr__(self, '_building', False)

        def __setattr__(self, name, value):
            if name == 'cache':
                if self._building:
                    self._strong.d = dict(value)
                else:
                    self._strong.rebind(value)
            elif name == 'expiredCache':
                if self._building:
                    self._weak.d = dict(value)
                else:
                    # the code in scope never rebinds expiredCache (only clear() would empty it in place): loads of
                    # self.expiredCache therefore commute with everything and are not scheduling points
                    raise AssertionError('unmodelled: self.expiredCache rebound')
            elif name == 'cullCount':
                if not self._building:
                    IFactory.sched.point('cc.write')
                object.__setattr__(self, '_cc', value)
            else:
                object.__setattr__(self, name, value)

        @property
        def cache(self):
            # the attribute load is a shared access of its own: `self.cache = {}` (expireAll) rebinds the attribute,
            # so WHEN it is read decides which dict a later operation uses.  The rebinding needs the cache lock,
            # hence a load by the lock holder commutes with everything and is not a scheduling point.
            s = IFactory.sched
            if not self._building and s is not None and s.me() is not None and self.lock.holder != s.me():
                s.point('strong.load')
            return BoundDict(s, 'strong', self._strong.d)

        @property
        def expiredCache(self):
            return self._weak

        @property
        def cullCount(self):
            if not self._building:
                IFactory.sched.point('cc.read')
            return self._cc

    _env.update(Conn=Conn, conns={}, classes={}, cache_mod=cache_mod, base=base, IFactory=IFactory, SQLObject=SQLObject,
                IntCol=IntCol, n=0)
    return _env


# How the shared in-memory connection is configured.  Variant 0 passes Python booleans; the others go through the
# URI / option-string path with the documented spellings of a boolean ("case ignored": false/no/off/0, true/yes/on/1).
# (URI query string for doCache=True, for doCache=False)
CONN_VARIANTS = (
    None,
    ('check_same_thread=False', 'check_same_thread=False&cache=False'),
    ('check_same_thread=No&cache=Yes', 'check_same_thread=No&cache=No'),
    ('check_same_thread=OFF&cache=ON', 'check_same_thread=OFF&cache=OFF'),
    ('check_same_thread=false&cache=true', 'check_same_thread=false&cache=0'),
    ('check_same_thread=0&cache=1', 'check_same_thread=0&cache=FALSE'),
)


def the_conn(variant, dc):
    e = env()
    key = (variant, bool(dc))
    if key not in e['conns']:
        Conn = e['Conn']
        if CONN_VARIANTS[variant] is None:
            conn = Conn(':memory:', check_same_thread=False, cache=bool(dc))
        else:
            conn = Conn.connectionFromURI('sqlite:/:memory:?' + CONN_VARIANTS[variant][0 if dc else 1])
        e['conns'][key] = conn
    return e['conns'][key]


def the_class(conn, k=0):
    """the k-th class of a connection: one table each for all runs; every run starts from emptied tables and a
    fresh CacheSet"""
    e = env()
    key = (id(conn), k)
    if key not in e['classes']:
        name = sqlo.uniq('C09T')
        attrs = {'_connection': conn, 'v': e['IntCol'](default=0)}
        if (len(e['classes']) + k) % 2 == 1:
            # a model class whose LIVE instances are falsy (a container-like row object with nothing in it):
            # "is the referent gone" must be asked with `is None`, never by truth value
            attrs['__len__'] = lambda self: 0
        cls = type(name, (e['SQLObject'],), attrs)
        cls.createTable()
        e['classes'][key] = cls
    return e['classes'][key]


# --------------------------------------------------------------------------------------------- one run
def op_str(op):
    return op[0] + (str(op[1]) if len(op) > 1 else '')


def progs_str(progs):
    return '/'.join('.'.join(op_str(o) for o in p) if p else '-' for p in progs)


def fmt_map(m):
    return ','.join('%d:%d' % kv for kv in m) if m else '-'


def cached_ids(init):
    return (list(init['strong']) + list(init['weak'])) if init['caches'] else []


def pinned_ids(init):
    """row ids whose cached instance the environment keeps a reference to (default: all of them)"""
    ids = cached_ids(init)
    pins = init.get('pins')
    return ids if pins is None else [i for i in ids if i in pins]


def pin_objs(init):
    """model object numbers of the pinned instances (objects are numbered in strong+weak order)"""
    ids = cached_ids(init)
    return [ids.index(i) for i in pinned_ids(init)]


def model_line(init, progs, sched):
    return ('dc=%d c=%d freq=%d frac=%d cc=%d off=%d strong=%s weak=%s db=%s fresh=%d pins=%s progs=%s sched=%s'
            % (1 if init.get('dc', True) else 0, 1 if init['caches'] else 0, init['freq'], init['frac'], init['cc'], init['off'],
               fmt_map([(i, k) for k, i in enumerate(init['strong'])]),
               fmt_map([(i, len(init['strong']) + k) for k, i in enumerate(init['weak'])]),
               ','.join(map(str, init['db'])) or '-', len(init['strong']) + len(init['weak']),
               ','.join(map(str, pin_objs(init))) or '-',
               progs_str(progs), ','.join(map(str, sched)) or '-'))


def thread_classes(init, progs):
    """class index of every thread (default: all threads use class 0, the one the initial cache state is about)"""
    t = list(init.get('tcls') or [])
    return (t + [0] * len(progs))[:len(progs)]


def run_real(init, progs, sched):
    """init: dict(caches, strong=[ids], weak=[ids], db=[ids], freq, frac, cc, off [, dc, pins, conn, tcls]).
    `conn`: how the connection is configured (CONN_VARIANTS); `tcls`: the class each thread works on - class 0 starts
    in the described cache state, every other class has the same rows and has never been used on the connection.
    Returns a dict with the raw outcome (objects are real instances)."""
    e = env()
    cache_mod, IFactory = e['cache_mod'], e['IFactory']
    dc = bool(init.get('dc', True))
    conn = the_conn(init.get('conn', 0) % len(CONN_VARIANTS), dc)
    tcls = thread_classes(init, progs)
    ncls = max(tcls) + 1 if tcls else 1
    classes = [the_class(conn, k) for k in range(ncls)]
    cls = classes[0]
    s = Sched(len(progs))
    IFactory.sched = s
    cache_mod.CacheFactory = IFactory
    old_cache = conn.cache
    try:
        # the CacheSet of the connection, in the mode the connection was CONFIGURED with
        cs = cache_mod.CacheSet(cache=conn.doCache, cullFrequency=init['freq'], cullFraction=init['frac'])
        cs.caches = ICaches(s)
        conn.cache = cs
        # rows (uninstrumented: the main thread is not a managed thread)
        for c in classes:
            conn.query('DELETE FROM %s' % c.sqlmeta.table)
            for i in init['db']:
                conn.query('INSERT INTO %s (id, v) VALUES (%d, %d)' % (c.sqlmeta.table, i, i))
        pinned = []
        if init['caches']:
            objs = [cls.get(i) for i in cached_ids(init)]
            cf = dict.__getitem__(cs.caches, cls.__name__)
            nst = len(init['strong'])
            # the setup gets may themselves have culled (small cullFrequency): lay the maps out explicitly
            cf._strong.d = dict((i, objs[k]) for k, i in enumerate(init['strong']))
            cf._weak.d = dict((i, weakref.ref(objs[nst + k])) for k, i in enumerate(init['weak']))
            cf._cc = init['cc']
            cf.cullOffset = init['off']
            # the environment keeps only the pinned instances: an unpinned one in expiredCache is dead at once
            # (CPython frees an instance with its last strong reference), one in cache dies when it leaves it
            pinned = [objs[k] for k in pin_objs(init)]
            del objs
        outs = [[] for _ in progs]

        def do(op, cls):
            k = op[0]
            if k == 'g':
                return ('obj', op[1], cls.get(op[1]))
            if k == 'c':
                return ('obj', op[1], cls(id=op[1], v=op[1]))
            if k == 'ca':                      # the database chooses the id
                o = cls(v=0)
                return ('obj', o.id, o)
            if k == 'x':
                conn.cache.expire(op[1], cls)
                return ('unit',)
            if k == 'A':
                if not dc:
                    s.point('ea.entry')      # doCache=False: expireAll touches nothing shared; mark the operation
                conn.cache.weakrefAll(cls)
                return ('unit',)
            if k == 't':                       # the lock-free lookup (Transaction.commit, unpickling)
                s.point('tryget.entry')
                o = conn.cache.tryGet(op[1], cls)
                return ('unit',) if o is None else ('obj', op[1], o)
            if k in ('K', 'Kc'):               # connection.cache.clear() / clear(cls): documented, lock-free
                s.point('clear.entry')
                if k == 'K':
                    conn.cache.clear()
                else:
                    conn.cache.clear(cls)
                return ('unit',)
            if k == 'C':
                s.point('cull.entry')
                if dc and dict.__contains__(cs.caches, cls.__name__):   # cull() is never reached with doCache=False
                    dict.__getitem__(cs.caches, cls.__name__).cull()
                return ('unit',)
            raise ValueError(op)

        def body(t):
            def fn():
                for op in progs[t]:
                    try:
                        outs[t].append(do(op, classes[tcls[t]]))
                    except BaseException as ex:   # an exception of the real code is an outcome
                        n = sqlo.exc_name(ex)
                        if n == 'NotFound':
                            outs[t].append(('nf', op[1]))
                        else:
                            if n.startswith('Other('):
                                n = n[6:-1]
                            if n in ('Duplicate', 'DbIntegrity'):
                                n = 'Integrity'
                            outs[t].append(('exc', n))
            return fn

        conn.sched = s
        hang = None
        try:
            s.start([body(t) for t in range(len(progs))])
            unfinished = s.run(sched)
        except Deadlock as ex:
            hang = str(ex)
            unfinished = [t for t in range(s.n) if not s.done[t]]
        finally:
            conn.sched = None
        per_class = []
        for k, c in enumerate(classes):
            cf = dict.get(cs.caches, c.__name__)
            per_class.append({
                'cls': c, 'lock': None if cf is None else cf.lock.holder,
                'strong': [] if cf is None else list(cf._strong.d.items()),
                'weak': [] if cf is None else [(i, r()) for i, r in cf._weak.d.items()],
                'cc': 0 if cf is None else cf._cc, 'off': 0 if cf is None else cf.cullOffset,
                'pinned': pinned if k == 0 else [], 'factory': cf})
        res = {'outs': [list(o) for o in outs], 'unfinished': unfinished, 'hang': hang, 'trace': list(s.trace),
               'tcls': tcls, 'classes': per_class}
        res.update((key, per_class[0][key]) for key in ('lock', 'strong', 'weak', 'cc', 'off', 'pinned'))
        if unfinished:
            s.abandon()
            t_end = time.time() + 5.0
            while any(th.running for th in s.threads) and time.time() < t_end:
                time.sleep(0.01)
        return res
    finally:
        cache_mod.CacheFactory = e['base']
        conn.cache = old_cache
        IFactory.sched = None


def project(init, progs, sched, r, k):
    """the part of a run that concerns class k: its threads (renumbered 0..), their programs with every automatic
    id replaced by the id the database handed out, their part of the schedule and of the trace, its cache.
    In the code the classes of one connection share nothing but the CacheSet.caches dict (distinct keys), so this
    is what a run of class k alone, under the projected schedule, must look like."""
    tcls = r['tcls']
    ts = [t for t in range(len(progs)) if tcls[t] == k]
    ren = dict((t, n) for n, t in enumerate(ts))
    sub = []
    for t in ts:
        p = []
        for n, op in enumerate(progs[t]):
            if op[0] == 'ca':
                out = r['outs'][t][n] if n < len(r['outs'][t]) else None
                p.append(('c', out[1] if out and out[0] == 'obj' else 900 + 10 * t + n))
            else:
                p.append(op)
        sub.append(p)
    if k == 0:
        init_k = dict((key, v) for key, v in init.items() if key != 'tcls')
    else:                              # never used on this connection; same rows; same configuration
        init_k = dict((key, v) for key, v in init.items() if key not in ('tcls', 'pins'))
        init_k.update(caches=False, strong=[], weak=[], cc=0, off=0)
    c = r['classes'][k]
    r_k = {'outs': [r['outs'][t] for t in ts], 'unfinished': [ren[t] for t in r['unfinished'] if t in ren],
           'hang': r['hang'], 'tcls': [0] * len(ts), 'classes': [c],
           'trace': ['%d:%s' % (ren[int(x.split(':')[0])], x.split(':', 1)[1]) for x in r['trace']
                     if int(x.split(':')[0]) in ren],
           'lock': None if c['lock'] is None else ren.get(c['lock'], 'other-class:%s' % c['lock'])}
    r_k.update((key, c[key]) for key in ('strong', 'weak', 'cc', 'off', 'pinned'))
    return init_k, sub, [ren[t] for t in sched if t in ren], r_k


class Numbering:
    """object identities -> 0,1,2… in order of first appearance of a fixed traversal"""

    def __init__(self):
        self.ids = {}

    def __call__(self, o):
        if o is None:
            return 'dead'
        return self.ids.setdefault(id(o) if not isinstance(o, int) else ('m', o), len(self.ids))


def canon_real(r):
    num = Numbering()
    for o in r['pinned']:
        num(o)
    outs = []
    for t_outs in r['outs']:
        row = []
        for o in t_outs:
            if o[0] == 'obj':
                row.append('obj:%d:%s' % (o[1], num(o[2])))
            elif o[0] == 'nf':
                row.append('nf:%d' % o[1])
            elif o[0] == 'exc':
                row.append('exc:%s' % o[1])
            else:
                row.append('unit')
        outs.append(','.join(row) or '-')
    strong = ','.join('%d:%s' % (k, num(v)) for k, v in r['strong']) or '-'
    weak = ','.join('%d:%s' % (k, num(v)) for k, v in r['weak']) or '-'
    return {'outs': '/'.join(outs), 'lock': '-' if r['lock'] is None else str(r['lock']), 'strong': strong,
            'weak': weak, 'unfinished': ','.join(map(str, r['unfinished'])) or '-', 'cc': str(r['cc']),
            'off': str(r['off']), 'tr': ','.join(r['trace']) or '-'}


def canon_model(ans, pins, prefix=''):
    """prefix='' : the hand model Conc; prefix='x': the translated small-step system ConcX (same answer line)"""
    f = dict(w.split('=', 1) for w in ans.split(' '))
    if prefix:
        f = dict((k[len(prefix):], v) for k, v in f.items() if k.startswith(prefix))
        f.setdefault('stale', '-')
    num = Numbering()
    for o in pins:
        num(o)

    def ren_out(x):
        p = x.split(':')
        if p[0] == 'obj':
            return 'obj:%s:%s' % (p[1], num(int(p[2])))
        return x

    def ren_map(m):
        if m == '-':
            return m
        return ','.join('%s:%s' % (e.split(':')[0], 'dead' if e.split(':')[1] == 'dead' else num(int(e.split(':')[1])))
                        for e in m.split(','))
    outs = '/'.join(('-' if t == '-' else ','.join(ren_out(x) for x in t.split(','))) for t in f['outs'].split('/'))
    return {'outs': outs, 'lock': f['lock'], 'strong': ren_map(f['strong']), 'weak': ren_map(f['weak']),
            'unfinished': f['unfinished'], 'cc': f['cc'], 'off': f['off'], 'tr': f['tr'], 'stale': f['stale']}


# --------------------------------------------------------------------------------------------- oracle
WARM = dict(caches=True, strong=[1, 2], weak=[3], db=[1, 2, 3, 4], freq=100, frac=2, cc=0, off=0)
COLD = dict(caches=False, strong=[], weak=[], db=[1, 2, 3, 4], freq=100, frac=2, cc=0, off=0)
# cullCount > cullFrequency: the next get()/created() culls
CULLY = dict(caches=True, strong=[1, 2, 4], weak=[3], db=[1, 2, 3, 4], freq=0, frac=2, cc=1, off=1)
# only row 1's instance is referenced by the environment: row 3's weak reference is dead from the start, row 2's
# instance dies the moment it leaves `cache` (expireAll's swap, cull, expire)
WARMU = dict(WARM, pins=[1])
CULLYU = dict(CULLY, pins=[4])
# doCache=False (connection created with cache=False): only expiredCache is used; row 1's instance is referenced by
# the environment, row 3's weak reference is dead
NOCACHE = dict(dc=False, caches=True, strong=[], weak=[1, 3], pins=[1], db=[1, 2, 3, 4], freq=100, frac=2, cc=0, off=0)
NOCACHE_COLD = dict(dc=False, caches=False, strong=[], weak=[], db=[1, 2, 3, 4], freq=100, frac=2, cc=0, off=0)
INITS = (('warm', WARM), ('cold', COLD), ('cully', CULLY), ('warmu', WARMU), ('nocache', NOCACHE))


def init_tag(init):
    """short deterministic name of an initial state (the connection variant is not part of it)"""
    tcls = init.get('tcls')
    init = dict((k, v) for k, v in init.items() if k not in ('conn', 'tcls'))
    suffix = ('.cls' + ''.join(map(str, tcls))) if tcls and max(tcls) > 0 else ''
    for name, i in INITS + (('nocache-cold', NOCACHE_COLD),):
        if init == i:
            return name + suffix
    return _long_tag(init) + suffix


def _long_tag(init):
    return '%sc%d.s%s.w%s.d%s.f%d.r%d.n%d.o%d.p%s' % (
        '' if init.get('dc', True) else 'nc.', 1 if init['caches'] else 0, '_'.join(map(str, init['strong'])) or '-', '_'.join(map(str, init['weak'])) or '-',
        '_'.join(map(str, init['db'])) or '-', init['freq'], init['frac'], init['cc'], init['off'],
        '_'.join(map(str, pinned_ids(init))) or '-')


def _threads_with(progs, pred):
    return set(t for t, p in enumerate(progs) if any(pred(op) for op in p))


def _two_threads(ts, us):
    """some thread of ts and a *different* thread of us"""
    return any(t != u for t in ts for u in us)


class _Everything:
    def __contains__(self, x):
        return True


def oracle_all(init, progs, r):
    """the oracle for a run on one or several classes of one connection: the five clauses per class, plus: a thread
    gets an instance of the class it asked for, and two classes never share a cache"""
    ncls = len(r['classes'])
    ptxt = progs_str(progs)
    tag = init_tag(init)
    fails = []
    for k in range(ncls):
        init_k, sub, _, r_k = project(init, progs, [], r, k)
        fails += oracle(init_k, sub, r_k, ptxt=ptxt, tag=tag)
    seen = set()
    for t, t_outs in enumerate(r['outs']):
        want = r['classes'][r['tcls'][t]]['cls']
        for n, out in enumerate(t_outs):
            if out[0] == 'obj' and type(out[2]) is not want and 'mix' not in seen:
                seen.add('mix')
                fails.append(('C09:class-mixup:%s:%s' % (ptxt, tag),
                              'thread %d op %d (%s) asked for a %s and holds a %s (programs %s, state %s)'
                              % (t, n, op_str(progs[t][n]), want.__name__, type(out[2]).__name__, ptxt, tag)))
    for a in range(ncls):
        for b in range(a + 1, ncls):
            fa, fb = r['classes'][a]['factory'], r['classes'][b]['factory']
            if fa is not None and fa is fb and 'share' not in seen:
                seen.add('share')
                fails.append(('C09:class-mixup:%s:%s' % (ptxt, tag),
                              'classes %d and %d of the connection share one CacheFactory (one id->instance dict, one '
                              'lock) (programs %s, state %s)' % (a, b, ptxt, tag)))
    out, keys = [], set()
    for key, what in fails:                 # one report per key
        if key not in keys:
            keys.add(key)
            out.append((key, what))
    return out


def oracle(init, progs, r, ptxt=None, tag=None):
    """The five clauses of C09 on the RAW outcome of the real code for ONE class (the model is not involved).
    Returns a list of (key, what)."""
    fails = []
    ptxt = ptxt or progs_str(progs)
    tag = tag or init_tag(init)

    creators = _threads_with(progs, lambda op: op[0] == 'c')
    create_vs_expire_all = _two_threads(creators, _threads_with(progs, lambda op: op[0] == 'A'))
    created_ids = set(op[1] for p in progs for op in p if op[0] == 'c')
    create_vs_get = any(_two_threads(_threads_with(progs, lambda op: op == ('c', i)),
                                     _threads_with(progs, lambda op: op == ('g', i))) for i in created_ids)
    # expire(id) legitimately forgets the instance: identity / reachability of such ids is not constrained
    expired = set(op[1] for p in progs for op in p if op[0] == 'x')
    if any(op[0] in ('K', 'Kc') for p in progs for op in p):
        # cache.clear() "removes everything from the cache ... can cause duplicate objects": only the clauses
        # no-exception / nobody blocked / lock free are left
        expired = _Everything()

    clearers = _threads_with(progs, lambda op: op[0] in ('K', 'Kc'))

    def generic(clause):
        if clearers and clause in ('blocked', 'lock-held') and \
                _two_threads(clearers, _threads_with(progs, lambda op: op[0] == 'g')):
            return KEY_CLEAR_HANG
        return 'C09:%s:%s:%s' % (clause, ptxt, tag)

    def identity_key(clause):
        if create_vs_expire_all:
            return KEY_LOST
        if create_vs_get:
            return KEY_TWO
        return generic(clause)

    # every reference the environment or a thread holds at the end: (row id, object, who)
    refs = []
    for i, o in zip(pinned_ids(init), r['pinned']):
        refs.append((i, o, 'the environment (cached before the run)'))
    for t, t_outs in enumerate(r['outs']):
        for k, out in enumerate(t_outs):
            if out[0] == 'obj':
                refs.append((out[1], out[2], 'thread %d op %d (%s)' % (t, k, op_str(progs[t][k]))))

    # (a) same object for one row
    first = {}
    bad_a = set()
    for i, o, who in refs:
        if i in expired or i in bad_a:
            continue
        if i not in first:
            first[i] = (o, who)
        elif first[i][0] is not o:
            bad_a.add(i)
            fails.append((identity_key('same-object'),
                          'two different instances for row %d: %s and %s (programs %s, state %s)'
                          % (i, first[i][1], who, ptxt, tag)))

    # (b) no thread blocked forever
    if r['unfinished'] or r['hang'] is not None:
        fails.append((generic('blocked'), 'threads %s never finished%s (programs %s, state %s)'
                      % (r['unfinished'], '' if r['hang'] is None else ' [' + r['hang'] + ']', ptxt, tag)))

    # (c) lock free at the end
    if r['lock'] is not None:
        fails.append((generic('lock-held'), 'the cache lock is still held by thread %s at the end (programs %s, state %s)'
                      % (r['lock'], ptxt, tag)))

    # (d) no exception but SQLObjectNotFound
    n_create = {}
    for p in progs:
        for op in p:
            if op[0] == 'c':
                n_create[op[1]] = n_create.get(op[1], 0) + 1
    seen_d = set()
    for t, t_outs in enumerate(r['outs']):
        for k, out in enumerate(t_outs):
            if out[0] != 'exc':
                continue
            op = progs[t][k]
            if out[1] == 'Integrity' and op[0] == 'c' and (op[1] in init['db'] or n_create.get(op[1], 0) > 1):
                continue              # duplicate primary key: the database's documented answer
            if out[1] == 'RuntimeError' and op[0] == 'A' and _two_threads(clearers, {t}):
                key = KEY_CLEAR_EA
            elif out[1] == 'KeyError' and op[0] == 'C' and _two_threads(clearers, {t}):
                key = KEY_CLEAR_CULL
            elif out[1] == 'RuntimeError' and create_vs_expire_all:
                key = KEY_RT
            else:
                key = generic('exception-' + out[1])
            if key in seen_d:
                continue
            seen_d.add(key)
            fails.append((key, 'thread %d: %s raised %s (programs %s, state %s)' % (t, op_str(op), out[1], ptxt, tag)))

    # (e) every object somebody still references is the cache's entry for its row
    strong = dict(r['strong'])
    weak = dict(r['weak'])
    bad_e = set()
    for i, o, who in refs:
        if i in expired or i in bad_e:
            continue
        if strong.get(i) is o or weak.get(i) is o:
            continue
        bad_e.add(i)
        fails.append((identity_key('unreachable'),
                      'the instance for row %d held by %s is not the cache entry of row %d at the end (programs %s, state %s)'
                      % (i, who, i, ptxt, tag)))
    return fails


# --------------------------------------------------------------------------------------------- schedules
N_TAIL = 60      # more grants than any single operation has steps


def trace_tids(trace):
    return [int(e.split(':', 1)[0]) for e in trace]


def has_preemption(r):
    """a context switch away from a thread that is not finished at that moment (it steps again later, or never ends)"""
    tids = trace_tids(r['trace'])
    for p in range(1, len(tids)):
        u = tids[p - 1]
        if tids[p] != u and (u in tids[p:] or u in r['unfinished']):
            return True
    return False


def two_thread_schedules(visit, cap):
    """Every schedule of 2 threads with <= 2 preemptions: a^x b^y a* b* for both orders (a, b).
    `visit(sched)` runs one schedule and returns the raw result (None: stop).  Growing x (resp. y) ends as soon
    as the real trace shows that the block was not used up: the thread finished or is blocked on the lock, and
    (nothing else moves during its block) more grants change nothing.
    x and y start at 1: x = 0 is `b^y a* b*`, which the other order produces as b^y a^(all) b*; y = 0 is the
    sequential run a* b*, produced as a^(all) b^1 a* b*."""
    for a, b in ((0, 1), (1, 0)):
        for x in range(1, cap + 1):
            a_done = False
            for y in range(1, cap + 1):
                r = visit([a] * x + [b] * y + [a] * N_TAIL + [b] * N_TAIL)
                if r is None:
                    return
                tids = trace_tids(r['trace'])
                e1 = 0
                while e1 < x and e1 < len(tids) and tids[e1] == a:
                    e1 += 1
                if e1 < x:                 # a ended before its x-th grant: x, x+1, … are the same schedule
                    a_done = True
                    break
                e2 = 0
                while e2 < y and e1 + e2 < len(tids) and tids[e1 + e2] == b:
                    e2 += 1
                if e2 < y:                 # b ended / is blocked before its y-th grant
                    break
                if a not in tids[e1:]:     # a has nothing left after its first block: y is irrelevant
                    break
                if b not in tids[e1 + e2:] and b not in r['unfinished']:
                    break                  # b finished with exactly y grants
            if a_done:
                break


# --------------------------------------------------------------------------------------------- cases
PAIR_OPS = [('g', 1), ('g', 4), ('g', 3), ('g', 9), ('c', 7), ('x', 1), ('A',), ('C',)]
# gets that, in the given state, behave exactly like ('g', 1) (cold: every existing row is a first-use miss; cully: rows 1
# and 4 are both strong hits): the quick tier keeps them only in the pair with ('g', 1) itself (two different ids)
DUPLICATE_GETS = {'cold': {('g', 4), ('g', 3)}, 'cully': {('g', 4)}}

# the known findings, replayed on every run (schedules found by experiment; effective grants only)
W_RT = dict(init=WARM, progs=[[('c', 7)], [('A',)]],          # 1: acquire, first next() | 0: whole create |
            sched=[1, 1, 0, 0, 0, 0, 0, 0, 0, 1, 1, 1],       # 1: weak.set, next() -> RuntimeError, release
            key=KEY_RT)
W_LOST = dict(init=WARM, progs=[[('c', 7)], [('A',)]],        # 1: up to the next() that ends the loop |
              sched=[1, 1, 1, 1, 1, 1, 0, 0, 0, 0, 0, 0, 0, 1, 1],   # 0: whole create | 1: self.cache = {}, release
              key=KEY_LOST)
W_TWO = dict(init=WARM, progs=[[('c', 7)], [('g', 7)]],       # 0: INSERT | 1: whole get(7) (miss, SELECT, put) |
             sched=[0, 1, 1, 1, 1, 1, 1, 1, 1, 1, 1, 1, 0, 0, 0, 0, 0, 0],   # 0: cache.created, SELECT
             key=KEY_TWO)
# the finer form of the lost entry: created() loads self.cache before expireAll rebinds it, stores after
W_LOST_ALIAS = dict(init=WARM, progs=[[('c', 7)], [('A',)]],
                    sched=[0, 0, 0, 0, 0] + [1] * 8 + [0, 0], key=KEY_LOST)
WITNESSES = (('W_RT', W_RT), ('W_LOST', W_LOST), ('W_TWO', W_TWO), ('W_LOST_ALIAS', W_LOST_ALIAS))
# the lock-free clear() races (unchanged tree): replayed only when their keys are open in known_findings.json
W_CLEAR = (
    ('W_CLEAR_HANG', dict(init=WARM, progs=[[('K',)], [('g', 3)]], sched=[0] + [1] * 8 + [0] * 3 + [1] * 30,
                          key=KEY_CLEAR_HANG)),
    ('W_CLEAR_EA', dict(init=WARM, progs=[[('K',)], [('A',)]], sched=[0, 1] + [0] * 3 + [1] * 20, key=KEY_CLEAR_EA)),
    ('W_CLEAR_CULL', dict(init=WARM, progs=[[('K',)], [('C',)]], sched=[0, 1, 1, 1] + [0] * 3 + [1] * 20,
                          key=KEY_CLEAR_CULL)),
)


def open_known_keys():
    try:
        path = os.path.join(os.path.dirname(os.path.dirname(os.path.abspath(__file__))), 'known_findings.json')
        return set(k['key'] for k in json.load(open(path))['findings']
                   if k.get('property') == PROP and k.get('status') == 'open')
    except Exception:
        return set()


CORPUS_DIR = os.path.join(os.path.dirname(os.path.dirname(os.path.abspath(__file__))), 'corpus', 'C09')


def as_ops(progs):
    return [[tuple(op) for op in p] for p in progs]


def case_dict(init, progs, sched):
    """JSON-serialisable description of one case"""
    return {'init': dict(init), 'progs': [[list(op) for op in p] for p in progs], 'sched': list(sched)}


def op_kind(init, op, created):
    k = op[0]
    if k == 'g':
        i = op[1]
        if i in init['strong']:
            return 'g-hit'
        if not init.get('dc', True) and i in init['weak'] and i in pinned_ids(init):
            return 'g-nchit'
        if i in init['weak']:
            return 'g-weak' if i in pinned_ids(init) else 'g-dead'
        if i in created:
            return 'g-new'
        return 'g-miss' if i in init['db'] else 'g-nf'
    return {'c': 'c', 'ca': 'c-auto', 'x': 'x', 'A': 'A', 'C': 'C', 't': 'tryGet', 'K': 'clear', 'Kc': 'clear-cls'}[k]


def case_kind(init, progs):
    tag = init_tag(init)
    if len(progs) == 2 and all(len(p) == 1 for p in progs):
        created = set(op[1] for p in progs for op in p if op[0] == 'c')
        return '%s:%s' % (tag, '|'.join(op_kind(init, p[0], created) for p in progs))
    return 'multi:%s:%s' % (tag, ''.join(sorted(set(op[0] for p in progs for op in p))))


def load_corpus():
    out = []
    if not os.path.isdir(CORPUS_DIR):
        return out
    for fn in sorted(os.listdir(CORPUS_DIR)):
        if fn.endswith('.json'):
            with open(os.path.join(CORPUS_DIR, fn)) as f:
                c = json.load(f)
            out.append((fn, c['init'], as_ops(c['progs']), list(c['sched'])))
    return out


def random_case(rng):
    """3 threads, 1-3 ops each; creates use globally fresh ids; sometimes another thread gets a created id"""
    init = rng.choice([WARM, COLD, CULLY, WARMU, CULLYU, NOCACHE, NOCACHE_COLD])
    if init['caches'] and rng.random() < 0.5:
        init = dict(init, pins=[i for i in cached_ids(init) if rng.random() < 0.5])
    fresh = itertools.chain([7, 8], itertools.count(10))     # 9 is the row that never exists
    progs = []
    for _ in range(3):
        p = []
        for _ in range(rng.randint(1, 3)):
            k = rng.choice(['g', 'g', 'g', 'g', 'c', 'ca', 'x', 'A', 'C', 't'])
            if k == 'g':
                p.append(('g', rng.choice([1, 2, 3, 4, 9])))
            elif k == 'x':
                p.append(('x', rng.choice([1, 2, 3])))
            elif k == 't':
                p.append(('t', rng.choice([1, 2, 3, 4])))
            elif k == 'c':
                p.append(('c', next(fresh)))
            else:
                p.append((k,))
        progs.append(p)
    if any(op[0] == 'ca' for p in progs for op in p):
        # explicit and database-chosen ids in one run: keep the explicit ones far away from max(id)+1
        progs = [[(('c', op[1] + 40) if op[0] == 'c' else op) for op in p] for p in progs]
    for t in range(3):
        for op in list(progs[t]):
            if op[0] == 'c' and rng.random() < 0.15:        # the create-vs-get race
                u = rng.choice([v for v in range(3) if v != t])
                g = ('g', op[1])
                if len(progs[u]) < 3:
                    progs[u].insert(rng.randint(0, len(progs[u])), g)
                else:
                    slots = [k for k, o in enumerate(progs[u]) if o[0] != 'c']
                    if slots:
                        progs[u][rng.choice(slots)] = g
    sched = [rng.randint(0, 2) for _ in range(60)]
    if rng.random() < 0.25:                   # the threads work on two or three classes of the connection
        init = dict(init, tcls=[rng.randint(0, 2) for _ in range(3)])
    return init, progs, sched


class Runner:
    """runs cases on the real code, applies the oracle, and compares with the model in batches"""
    BATCH = 2000

    def __init__(self, ctx):
        self.ctx = ctx
        self.pending = []          # (case, canonical real outcome, request line, number of pinned objects)
        self.reported = set()      # oracle keys already passed on
        self.n = 0

    def one(self, init, progs, sched, origin=None):
        """-> (raw result, oracle failures) or (None, None) when the harness itself failed"""
        ctx = self.ctx
        case = case_dict(init, progs, sched)
        if 'conn' not in init:                     # rotate through the ways of configuring the connection
            init = dict(init, conn=self.n % len(CONN_VARIANTS))
            self.n += 1
            case = case_dict(init, progs, sched)
        try:
            r = run_real(init, progs, sched)
            fails = oracle_all(init, progs, r)
            parts = []
            in_model = not any(op[0] in ('t', 'K', 'Kc') for p in progs for op in p)
            for k in range(len(r['classes']) if in_model else 0):
                if k not in r['tcls']:
                    continue               # no thread works on this class
                init_k, sub, sched_k, r_k = project(init, progs, sched, r, k)
                parts.append((canon_real(r_k), model_line(init_k, sub, sched_k), pin_objs(init_k)))
            cr = parts[0][0] if parts else canon_real(r)
        except Exception as ex:          # not expected: the real code's exceptions are outcomes inside run_real
            key = 'C09:harness-exception:' + type(ex).__name__
            if key not in self.reported:
                self.reported.add(key)
                ctx.oracle_fail(key, 'the harness failed on %s in state %s: %r' % (progs_str(progs), init_tag(init), ex), case)
            return None, None
        ctx.case((init_tag(init), progs_str(progs), tuple(r['trace'])), nontrivial=has_preemption(r),
                 sample={'state': init_tag(init), 'progs': progs_str(progs), 'trace': cr['tr'], 'outs': cr['outs'],
                         'strong': cr['strong'], 'weak': cr['weak']},
                 kind=case_kind(init, progs))
        for key, what in fails:
            if key not in self.reported:
                self.reported.add(key)
                ctx.oracle_fail(key, what, case)
        for cr_k, line_k, pins_k in parts:
            self.pending.append((case, cr_k, line_k, pins_k))
        if len(self.pending) >= self.BATCH:
            self.flush()
        return r, fails

    def flush(self):
        ctx = self.ctx
        pending, self.pending = self.pending, []
        if not pending:
            return
        answers = ctx.model([p[2] for p in pending])
        if answers is None:
            return
        for (case, cr, line, npinned), ans in zip(pending, answers):
            try:
                cm = canon_model(ans, npinned)
            except Exception:
                cm = dict((k, 'unreadable answer: ' + ans[:200]) for k in ('outs', 'lock', 'strong', 'weak', 'unfinished',
                                                                          'cc', 'off', 'tr'))
            state = ('outs', 'lock', 'strong', 'weak', 'unfinished')
            ctx.compare('outcomes+final state: model = real cache.py', case,
                        ' '.join('%s=%s' % (k, cm[k]) for k in state), ' '.join('%s=%s' % (k, cr[k]) for k in state))
            ctx.compare('access trace: model = real cache.py', case, cm['tr'], cr['tr'])
            ctx.compare('cull counters: model = real', case, 'cc=%s off=%s' % (cm['cc'], cm['off']),
                        'cc=%s off=%s' % (cr['cc'], cr['off']))
            # the TRANSLATED system (small-step semantics of the programs extracted from cache.py on this run,
            # interleaved by Model/ConcX.lean), run by the same driver on the same schedule
            try:
                cx = canon_model(ans, npinned, prefix='x')
                cx['tr']
            except Exception:
                cx = dict((k, 'unreadable answer: ' + ans[:200]) for k in ('outs', 'lock', 'strong', 'weak', 'unfinished',
                                                                          'cc', 'off', 'tr'))
            ctx.compare('access trace: translated small-step system = real cache.py', case, cx['tr'], cr['tr'])
            ctx.compare('outcomes+final state+cull counters: translated small-step system = real cache.py', case,
                        ' '.join('%s=%s' % (k, cx[k]) for k in state + ('cc', 'off')),
                        ' '.join('%s=%s' % (k, cr[k]) for k in state + ('cc', 'off')))


def run(ctx):
    env()
    run_ = Runner(ctx)
    thorough = ctx.tier == 'thorough' or ctx.deep

    # 1. corpus
    try:
        corpus = load_corpus()
    except Exception as ex:
        corpus = []
        ctx.note('corpus/C09 unreadable: %r' % (ex,))
    for fn, init, progs, sched in corpus:
        run_.one(init, progs, sched)

    # 2. the known findings, replayed
    listed = open_known_keys()
    for name, w in WITNESSES + tuple(x for x in W_CLEAR if x[1]['key'] in listed):
        r, fails = run_.one(w['init'], w['progs'], w['sched'])
        if r is not None and w['key'] not in [k for k, _ in fails]:
            ctx.note('witness %s (%s, schedule %s) no longer reproduces %s on the real code: outcome %s'
                     % (name, progs_str(w['progs']), ','.join(map(str, w['sched'])), w['key'], canon_real(r)['outs']))

    # 3. every schedule with <= 2 preemptions of 2 threads, all ordered op pairs, 3 initial states
    #    (the enumeration takes both orders of the two threads, so [[A],[B]] and [[B],[A]] are the same schedules up
    #    to the names of the threads: the quick tier runs the 36 unordered pairs, thorough/deep all 64 ordered ones)
    cap = 40 if thorough else 25          # no single operation has more than ~25 steps
    for tag, init in INITS:
        for ia, op_a in enumerate(PAIR_OPS):
            for ib, op_b in enumerate(PAIR_OPS):
                if not thorough and ib < ia:
                    continue
                if tag == 'warmu' and not thorough and not ({op_a, op_b} & {('A',), ('C',), ('g', 3), ('x', 1)}):
                    continue          # the unreferenced instances only matter to the ops that move / probe them
                if tag == 'nocache' and (('C',) in (op_a, op_b)):
                    continue          # cull() is unreachable with doCache=False
                if not thorough and tag in DUPLICATE_GETS and ({op_a, op_b} & DUPLICATE_GETS[tag]) \
                        and {op_a, op_b} != {('g', 1), ('g', 4)}:
                    continue          # in this state the op is the same KIND of get as ('g', 1): keep it only against it
                progs = [[op_a], [op_b]]
                if op_a[0] == 'c' and op_b[0] == 'c':
                    progs = [[op_a], [('c', 8)]]          # two creates never share an id
                two_thread_schedules(lambda sched: run_.one(init, progs, sched)[0], cap)

    # 3b. the database chooses the ids: two creates (and a create against the other operations) on the shared raw
    #     connection, every statement a scheduling point
    for init in (WARM, COLD, NOCACHE):
        for other in (('ca',), ('c', 47), ('g', 1), ('g', 5), ('g', 9), ('A',)):
            if init is not WARM and not thorough and other not in (('ca',), ('g', 5)):
                continue
            two_thread_schedules(lambda sched: run_.one(init, [[('ca',)], [other]], sched)[0], cap)

    # 3c. two threads, each the FIRST user of a different class on the connection (the classes share the CacheSet and
    #     nothing else), overlapping ids
    for init in (COLD, NOCACHE_COLD, WARM):
        for n, (op_a, op_b) in enumerate(((('g', 1), ('g', 1)), (('g', 1), ('c', 7)), (('c', 7), ('c', 7)),
                                          (('g', 1), ('g', 9)), (('ca',), ('ca',)), (('g', 1), ('x', 1)),
                                          (('g', 1), ('A',)))):
            if not thorough and n >= (5 if init is COLD else 2):
                continue
            two_thread_schedules(
                lambda sched: run_.one(dict(init, tcls=[0, 1]), [[op_a], [op_b]], sched)[0], cap)

    # 3d. entry points outside the model's alphabet that reach the same machinery (oracle only): the lock-free tryGet
    #     (Transaction.commit, unpickling) against every operation that moves the entry it looks at, and
    #     connection.cache.clear() / clear(cls) against loads and creates in progress
    for init in (WARM, WARMU):
        for i in (1, 3, 4):
            for other in (('g', i), ('t', i), ('x', i), ('A',), ('C',), ('c', 7)):
                if not thorough and init is WARM and other[0] in ('x', 'c', 't'):
                    continue
                two_thread_schedules(lambda sched: run_.one(init, [[('t', i)], [other]], sched)[0], cap)
    for init in (WARM, COLD):
        for kop in (('K',), ('Kc',)):
            for other in (('g', 4), ('g', 1), ('g', 9), ('c', 7)):
                if not thorough and kop == ('Kc',) and other != ('g', 4):
                    continue
                two_thread_schedules(lambda sched: run_.one(init, [[kop], [other]], sched)[0], cap)
    for sched in ([1] * 10 + [2] * 6 + [0] * 4, [1] * 9 + [0] * 4 + [2] * 8):
        run_.one(WARM, [[('K',)], [('g', 4)], [('g', 4)]], sched)

    # 4. random: 3 threads, random schedules
    for _ in range(ctx.budget(1200, 40000)):
        init, progs, sched = random_case(ctx.rng)
        run_.one(init, progs, sched)
    run_.flush()


def replay(case):
    env()
    init, progs, sched = case['init'], as_ops(case['progs']), list(case['sched'])
    r = run_real(init, progs, sched)
    fails = oracle_all(init, progs, r)
    text = ['state %s, programs %s, schedule %s, connection configured by %r'
            % (init_tag(init), progs_str(progs), ','.join(map(str, sched)) or '-',
               CONN_VARIANTS[init.get('conn', 0) % len(CONN_VARIANTS)] or 'python booleans')]
    for k in range(len(r['classes'])):
        cr = canon_real(project(init, progs, sched, r, k)[3])
        text += ['real code, class %d (threads %s):' % (k, [t for t, c in enumerate(r['tcls']) if c == k])] + \
                ['  %-10s %s' % (key, cr[key]) for key in ('outs', 'lock', 'strong', 'weak', 'unfinished', 'cc', 'off', 'tr')]
    text.append('oracle: ' + ('all five clauses hold' if not fails else '%d failure(s)' % len(fails)))
    for key, what in fails:
        text.append('  %s: %s' % (key, what))
    return not fails, '\n'.join(text)


META['level_text'] = (
    'Lean theorems over the interleaving model Conc (atomic action = one shared access; both doCache modes; weak '
    'references die with the last strong reference; every dict access names the dict object it uses - the current one or '
    'an abandoned one still aliased after `self.cache = {}`), for EVERY schedule (List Tid), any number of threads, any programs '
    'over get/create/expire/expireAll/cull, any cull parameters, any set of instances pinned by the environment. FULL: '
    'C09_conc_inv (lock held exactly by the thread between a miss and finishPut / inside expire, expireAll, cull; dict keys '
    'unique; every key the holder is about to read/del is present, so no KeyError and no release of a free lock), '
    'C09_lock_free_at_quiescence, C09_progress (no deadlock), C09_cullcount_benign. PARTIAL under SafeProgs = no create '
    'anywhere (either mode), OR (doCache=True AND no expireAll anywhere AND created ids fresh: named by no other thread, '
    'created once, not yet a row) - decidable on a program list (SafeL, C09_safe_of_list): C09_one_object_per_id, '
    'C09_same_object, C09_same_object_as_initial, C09_referenced_reachable (thread results and pinned instances; '
    'unreferenced ones may die and their dead weak references are dropped), C09_no_exception_but_notfound, with per-key '
    'steps of the expireAll iteration and of cull (create vs cull is proved safe). FALSE-witnesses (decide on concrete '
    'schedules, replayed on the real cache.py every run): C09_*_full_FALSE (three) and tightness of the hypothesis: '
    'C09_referenced_reachable_needs_noExpireAll_FALSE, C09_no_exception_needs_noExpireAll_FALSE, '
    'C09_same_object_needs_fresh_FALSE, C09_no_exception_needs_new_row_FALSE. The model is tied to the code by running '
    'the same schedules on real threads (outcomes, final maps/lock, step-exact access trace).')
META['level_text'] += (
    ' TRANSLATED SYSTEM (ConcX): the threads run get/put/finishPut/created/expire/expireAll/cull AS TRANSLATED from cache.py on '
    'this run, under the small-step semantics PyCacheSS (one micro-step = one shared access or one silent statement; the lock is '
    'data); C09_translated_step_simulates: every Conc action of every one of the 45 pc kinds = one shared access of the '
    'translated program + <= 64 silent micro-steps, and blocked/finished coincide; C09_translated_schedule_simulates: for every '
    'schedule; hence C09_translated_conc_inv / _lock_free_at_quiescence / _progress / _one_object_per_id_partial / '
    '_same_object_partial / _no_exception_but_notfound_partial and the _full_FALSE witnesses hold of the translated system; '
    'C09_translated_smallstep_run_eq_bigstep: a thread running alone computes what the big-step reference semantics of C04 '
    'computes (all statement forms); C09_translated_one_access_per_statement (decide on the extracted programs). The translated '
    'system is also RUN by the driver on every explored schedule and its access trace / outcomes / final state compared with the '
    'real code (two more correspondence streams).')
META['level_note'] = ('Trusted: Lean kernel; the reference semantics of the embedding (Model/PyCache.lean big-step, '
                      'Model/PyCacheSS.lean small-step: which operations are scheduling points, reference counting) and the '
                      'caller layer of Model/ConcX.lean (SQLObject.get / _SO_finishCreate / CacheSet, guarded by '
                      'vlib/extractors/pycachesteps.py) - all compared step by step with the real cache.py/main.py on every explored '
                      'schedule; the translator vlib/extractors/pycache.py; the harness scheduler/instrumentation; CPython atomicity '
                      'of one builtin-dict operation.  The hand-written Model/Conc.lean is no longer trusted for the per-thread '
                      'programs: it is proved to move in lock step with the translated system.')
